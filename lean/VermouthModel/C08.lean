import VermouthModel.Proto
/-
C08 — model of `vermouth.log_helpers.ignore_warnings_and_count` and of the
`maxwarn` argument parser of `bin/martinize2`.

The counter `CountingHandler.counts[level][type]` is a list of entries in
insertion order; (level, type) pairs are distinct in anything dumped from the
real handler.  A specification list is what argparse collects: a list (one per
`-maxwarn` flag) of lists of `(type?, count?)`.
-/
namespace C08

structure Entry where
  level : Nat
  type  : String
  count : Nat
  deriving Repr, DecidableEq

abbrev Spec := Option String × Option Int

/-- `specs[warning_type] = max(specs.get(warning_type, 0), count)` on an association list. -/
def updLimit (specs : List (Option String × Int)) (t : Option String) (c : Int) : List (Option String × Int) :=
  match specs with
  | [] => [(t, max 0 c)]
  | (t', v) :: rest => if t' = t then (t', max v c) :: rest else (t', v) :: updLimit rest t c

def getLimit (specs : List (Option String × Int)) (t : Option String) : Option Int :=
  match specs with
  | [] => none
  | (t', v) :: rest => if t' = t then some v else getLimit rest t

/-- The two tables built by the first loop of the function: numeric limits and the
set of types waived by name (a `None` type with a `None` count is kept in the set as `none`). -/
def buildTables (specifications : List (List Spec)) : List (Option String × Int) × List (Option String) :=
  specifications.flatten.foldl
    (fun (acc : List (Option String × Int) × List (Option String)) (sp : Spec) =>
      match sp.2 with
      | none => (acc.1, sp.1 :: acc.2)
      | some c => (updLimit acc.1 sp.1 c, acc.2))
    ([], [])

/-- `number_of_counts_by(level=level)`: everything at or above `level`. -/
def totalAtOrAbove (counter : List Entry) (level : Nat) : Int :=
  ((counter.filter (fun e => level ≤ e.level)).map (fun e => (e.count : Int))).sum

/-- One iteration of the deduction loop; state = (total, blanket_ignore). -/
def deductStep (limits : List (Option String × Int)) (named : List (Option String))
    (st : Int × Int) (e : Entry) : Int × Int :=
  match getLimit limits (some e.type) with
  | some l => (st.1 - max 0 (min (e.count : Int) l), st.2)
  | none =>
    if named.contains (some e.type) then (st.1 - (e.count : Int), st.2)
    else (st.1 - min (e.count : Int) st.2, max 0 (st.2 - (e.count : Int)))

def leftover (counter : List Entry) (specifications : List (List Spec)) (level : Nat) : Int :=
  let tabs := buildTables specifications
  let blanket := (getLimit tabs.1 none).getD 0
  let warn := counter.filter (fun e => e.level = level)
  (warn.foldl (deductStep tabs.1 tabs.2) (totalAtOrAbove counter level, blanket)).1

/-! ### `maxwarn` parser -/

inductive ParseResult where
  | ok (s : Spec)
  | reject
  deriving Repr, DecidableEq

def isDigitChar (c : Char) : Bool := '0' ≤ c && c ≤ '9'

/-- Python's `int(str)` restricted to what can reach it here: optional surrounding
ASCII whitespace, optional sign, decimal digits with single underscores between digits.
The harness only sends ASCII. -/
def isWsChar (c : Char) : Bool :=
  c = ' ' || c = '\t' || c = '\n' || c = '\r' || c = '\x0b' || c = '\x0c'

def stripWs (cs : List Char) : List Char :=
  ((cs.dropWhile isWsChar).reverse.dropWhile isWsChar).reverse

def digitsVal (cs : List Char) : Nat :=
  cs.foldl (fun acc c => if isDigitChar c then acc * 10 + (c.toNat - '0'.toNat) else acc) 0

/-- digits with optional single underscores strictly between digits -/
def validDigits : List Char → Bool
  | [] => false
  | [c] => isDigitChar c
  | c :: '_' :: d :: rest => isDigitChar c && validDigits (d :: rest)
  | c :: d :: rest => isDigitChar c && validDigits (d :: rest)

def pyInt (s : List Char) : Option Int :=
  match stripWs s with
  | '-' :: ds => if validDigits ds then some (-(digitsVal ds : Int)) else none
  | '+' :: ds => if validDigits ds then some (digitsVal ds : Int) else none
  | ds => if validDigits ds then some (digitsVal ds : Int) else none

/-- Python's `str.split(':')`. -/
def splitColon : List Char → List (List Char)
  | [] => [[]]
  | c :: rest =>
    if c = ':' then [] :: splitColon rest
    else match splitColon rest with
      | p :: ps => (c :: p) :: ps
      | [] => [[c]]

def parseMaxwarn (value : List Char) : ParseResult :=
  match splitColon value with
  | [_] =>
    match pyInt value with
    | some c => .ok (none, some c)
    | none => .ok (some (String.ofList value), none)
  | [t, c] =>
    match pyInt c with
    | some n => .ok (some (String.ofList t), some n)
    | none => .reject
  | _ => .reject

end C08
