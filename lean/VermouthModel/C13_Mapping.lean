import VermouthModel.C13_Reader
/-
C13 — model of the new-style `.mapping` reader: `vermouth.map_parser.MappingDirector` +
`MappingBuilder` + `Mapping.__init__`, driven by the base `SectionLineParser` dispatcher
(`mapRun` of `C13.lean`), and `vermouth.map_input.read_mapping_file`.

The force-field library is an INPUT (`Lib`): per force field its blocks and modifications as node
lists (key, scalar attributes) in node order plus edges, the name of the force field the block
object belongs to and its `nrexcl`.  What is relied upon of `vermouth.molecule` is transcribed:
`Block.to_molecule(default_attributes={})`, `Molecule.merge_molecule`, `find_atoms` /
`attributes_match` (with `Choice`), `add_node`, `add_edge`, `Molecule.copy` + `remove_nodes_from`.
The interactions of the fetched blocks (renumbered by `to_molecule` / `merge_molecule`, filtered by
`Mapping.__init__`), the citation sets, the attributes of edges (of fetched blocks and of
`[ from/to edges ]` lines, merged as `networkx.Graph.add_edge` does) and non-scalar node attributes
(as canonical text) are carried along; the parameters and meta of an interaction are an opaque payload
(the reader never looks at them).  Log entries are not modelled.
`none` = the real reader raises (any exception).
-/
namespace C13.Mapping
open Proto

/-! ### the library -/

inductive Dir where
  | frm | to
  deriving Repr, DecidableEq, Inhabited

def Dir.str : Dir → String
  | .frm => "from"
  | .to => "to"

/-- an interaction of a library block: section, atoms (node keys) and an opaque payload
(parameters + meta as canonical text) -/
structure LInter where
  sect : String
  atoms : List String
  payload : String
  deriving Repr, Inhabited, DecidableEq

/-- a `Block` / `Modification` of a force field -/
structure LBlock where
  name : String
  /-- `block.force_field.name` -/
  ff : Option String
  nrexcl : Option Int
  nodes : List (String × Attrs)
  edges : List (String × String × Attrs)
  /-- in the iteration order of `block.interactions` (type by type) -/
  inters : List LInter := []
  /-- `block.citations` (a set; sent sorted) -/
  citations : List String := ["vermouth"]
  deriving Repr, Inhabited

structure LFF where
  name : String
  blocks : List LBlock
  mods : List LBlock
  deriving Repr, Inhabited

abbrev Lib := List LFF

def findBlock (l : List LBlock) (n : String) : Option LBlock := l.find? (fun b => b.name = n)
def findFF (lib : Lib) (n : String) : Option LFF := lib.find? (fun f => f.name = n)

/-! ### dictionaries -/

def dget {K V : Type} [DecidableEq K] : List (K × V) → K → Option V
  | [], _ => none
  | (k', v) :: r, k => if k' = k then some v else dget r k

abbrev WMap := List (Nat × List (Nat × Int))

/-- `mapping[i][j] = w` on a `defaultdict(dict)` -/
def setW (m : WMap) (i j : Nat) (w : Int) : WMap :=
  dictSet m i (dictSet ((dget m i).getD []) j w)

def getW (m : WMap) (i j : Nat) : Option Int := (dget m i).bind (dget · j)

/-! ### molecules -/

/-- `blocks_from` / `blocks_to`: a `Block()` or the `Molecule` made by `to_molecule` -/
structure MInter where
  atoms : List Nat
  payload : String
  deriving Repr, Inhabited, DecidableEq

structure Mol where
  ff : Option String := none
  nrexcl : Option Int := none
  nodes : List (Nat × Attrs) := []
  /-- `(u, v)` as first added, with the attribute dictionary of the edge -/
  edges : List ((Nat × Nat) × Attrs) := []
  /-- `interactions`: a `defaultdict(list)`, types in insertion order -/
  inters : List (String × List MInter) := []
  /-- `citations` (a set); `Molecule.__init__` starts it as `{'vermouth'}` -/
  citations : List String := ["vermouth"]
  deriving Repr, Inhabited

/-- `dict(a); .update(b)` -/
def updAttrs (a b : Attrs) : Attrs := b.foldl (fun acc kv => acc.set kv.1 kv.2) a

/-- `Graph.add_edge(u, v, **attrs)`: a new edge, or an update of the attributes of the existing one -/
def addEdge (es : List ((Nat × Nat) × Attrs)) (a b : Nat) (attrs : Attrs) : List ((Nat × Nat) × Attrs) :=
  if es.any (fun e => e.1 = (a, b) || e.1 = (b, a)) then
    es.map fun e => if e.1 = (a, b) || e.1 = (b, a) then (e.1, updAttrs e.2 attrs) else e
  else es ++ [((a, b), attrs)]

/-- `interactions[type].append(...)` on a `defaultdict(list)` -/
def addInter (d : List (String × List MInter)) (sect : String) (it : MInter) : List (String × List MInter) :=
  dictSet d sect (((d.find? (fun e => e.1 = sect)).map (·.2)).getD [] ++ [it])

/-- set union, kept as a list without duplicates -/
def unionCit (a b : List String) : List String := a ++ (b.filter fun x => !a.contains x).eraseDups

/-- `attrs.get(k, 1)` used as a summand: `none` = TypeError -/
def intAttr (a : Attrs) (k : String) : Option Int :=
  match a.get k with
  | none => some 1
  | some (.int i) => some i
  | some (.bool b) => some (if b then 1 else 0)
  | some _ => none

/-- `new_atom['resid'] = new_atom.get('resid', 1) + dr`; same for `charge_group` -/
def shiftAttrs (a : Attrs) (dr dc : Int) : Option Attrs := do
  let r ← intAttr a "resid"
  let c ← intAttr a "charge_group"
  pure ((a.set "resid" (.int (r + dr))).set "charge_group" (.int (c + dc)))

def enumFrom {α : Type} : Nat → List α → List (Nat × α)
  | _, [] => []
  | i, x :: r => (i, x) :: enumFrom (i + 1) r

/-- renumbered nodes (start index, offsets) and the key correspondence -/
def renumber (start : Nat) (dr dc : Int) (nodes : List (String × Attrs)) :
    Option (List (Nat × Attrs) × List (String × Nat)) := do
  let en := enumFrom start nodes
  let ns ← en.mapM fun (i, (_, a)) => (shiftAttrs a dr dc).map fun a' => (i, a')
  pure (ns, en.map fun (i, (k, _)) => (k, i))

def mapEdges (corr : List (String × Nat)) (skipLoops : Bool) (es : List (String × String × Attrs)) :
    Option (List ((Nat × Nat) × Attrs)) :=
  (es.filter fun e => !(skipLoops && e.1 = e.2.1)).mapM fun (a, b, at_) => do
    pure ((← dget corr a, ← dget corr b), at_)

def addEdges (es : List ((Nat × Nat) × Attrs)) (new : List ((Nat × Nat) × Attrs)) : List ((Nat × Nat) × Attrs) :=
  new.foldl (fun acc e => addEdge acc e.1.1 e.1.2 e.2) es

/-- the interactions of a block with their atoms renumbered (`name_to_idx[atom]` / `correspondence[atom]`:
KeyError for an atom that is not a node) added to `d` -/
def mapInters (corr : List (String × Nat)) (d : List (String × List MInter)) (its : List LInter) :
    Option (List (String × List MInter)) :=
  its.foldlM (fun acc it => do
    let atoms ← it.atoms.mapM (dget corr)
    pure (addInter acc it.sect { atoms := atoms, payload := it.payload })) d

/-- `Block.to_molecule(default_attributes={})` -/
def toMolecule (b : LBlock) : Option Mol := do
  let (ns, corr) ← renumber 0 0 0 b.nodes
  let its ← mapInters corr [] b.inters
  let es ← mapEdges corr false b.edges
  pure { ff := b.ff, nrexcl := b.nrexcl, nodes := ns, edges := addEdges [] es, inters := its,
         citations := b.citations.eraseDups }

def maxKey (nodes : List (Nat × Attrs)) : Nat := nodes.foldl (fun acc n => max acc n.1) 0

/-- `Molecule.merge_molecule(block)` -/
def mergeMol (m : Mol) (b : LBlock) : Option Mol :=
  if m.ff != b.ff then none
  else if m.nrexcl != b.nrexcl then none
  else if m.nodes.isEmpty then do
    let (ns, corr) ← renumber 1 0 0 b.nodes
    let its ← mapInters corr m.inters b.inters
    let es ← mapEdges corr true b.edges
    pure { m with nodes := ns, edges := addEdges m.edges es, inters := its,
                  citations := unionCit m.citations b.citations }
  else do
    let last := maxKey m.nodes
    let la := (dget m.nodes last).getD []
    let dr ← intAttr la "resid"
    let dc ← intAttr la "charge_group"
    let (ns, corr) ← renumber (last + 1) dr dc b.nodes
    let its ← mapInters corr m.inters b.inters
    let es ← mapEdges corr true b.edges
    pure { m with nodes := m.nodes ++ ns, edges := addEdges m.edges es, inters := its,
                  citations := unionCit m.citations b.citations }

/-- `MappingBuilder._add_block` -/
def addBlock (m : Mol) (b : LBlock) : Option Mol :=
  if m.nodes.isEmpty then toMolecule b else mergeMol m b

/-- `MappingBuilder.add_node_from/to` -/
def addNode (m : Mol) (a : Attrs) : Mol :=
  if m.nodes.isEmpty then { nodes := [(0, a)] }
  else { m with nodes := m.nodes ++ [(maxKey m.nodes + 1, a)] }

/-- python `==` on attribute values -/
def jvEq : JVal → JVal → Bool
  | .int i, .int j => i == j
  | .int i, .bool b => i == (if b then 1 else 0)
  | .bool b, .int i => i == (if b then 1 else 0)
  | .bool a, .bool b => a == b
  | .str a, .str b => a == b
  | .null, .null => true
  | .other a, .other b => a == b
  | .choice a, .choice b => a == b
  | .notP a, .notP b => a == b
  | _, _ => false

/-- one attribute of `attributes_match`: equality, or `Choice.match` -/
def valMatch (nodeVal : Option JVal) (v : JVal) : Bool :=
  if jvEq (nodeVal.getD .null) v then true
  else match v with
    | .choice l => match nodeVal with
      | some (.str s) => l.contains s
      | _ => false
    | _ => false

def attrsMatch (node tmpl : Attrs) : Bool := tmpl.all fun kv => valMatch (node.get kv.1) kv.2

/-- `list(mol.find_atoms(**tmpl))` -/
def findAtoms (m : Mol) (tmpl : Attrs) : List Nat :=
  (m.nodes.filter fun n => attrsMatch n.2 tmpl).map (·.1)

/-! ### the context of one mapping (director + builder state; all of it is reset at emission) -/

structure MCtx where
  ffFrom : Option String := none
  ffTo : Option String := none
  ids : List ((Dir × String) × Attrs) := []
  curFrom : Option Attrs := none
  curTo : Option Attrs := none
  molFrom : Mol := {}
  molTo : Mol := {}
  names : List String := []
  mapping : WMap := []
  refs : List (Nat × Nat) := []
  deriving Repr, Inhabited

def MCtx.ff (c : MCtx) : Dir → Option String
  | .frm => c.ffFrom
  | .to => c.ffTo
def MCtx.cur (c : MCtx) : Dir → Option Attrs
  | .frm => c.curFrom
  | .to => c.curTo
def MCtx.mol (c : MCtx) : Dir → Mol
  | .frm => c.molFrom
  | .to => c.molTo
def MCtx.setCur (c : MCtx) (d : Dir) (a : Option Attrs) : MCtx :=
  match d with
  | .frm => { c with curFrom := a }
  | .to => { c with curTo := a }
def MCtx.setMol (c : MCtx) (d : Dir) (m : Mol) : MCtx :=
  match d with
  | .frm => { c with molFrom := m }
  | .to => { c with molTo := m }

/-- `_resolve_atom_spec(atom_str, prefix)`: the attributes and the new `_current_id[prefix]` -/
def resolve (ids : List ((Dir × String) × Attrs)) (cur : Option Attrs) (d : Dir) (atom : String) :
    Option (Attrs × Option Attrs) := do
  let (id?, name) ←
    if atom.toList.contains ':' then
      match atom.splitOn ":" with
      | [i, n] => some (some i, n)
      | _ => none
    else some (none, atom)
  let id? := match id? with
    | some i => some i
    | none => match ids.filter (fun e => e.1.1 = d) with
      | [e] => some e.1.2
      | _ => none
  match id? with
  | none => cur.map fun (a : Attrs) => (a.set "atomname" (.str name), cur)
  | some i => (dget ids (d, i)).map fun (a : Attrs) => (a.set "atomname" (.str name), some a)

/-- `_ff` -/
def ffLine (d : Dir) (line : String) (c : MCtx) : Option MCtx :=
  match d with
  | .frm => some { c with ffFrom := some line }
  | .to => some { c with ffTo := some line }

def endsWithBrace (t : String) : Bool := t.toList.getLast? = some '}'

/-- `_parse_block_shorthand` -/
def shorthandTok (tok : String) : Option (String × Option Int) :=
  if tok.toList.contains '#' then
    match tok.splitOn "#" with
    | [rn, rs] => (pyInt? rs).map fun i => (rn, some i)
    | _ => none
  else some (tok, none)

def stripBang (s : String) : String × Bool :=
  match s.toList with
  | '!' :: r => (String.ofList r, true)
  | _ => (s, false)

def shorthand : Int → List String → Option (List (String × Attrs))
  | _, [] => some []
  | resid, tok :: rest => do
    let (rn, found) ← shorthandTok tok
    let resid' := match found with | some r => r | none => resid + 1
    let r ← shorthand resid' rest
    pure ((tok, [("resname", JVal.str (stripBang rn).1), ("resid", JVal.int resid')]) :: r)

/-- `_parse_blocks` -/
def parseBlocks (line : String) : Option (List (String × Attrs)) := do
  let toks ← tokenizeS line
  match toks with
  | [t0, t1] =>
    if startsWithBrace t1 && endsWithBrace t1 then (parseAttrs t1).map fun a => [(t0, a)]
    else shorthand 0 toks
  | _ => shorthand 0 toks

/-- `block.nodes[idx]['modifications'] = [block]` -/
def markMod (b : LBlock) : LBlock :=
  { b with nodes := b.nodes.map fun (k, a) => (k, a.set "modifications" (.other ("[" ++ b.name ++ "]"))) }

def Attrs.erase (a : Attrs) (k : String) : Attrs := a.filter fun kv => kv.1 ≠ k

/-- what `_blocks` looks up for one block: the value of `attrs['resname']`, unless the identifier
starts with `!` or the value is absent / `None` -/
def fetchName (noFetch : Bool) (attrs : Attrs) : Option JVal :=
  if noFetch then none else
    match attrs.get "resname" with
    | some .null => none
    | x => x

/-- `getattr(self.force_fields[self.ff[direction]], map_type + 's')[resname]` added to the blocks of
direction `d`; `none` = KeyError / TypeError / ValueError -/
def fetchMol (lib : Lib) (d : Dir) (mtype : String) (c : MCtx) (v : JVal) : Option Mol := do
  let ffn ← c.ff d
  let ff ← findFF lib ffn
  let coll ← if mtype = "block" then some ff.blocks else if mtype = "modification" then some ff.mods else none
  let rn ← match v with | .str s => some s | _ => none
  let blk ← findBlock coll rn
  addBlock (c.mol d) (if mtype = "modification" then markMod blk else blk)

/-- the end of the loop body of `_blocks`: `add_name`, `del attrs['resname']`, `identifiers[...] = attrs` -/
def register (d : Dir) (mtype : String) (c : MCtx) (spec : String × Attrs) : MCtx :=
  let ident := (stripBang spec.1).1
  let attrs' := if mtype = "modification" then Attrs.erase spec.2 "resname" else spec.2
  match d with
  | .frm =>
    let name := match spec.2.get "resname" with | some (.str s) => s | _ => ident
    { c with names := c.names ++ [name], ids := dictSet c.ids (d, ident) attrs' }
  | .to => { c with ids := dictSet c.ids (d, ident) attrs' }

/-- the body of the loop of `_blocks` -/
def blockStep (lib : Lib) (d : Dir) (mtype : String) (c : MCtx) (spec : String × Attrs) : Option MCtx :=
  match fetchName (stripBang spec.1).2 spec.2 with
  | none => some (register d mtype c spec)
  | some v =>
    match fetchMol lib d mtype c v with
    | none => none
    | some m => some (register d mtype (c.setMol d m) spec)

def foldOpt {α β : Type} (f : β → α → Option β) : β → List α → Option β
  | b, [] => some b
  | b, a :: r => match f b a with
    | none => none
    | some b' => foldOpt f b' r

/-- `_blocks` -/
def blocksLine (lib : Lib) (d : Dir) (mtype : String) (line : String) (c : MCtx) : Option MCtx :=
  match parseBlocks line with
  | none => none
  | some specs => foldOpt (blockStep lib d mtype) c specs

/-- the optional trailing attribute token of `_nodes` / `_edges` -/
def optAttrs : List String → Option Attrs
  | [] => some []
  | [t] => parseAttrs t
  | _ => none

/-- `_nodes` -/
def nodesLine (d : Dir) (line : String) (c : MCtx) : Option MCtx :=
  match tokenizeS line with
  | some (name :: rest) =>
    match resolve c.ids (c.cur d) d name, optAttrs rest with
    | some (a, cur'), some new =>
      some ((c.setCur d cur').setMol d (addNode (c.mol d) (attrsUpdate a new)))
    | _, _ => none
  | _ => none

/-- `_edges` -/
def edgesLine (d : Dir) (line : String) (c : MCtx) : Option MCtx :=
  match tokenizeS line with
  | some (at1 :: at2 :: rest) =>
    match resolve c.ids (c.cur d) d at1 with
    | none => none
    | some (a1, cur1) =>
      match resolve c.ids cur1 d at2, optAttrs rest with
      | some (a2, cur2), some eattrs =>
        match findAtoms (c.mol d) a1, findAtoms (c.mol d) a2 with
        | [n1], [n2] =>
          if n1 = n2 then none
          else some ((c.setCur d cur2).setMol d { c.mol d with edges := addEdge (c.mol d).edges n1 n2 eattrs })
        | _, _ => none
      | _, _ => none
  | _ => none

/-- the weight column of a `[ mapping ]` line: `int(weight[0])` if present, else 1 -/
def weightOf : List String → Option Int
  | [] => some 1
  | x :: _ => pyInt? x

/-- what a `[ mapping ]` line resolves to: (from node, to node, weight) and the new current
identifiers; `none` = the line raises -/
def mappingArgs (toks : List String) (c : MCtx) : Option (Nat × Nat × Int × Option Attrs × Option Attrs) :=
  match toks with
  | f :: t :: rest =>
    match weightOf rest, resolve c.ids c.curFrom .frm f, resolve c.ids c.curTo .to t with
    | some w, some (af, cf), some (ato, ct) =>
      match findAtoms c.molFrom af, findAtoms c.molTo ato with
      | [i], [j] => some (i, j, w, cf, ct)
      | _, _ => none
    | _, _, _ => none
  | _ => none

/-- `_mapping` + `add_mapping` on the whitespace-split line -/
def mappingToks (toks : List String) (c : MCtx) : Option MCtx :=
  (mappingArgs toks c).map fun a =>
    { c with curFrom := a.2.2.2.1, curTo := a.2.2.2.2, mapping := setW c.mapping a.1 a.2.1 a.2.2.1 }

def mappingLine (line : String) (c : MCtx) : Option MCtx := mappingToks (splitWs line) c

/-- the from nodes that map to `j`: `{from_ for from_ in mapping if node_to in mapping[from_]}` -/
def mappedTo (m : WMap) (j : Nat) : List Nat := (m.filter fun e => (dget e.2 j).isSome).map (·.1)

/-- `_reference_atoms` + `add_reference` -/
def refLine (line : String) (c : MCtx) : Option MCtx :=
  match splitWs line with
  | [t, f] =>
    match resolve c.ids c.curTo .to t, resolve c.ids c.curFrom .frm f with
    | some (ato, ct), some (af, cf) =>
      match findAtoms c.molTo ato with
      | [j] =>
        match (findAtoms c.molFrom af).filter (fun i => (mappedTo c.mapping j).contains i) with
        | [i] => some { c with curFrom := cf, curTo := ct, refs := dictSet c.refs j i }
        | _ => none
      | _ => none
    | _, _ => none
  | _ => none

/-! ### dispatch table (`MappingDirector.METH_DICT`: path, method, kwargs) -/

structure MEntry where
  path : Path
  method : String
  dir : Option Dir := none
  mtype : Option String := none
  deriving Repr, Inhabited

def kindEntries (k : String) : List MEntry :=
  [ { path := [k, "from"], method := "_ff", dir := some .frm },
    { path := [k, "from blocks"], method := "_blocks", dir := some .frm, mtype := some k },
    { path := [k, "from edges"], method := "_edges", dir := some .frm },
    { path := [k, "from nodes"], method := "_nodes", dir := some .frm },
    { path := [k, "mapping"], method := "_mapping" },
    { path := [k, "reference atoms"], method := "_reference_atoms" },
    { path := [k, "to"], method := "_ff", dir := some .to },
    { path := [k, "to blocks"], method := "_blocks", dir := some .to, mtype := some k },
    { path := [k, "to edges"], method := "_edges", dir := some .to },
    { path := [k, "to nodes"], method := "_nodes", dir := some .to } ]

def mapTable : List MEntry :=
  kindEntries "block" ++ [{ path := ["macros"], method := "_macros" }] ++
  kindEntries "modification" ++ [{ path := ["molecule"], method := "_molecule" }]

def mapT : List Path := mapTable.map (·.path)

def findEntry (p : Path) : Option MEntry := mapTable.find? (fun e => e.path = p)

/-- the registered method applied to one (macro-substituted) content line -/
def handle (lib : Lib) (p : Path) (line : String) (c : MCtx) : Option MCtx :=
  match findEntry p with
  | none => none
  | some e =>
    if e.method = "_mapping" then mappingLine line c
    else if e.method = "_reference_atoms" then refLine line c
    else if e.method = "_macros" then some c      -- definitions are handled by the pre-pass `expandMacros`
    else if e.method = "_molecule" then none      -- old-style backmapping file: IOError
    else match e.dir with
      | none => none
      | some d =>
        if e.method = "_ff" then ffLine d line c
        else if e.method = "_blocks" then blocksLine lib d (e.mtype.getD "") line c
        else if e.method = "_nodes" then nodesLine d line c
        else if e.method = "_edges" then edgesLine d line c
        else none

def mparams (lib : Lib) : MParams MCtx := { T := mapT, handle := handle lib, fresh := {} }

/-! ### emission: `MappingBuilder.get_mapping` + `Mapping.__init__` -/

structure Emitted where
  ffFrom : Option String
  ffTo : Option String
  type : String
  names : List String
  mapping : WMap
  refs : List (Nat × Nat)
  fromNodes : List (Nat × Attrs)
  fromEdges : List ((Nat × Nat) × Attrs)
  toNodes : List (Nat × Attrs)
  toEdges : List ((Nat × Nat) × Attrs)
  fromInters : List (String × List MInter) := []
  toInters : List (String × List MInter) := []
  fromCitations : List String := []
  toCitations : List String := []
  deriving Repr, Inhabited

def edgeLe (x y : Nat × Nat) : Bool := x.1 < y.1 || (x.1 == y.1 && x.2 ≤ y.2)

/-- edges as a canonical list of unordered pairs with their attributes (`addEdge` keeps them distinct) -/
def normEdges (es : List ((Nat × Nat) × Attrs)) : List ((Nat × Nat) × Attrs) :=
  (es.map fun ((a, b), at_) => ((if a ≤ b then (a, b) else (b, a)), at_)).mergeSort fun x y => edgeLe x.1 y.1

/-- `Molecule.subgraph` / `remove_nodes_from`: the interactions all of whose atoms are kept; a type
left without interactions disappears -/
def keepInters (keys : List Nat) (d : List (String × List MInter)) : List (String × List MInter) :=
  d.filterMap fun (t, l) =>
    let l' := l.filter fun it => it.atoms.all keys.contains
    if l'.isEmpty then none else some (t, l')

def sortStrs (l : List String) : List String := l.eraseDups.mergeSort fun a b => decide (a ≤ b)

/-- `Mapping.__init__`: the nodes of `block_from` that are not keys of `mapping` are removed -/
def emit (ty : String) (c : MCtx) : Emitted :=
  let keep := c.molFrom.nodes.filter fun n => (dget c.mapping n.1).isSome
  let keys := keep.map (·.1)
  { ffFrom := c.ffFrom, ffTo := c.ffTo, type := ty, names := c.names, mapping := c.mapping, refs := c.refs,
    fromNodes := keep,
    fromEdges := normEdges (c.molFrom.edges.filter fun e => keys.contains e.1.1 && keys.contains e.1.2),
    toNodes := c.molTo.nodes, toEdges := normEdges c.molTo.edges,
    fromInters := keepInters keys c.molFrom.inters, toInters := c.molTo.inters,
    fromCitations := sortStrs c.molFrom.citations, toCitations := sortStrs c.molTo.citations }

/-- the section path before line `j` (`self.section` when line `j` is read) -/
def secAt (T : List Path) (lines : List Line) (j : Nat) : Path :=
  (lines.take j).foldl (fun sec l => match l with
    | .header n => reducePath T sec n
    | .content _ => sec) []

/-- `map_type = previous_section[0]` at each emission: the k-th mapping is emitted at the line where
the (k+1)-th one starts (the last one where the final current mapping starts / at the end of file) -/
def emitAll (lines : List Line) (s : MSt MCtx) : List Emitted :=
  let idxs := (s.out.map (·.1)).drop 1 ++ [s.cur.1]
  (s.out.zip idxs).map fun (b, j) => emit ((secAt mapT lines j).head?.getD "") b.2

/-- the mappings yielded by `MappingDirector(force_fields).parse(lines)`, in emission order -/
def readMapping (lib : Lib) (raw : List String) : Option (List Emitted) := do
  let lines ← classify raw
  let lines' ← expandMacros mapT [] [] lines
  let s ← mapRun (mparams lib) lines'
  pure (emitAll lines' s)

abbrev Key := Option String × Option String × List String

/-- `read_mapping_file`: `out[ff_from][ff_to][names] = mapping` on nested insertion-ordered dicts;
the result lists, in iteration order, each key with the index of the emission that it holds -/
def collapse (es : List Emitted) : List (Key × Nat) :=
  let d := (enumFrom 0 es).foldl (fun (d : List (Option String × List (Option String × List (List String × Nat)))) (ie : Nat × Emitted) =>
    let inner := (dget d ie.2.ffFrom).getD []
    let inner2 := (dget inner ie.2.ffTo).getD []
    dictSet d ie.2.ffFrom (dictSet inner ie.2.ffTo (dictSet inner2 ie.2.names ie.1))) []
  d.flatMap fun (f, l1) => l1.flatMap fun (t, l2) => l2.map fun (n, i) => ((f, t, n), i)

/-! ### protocol -/

def strLe (a b : String) : Bool := decide (a ≤ b)

def reprJ : JVal → String
  | .int i => "i" ++ toString i
  | .str s => "s" ++ s
  | .bool b => if b then "b1" else "b0"
  | .null => "n"
  | .other r => "o" ++ r
  | .choice l => "c" ++ "|".intercalate l
  | .notP a => "p" ++ a

def encAttrs (a : Attrs) : String :=
  let sorted := a.mergeSort (fun x y => strLe x.1 y.1)
  encList (sorted.map fun kv => encList [encStr kv.1, encStr (reprJ kv.2)])

def encNodes (l : List (Nat × Attrs)) : String := encList (l.map fun n => encList [encNat n.1, encAttrs n.2])
def encPairs (l : List (Nat × Nat)) : String := encList (l.map fun e => encList [encNat e.1, encNat e.2])
def encEdges (l : List ((Nat × Nat) × Attrs)) : String :=
  encList (l.map fun e => encList [encNat e.1.1, encNat e.1.2, encAttrs e.2])
def encInters (d : List (String × List MInter)) : String :=
  encList (d.map fun (t, l) => encList [encStr t, encList (l.map fun it =>
    encList [encList (it.atoms.map encNat), encStr it.payload])])

def encEmitted (e : Emitted) : String :=
  encList [encOptStr e.ffFrom, encOptStr e.ffTo, encStr e.type, encList (e.names.map encStr),
    encList (e.mapping.map fun (i, l) => encList [encNat i, encList (l.map fun (j, w) => encList [encNat j, encInt w])]),
    encPairs e.refs, encNodes e.fromNodes, encEdges e.fromEdges, encNodes e.toNodes, encEdges e.toEdges,
    encInters e.fromInters, encInters e.toInters, encList (e.fromCitations.map encStr),
    encList (e.toCitations.map encStr)]

def encKey (k : Key × Nat) : String :=
  encList [encOptStr k.1.1, encOptStr k.1.2.1, encList (k.1.2.2.map encStr), encNat k.2]

def jvalOf (t : Tok) : Option JVal := do
  match ← t.list? with
  | [Tok.int 0, Tok.int i] => pure (.int i)
  | [Tok.int 1, Tok.str s] => pure (.str s)
  | [Tok.int 2, Tok.int b] => pure (.bool (b != 0))
  | [Tok.int 3] => pure .null
  | [Tok.int 4, Tok.str s] => pure (.other s)
  | [Tok.int 5, l] => do pure (.choice (← strs? l))
  | _ => none

def attrsOf (t : Tok) : Option Attrs := do
  (← t.list?).mapM fun e => do
    match ← e.list? with
    | [k, v] => pure (← k.str?, ← jvalOf v)
    | _ => none

/-- block := [ name ffname|- nrexcl|- [ [key attrs] ... ] [ [a b attrs] ... ] [ [sect [atoms] payload] ... ] [ citation ... ] ] -/
def blockOf (t : Tok) : Option LBlock := do
  match ← t.list? with
  | [n, f, x, ns, es, its, cits] =>
    let nodes ← (← ns.list?).mapM fun e => do
      match ← e.list? with
      | [k, a] => pure (← k.str?, ← attrsOf a)
      | _ => none
    let edges ← (← es.list?).mapM fun e => do
      match ← e.list? with
      | [a, b, at_] => pure (← a.str?, ← b.str?, ← attrsOf at_)
      | _ => none
    let inters ← (← its.list?).mapM fun e => do
      match ← e.list? with
      | [sct, atoms, pl] => pure ({ sect := ← sct.str?, atoms := ← strs? atoms, payload := ← pl.str? } : LInter)
      | _ => none
    pure { name := ← n.str?, ff := ← f.optStr?, nrexcl := ← x.optInt?, nodes := nodes, edges := edges,
           inters := inters, citations := ← strs? cits }
  | _ => none

/-- library := [ [ ffname [ block ... ] [ modification ... ] ] ... ] -/
def libOf (t : Tok) : Option Lib := do
  (← t.list?).mapM fun e => do
    match ← e.list? with
    | [n, bs, ms] => pure { name := ← n.str?, blocks := ← (← bs.list?).mapM blockOf, mods := ← (← ms.list?).mapM blockOf }
    | _ => none

def encEntry (e : MEntry) : String :=
  encList [encList (e.path.map encStr), encStr e.method, encOptStr (e.dir.map Dir.str), encOptStr e.mtype]

/-- driver operation `mapping <args...>`:
`mapping table` -> the dispatch table; `mapping read <library> <lines>` -> the mappings -/
def handleOp (args : List Tok) : Option String :=
  match args with
  | [Tok.str "table"] => some (encList (mapTable.map encEntry))
  | [Tok.str "read", lib, ls] => do
    let lib ← libOf lib
    let ls ← strs? ls
    match readMapping lib ls with
    | some es => pure (encList [encList (es.map encEmitted), encList ((collapse es).map encKey)])
    | none => pure "error"
  | _ => none

end C13.Mapping
