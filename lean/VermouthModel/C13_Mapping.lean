import VermouthModel.C13_Reader
/-
C13 — model of the new-style `.mapping` reader (`vermouth.map_parser.MappingDirector` +
`MappingBuilder`, `vermouth.map_input.read_mapping_file`).  Placeholder until written.
-/
namespace C13.Mapping
open Proto

/-- driver operation `mapping <args...>` -/
def handleOp (_args : List Tok) : Option String := none

end C13.Mapping
