import VermouthModel.C07
/-!
# C07 — which files a run of `bin/martinize2` writes

Transcription of the decisions in `entry()` (and in `write_gmx_topology`, `run_dssp`, `GenerateContactMap`) about
WHICH files are written, in the order in which they are opened:

* directly, with the builtin `open`, at the moment the step is reached (never through the deferred writer):
  the debug dumps `-write-graph`, `-write-repair`, `-write-canon` (`pdb_to_universal`, `defer_writing=False`),
  and — known finding F-C07-2 — the input files `dssp_in_*.pdb` made for DSSP/MDTraj with `tempfile.mkstemp`
  in the working directory, which are removed again unless the log level is DEBUG or lower (`-v`);
* through the deferred writer, all with mode `'w'`:
  the DSSP output `chain_<chains>.ssd` per call of `run_dssp` (`savedir='.'`; only with an executable),
  the contact map (`-go` without a file and `-go-write-file`),
  and, if `-o` is given, `write_gmx_topology`: the `[ atomtypes ]` and `[ nonbond_params ]` include files (names chosen
  by `entry`: Go names when a Go map exists, virtual-site names with `-water-bias` alone), one `<moltype>.itp` per
  distinct molecule type in the current directory, the `.top` file; finally the structure `str(args.outpath)`
  (always PDB text whatever the extension; the file is called `None` when `-x` is not given).

`Names` are the string constants of the code, re-extracted from the sources on every run
(`Generated/C07Names.lean`).  `Facts` is what the pipeline computed from the input and the model does not
(number of molecules and their `share_moltype_with` classes, whether topology parameters exist, the chains of
the molecules given to DSSP, the names `mkstemp` handed out).
-/
namespace C07

structure Names where
  goAtomtypes : String
  goNonbond : String
  vsAtomtypes : String
  vsNonbond : String
  goWriteConst : String      -- `const=` of `-go-write-file`
  defaultMolname : String    -- `default=` of `-name`
  itpSuffix : String         -- `"{}.itp".format(moltype)`
  ssdPrefix : String         -- `'chain_{}.ssd'`
  ssdSuffix : String
  noOutpath : String         -- `str(None)`
  deriving Repr, Inhabited

/-- `args.go`: absent, the bare flag (`True`: contacts are computed), or a contact map file -/
inductive GoOpt where
  | off | internal | file
  deriving DecidableEq, Repr, Inhabited

/-- `args.dssp`: absent, the bare flag (MDTraj if importable, else the executable `dssp`), or an executable -/
inductive DsspOpt where
  | off | flag | exe
  deriving DecidableEq, Repr, Inhabited

/-- `-go-write-file`: absent (`False`), the bare flag (the `const` name), or a name -/
inductive GoWrite where
  | off | const | named (p : Path)
  deriving DecidableEq, Repr, Inhabited

structure Options where
  outpath : Option Path        -- `-x`
  topPath : Option Path        -- `-o`
  molname : Option String      -- `-name`
  sep : Bool                   -- `-sep`
  go : GoOpt
  goWrite : GoWrite
  waterBias : Bool
  dssp : DsspOpt
  haveMdtraj : Bool            -- `HAVE_MDTRAJ` of vermouth.dssp.dssp
  verbosity : Nat              -- number of `-v`
  writeGraph : Option Path
  writeRepair : Option Path
  writeCanon : Option Path
  deriving Repr, Inhabited

structure Facts where
  /-- for each molecule reaching `NameMolType`, the number of the first molecule type it shares -/
  molClass : List Nat
  hasAtomtypes : Bool          -- `"atomtypes" in system.gmx_topology_params`
  hasNonbond : Bool            -- `"nonbond_params" in system.gmx_topology_params`
  /-- per call of `run_dssp` / `run_mdtraj`: the distinct chains of the molecules of the system given to it -/
  dsspChains : List (List String)
  /-- the names handed out by `mkstemp(prefix='dssp_in_', dir='.')`, one per call -/
  dsspTmp : List Path
  deriving Repr, Inhabited

/-! ## names -/

def molnameOf (N : Names) (o : Options) : String := o.molname.getD N.defaultMolname

/-- `meta['moltype']` of the molecules when the topology is written: the Go pipeline merges everything into one
molecule called `molname`; otherwise `NameMolType` gives `molname_<i>` (`i` = own index with `-sep`, class without) -/
def moltypes (N : Names) (o : Options) (f : Facts) : List String :=
  if o.go ≠ .off then [molnameOf N o]
  else if o.sep then (List.range f.molClass.length).map (fun i => molnameOf N o ++ "_" ++ toString i)
  else f.molClass.map (fun i => molnameOf N o ++ "_" ++ toString i)

/-- `",".join(...)` -/
def joinComma : List String → String
  | [] => ""
  | [a] => a
  | a :: b :: t => a ++ "," ++ joinComma (b :: t)

/-- insertion into a sorted list without duplicates -/
def insertChain (a : String) : List String → List String
  | [] => [a]
  | b :: t => if a < b then a :: b :: t else if a = b then b :: t else b :: insertChain a t

/-- `sorted(set(chains))` -/
def sortedChains (chains : List String) : List String := chains.foldr insertChain []

/-- `_savefile_path`: `'chain_{}.ssd'.format(','.join(sorted(chains)))` -/
def ssdName (N : Names) (chains : List String) : String :=
  N.ssdPrefix ++ joinComma (sortedChains chains) ++ N.ssdSuffix

/-- `AnnotateDSSP.__init__`: is `run_dssp` (which has a save file) used, rather than `run_mdtraj`? -/
def usesDsspExe (o : Options) : Bool :=
  match o.dssp with
  | .off => false
  | .exe => true
  | .flag => !o.haveMdtraj

/-! ## the two kinds of files -/

/-- the `-write-*` dumps, in the order in which `pdb_to_universal` writes them -/
def debugDumps (o : Options) : List Path :=
  o.writeGraph.toList ++ o.writeRepair.toList ++ o.writeCanon.toList

/-- F-C07-2: the DSSP input files that stay in the working directory (`LOGGER.getEffectiveLevel() > DEBUG` is
false exactly when `-v` was given at least once) -/
def dsspArtefacts (o : Options) (f : Facts) : List Path :=
  if o.dssp ≠ .off ∧ 1 ≤ o.verbosity then f.dsspTmp else []

/-- everything written with the builtin `open` -/
def directFiles (o : Options) (f : Facts) : List Path := debugDumps o ++ dsspArtefacts o f

def dsspSaves (N : Names) (o : Options) (f : Facts) : List Path :=
  if usesDsspExe o then f.dsspChains.map (fun cs => Path.base (ssdName N cs)) else []

def contactMapFile (N : Names) (o : Options) : List Path :=
  if o.go = .internal then
    match o.goWrite with
    | .off => []
    | .const => [Path.base N.goWriteConst]
    | .named p => [p]
  else []

/-- `itp_paths` as chosen by `entry`: `(atomtypes, nonbond_params)`; `none` is the empty list `[]` of the code -/
def itpPaths (N : Names) (o : Options) : Option (String × String) :=
  if o.go ≠ .off then some (N.goAtomtypes, N.goNonbond)
  else if o.waterBias then some (N.vsAtomtypes, N.vsNonbond)
  else none

/-- `write_gmx_topology` -/
def topologyFiles (N : Names) (o : Options) (f : Facts) : List Path :=
  match o.topPath with
  | none => []
  | some top =>
      (match itpPaths N o with
       | some (at_, nb) => (if f.hasAtomtypes then [Path.base at_] else []) ++ (if f.hasNonbond then [Path.base nb] else [])
       | none => [])
      ++ (moltypes N o f).eraseDups.map (fun m => Path.base (m ++ N.itpSuffix))
      ++ [top]

/-- `str(args.outpath)` -/
def structureFile (N : Names) (o : Options) : Path := o.outpath.getD (Path.base N.noOutpath)

/-- **The files a successful run creates**, in the order in which they are opened through the deferred writer. -/
def outputs (N : Names) (o : Options) (f : Facts) : List Path :=
  dsspSaves N o f ++ contactMapFile N o ++ topologyFiles N o f ++ [structureFile N o]

/-! ## a run -/

/-- contents written for a name (what the writers produced; opaque to the model) -/
def contentOf (cont : List (Path × Bytes)) (p : Path) : Bytes :=
  match cont.find? (fun pc => pc.1 = p) with
  | some pc => pc.2
  | none => []

/-- builtin `open(p, 'w')` + write -/
def directWrite (cont : List (Path × Bytes)) (fs : FS) (p : Path) : FS := set fs p (contentOf cont p)

def directWrites (cont : List (Path × Bytes)) (fs : FS) (ps : List Path) : FS := ps.foldl (directWrite cont) fs

def deferredOpens (cont : List (Path × Bytes)) (ps : List Path) : List OpenReq :=
  ps.map (fun p => (p, Mode.w, contentOf cont p))

/-- A run that reaches the gate: the direct writes (all of them happen before the first deferred open), the
deferred opens, the gate. -/
def cliOutRun (N : Names) (fs : FS) (o : Options) (f : Facts) (cont : List (Path × Bytes))
    (counter : List C08.Entry) (specs : List (List C08.Spec)) (level : Nat) : State × Nat :=
  cliRun (directWrites cont fs (directFiles o f)) (deferredOpens cont (outputs N o f)) counter specs level

/-- the pending table at the gate -/
def cliPendingAtGate (N : Names) (fs : FS) (o : Options) (f : Facts) (cont : List (Path × Bytes)) : List Entry :=
  (runOpens (init (directWrites cont fs (directFiles o f))) (deferredOpens cont (outputs N o f))).pending

/-! ## `CountingHandler.number_of_counts_by` -/

def countBy (counter : List C08.Entry) (level : Option Nat) (type : Option String) : Nat :=
  (counter.filter (fun e => (match level with | some l => decide (l ≤ e.level) | none => true)
                            && (match type with | some t => decide (e.type = t) | none => true))).foldl
    (fun acc e => acc + e.count) 0

end C07
