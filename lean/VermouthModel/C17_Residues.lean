import VermouthModel.C17
/-
C17 (extension) — the residue partition AS THE CODE COMPUTES IT, and what reads it.

`Molecule.iter_residues` is

    residue_graph = graph_utils.make_residue_graph(self)
    return (tuple(residue_graph.nodes[res]['graph'].nodes) for res in sorted(residue_graph.nodes))

* `collect_residues`   : a dict keyed by (chain, resid, resname, insertion_code) - here the residue
                         code `Atom.res` - filled while iterating over the nodes; the values are Python
                         `set`s of node keys, grown by `.add` in node order          (`collectResidues`);
* `partition_graph`    : `partitions = sorted(partitions, key=min)` (stable), node `idx` of the new
                         graph = position in that list, node attribute `graph =
                         nx.subgraph(graph, node_idxs)`; for a `Molecule` that is `Molecule.subgraph`,
                         which adds the nodes in the order in which the *set* `node_idxs` is iterated
                         (`sortedParts`, `setOrder`).  The edges between residues that
                         `partition_graph` also builds play no role for `iter_residues` and are not
                         modelled;
* `iter_residues`      : `sorted(residue_graph.nodes)` (= 0..n-1) and the tuple of the nodes of every
                         sub-molecule                                                  (`iterResidues`).

So the order of the atoms inside one residue tuple is the iteration order of a CPython hash set of
integers.  `pySetIter` transcribes CPython 3.12 `Objects/setobject.c` for a set that is only grown by
`add` (no deletions, hence no dummy entries): `set_add_entry` (linear probing over `LINEAR_PROBES`
= 9 slots when they fit before the end of the table, then the perturbed recurrence
`i = (i*5 + 1 + perturb) & mask`, `perturb >>= 5`), the resize rule `fill*5 >= mask*3` ->
`set_table_resize(used > 50000 ? used*2 : used*4)` re-inserting in slot order with
`set_insert_clean`, and iteration in slot order; `hash(int)` is the value modulo 2^61-1 with the sign
kept and -1 replaced by -2.

`setOrder` guards that transcription: should `pySetIter ks` ever not be a permutation of `ks` (it always
is on every input the harness generated, the driver reports the guard), the order of insertion is used
instead.  The theorems therefore do not depend on hash-table reasoning; that `pySetIter` IS what CPython
does is covered differentially only.
-/
namespace C17

/-! ## CPython `set` of `int`s grown by `add` -/

/-- CPython `hash(int)` -/
def pyHashInt (x : Int) : Int :=
  let r : Int := ((x.natAbs % (2 ^ 61 - 1) : Nat) : Int)
  let h : Int := if x < 0 then -r else r
  if h = -1 then -2 else h

/-- `(size_t)hash` -/
def toSizeT (h : Int) : Nat := (h % ((2 : Int) ^ 64)).toNat

def linearProbes : Nat := 9
def perturbShift : Nat := 5

structure PySet where
  mask : Nat
  fill : Nat
  table : Array (Option Int)

def PySet.empty : PySet := ⟨7, 0, Array.replicate 8 none⟩

/-- first unused slot among `i, i+1, ..., i+n` -/
def scanFree (t : Array (Option Int)) (i : Nat) : Nat → Option Nat
  | 0 => if t[i]? == some none then some i else none
  | n + 1 => if t[i]? == some none then some i else scanFree t (i + 1) n

/-- the probe loop of `set_add_entry` / `set_insert_clean` (identical when nothing is ever deleted
and the key is not yet in the set) -/
def findSlot (t : Array (Option Int)) (mask : Nat) : Nat → Nat → Nat → Option Nat
  | 0, _, _ => none
  | fuel + 1, i, perturb =>
    let probes := if i + linearProbes ≤ mask then linearProbes else 0
    match scanFree t i probes with
    | some j => some j
    | none =>
      let perturb := perturb >>> perturbShift
      findSlot t mask fuel ((i * 5 + 1 + perturb) % (mask + 1)) perturb

def insertClean (t : Array (Option Int)) (mask : Nat) (k : Int) : Array (Option Int) :=
  let h := toSizeT (pyHashInt k)
  match findSlot t mask (64 + 2 * (mask + 1)) (h % (mask + 1)) h with
  | some j => t.set! j (some k)
  | none => t

/-- `while (newsize <= minused) newsize <<= 1` starting from `PySet_MINSIZE` = 8 -/
def newSize (minused : Nat) : Nat → Nat → Nat
  | 0, s => s
  | f + 1, s => if s ≤ minused then newSize minused f (s * 2) else s

/-- `set_table_resize` -/
def PySet.resize (s : PySet) (minused : Nat) : PySet :=
  let size := newSize minused (minused + 1) 8
  let mask := size - 1
  let t := s.table.foldl (fun t e => match e with
    | none => t
    | some k => insertClean t mask k) (Array.replicate size none)
  ⟨mask, s.fill, t⟩

/-- `set.add(k)` -/
def PySet.add (s : PySet) (k : Int) : PySet :=
  if s.table.contains (some k) then s
  else
    let s' : PySet := ⟨s.mask, s.fill + 1, insertClean s.table s.mask k⟩
    if s'.fill * 5 < s'.mask * 3 then s'
    else s'.resize (if s'.fill > 50000 then s'.fill * 2 else s'.fill * 4)

/-- `list(s)` for `s = set(); for k in ks: s.add(k)` -/
def pySetIter (ks : List Int) : List Int :=
  (ks.foldl PySet.add PySet.empty).table.toList.filterMap id

/-- guarded set order (see the header) -/
def setOrder (ks : List Int) : List Int :=
  let t := pySetIter ks
  if t.isPerm ks then t else ks

/-- `true` when the guard of `setOrder` is not needed -/
def setOrderExact (ks : List Int) : Bool := (pySetIter ks).isPerm ks

/-! ## `collect_residues`, `partition_graph`, `iter_residues` -/

/-- `residues[key].add(node_idx)` on a `defaultdict(set)`; the set is kept as the list of its
elements in the order of the `add` calls -/
def dictAdd : List (Nat × List Int) → Nat → Int → List (Nat × List Int)
  | [], r, k => [(r, [k])]
  | (r', ks) :: rest, r, k =>
    if r' = r then (r', ks ++ [k]) :: rest else (r', ks) :: dictAdd rest r k

/-- `collect_residues` -/
def collectResidues (m : Mol) : List (Nat × List Int) :=
  m.foldl (fun d a => dictAdd d a.res a.key) []

/-- Python `min` of a non-empty collection of integers -/
def pyMin : List Int → Int
  | [] => 0
  | k :: ks => ks.foldl min k

/-- stable insertion by `min` -/
def insertPart (p : Nat × List Int) : List (Nat × List Int) → List (Nat × List Int)
  | [] => [p]
  | x :: xs => if pyMin p.2 ≤ pyMin x.2 then p :: x :: xs else x :: insertPart p xs

/-- `sorted(partitions, key=min)` (a stable sort) -/
def sortedParts (ps : List (Nat × List Int)) : List (Nat × List Int) := ps.foldr insertPart []

def insertNat (x : Nat) : List Nat → List Nat
  | [] => [x]
  | y :: ys => if x ≤ y then x :: y :: ys else y :: insertNat x ys

/-- `sorted(residue_graph.nodes)` -/
def sortNat (l : List Nat) : List Nat := l.foldr insertNat []

/-- `Molecule.iter_residues`: (residue code, tuple of node keys) in the order in which the residues
are yielded -/
def iterResidues (m : Mol) : List (Nat × List Int) :=
  let parts := sortedParts (collectResidues m)
  let nodes := List.range parts.length
  (sortNat nodes).filterMap fun idx => parts[idx]?.map fun p => (p.1, setOrder p.2)

/-- are all set orders of the residues of `m` computed without the guard? (reported by the driver) -/
def iterResiduesExact (m : Mol) : Bool := (collectResidues m).all fun p => setOrderExact p.2

/-! ## `sequence_from_residues`, `annotate_residues_from_sequence`, `convert_dssp_annotation_to_martini` -/

/-- `molecule.nodes[k].get(attribute)` (an attribute that is absent and one that is `None` are the
same thing for every reader in `dssp.py`) -/
def valAt (m : Mol) (k : Int) : Option Nat := (m.find? fun a => a.key == k).bind (·.val)

/-- `sequence_from_residues(molecule, attribute)`: the value on `residue_nodes[0]` -/
def seqFromResiduesCode (m : Mol) : List (Option Nat) :=
  (iterResidues m).map fun p =>
    match p.2 with
    | [] => none
    | k :: _ => valAt m k

/-- `for node_name in residue_nodes: molecule.nodes[node_name][attribute] = value` -/
def setKeys (ks : List Int) (v : Nat) (m : Mol) : Mol :=
  ks.foldl (fun m k => m.map fun a => if a.key = k then { a with val := some v } else a) m

def assignCode (m : Mol) (pairs : List ((Nat × List Int) × Nat)) : Mol :=
  pairs.foldl (fun m p => setKeys p.1.2 p.2 m) m

/-- `annotate_residues_from_sequence`, over the residue tuples of `iter_residues` -/
def annotateMolCode (m : Mol) (seq : List Nat) : Except Err Mol :=
  let rs := iterResidues m
  if seq.length = 1 then .ok (assignCode m (rs.zip (repeatSeq seq rs.length)))
  else if seq.length ≠ rs.length then .error .valueerror
  else .ok (assignCode m (rs.zip seq))

/-- a node with the attribute that is read (`src`, e.g. `aasecstruct`) and the one that is written
(`dst`, e.g. `cgsecstruct`) -/
structure Atom2 where
  key : Int
  res : Nat
  src : Option Nat
  dst : Option Nat
  deriving Repr, DecidableEq

abbrev Mol2 := List Atom2

def srcMol (m : Mol2) : Mol := m.map fun a => ⟨a.key, a.res, a.src⟩
def dstMol (m : Mol2) : Mol := m.map fun a => ⟨a.key, a.res, a.dst⟩
def withDst (m : Mol2) (d : Mol) : Mol2 := List.zipWith (fun a b => { a with dst := b.val }) m d
def withSrc (m : Mol2) (d : Mol) : Mol2 := List.zipWith (fun a b => { a with src := b.val }) m d

/-- a value as the key looked up in `SS_CG`: code points are characters, anything else (a number, a
longer string; coded by the harness as 0x110000 + n) is not a key of the table -/
def symOf (n : Nat) : Option Char := if n < 0x110000 then some (Char.ofNat n) else none

/-- `convert_dssp_to_martini` on a list of arbitrary values -/
def convertVals (tbl : List (Char × Char)) (pats : List (List Char × List Char)) (vs : List Nat) :
    Option (List Char) :=
  match vs.mapM symOf with
  | none => none
  | some cs => convertImpl tbl pats cs

/-- `convert_dssp_annotation_to_martini(molecule)` -/
def convertAnnotationCode (tbl : List (Char × Char)) (pats : List (List Char × List Char))
    (m : Mol2) : Except Err Mol2 :=
  let ds := seqFromResiduesCode (srcMol m)
  if ds.all Option.isSome then
    match convertVals tbl pats (ds.map fun o => o.getD 0) with
    | none => .error .keyerror
    | some cg =>
      match annotateMolCode (dstMol m) (cg.map Char.toNat) with
      | .error e => .error e
      | .ok d => .ok (withDst m d)
  else if ds.all Option.isNone then .ok m
  else .error .valueerror

/-- `Processor.run_system` of `AnnotateMartiniSecondaryStructures` (every molecule, in order; the
first error ends the run).  `gmx_system_header`, which `run_system` calls first, only reads and is
not modelled. -/
def annotateMartiniSystem (tbl : List (Char × Char)) (pats : List (List Char × List Char)) :
    List Mol2 → Except Err (List Mol2)
  | [] => .ok []
  | m :: ms =>
    match convertAnnotationCode tbl pats m with
    | .error e => .error e
    | .ok m' =>
      match annotateMartiniSystem tbl pats ms with
      | .error e => .error e
      | .ok ms' => .ok (m' :: ms')

/-- `annotate_dssp(molecule, callable)`: `prot` = `is_protein(molecule)`, `hasPos` = value of
`selector_has_position` per atom, `secstructs` = what `callable(system of the atoms with a
position)` returned -/
def annotateDssp (prot : Bool) (m : Mol) (hasPos : List Bool) (secstructs : List Nat) : Except Err Mol :=
  if !prot then .ok m
  else
    let clean := ((m.zip hasPos).filter (·.2)).map (·.1)
    if clean.isEmpty then .ok m
    else annotateMolCode m secstructs

/-- the molecule handed to the callable by `annotate_dssp` (`None` = the callable is not called) -/
def dsspInput (prot : Bool) (m : Mol) (hasPos : List Bool) : Option Mol :=
  if !prot then none
  else
    let clean := ((m.zip hasPos).filter (·.2)).map (·.1)
    if clean.isEmpty then none else some clean

/-! ## the `-dssp` / `-ss` / `-collagen` branches of `bin/martinize2` -/

/-- `AnnotateDSSP.run_system`: `annotate_dssp` on every molecule in order (attribute `aasecstruct`);
per molecule: `is_protein`, the molecule, the has-position flags, the answer of the callable -/
def dsspAll : List (Bool × Mol2 × List Bool × List Nat) → Except Err (List Mol2)
  | [] => .ok []
  | (prot, m, pos, ss) :: rest =>
    match annotateDssp prot (srcMol m) pos ss with
    | .error e => .error e
    | .ok s =>
      match dsspAll rest with
      | .error e => .error e
      | .ok ms => .ok (withSrc m s :: ms)

/-- `-dssp`: `AnnotateDSSP(...).run_system(system)`, then
`AnnotateMartiniSecondaryStructures().run_system(system)` -/
def cliDssp (tbl : List (Char × Char)) (pats : List (List Char × List Char))
    (sys : List (Bool × Mol2 × List Bool × List Nat)) : Except Err (List Mol2) :=
  match dsspAll sys with
  | .error e => .error e
  | .ok ms => annotateMartiniSystem tbl pats ms

/-- `str.upper` on ASCII (the harness only sends ASCII) -/
def upperAscii (c : Char) : Char := if 'a' ≤ c ∧ c ≤ 'z' then Char.ofNat (c.toNat - 32) else c

abbrev Sys2 := List (Bool × Mol2)

/-- write the `src` attribute of every molecule of a system from the result of `annotateSystem` -/
def sysWithSrc (sys : Sys2) (s : Sys) : List Mol2 :=
  List.zipWith (fun p q => withSrc p.2 q.2) sys s

def sysWithDst (sys : Sys2) (s : Sys) : List Mol2 :=
  List.zipWith (fun p q => withDst p.2 q.2) sys s

/-- `-ss SEQUENCE`: `AnnotateResidues('aasecstruct', SEQUENCE.upper(), is_protein).run_system`, then
`AnnotateMartiniSecondaryStructures().run_system`.  The flag of a molecule is `is_protein`. -/
def cliSs (tbl : List (Char × Char)) (pats : List (List Char × List Char)) (sys : Sys2)
    (ss : List Char) : Except Err (List Mol2) :=
  let seq := (ss.map upperAscii).map Char.toNat
  match annotateSystem (sys.map fun p => (p.1, srcMol p.2)) seq with
  | .error e => .error e
  | .ok s => annotateMartiniSystem tbl pats (sysWithSrc sys s)

/-- `-collagen`: `AnnotateResidues('cgsecstruct', 'F', is_protein).run_system` -/
def cliCollagen (sys : Sys2) : Except Err (List Mol2) :=
  match annotateSystem (sys.map fun p => (p.1, dstMol p.2)) ['F'.toNat] with
  | .error e => .error e
  | .ok s => .ok (sysWithDst sys s)

end C17
