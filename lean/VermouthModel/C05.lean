import VermouthModel.Proto
import VermouthModel.Iso
/-!
# C05 — links are applied at exactly the places where they fit (model)

Transcription of `vermouth/processors/do_links.py` and of the parts of
`vermouth/molecule.py` it uses (`attributes_match`, `Choice`, `NotDefinedOrNot`,
`interaction_match`, `add_or_replace_interaction`, `remove_matching_interaction`,
`remove_nodes_from`).  The subgraph search itself (networkx `GraphMatcher`) is NOT
transcribed: its *specification* is the shared verified reference `Iso.allIsosP`
(induced subgraph isomorphisms with a node predicate), see DESIGN 4.1.

Python values are modelled by `Val` (None, int, bool, str, list of str); a link-side value is a
`TVal` (plain value, `Choice`, `NotDefinedOrNot`).  Dictionaries are association lists with
distinct keys (`lookup` = `dict.get`).  Exceptions are modelled by `Option` (`none` = the code
raises): `ValueError` of `_interpret_order`, `ValueError` of an invalid order in a non-edge,
`KeyError` of a pattern atom that is not a link node.

Geometry-derived parameters are kept symbolic (`Param.eff name keys format`, keys mapped on the
molecule); the harness evaluates them numerically.
-/
namespace C05
open Iso

/-! ## values and attribute dictionaries -/

inductive Val where
  | none
  | int (i : Int)
  | bool (b : Bool)
  | str (s : String)
  | list (l : List String)
  deriving DecidableEq, Repr, Inhabited

inductive TVal where
  | plain (v : Val)
  | choice (vs : List Val)
  | notDef (v : Val)
  deriving DecidableEq, Repr, Inhabited

abbrev Attrs := List (String × Val)
abbrev TAttrs := List (String × TVal)

/-- `dict.get(k)` (None when absent) -/
def aget (a : Attrs) (k : String) : Val := (a.lookup k).getD Val.none
/-- `k in dict` -/
def ahas (a : Attrs) (k : String) : Bool := (a.lookup k).isSome

/-- bool(value) in Python -/
def Val.truthy : Val → Bool
  | .none => false
  | .int i => i != 0
  | .bool b => b
  | .str s => s != ""
  | .list l => !l.isEmpty

def TVal.truthy : TVal → Bool
  | .plain v => v.truthy
  | _ => true

/-- one template entry against the molecule-side dictionary:
`attributes.get(attr) == value`, or `value.match(attributes, attr)` for a predicate -/
def valMatch (a : Attrs) (k : String) : TVal → Bool
  | .plain v => aget a k == v
  | .choice vs => vs.contains (aget a k)
  | .notDef v => !(ahas a k) || aget a k != v

/-- `attributes_match(attributes, template_attributes, ignore_keys)` -/
def attributesMatch (a : Attrs) (t : TAttrs) (ignore : List String) : Bool :=
  t.all fun kv => ignore.contains kv.1 || valMatch a kv.1 kv.2

/-- `dict.update` of one key: value replaced in place, new key appended -/
def aset : Attrs → String → Val → Attrs
  | [], k, v => [(k, v)]
  | (k', v') :: rest, k, v => if k' == k then (k', v) :: rest else (k', v') :: aset rest k v

def aupdate (a : Attrs) (new : Attrs) : Attrs := new.foldl (fun acc kv => aset acc kv.1 kv.2) a

/-! ## residue orders (`_interpret_order`, `match_order`) -/

/-- the raw `order` attribute: a number, a string (as characters), a boolean, anything else -/
inductive Order where
  | num (n : Int)
  | str (cs : List Char)
  | bool (b : Bool)
  | bad
  deriving DecidableEq, Repr, Inhabited

inductive OType where
  | number | angle | star
  deriving DecidableEq, Repr, Inhabited

/-- `_interpret_order`; `none` = ValueError -/
def interpretOrder : Order → Option (OType × Int)
  | .bool _ => none
  | .bad => none
  | .num n => some (.number, n)
  | .str [] => none
  | .str (c :: rest) =>
    if rest.all (· == c) then
      if c == '>' then some (.angle, ((rest.length + 1 : Nat) : Int))
      else if c == '<' then some (.angle, - ((rest.length + 1 : Nat) : Int))
      else if c == '*' then some (.star, ((rest.length + 1 : Nat) : Int))
      else none
    else none

/-- `numpy.sign` on integers -/
def sgn (i : Int) : Int := if 0 < i then 1 else if i < 0 then -1 else 0

/-- the body of `match_order` after both orders were interpreted (same nesting of tests) -/
def matchOrderCore (t1 : OType) (v1 r1 : Int) (t2 : OType) (v2 r2 : Int) : Bool :=
  match t1 with
  | .number =>
    if t2 == .number then
      (if (v2 - v1) != (r2 - r1) then false else true)
    else if v1 == 0 then
      (if t2 == .angle && sgn (r2 - r1) != sgn v2 then false
       else if t2 == .star && r1 == r2 then false
       else true)
    else true
  | .angle =>
    if t2 == .number && v2 == 0 && sgn (r1 - r2) != sgn v1 then false
    else if t2 == .angle && sgn (r2 - r1) != sgn (v2 - v1) then false
    else true
  | .star =>
    if t2 == .number && v2 == 0 && r1 == r2 then false
    else if t2 == .star && ((v1 == v2) != (r1 == r2)) then false
    else true

/-- `match_order(order1, resid1, order2, resid2)`; `none` = ValueError -/
def matchOrder (o1 : Order) (r1 : Int) (o2 : Order) (r2 : Int) : Option Bool :=
  match interpretOrder o1, interpretOrder o2 with
  | some (t1, v1), some (t2, v2) => some (matchOrderCore t1 v1 r1 t2 v2 r2)
  | _, _ => none

/-! ## molecules and links -/

structure MNode where
  key : Int
  attrs : Attrs
  /-- names of the `modifications` attribute (each name as the sequence `mods.extend` iterates) -/
  mods : List (List String) := []
  deriving Repr, Inhabited, DecidableEq

inductive Param where
  | lit (s : String)
  | eff (name : String) (keys : List Int) (fmt : Option String)
  deriving DecidableEq, Repr, Inhabited

structure Inter where
  atoms : List Int
  params : List Param
  md : Attrs
  deriving DecidableEq, Repr, Inhabited

structure Mol where
  nodes : List MNode
  edges : List (Int × Int)
  md : Attrs := []
  /-- per-type order = relative order in this list -/
  inters : List (String × Inter) := []
  cites : List String := []
  deriving Repr, Inhabited

structure LNode where
  key : Int
  /-- the node dictionary without `replace` (so it may contain `order` and `modifications`) -/
  attrs : TAttrs
  replace : Option Attrs := none
  deriving Repr, Inhabited

/-- an interaction to remove (`DeleteInteraction`); `atomAttrs = none` for a plain `Interaction` -/
structure LDel where
  atoms : List Int
  params : List Param
  atomAttrs : Option (List TAttrs)
  md : TAttrs
  deriving Repr, Inhabited

structure Link where
  nodes : List LNode
  edges : List (Int × Int)
  molmeta : TAttrs := []
  nonEdges : List (Int × TAttrs) := []
  patterns : List (List (Int × TAttrs)) := []
  /-- `removed_interactions`, flattened in dictionary order -/
  removed : List (String × LDel) := []
  /-- `interactions`, flattened in dictionary order; meta is the link's plain dictionary -/
  inters : List (String × Inter) := []
  cites : List String := []
  deriving Repr, Inhabited

def Mol.keys (m : Mol) : List Int := m.nodes.map (·.key)
def Link.keys (l : Link) : List Int := l.nodes.map (·.key)

def Mol.node? (m : Mol) (k : Int) : Option MNode := m.nodes.find? (fun n => n.key == k)
def Link.node? (l : Link) (k : Int) : Option LNode := l.nodes.find? (fun n => n.key == k)

def residOfAttrs (a : Attrs) : Int :=
  match aget a "resid" with
  | .int i => i
  | _ => 0

/-- `molecule.nodes[k]['resid']` (integer residue numbers; 0 if the node or attribute is missing) -/
def Mol.resid (m : Mol) (k : Int) : Int :=
  match m.node? k with
  | some n => residOfAttrs n.attrs
  | none => 0

/-- `molecule.neighbors(k)` -/
def Mol.neighbors (m : Mol) (k : Int) : List Int :=
  m.edges.filterMap fun e => if e.1 == k then some e.2 else if e.2 == k then some e.1 else none

def Mol.graph (m : Mol) : Graph :=
  { nodes := m.nodes.map (fun n => (n.key, 0)), edges := m.edges.map (fun e => (e.1, e.2, 0)) }
def Link.graph (l : Link) : Graph :=
  { nodes := l.nodes.map (fun n => (n.key, 0)), edges := l.edges.map (fun e => (e.1, e.2, 0)) }

/-! ## `_atoms_match` -/

def ignoredKeys : List String := ["order", "replace", "modifications"]

/-- the `modifications` rule of `_atoms_match`; `mods` is the flat list of names of the molecule
node, `tv` the link's `modifications` entry (`none` = key absent) -/
def modsMatch (mods : List String) : Option TVal → Bool
  | none => true
  | some tv =>
    (!tv.truthy && mods.isEmpty) ||
    (tv.truthy && !mods.isEmpty &&
      ((match tv with
        | .plain (.list l) => mods.isPerm l      -- sorted(mods) == sorted(link mods)
        | _ => false)
       || mods.all (fun name => valMatch [("_", .str name)] "_" tv)))

/-- `_atoms_match(node1 = molecule node, node2 = link-side dictionary)` -/
def atomsMatch (n : MNode) (t : TAttrs) : Bool :=
  modsMatch n.mods.flatten (t.lookup "modifications") && attributesMatch n.attrs t ignoredKeys

/-- node predicate handed to the matcher -/
def linkPred (m : Mol) (l : Link) : NodePred := fun p t =>
  match l.node? p, m.node? t with
  | some ln, some mn => atomsMatch mn ln.attrs
  | _, _ => false

/-! ## the filters of `match_link` -/

def orderOfTVal : TVal → Order
  | .plain (.int n) => .num n
  | .plain (.str s) => .str s.toList
  | .plain (.bool b) => .bool b
  | _ => .bad

/-- the `order` attribute of a link node, if it has one -/
def LNode.order (n : LNode) : Option Order := (n.attrs.lookup "order").map orderOfTVal

/-- `from_link.get('order', 0)`: the order of the anchor atom of a non-edge -/
def anchorOrder (l : Link) (k : Int) : Order := ((l.node? k).bind LNode.order).getD (.num 0)

/-- `to_link.get('order', 0)`: the order of the partner atom of a non-edge -/
def partnerOrder (t : TAttrs) : Order := ((t.lookup "order").map orderOfTVal).getD (.num 0)

/-- one non-edge: `some false` = a forbidden neighbour exists (a neighbour of the anchor whose
residue satisfies `match_order(anchor order, anchor resid, partner order, neighbour resid)` and
whose attributes match); `none` = `match_order` raises (evaluated for the first neighbour) -/
def nonEdgeOk (m : Mol) (l : Link) (mp : Map) (ne : Int × TAttrs) : Option Bool :=
  if !(l.keys.contains ne.1) then some true
  else
    let fm := Map.toFun mp ne.1
    let nbs := m.neighbors fm
    if nbs.isEmpty then some true
    else match interpretOrder (anchorOrder l ne.1), interpretOrder (partnerOrder ne.2) with
      | some _, some _ =>
        some (!(nbs.any fun nb =>
          matchOrder (anchorOrder l ne.1) (m.resid fm) (partnerOrder ne.2) (m.resid nb) == some true &&
            (match m.node? nb with
             | some n => atomsMatch n ne.2
             | none => false)))
      | _, _ => none

/-- `_is_valid_non_edges` -/
def validNonEdges (m : Mol) (l : Link) (mp : Map) : List (Int × TAttrs) → Option Bool
  | [] => some true
  | ne :: rest =>
    match nonEdgeOk m l mp ne with
    | none => none
    | some false => some false
    | some true => validNonEdges m l mp rest

/-- `_pattern_match`; `none` = KeyError (pattern atom that the match does not contain) -/
def patternMatch (m : Mol) (mp : Map) : List (Int × TAttrs) → Option Bool
  | [] => some true
  | (k, t) :: rest =>
    match mp.lookup k with
    | none => none
    | some mk =>
      match m.node? mk with
      | none => none
      | some n => if atomsMatch n t then patternMatch m mp rest else some false

/-- `_any_pattern_match` (`any` over a generator: stops at the first pattern that matches) -/
def anyPattern (m : Mol) (mp : Map) : List (List (Int × TAttrs)) → Option Bool
  | [] => some false
  | p :: rest =>
    match patternMatch m mp p with
    | none => none
    | some true => some true
    | some false => anyPattern m mp rest

/-- (order, resid) of every link node that has an `order`, in link-node order -/
def orderedNodes (m : Mol) (l : Link) (mp : Map) : List (Order × Int) :=
  l.nodes.filterMap fun n => n.order.map fun o => (o, m.resid (Map.toFun mp n.key))

/-- one step of the `order_match` dictionary; `none` = two residues for one order (`break`) -/
def insertOrder (tbl : List (Order × Int)) (x : Order × Int) : Option (List (Order × Int)) :=
  match tbl.lookup x.1 with
  | none => some (tbl ++ [x])
  | some r => if r == x.2 then some tbl else none

def orderTableFrom : List (Order × Int) → List (Order × Int) → Option (List (Order × Int))
  | tbl, [] => some tbl
  | tbl, x :: rest =>
    match insertOrder tbl x with
    | none => none
    | some tbl' => orderTableFrom tbl' rest

def orderTable (m : Mol) (l : Link) (mp : Map) : Option (List (Order × Int)) :=
  orderTableFrom [] (orderedNodes m l mp)

/-- `combinations(items, 2)` -/
def pairs2 : List α → List (α × α)
  | [] => []
  | a :: rest => rest.map (fun b => (a, b)) ++ pairs2 rest

/-- all pairs of `order_match` satisfy `match_order`.  `none` = some pair raises ValueError (the
code stops at the first pair that fails or raises, in dictionary order; the two notions coincide
whenever at most one pair can raise, see the level note) -/
def pairwiseOrders (tbl : List (Order × Int)) : Option Bool :=
  let rs := (pairs2 tbl).map fun p => matchOrder p.1.1 p.1.2 p.2.1 p.2.2
  if rs.any (·.isNone) then none else some (rs.all (· == some true))

/-- the body of the loop of `match_link` for one raw match -/
def placementOk (m : Mol) (l : Link) (mp : Map) : Option Bool :=
  match validNonEdges m l mp l.nonEdges with
  | none => none
  | some false => some false
  | some true =>
    match anyPattern m mp l.patterns with
    | none => none
    | some ap =>
      if !l.patterns.isEmpty && !ap then some false
      else match orderTable m l mp with
        | none => some false
        | some tbl => pairwiseOrders tbl

/-- the raw matches: every induced subgraph isomorphism link → molecule whose nodes satisfy
`_atoms_match` (specification of `GraphMatcher.subgraph_isomorphisms_iter`) -/
def rawMatches (m : Mol) (l : Link) : List Map := allIsosP m.graph l.graph (linkPred m l)

/-- `match_link` with exceptions treated as rejections -/
def matchLink (m : Mol) (l : Link) : List Map :=
  if attributesMatch m.md l.molmeta [] then
    (rawMatches m l).filter fun mp => placementOk m l mp == some true
  else []

/-- `list(match_link(molecule, link))`; `none` = an exception is raised -/
def matchLinkE (m : Mol) (l : Link) : Option (List Map) :=
  if attributesMatch m.md l.molmeta [] then
    let raws := rawMatches m l
    if raws.any (fun mp => (placementOk m l mp).isNone) then none
    else some (raws.filter fun mp => placementOk m l mp == some true)
  else some []

/-! ## the interaction table -/

/-- `meta.get('version', 0)` -/
def versionOf (md : Attrs) : Val := (md.lookup "version").getD (.int 0)

abbrev Table := List (String × Inter)

/-- identity of an interaction: type, atoms, version -/
def keyOf (e : String × Inter) : String × List Int × Val := (e.1, e.2.atoms, versionOf e.2.md)

/-- `add_or_replace_interaction`: replace the first entry with the same identity, else append -/
def addOrReplace : Table → String × Inter → Table
  | [], x => [x]
  | e :: rest, x => if keyOf e == keyOf x then x :: rest else e :: addOrReplace rest x

/-- `interaction_match(molecule, interaction, template)` (template atoms/parameters already mapped) -/
def interMatch (nodeAttrs : Int → Attrs) (i : Inter) (t : LDel) : Bool :=
  t.atoms == i.atoms && (t.params.isEmpty || t.params == i.params) &&
    ((i.atoms.zip (t.atomAttrs.getD (t.atoms.map fun _ => []))).all
      fun p => attributesMatch (nodeAttrs p.1) p.2 []) &&
    attributesMatch i.md t.md []

/-- `remove_matching_interaction`: delete the first matching entry of that type (nothing if none:
the ValueError is swallowed by the caller) -/
def removeMatching (nodeAttrs : Int → Attrs) : Table → String → LDel → Table
  | [], _, _ => []
  | e :: rest, ty, t =>
    if e.1 == ty && interMatch nodeAttrs e.2 t then rest else e :: removeMatching nodeAttrs rest ty t

def unionSet (a b : List String) : List String := a ++ b.filter (fun x => !a.contains x)

/-! ## applying links (`DoLinks.run_molecule`) -/

def mapParam (mp : Map) : Param → Param
  | .lit s => .lit s
  | .eff name keys fmt => .eff name (keys.map (Map.toFun mp)) fmt

/-- `_build_link_interaction_from` -/
def buildInter (mp : Map) (i : Inter) : Inter :=
  { atoms := i.atoms.map (Map.toFun mp), params := i.params.map (mapParam mp), md := i.md }

def buildDel (mp : Map) (d : LDel) : LDel :=
  { d with atoms := d.atoms.map (Map.toFun mp), params := d.params.map (mapParam mp) }

def Mol.attrsOf (m : Mol) (k : Int) : Attrs :=
  match m.node? k with
  | some n => n.attrs
  | none => []

def Mol.setAttrs (m : Mol) (k : Int) (new : Attrs) : Mol :=
  { m with nodes := m.nodes.map fun n => if n.key == k then { n with attrs := aupdate n.attrs new } else n }

/-- does this `replace` dictionary ask for the removal of the node (`atomname: null`)? -/
def removesNode (r : Attrs) : Bool := r.lookup "atomname" == some Val.none

/-- the `replace` loop of one placement: attribute updates, and the nodes to remove later -/
def applyReplace (mp : Map) : List LNode → Mol × List Int → Mol × List Int
  | [], s => s
  | n :: rest, (m, rm) =>
    match n.replace with
    | none => applyReplace mp rest (m, rm)
    | some r =>
      if removesNode r then applyReplace mp rest (m, rm ++ [Map.toFun mp n.key])
      else applyReplace mp rest (m.setAttrs (Map.toFun mp n.key) r, rm)

def applyRemoved (mp : Map) (m : Mol) (dels : List (String × LDel)) : Mol :=
  dels.foldl (fun m d => { m with inters := removeMatching m.attrsOf m.inters d.1 (buildDel mp d.2) }) m

def applyAdded (mp : Map) (cites : List String) (m : Mol) (adds : List (String × Inter)) : Mol :=
  adds.foldl (fun m a => { m with inters := addOrReplace m.inters (a.1, buildInter mp a.2),
                                    cites := unionSet m.cites cites }) m

/-- everything `run_molecule` does for one yielded placement -/
def applyPlacement (l : Link) (s : Mol × List Int) (mp : Map) : Mol × List Int :=
  let s1 := applyReplace mp l.nodes s
  let m2 := applyRemoved mp s1.1 l.removed
  (applyAdded mp l.cites m2 l.inters, s1.2)

/-- `remove_nodes_from`: nodes, their edges, and every interaction that mentions one of them -/
def Mol.dropNodes (m : Mol) (ks : List Int) : Mol :=
  { m with
    nodes := m.nodes.filter (fun n => !ks.contains n.key),
    edges := m.edges.filter (fun e => !ks.contains e.1 && !ks.contains e.2),
    inters := m.inters.filter (fun e => !(e.2.atoms.any fun a => ks.contains a)) }

/-- The order in which the placements of one link are consumed is the matcher's enumeration
order, which is not part of the specification: the placements found by the real code are passed
in as `given`; the model uses exactly its own placements, in that order (own placements that
`given` lacks come last, foreign ones are dropped). -/
def orderAs (given own : List Map) : List Map :=
  (given.filter own.contains).eraseDups ++ own.filter (fun p => !given.contains p)

/-- one link on the placements `ps` (computed on the molecule as it is when the link starts) -/
def applyLinkWith (l : Link) (s : Mol × List Int) (ps : List Map) : Mol × List Int :=
  let s' := ps.foldl (applyPlacement l) s
  (s'.1.dropNodes s'.2, s'.2)

def applyLinksFrom : Mol × List Int → List Link → List (List Map) → Mol × List Int
  | s, [], _ => s
  | s, l :: ls, gs =>
    applyLinksFrom (applyLinkWith l s (orderAs (gs.headD []) (matchLink s.1 l))) ls gs.tail

/-- `DoLinks.run_molecule` -/
def applyLinks (m : Mol) (links : List Link) (given : List (List Map)) : Mol :=
  (applyLinksFrom (m, []) links given).1

/-- the same with exceptions: `none` = some `match_link` raises -/
def applyLinksFromE : Mol × List Int → List Link → List (List Map) → Option (Mol × List Int)
  | s, [], _ => some s
  | s, l :: ls, gs =>
    match matchLinkE s.1 l with
    | none => none
    | some ps => applyLinksFromE (applyLinkWith l s (orderAs (gs.headD []) ps)) ls gs.tail

def applyLinksE (m : Mol) (links : List Link) (given : List (List Map)) : Option Mol :=
  (applyLinksFromE (m, []) links given).map (·.1)

end C05
