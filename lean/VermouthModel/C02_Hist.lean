import VermouthModel.C02
/-
C02 — in-place editing of a molecule between two writes.

`Edit` transcribes what the harness does to ONE live `Molecule` object through its attribute
dictionaries and public API; `session` writes after every round of edits.  The model's writer has
no memory: `session` threads nothing but the molecule itself.
-/
namespace C02

inductive Edit where
  /-- `mol.nodes[key]['atomid'] = v` / `del mol.nodes[key]['atomid']` -/
  | setAtomid (key : Int) (v : Option Int)
  /-- `mol.nodes[key][field] = v`; fields 0..6 = atype resid resname atomname charge_group charge mass;
  for charge/mass `""` means `del` -/
  | setField (key : Int) (field : Nat) (v : String)
  /-- `mol.add_node(key, **attrs)` with a new key -/
  | addNode (a : Atom)
  /-- `mol.remove_node(key)`: also drops the interactions on that node and every empty type -/
  | removeNode (key : Int)
  /-- `mol.add_interaction(name, atoms, parameters, meta)` -/
  | addInter (name : String) (i : Inter)
  /-- `mol.remove_interaction(name, atoms, version)` resolved to the index it hits; an emptied type is dropped -/
  | removeInter (name : String) (idx : Nat)
  /-- `mol.interactions[name][idx].meta[...] = ...` / `.pop(...)` for ifdef, ifndef, group -/
  | setMeta (name : String) (idx : Nat) (ifdef ifndef group : Option String)
  deriving Repr

def setFieldAtom (a : Atom) (field : Nat) (v : String) : Atom :=
  match field with
  | 0 => { a with atype := v }
  | 1 => { a with resid := v }
  | 2 => { a with resname := v }
  | 3 => { a with atomname := v }
  | 4 => { a with cgnr := v }
  | 5 => { a with charge := v }
  | _ => { a with mass := v }

def mapInters (inters : List (String × List Inter)) (name : String) (f : List Inter → List Inter) :
    List (String × List Inter) :=
  inters.map (fun p => if p.1 = name then (p.1, f p.2) else p)

def setAt {α} (l : List α) (idx : Nat) (f : α → α) : List α :=
  match l, idx with
  | [], _ => []
  | a :: t, 0 => f a :: t
  | a :: t, n + 1 => a :: setAt t n f

def applyEdit (m : Mol) : Edit → Mol
  | .setAtomid key v =>
      { m with atoms := m.atoms.map (fun a => if a.key = key then { a with atomid := v } else a) }
  | .setField key field v =>
      { m with atoms := m.atoms.map (fun a => if a.key = key then setFieldAtom a field v else a) }
  | .addNode a => { m with atoms := m.atoms ++ [a] }
  | .removeNode key =>
      { m with atoms := m.atoms.filter (fun a => a.key != key)
               inters := (m.inters.map (fun p => (p.1, p.2.filter (fun i => !i.atoms.contains key)))).filter
                           (fun p => !p.2.isEmpty) }
  | .addInter name i =>
      if m.inters.any (fun p => p.1 == name) then { m with inters := mapInters m.inters name (· ++ [i]) }
      else { m with inters := m.inters ++ [(name, [i])] }
  | .removeInter name idx =>
      { m with inters := (mapInters m.inters name (fun l => l.eraseIdx idx)).filter
                           (fun p => !(p.1 == name && p.2.isEmpty)) }
  | .setMeta name idx d nd g =>
      { m with inters := mapInters m.inters name
                 (fun l => setAt l idx (fun i => { i with ifdef := d, ifndef := nd, group := g })) }

def applyEdits (m : Mol) (es : List Edit) : Mol := es.foldl applyEdit m

/-- write after every round of in-place edits of the same molecule -/
def session (m : Mol) : List (List Edit) → List (Except Err (List Line))
  | [] => []
  | r :: rest => write (applyEdits m r) :: session (applyEdits m r) rest

end C02
