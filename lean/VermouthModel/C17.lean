import VermouthModel.Proto
/-
C17 — model of `vermouth/dssp/dssp.py`:

* `residues`            : `Molecule.iter_residues` (groups of nodes with the same
                          (chain, resid, resname, insertion_code), ordered by their lowest node key:
                          `graph_utils.partition_graph` does `sorted(partitions, key=min)`);
* `annotateMol`         : `annotate_residues_from_sequence`;
* `annotateSystem`      : `AnnotateResidues.run_system` (length reconciliation, then the loop
                          `for molecule, nres in zip(selected_molecules, molecule_lengths)` with the
                          running `begin`/`end` slice bounds; molecules are mutated in place, which
                          is modelled by writing the result back at the molecule's index);
* `convertImpl`         : `convert_dssp_to_martini` as written (flank with dots, ordered
                          `while pattern in s: s = s.replace(pattern, replacement)`, unflank, merge);
* `convertSpec`         : the run-based rule the doc-string describes;
* `convertAnnotation`   : `convert_dssp_annotation_to_martini`.

The tables (`SS_CG`, the function-local `patterns`) are parameters here; the harness re-extracts
them from the repository into `Generated/C17Tables.lean` on every run.
-/
namespace C17

/-! ## residues -/

/-- One node of a molecule: its key, the identity of its residue (a code for the tuple
(chain, resid, resname, insertion_code)) and the current value of the attribute (`none` = the
node does not have the attribute). -/
structure Atom where
  key : Int
  res : Nat
  val : Option Nat
  deriving Repr, DecidableEq

abbrev Mol := List Atom

/-- distinct residue identities in order of first appearance (`collect_residues`: a dict keyed by
the residue attributes, filled while iterating over the nodes) -/
def dedup : List Nat → List Nat
  | [] => []
  | x :: xs => x :: (dedup xs).filter (fun y => y != x)

def resIds (m : Mol) : List Nat := dedup (m.map (·.res))

def keysOf (m : Mol) (r : Nat) : List Int := (m.filter (fun a => a.res == r)).map (·.key)

/-- `min(partition)` -/
def minKey (m : Mol) (r : Nat) : Int :=
  match keysOf m r with
  | [] => 0
  | k :: ks => ks.foldl min k

/-- stable insertion by `minKey` (`sorted(partitions, key=min)`) -/
def insertRes (m : Mol) (r : Nat) : List Nat → List Nat
  | [] => [r]
  | x :: xs => if minKey m r ≤ minKey m x then r :: x :: xs else x :: insertRes m r xs

/-- residue identities in the order in which `iter_residues` yields them -/
def residues (m : Mol) : List Nat := (resIds m).foldr (insertRes m) []

/-! ## assignment -/

inductive Err where
  | valueerror   -- length mismatch / nothing selected / incomplete annotation
  | keyerror     -- class not in SS_CG
  deriving Repr, DecidableEq

/-- `for node_name in residue_nodes: molecule.nodes[node_name][attribute] = value` -/
def setRes (r v : Nat) (m : Mol) : Mol :=
  m.map fun a => if a.res = r then { a with val := some v } else a

/-- Python `sequence * n` -/
def repeatSeq (seq : List Nat) (n : Nat) : List Nat := (List.replicate n seq).flatten

def assign (m : Mol) (pairs : List (Nat × Nat)) : Mol :=
  pairs.foldl (fun m p => setRes p.1 p.2 m) m

/-- `annotate_residues_from_sequence` -/
def annotateMol (m : Mol) (seq : List Nat) : Except Err Mol :=
  let rs := residues m
  if seq.length = 1 then .ok (assign m (rs.zip (repeatSeq seq rs.length)))
  else if seq.length ≠ rs.length then .error .valueerror
  else .ok (assign m (rs.zip seq))

/-- Python `sequence[b:e]` for `0 ≤ b`, `0 ≤ e` -/
def slice (seq : List Nat) (b e : Nat) : List Nat := (seq.drop b).take (e - b)

/-- `utils.are_all_equal` -/
def allEqual : List Nat → Bool
  | [] => true
  | x :: xs => xs.all (fun y => y == x)

/-- The length reconciliation at the top of `run_system`; `lengths` are the residue counts of the
selected molecules. -/
def reconcile (lengths : List Nat) (seq : List Nat) : Except Err (List Nat) :=
  if !seq.isEmpty && lengths.isEmpty then .error .valueerror
  else if !lengths.isEmpty && seq.length == lengths.headD 0 && allEqual lengths then
    .ok (repeatSeq seq lengths.length)
  else if seq.length == 1 then .ok (repeatSeq seq lengths.sum)
  else if seq.length != lengths.sum then .error .valueerror
  else .ok seq

abbrev Sys := List (Bool × Mol)

/-- indices of the selected molecules, in system order -/
def selectedIdx (sys : Sys) : List Nat :=
  (List.range sys.length).filter fun i => (sys[i]?.map (·.1)).getD false

def selLengths (sys : Sys) : List Nat :=
  (sys.filter (·.1)).map fun p => (residues p.2).length

/-- state of the annotation loop: `begin`, `end`, the system -/
structure LoopState where
  b : Nat
  e : Nat
  sys : Sys

/-- one iteration of `for molecule, nres in zip(selected_molecules, molecule_lengths)` -/
def loopStep (sequence : List Nat) (st : Except Err LoopState) (p : Nat × Nat) : Except Err LoopState :=
  match st with
  | .error e => .error e
  | .ok st =>
    match st.sys[p.1]? with
    | none => .ok st
    | some (sel, m) =>
      let e := st.e + p.2
      match annotateMol m (slice sequence st.b e) with
      | .error err => .error err
      | .ok m' => .ok { b := st.b + p.2, e := e, sys := st.sys.set p.1 (sel, m') }

/-- `AnnotateResidues.run_system` -/
def annotateSystem (sys : Sys) (seq : List Nat) : Except Err Sys :=
  let lengths := selLengths sys
  match reconcile lengths seq with
  | .error e => .error e
  | .ok sequence =>
    match ((selectedIdx sys).zip lengths).foldl (loopStep sequence) (.ok { b := 0, e := 0, sys := sys }) with
    | .error e => .error e
    | .ok st => .ok st.sys

/-! ### the processor object and histories of applications

`AnnotateResidues` is an object configured with `sequence`; `run_system` and `run_molecule` only
read `self.sequence` (the reconciled/repeated sequence lives in a local variable).  The state of
the processor is modelled explicitly so that "a second application behaves like a fresh
processor" is a statement about the model (`processor_stateless`). -/

structure Proc where
  sequence : List Nat
  deriving Repr, DecidableEq

/-- one application of a processor: `run_system` on a system, or `run_molecule` on one molecule
(with the value of the selector on it) -/
inductive Op where
  | system (sys : Sys)
  | molecule (sel : Bool) (m : Mol)

inductive Res where
  | system (r : Except Err Sys)
  | molecule (r : Except Err Mol)

/-- `AnnotateResidues.run_molecule` -/
def runMolecule (seq : List Nat) (sel : Bool) (m : Mol) : Except Err Mol :=
  if sel then annotateMol m seq else .ok m

/-- what a freshly constructed processor with configuration `seq` does -/
def freshApply (seq : List Nat) : Op → Res
  | .system sys => .system (annotateSystem sys seq)
  | .molecule sel m => .molecule (runMolecule seq sel m)

/-- one application: new processor state and result.  The code assigns nothing to `self`. -/
def procStep (p : Proc) (op : Op) : Proc × Res := (p, freshApply p.sequence op)

/-- the same processor object applied to a list of systems / molecules in a row -/
def runHistory (p : Proc) : List Op → List Res
  | [] => []
  | op :: ops => (procStep p op).2 :: runHistory (procStep p op).1 ops

/-- The unrepaired loop (`zip(system.molecules, molecule_lengths)`), kept to state finding F-C17-1. -/
def annotateSystemOld (sys : Sys) (seq : List Nat) : Except Err Sys :=
  let lengths := selLengths sys
  match reconcile lengths seq with
  | .error e => .error e
  | .ok sequence =>
    match ((List.range sys.length).zip lengths).foldl (loopStep sequence) (.ok { b := 0, e := 0, sys := sys }) with
    | .error e => .error e
    | .ok st => .ok st.sys

/-! ## DSSP → Martini -/

def lookup (tbl : List (Char × Char)) (c : Char) : Option Char :=
  match tbl with
  | [] => none
  | (k, v) :: rest => if k = c then some v else lookup rest c

/-- `pattern in s` -/
def occurs (pat : List Char) : List Char → Bool
  | [] => pat.isEmpty
  | c :: cs => pat.isPrefixOf (c :: cs) || occurs pat cs

/-- Python `s.replace(pat, rep)` for a non-empty `pat`: scan from the left, replace every
occurrence found, continue after the replaced text (non-overlapping). -/
def replaceAll (pat rep : List Char) : List Char → List Char
  | [] => []
  | c :: cs =>
    if h : pat ≠ [] ∧ pat.isPrefixOf (c :: cs) = true then
      rep ++ replaceAll pat rep ((c :: cs).drop pat.length)
    else c :: replaceAll pat rep cs
termination_by s => s.length
decreasing_by
  · have : 0 < pat.length := List.length_pos_iff.mpr h.1
    simp only [List.length_drop, List.length_cons]; omega
  · simp

/-- `while pat in s: s = s.replace(pat, rep)`; the fuel is shown never to run out for the
extracted table (`C17.whileReplace_done`). -/
def whileReplace (pat rep : List Char) : Nat → List Char → List Char
  | 0, s => s
  | fuel + 1, s => if occurs pat s then whileReplace pat rep fuel (replaceAll pat rep s) else s

def wildOf (cg : List Char) : List Char := cg.map fun c => if c = 'H' then 'H' else '.'

def applyPatterns (pats : List (List Char × List Char)) (w : List Char) : List Char :=
  pats.foldl (fun w p => whileReplace p.1 p.2 (w.length + 1) w) w

def mergeWild (w cg : List Char) : List Char :=
  List.zipWith (fun wc c => if wc ≠ '.' then wc else c) w cg

/-- `convert_dssp_to_martini`, as written -/
def convertImpl (tbl : List (Char × Char)) (pats : List (List Char × List Char)) (s : List Char) :
    Option (List Char) :=
  match s.mapM (lookup tbl) with
  | none => none
  | some cg =>
    let w := applyPatterns pats ('.' :: wildOf cg ++ ['.'])
    some (mergeWild (w.drop 1).dropLast cg)

/-- what a maximal helix run of length `L` becomes -/
def specRun (L : Nat) : List Char :=
  if L ≤ 4 then List.replicate L '3'
  else if L = 5 then ['1', '3', '3', '3', '2']
  else if L = 6 then ['1', '1', '3', '3', '2', '2']
  else if L = 7 then ['1', '1', '1', '3', '2', '2', '2']
  else List.replicate 4 '1' ++ List.replicate (L - 8) 'H' ++ List.replicate 4 '2'

def hRun (n : Nat) : List Char := List.replicate n 'H'

/-- the table the doc-string of `convert_dssp_to_martini` describes -/
def documentedSsCg : List (Char × Char) :=
  [('1', 'H'), ('2', 'H'), ('3', 'H'), ('H', 'H'), ('G', 'H'), ('I', 'H'),
   ('B', 'E'), ('E', 'E'), ('T', 'T'), ('S', 'S'), ('C', 'C')]

/-- the helix pattern table the doc-string describes: isolated runs of 1..7 (rewritten whole by
`specRun`), then the start and the end of every longer run -/
def documentedPatterns : List (List Char × List Char) :=
  ((List.range 7).map fun i => ('.' :: hRun (i + 1) ++ ['.'], '.' :: specRun (i + 1) ++ ['.']))
  ++ [('.' :: hRun 4, '.' :: List.replicate 4 '1'), (hRun 4 ++ ['.'], List.replicate 4 '2' ++ ['.'])]

def countH (s : List Char) : Nat := s.count 'H'

/-- run-based rewriting of a coarse-grained class string; `n` = length of the helix run that
ends just before the current position -/
def rewriteRuns : Nat → List Char → List Char
  | n, [] => specRun n
  | n, c :: cs => if c = 'H' then rewriteRuns (n + 1) cs else specRun n ++ c :: rewriteRuns 0 cs

/-- the documented rule: classes by the table, then every maximal helix run by `specRun` -/
def convertSpec (tbl : List (Char × Char)) (s : List Char) : Option (List Char) :=
  match s.mapM (lookup tbl) with
  | none => none
  | some cg => some (rewriteRuns 0 cg)

/-! ## `convert_dssp_annotation_to_martini` -/

/-- value of the attribute on the first node of every residue (`sequence_from_residues`; the
harness only sends molecules whose residues are uniform in the attribute) -/
def seqFromResidues (m : Mol) : List (Option Nat) :=
  (residues m).map fun r => ((m.filter (fun a => a.res == r)).head?.bind (·.val))

def charOf (n : Nat) : Char := Char.ofNat n

/-- Result = the molecule whose `val` is the *target* attribute (absent before). -/
def convertAnnotation (tbl : List (Char × Char)) (pats : List (List Char × List Char)) (m : Mol) :
    Except Err Mol :=
  let ds := seqFromResidues m
  let blank : Mol := m.map fun a => { a with val := none }
  if ds.all Option.isSome then
    match convertImpl tbl pats (ds.map fun o => charOf (o.getD 0)) with
    | none => .error .keyerror
    | some cg => annotateMol blank (cg.map Char.toNat)
  else if ds.all Option.isNone then .ok blank
  else .error .valueerror

end C17
