import VermouthModel.Proto
/-
C19 — model of `vermouth/processors/annotate_mut_mod.py` (as repaired by the
`fix:` commit for F-C19-1): the residue-specification parser, its inverse
`_format_resname`, the residue matcher including the `nter`/`cter` rule, the
marking of atoms and the per-specification report of `AnnotateMutMod.run_system`.

Strings are `List Char` (the code works character-wise; the harness sends ASCII
only, where `str.isdigit` is `'0'..'9'`).  A residue is identified by the tuple
`(chain, resid, resname, insertion_code)` exactly as `make_residue_graph` does;
the residue graph is not materialised, its neighbour relation is computed from
the atom edges.  The order in which residues are visited is not observable
(each atom belongs to one residue and gets each request at most once), so the
model visits atoms in node order.
-/
namespace C19

abbrev Str := List Char

/-! ### characters and integers -/

def isDigit (c : Char) : Bool := '0' ≤ c && c ≤ '9'

def digitVal (c : Char) : Nat := c.toNat - 48

/-- value of a string of digits; characters that are not digits (the `_` separators accepted
by Python's `int`) are skipped -/
def digitsVal (cs : List Char) : Nat :=
  cs.foldl (fun acc c => if isDigit c then acc * 10 + digitVal c else acc) 0

/-- what may follow a digit in the argument of `int`: nothing, a digit, or `_` and a digit -/
def validRest : List Char → Bool
  | [] => true
  | c :: rest =>
    if c = '_' then
      match rest with
      | [] => false
      | d :: rest' => isDigit d && validRest rest'
    else isDigit c && validRest rest

def validDigits : List Char → Bool
  | [] => false
  | c :: rest => isDigit c && validRest rest

def isWs (c : Char) : Bool :=
  c = ' ' || c = '\t' || c = '\n' || c = '\r' || c = '\x0b' || c = '\x0c'

def stripWs (cs : List Char) : List Char :=
  ((cs.dropWhile isWs).reverse.dropWhile isWs).reverse

/-- Python's `int(str)` on ASCII input: optional surrounding whitespace, optional sign,
decimal digits with single underscores between digits. -/
def pyInt (s : List Char) : Option Int :=
  match stripWs s with
  | [] => none
  | c :: ds =>
    if c = '-' then (if validDigits ds then some (-(digitsVal ds : Int)) else none)
    else if c = '+' then (if validDigits ds then some (digitsVal ds : Int) else none)
    else if validDigits (c :: ds) then some (digitsVal (c :: ds) : Int) else none

def digitChar : Nat → Char
  | 0 => '0' | 1 => '1' | 2 => '2' | 3 => '3' | 4 => '4'
  | 5 => '5' | 6 => '6' | 7 => '7' | 8 => '8' | _ => '9'

/-- decimal digits of a natural number, most significant first (`str(n)`) -/
def natDigitsAux : Nat → Nat → List Char → List Char
  | 0, _, acc => acc
  | fuel + 1, n, acc =>
    let d := digitChar (n % 10)
    if n < 10 then d :: acc else natDigitsAux fuel (n / 10) (d :: acc)

def natDigits (n : Nat) : List Char := natDigitsAux (n + 1) n []

/-- `str(i)` for a Python int -/
def intStr (i : Int) : List Char :=
  if i < 0 then '-' :: natDigits i.natAbs else natDigits i.natAbs

/-! ### the specification parser -/

structure Spec where
  chain   : Option Str
  resname : Option Str
  resid   : Option Int
  icode   : Option Str      -- never produced by the parser; the matcher honours it
  deriving Repr, DecidableEq, Inhabited

inductive ParseResult where
  | ok (s : Spec)
  | valueError
  deriving Repr, DecidableEq

/-- split at the first occurrence of `c` -/
def splitFirst (c : Char) : List Char → Option (List Char × List Char)
  | [] => none
  | x :: xs =>
    if x = c then some ([], xs)
    else match splitFirst c xs with
      | some (a, b) => some (x :: a, b)
      | none => none

/-- split at the last occurrence of `c` -/
def splitLast (c : Char) (cs : List Char) : Option (List Char × List Char) :=
  match splitFirst c cs.reverse with
  | some (a, b) => some (b.reverse, a.reverse)
  | none => none

/-- the maximal suffix of digits and what is before it -/
def digitSuffix (cs : List Char) : List Char := (cs.reverse.takeWhile isDigit).reverse
def beforeDigits (cs : List Char) : List Char := (cs.reverse.dropWhile isDigit).reverse

def nonEmpty (s : Str) : Option Str := if s.isEmpty then none else some s

/-- last step of `parse_residue_spec`: build the dictionary from the three pieces -/
def assemble (chain : Option Str) (name idstr : Str) : ParseResult :=
  if idstr.isEmpty then .ok { chain := chain, resname := nonEmpty name, resid := none, icode := none }
  else match pyInt idstr with
    | some i => .ok { chain := chain, resname := nonEmpty name, resid := some i, icode := none }
    | none => .valueError

/-- second half of `parse_residue_spec`: the part after the chain separator -/
def parseRes (chain : Option Str) (res : Str) : ParseResult :=
  match splitLast '#' res with
  | some (name, idstr) => assemble chain name idstr
  | none => assemble chain (beforeDigits res) (digitSuffix res)

/-- `parse_residue_spec` -/
def parseSpec (s : Str) : ParseResult :=
  match splitFirst '-' s with
  | some (c, r) => parseRes (some c) r
  | none => parseRes none s

def endsInDigit (s : Str) : Bool :=
  match s.reverse with
  | [] => false
  | c :: _ => isDigit c

/-- `str(res.get('resid', ''))` -/
def residText : Option Int → Str
  | some i => intStr i
  | none => []

/-- `_format_resname` -/
def formatSpec (s : Spec) : Str :=
  let chain := s.chain.getD []
  let p1 := if chain.isEmpty then [] else chain ++ ['-']
  let name := s.resname.getD []
  let p2 := if endsInDigit name then ['#'] else []
  let p3 := residText s.resid
  p1 ++ name ++ p2 ++ p3 ++ s.icode.getD []

/-! ### molecules, residues, the matcher -/

structure ResKey where
  chain   : Option Str
  resid   : Option Int
  resname : Option Str
  icode   : Option Str
  deriving Repr, DecidableEq, Inhabited

structure Atom where
  key   : Int
  res   : ResKey
  mods  : List Str      -- the 'modification' attribute (absent = [])
  muts  : List Str      -- the 'mutation' attribute (absent = [])
  deriving Repr, DecidableEq, Inhabited

structure Mol where
  atoms : List Atom
  edges : List (Int × Int)
  deriving Repr, DecidableEq, Inhabited

def resOf (m : Mol) (k : Int) : Option ResKey :=
  (m.atoms.find? (fun a => a.key = k)).map (·.res)

/-- residue at the other end of an atom edge that leaves residue `r` -/
def edgeNeighbour (m : Mol) (r : ResKey) (e : Int × Int) : Option ResKey :=
  match resOf m e.1, resOf m e.2 with
  | some a, some b =>
    if a = r ∧ b ≠ r then some b
    else if b = r ∧ a ≠ r then some a
    else none
  | _, _ => none

/-- the neighbours of residue `r` in the residue graph (distinct) -/
def neighbours (m : Mol) (r : ResKey) : List ResKey :=
  (m.edges.filterMap (edgeNeighbour m r)).eraseDups

def optAgrees {α} [DecidableEq α] (want : Option α) (have_ : Option α) : Bool :=
  match want with
  | none => true
  | some v => have_ = some v

/-- `_subdict(resspec, residue)` -/
def subdict (s : Spec) (r : ResKey) : Bool :=
  optAgrees s.chain r.chain && optAgrees s.resid r.resid &&
  optAgrees s.resname r.resname && optAgrees s.icode r.icode

def nter : Str := "nter".toList
def cter : Str := "cter".toList

def isTerminalName (n : Option Str) : Bool := n = some nter || n = some cter

def isProtein (protein : List Str) (r : ResKey) : Bool :=
  match r.resname with
  | some n => protein.contains n
  | none => false

/-- `_terminal_matches` (the name is `nter` or `cter`; `nb` is the single neighbour) -/
def terminalMatches (protein : List Str) (name : Option Str) (r nb : ResKey) : Bool :=
  let resid := r.resid.getD 0
  let nresid := nb.resid.getD 0
  if !isProtein protein r then false
  else if name = some nter then decide (resid < nresid)
  else decide (resid > nresid)

/-- `residue_matches` -/
def residueMatches (protein : List Str) (s : Spec) (m : Mol) (r : ResKey) : Bool :=
  match neighbours m r with
  | [nb] =>
    if isTerminalName s.resname then
      if !terminalMatches protein s.resname r nb then false
      else subdict { s with resname := none, resid := none } r
    else subdict s r
  | _ => subdict s r

/-! ### marking -/

inductive Kind where
  | modification
  | mutation
  deriving Repr, DecidableEq, Inhabited

structure Request where
  spec   : Spec
  target : Str
  deriving Repr, DecidableEq, Inhabited

structure Count where
  success : Bool
  kind    : Kind
  index   : Nat
  mutmod  : Str
  post    : Str
  deriving Repr, DecidableEq, Inhabited

inductive Err where
  | nameError (kind : Kind) (target : Str)   -- unknown block / modification
  | keyError                                 -- molecule without atoms: `residue_graph.nodes[0]`
  deriving Repr, DecidableEq, Inhabited

structure Lib where
  protein       : List Str   -- PROTEIN_RESIDUES
  modifications : List Str   -- names of force_field.modifications
  blocks        : List Str   -- names of force_field.blocks
  deriving Repr, Inhabited

def Lib.known (lib : Lib) (k : Kind) (t : Str) : Bool :=
  t = "none".toList ||
  match k with
  | .modification => lib.modifications.contains t
  | .mutation => lib.blocks.contains t

def addMark (k : Kind) (t : Str) (a : Atom) : Atom :=
  match k with
  | .modification => { a with mods := a.mods ++ [t] }
  | .mutation => { a with muts := a.muts ++ [t] }

/-- does the request match any residue of `m` (residues = residue tuples of the atoms) -/
def matchesAny (lib : Lib) (s : Spec) (m : Mol) : Bool :=
  m.atoms.any (fun a => residueMatches lib.protein s m a.res)

/-- the marking loop of `_resiter`: every atom of every matching residue gets the target appended -/
def markAll (lib : Lib) (m0 : Mol) (k : Kind) (rq : Request) (atoms : List Atom) : List Atom :=
  atoms.map (fun a => if residueMatches lib.protein rq.spec m0 a.res then addMark k rq.target a else a)

/-- `_resiter` for one request; `m0` is the molecule the residue graph was built from,
`atoms` the current (partly marked) atoms.  The NameError is raised at the first matching
residue, before anything is marked for this request. -/
def resiter (lib : Lib) (m0 : Mol) (k : Kind) (rq : Request) (atoms : List Atom) :
    Except Err (List Atom × Bool) :=
  if matchesAny lib rq.spec m0 && !lib.known k rq.target then .error (.nameError k rq.target)
  else .ok (markAll lib m0 k rq atoms, matchesAny lib rq.spec m0)

structure MolState where
  atoms  : List Atom
  counts : List Count
  err    : Option Err
  deriving Repr, Inhabited

/-- the loop over the requests of one kind -/
def runKind (lib : Lib) (m0 : Mol) (k : Kind) : List Request → Nat → MolState → MolState
  | [], _, st => st
  | rq :: rest, idx, st =>
    match st.err with
    | some _ => st
    | none =>
      match resiter lib m0 k rq st.atoms with
      | .ok (atoms, found) =>
        runKind lib m0 k rest (idx + 1)
          { atoms := atoms,
            counts := st.counts ++ [{ success := found, kind := k, index := idx,
                                      mutmod := formatSpec rq.spec, post := rq.target }],
            err := none }
      | .error e => { st with err := some e }

/-- `annotate_modifications` -/
def annotateMol (lib : Lib) (mods muts : List Request) (m : Mol) (counts : List Count) : MolState :=
  if mods.isEmpty && muts.isEmpty then { atoms := m.atoms, counts := counts, err := none }
  else if m.atoms.isEmpty then { atoms := m.atoms, counts := counts, err := some .keyError }
  else
    let st1 := runKind lib m .modification mods 0 { atoms := m.atoms, counts := counts, err := none }
    runKind lib m .mutation muts 0 st1

structure SysState where
  mols   : List Mol          -- molecules seen so far (marked), then the untouched rest
  counts : List Count
  err    : Option Err
  deriving Repr, Inhabited

/-- `Processor.run_system`: molecules in order, stops at the first exception -/
def runMols (lib : Lib) (mods muts : List Request) : List Mol → List Count → SysState
  | [], counts => { mols := [], counts := counts, err := none }
  | m :: rest, counts =>
    let st := annotateMol lib mods muts m counts
    match st.err with
    | some e => { mols := { m with atoms := st.atoms } :: rest, counts := st.counts, err := some e }
    | none =>
      let r := runMols lib mods muts rest st.counts
      { r with mols := { m with atoms := st.atoms } :: r.mols }

/-! ### the report of `AnnotateMutMod.run_system` -/

abbrev SpecId := Kind × Nat

def Count.id (c : Count) : SpecId := (c.kind, c.index)

/-- `found[spec] = found.get(spec, False) or count['success']` after the first loop -/
def foundAnywhere (counts : List Count) (id : SpecId) : Bool :=
  counts.any (fun c => c.id = id && c.success)

structure Report where
  mutmod : Str
  kind   : Kind
  post   : Str
  deriving Repr, DecidableEq, Inhabited

/-- the second loop: one warning per specification that was found nowhere, in the order of
first appearance in the bookkeeping list -/
def reportLoop (all : List Count) : List Count → List SpecId → List Report
  | [], _ => []
  | c :: rest, reported =>
    if !foundAnywhere all c.id && !reported.contains c.id then
      { mutmod := c.mutmod, kind := c.kind, post := c.post } :: reportLoop all rest (c.id :: reported)
    else reportLoop all rest reported

def report (counts : List Count) : List Report := reportLoop counts counts []

structure Result where
  mols    : List Mol
  reports : List Report
  err     : Option Err
  deriving Repr, Inhabited

/-- `AnnotateMutMod(modifications, mutations).run_system(system)` with already parsed requests -/
def runSystem (lib : Lib) (mods muts : List Request) (mols : List Mol) : Result :=
  let st := runMols lib mods muts mols []
  match st.err with
  | some e => { mols := st.mols, reports := [], err := some e }
  | none => { mols := st.mols, reports := report st.counts, err := none }

/-! ### a processor object that is used more than once

`AnnotateMutMod` keeps the bookkeeping list on the object (`self.resspec_counts`).  `run_system`
starts by emptying it (fix ed8f8af); `run_molecule` appends to whatever is there. -/

structure Proc where
  mods   : List Request
  muts   : List Request
  counts : List Count
  deriving Repr, Inhabited

inductive Op where
  | system (mols : List Mol)
  | molecule (m : Mol)
  deriving Repr, Inhabited

inductive OpResult where
  | system (r : Result)
  | molecule (atoms : List Atom) (err : Option Err)
  deriving Repr, Inhabited

def resultOf (st : SysState) : Result :=
  match st.err with
  | some e => { mols := st.mols, reports := [], err := some e }
  | none => { mols := st.mols, reports := report st.counts, err := none }

/-- one call on the processor; `reset = true` is the code as fixed, `false` the code before
ed8f8af (the list is never emptied) -/
def procStepGen (reset : Bool) (lib : Lib) (p : Proc) : Op → Proc × OpResult
  | .system mols =>
    let st := runMols lib p.mods p.muts mols (if reset then [] else p.counts)
    ({ p with counts := st.counts }, .system (resultOf st))
  | .molecule m =>
    let st := annotateMol lib p.mods p.muts m p.counts
    ({ p with counts := st.counts }, .molecule st.atoms st.err)

def procStep := procStepGen true

def runHistoryGen (reset : Bool) (lib : Lib) : Proc → List Op → List OpResult
  | _, [] => []
  | p, op :: rest =>
    let r := procStepGen reset lib p op
    r.2 :: runHistoryGen reset lib r.1 rest

def runHistory := runHistoryGen true

/-- what a freshly constructed processor with the same requests answers -/
def freshApply (lib : Lib) (mods muts : List Request) (op : Op) : OpResult :=
  (procStep lib { mods := mods, muts := muts, counts := [] } op).2

/-! ### the constructor: parsing the request strings -/

/-- `AnnotateMutMod.__init__`: every specification string is parsed; the first one that
cannot be parsed raises ValueError. -/
def parseRequests : List (Str × Str) → Option (List Request)
  | [] => some []
  | (s, t) :: rest =>
    match parseSpec s with
    | .ok sp =>
      match parseRequests rest with
      | some l => some ({ spec := sp, target := t } :: l)
      | none => none
    | .valueError => none

/-! ### command line assembly (`bin/martinize2`) -/

/-- `"cter" in resspec` on strings -/
def isInfixOf (pat : Str) : Str → Bool
  | [] => pat.isEmpty
  | c :: cs => pat.isPrefixOf (c :: cs) || isInfixOf pat cs

/-- what `entry()` passes as `modifications`: with `-nt` the neutral termini are appended,
otherwise the charged ones unless some given specification mentions `cter` / `nter`. -/
def cliModifications (nt : Bool) (given : List (Str × Str)) : List (Str × Str) :=
  if nt then given ++ [(cter, "COOH-ter".toList), (nter, "NH2-ter".toList)]
  else
    let g1 := if given.any (fun p => isInfixOf cter p.1) then given else given ++ [(cter, "C-ter".toList)]
    if given.any (fun p => isInfixOf nter p.1) then g1 else g1 ++ [(nter, "N-ter".toList)]

end C19
