import VermouthModel.Proto
import VermouthModel.Iso
/-
C06 — what the driver answers for the four kinds of query of harness/c06.py.
The REFERENCE of the property is the shared library `Iso` (DESIGN 4.1, 5.6); the TRANSCRIPTION of
the ISMAGS search core is `C06_Ismags.lean` (its answers are rendered in `Drivers/C06.lean`).
This file only fixes the canonical rendering of the reference answers:

* `iso g sg`            all induced subgraph isomorphisms (symmetry off): sorted list of maps,
                        a map = the target nodes in pattern-node order;
* `sym g sg out`        symmetry on: number of classes of the full answer, and whether `out`
                        (what the real code returned) has exactly one representative per class;
* `lcs g sg`            size of the maximum common induced subgraph and all of them (partial maps
                        as sorted lists of `[p t]` pairs);
* `subiso g sg`, `isiso g sg`  the boolean questions `subgraph_is_isomorphic` / `is_isomorphic`;
* `lcssym g sg out`     the size, and whether `out` is sound and covers every maximum common
                        induced subgraph up to a symmetry of the pattern.
-/
namespace C06
open Proto Iso

def lexLe : List Int → List Int → Bool
  | [], _ => true
  | _ :: _, [] => false
  | a :: as, b :: bs => a < b || (a == b && lexLe as bs)

def flat (m : Map) : List Int := m.flatMap fun p => [p.1, p.2]

def sortMaps (l : List Map) : List Map := l.mergeSort (fun a b => lexLe (flat a) (flat b))

def encTotal (m : Map) : String := encList (m.map fun p => encInt p.2)
def encPartial (m : Map) : String := encList (m.map fun p => encList [encInt p.1, encInt p.2])

/-- a map given as the list of target nodes in pattern-node order -/
def totalOf (sg : Graph) (ts : List Int) : Map := sg.keys.zip ts

def answerIso (g sg : Graph) : String :=
  encList ((sortMaps (allIsos g sg)).map encTotal)

def answerSym (g sg : Graph) (out : List Map) : String :=
  let full := allIsos g sg
  let A := auts sg
  let eq := autEquivWith A sg.keys
  let sub := out.all (fun m => full.contains m)
  let distinct := pairwiseB (fun m m' => m != m' && !(eq m m') && !(eq m' m)) out
  let cover := full.all (fun f => out.any (fun m => eq m f))
  let n := (classRepsWith A sg.keys full []).length
  if oneRepPerClass sg out full then "classes=" ++ encNat n ++ " ok"
  else "classes=" ++ encNat n ++ " bad sub=" ++ encBool sub ++ " distinct=" ++ encBool distinct
        ++ " cover=" ++ encBool cover ++ " aut=" ++ encNat A.length

def answerLcs (g sg : Graph) : String :=
  encNat (mcisSize g sg) ++ " " ++ encList ((sortMaps (allMCIS g sg)).map encPartial)

def answerLcsSym (g sg : Graph) (out : List Map) : String :=
  let full := allMCIS g sg
  let k := mcisSize g sg
  if coversUpToAut sg out full then "size=" ++ encNat k ++ " ok"
  else
    let sub := out.all (fun m => full.contains m)
    "size=" ++ encNat k ++ " bad sub=" ++ encBool sub

/-- `subgraph_is_isomorphic`: is there an induced subgraph isomorphism at all? -/
def answerSubIso (g sg : Graph) : String := encBool (!(allIsos g sg).isEmpty)

/-- `is_isomorphic`: same number of nodes and an induced subgraph isomorphism exists -/
def answerIsIso (g sg : Graph) : String :=
  encBool (g.keys.length == sg.keys.length && !(allIsos g sg).isEmpty)

end C06
