import VermouthModel.C13_Reader
/-
C13 — model of the backward-style `.map` reader
(`vermouth.map_input.read_backmapping_file`, `_read_mapping_partial`, `make_mapping_object`,
`_block_names_to_idxs`; weights through `computeWeights` of `C13.lean`).

The force-field library is an input: per force field, per block, the node keys with their atom names
in node order.  Every exception of the real reader is the result `none`.
-/
namespace C13.Backmap
open C13

/-- `line.split(';', 1)[0].strip()` -/
def clean (l : String) : String := String.ofList (stripComment l.toList)

def isHeaderLike (c : String) : Bool := c.toList.head? = some '['
def isHeader (c : String) : Bool := c.toList.head? = some '[' && c.toList.getLast? = some ']'

/-- `cleaned[1:-1].strip()` -/
def headerName (c : String) : String :=
  String.ofList (stripChars isWs ((c.toList.drop 1).dropLast))

/-- what `_read_mapping_partial` accumulates for one `[ molecule ]` -/
structure Mol where
  name : Option String := none
  fromFF : List String := []
  toFF : List String := []
  /-- `mapping[from_atom] = to_atoms`, insertion order (keys are distinct: a repeated key is an error) -/
  mapping : List (String × List String) := []
  extra : List String := []
  deriving Repr, DecidableEq, Inhabited

structure PSt where
  mol : Mol := {}
  context : String := "molecule"
  hasContent : Bool := false
  deriving Repr, Inhabited

/-- one non-empty cleaned line that is not a `[ molecule ]` header; `none` = IOError / ValueError -/
def partialStep (s : PSt) (c : String) : Option PSt :=
  if isHeaderLike c then
    if !isHeader c then none
    else some { s with context := headerName c, hasContent := true }
  else if s.context = "molecule" then
    match s.mol.name with
    | none => some { s with mol := { s.mol with name := some c }, hasContent := true }
    | some _ => none
  else if s.context = "atoms" then
    match splitWs c with
    | _ :: fromAtom :: toAtoms =>
      if s.mol.mapping.any (fun e => e.1 = fromAtom) then none
      else some { s with mol := { s.mol with mapping := s.mol.mapping ++ [(fromAtom, toAtoms)] }, hasContent := true }
    | _ => none
  else if s.context = "from" || s.context = "mapping" then
    some { s with mol := { s.mol with fromFF := s.mol.fromFF ++ splitWs c }, hasContent := true }
  else if s.context = "to" then
    some { s with mol := { s.mol with toFF := s.mol.toFF ++ splitWs c }, hasContent := true }
  else if s.context = "extra" then
    some { s with mol := { s.mol with extra := s.mol.extra ++ splitWs c }, hasContent := true }
  else some { s with hasContent := true }

/-- the end of `_read_mapping_partial`: a molecule without a name is an error unless nothing but the
initial context was seen; defaults for the force fields -/
def partialFinish (s : PSt) : Option Mol :=
  if s.mol.name.isNone && s.context != "molecule" then none
  -- `_compute_weights(mapping, name)` is called (and may raise) whatever the name
  else if (computeWeights s.mol.mapping).isNone then none
  else some { s.mol with
    fromFF := if s.mol.fromFF.isEmpty then ["universal"] else s.mol.fromFF,
    toFF := if s.mol.toFF.isEmpty then ["martini22"] else s.mol.toFF }

/-- `_read_mapping_partial` + the `while True` loop of `read_backmapping_file` on the lines that
follow the first `[ molecule ]` header: the list of molecules read (a result without a name ends
the loop and is dropped). `none` = an exception while reading. -/
def readMols : PSt → List String → Option (List Mol)
  | s, [] =>
    match partialFinish s with
    | none => none
    | some m => if m.name.isNone then some [] else some [m]
  | s, l :: rest =>
    let c := clean l
    if c.isEmpty then readMols s rest
    else if isHeader c && headerName c = "molecule" then
      if !s.hasContent then none
      else
        -- the loop `break`s with context = 'molecule'
        match partialFinish { s with context := "molecule" } with
        | none => none
        | some m =>
          if m.name.isNone then some []      -- `if name is None: break`: the rest of the file is not read
          else (readMols {} rest).map fun ms => m :: ms
    else
      match partialStep s c with
      | none => none
      | some s' => readMols s' rest

/-- "Throw away everything before [ molecule ]" -/
def skipToMolecule : List String → Option (List String)
  | [] => none
  | l :: rest =>
    let c := clean l
    if isHeader c && headerName c = "molecule" then some rest else skipToMolecule rest

def parseMols (lines : List String) : Option (List Mol) :=
  match skipToMolecule lines with
  | none => none
  | some rest => readMols {} rest

/-! ### building the mapping objects -/

abbrev Block := List (String × String)                  -- node key (rendered as text), atomname (node order)
abbrev Library := List (String × List (String × Block))   -- force field -> block name -> nodes

def findBlock (lib : Library) (ff name : String) : Option Block :=
  match lib.find? (fun e => e.1 = ff) with
  | none => none
  | some (_, blocks) => (blocks.find? (fun b => b.1 = name)).map (·.2)

/-- `_block_names_to_idxs`: a dict comprehension, the last node with a name wins -/
def nameToIdx (b : Block) (atom : String) : Option String :=
  (b.reverse.find? (fun n => n.2 = atom)).map (·.1)

def stripNull (t : String) : String := if isNullTarget t then stripBang t else t

/-- `make_mapping_object`: `map_dict[idx_from][idx_to] = weight`; outer `none` = KeyError
(a target atom that is not in the target block, or a missing weight) -/
def molEntries (fromB toB : Block) (m : Mol) (w : List (String × String × Frac)) :
    Option (List ((String × String) × Frac)) :=
  m.mapping.foldlM (fun acc e =>
    e.2.foldlM (fun acc t =>
      let to_ := stripNull t
      match lookupWeight w to_ e.1 with
      | none => none
      | some fr =>
        match nameToIdx fromB e.1 with
        | none => some acc
        | some i =>
          match nameToIdx toB to_ with
          | none => none
          | some j => some (dictSet acc (i, j) fr)) acc) []

structure Out where
  fromFF : String
  toFF : String
  name : String
  entries : List ((String × String) × Frac)
  extra : List String

/-- `mappings[from_ff][to_ff][name] = map_obj` on nested insertion-ordered dicts, flattened in
iteration order -/
def setOut (outs : List (String × List (String × List (String × Out)))) (o : Out) :
    List (String × List (String × List (String × Out))) :=
  let inner1 := ((outs.find? (fun e => e.1 = o.fromFF)).map (·.2)).getD []
  let inner2 := ((inner1.find? (fun e => e.1 = o.toFF)).map (·.2)).getD []
  dictSet outs o.fromFF (dictSet inner1 o.toFF (dictSet inner2 o.name o))

def pairs (a b : List String) : List (String × String) := a.flatMap fun x => b.map fun y => (x, y)

def addMol (lib : Library) (outs : List (String × List (String × List (String × Out)))) (m : Mol) :
    Option (List (String × List (String × List (String × Out)))) := do
  let name ← m.name
  let w ← computeWeights m.mapping
  (pairs m.fromFF m.toFF).foldlM (fun acc (f, t) =>
    match findBlock lib f name, findBlock lib t name with
    | some fb, some tb =>
      match molEntries fb tb m w with
      | none => none
      | some es => some (setOut acc { fromFF := f, toFF := t, name := name, entries := es, extra := m.extra })
    | _, _ => some acc) outs

/-- model of `read_backmapping_file(lines, force_fields)`.  Note: the weights of ALL molecules are
computed by `_read_mapping_partial` before the force fields are looked at, so a weight conflict is an
error even for a molecule no force field knows. -/
def readBackmap (lib : Library) (lines : List String) : Option (List Out) := do
  let rest ← skipToMolecule lines
  -- the real loop interleaves reading and building; an exception anywhere rejects the file
  let mols ← readMols {} rest
  let outs ← mols.foldlM (addMol lib) []
  pure (outs.flatMap fun e => e.2.flatMap fun e2 => e2.2.map (·.2))

/-! ### driver operation `backmap <library> <lines>` -/
open Proto

def blockOf (t : Tok) : Option (String × Block) := do
  match ← t.list? with
  | [n, nodes] =>
    let ns ← (← nodes.list?).mapM fun x => do
      match ← x.list? with
      | [k, a] => pure (← k.str?, ← a.str?)
      | _ => none
    pure (← n.str?, ns)
  | _ => none

def libOf (t : Tok) : Option Library := do
  (← t.list?).mapM fun e => do
    match ← e.list? with
    | [n, bs] => pure (← n.str?, ← (← bs.list?).mapM blockOf)
    | _ => none

def strLe' (a b : String) : Bool := decide (a ≤ b)

def encOut (o : Out) : String :=
  let rows := o.entries.map fun ((i, j), fr) =>
    let g := Nat.gcd fr.num fr.den
    let g := if g = 0 then 1 else g
    encList [encStr i, encStr j, encNat (fr.num / g), encNat (fr.den / g)]
  encList [encStr o.fromFF, encStr o.toFF, encStr o.name, encList (rows.mergeSort strLe'),
           encList (o.extra.map encStr)]

def handleOp (args : List Tok) : Option String :=
  match args with
  | [lib, ls] => do
    let lib ← libOf lib
    let ls ← strs? ls
    match readBackmap lib ls with
    | some outs => pure ("ok " ++ encList (outs.map encOut))
    | none => pure "error"
  | _ => none

end C13.Backmap
