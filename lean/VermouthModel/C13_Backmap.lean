import VermouthModel.C13_Reader
namespace C13.Backmap
open Proto
def handleOp (_args : List Tok) : Option String := none
end C13.Backmap
