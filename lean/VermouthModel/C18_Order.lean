import VermouthModel.C18
/-
C18 — the iteration order of a residue's sub-graph as an INPUT.

`filter_minimal(res['graph'], ...)` and `get_go_type_from_attributes(res['graph'], ...)` take the FIRST
matching node of `res['graph'].nodes`.  `res['graph']` is a networkx sub-graph view: when the residue
holds more than half of the molecule's nodes it is iterated in node order, otherwise in the iteration
order of a CPython `set` of the node keys, which is fixed for a given interpreter but is not something
vermouth decides.  For a residue with one backbone bead and one Go type the order is irrelevant
(`VermouthProps/C18_Order.lean`); for a residue with two backbone beads or two prefix-matching types the
result depends on it.  Here the observed order is handed to the model: `orders` lists, for some
residues, the node keys in the order networkx iterates them.
-/
namespace C18

/-- the residue with its members in the order `o` (keys that are not members are ignored) -/
def Residue.reorder (r : Residue) (o : List Int) : Residue :=
  { r with members := o.filterMap (fun k => r.members.find? (·.key == k)) }

def Residue.named (r : Residue) (o : List Int) : Bool := o.any (fun k => r.members.any (·.key == k))

/-- the residue as networkx iterates it: in the first order that names one of its members, else in node order -/
def Residue.ordered (orders : List (List Int)) (r : Residue) : Residue :=
  match orders.find? r.named with
  | some o => r.reorder o
  | none => r

def applyOrders (orders : List (List Int)) (rs : List Residue) : List Residue := rs.map (Residue.ordered orders)

/-- `contact_selector` when the residue sub-graphs are iterated in the given orders; the residue
graph itself (residues, their order, edges) does not depend on them -/
def selectContactsOrd (P : Params) (atoms : List Atom) (edges : List (Int × Int)) (contacts : List Contact)
    (orders : List (List Int)) : Outcome :=
  let rs := residuesOf atoms
  runLoop (contacts.map (classify P (applyOrders orders rs) (resEdges rs edges))) { cm := [], out := [] }

def goPipelineOrd (P : Params) (vsname : String) (atoms : List Atom) (edges : List (Int × Int))
    (contacts : List Contact) (orders : List (List Int)) : List VSite × Outcome :=
  let vs := addVirtualSites P.pre P.backbone vsname atoms
  (vs, selectContactsOrd P (withSites atoms vs) edges contacts orders)

end C18
