import VermouthModel.Proto
/-
C02 — model of `vermouth.gmx.itp.write_molecule_itp` at token level, a renderer to
text, and an independent ITP reader.

* `write : Mol → Except Err (List Line)` transcribes the writer: `sorted_nodes`
  (stable sort by `atomid`, missing = +inf), the `correspondence` table
  key ↦ 1..N, column widths, `Molecule.sort_interactions` (by arity of the first
  interaction, then name), `impropers → dihedrals`, the stable sort by
  `_interaction_sorting_key` = (conditional, group) with Python's tuple order,
  `itertools.groupby`, guards, group comment, `virtual_sitesn` parameter
  placement, interaction comments, pre/post section lines (post lines repeated
  after every block, as the code does) and the left-over sections.
* `render` pads and joins exactly as the format strings do.
* `parse` is a reader that shares nothing with the writer: lines, `;` comments,
  whitespace tokens, `[ section ]`, `#ifdef/#ifndef/#endif` stack, atoms by
  column count with the running index checked, interactions split into atoms
  and parameters by the arity table extracted from `itp_read.atom_idxs`.

All numeric fields arrive pre-rendered by Python's `str()`; no float is modelled.
Node keys are `Int` (any hashable in the code; only equality is used).
-/
namespace C02

inductive Err where
  | valueerror | keyerror | indexerror
  deriving DecidableEq, Repr

structure Atom where
  key : Int
  atomid : Option Int
  atype : String
  resid : String
  resname : String
  atomname : String
  cgnr : String
  /-- `''` when the node has no `charge` (that is what the code substitutes) -/
  charge : String
  mass : String
  deriving DecidableEq, Repr

structure Inter where
  atoms : List Int
  params : List String
  ifdef : Option String
  ifndef : Option String
  group : Option String
  comment : Option String
  deriving DecidableEq, Repr

structure Mol where
  moltype : String
  nrexcl : String
  header : List String
  defines : List (String × String)
  /-- nodes in the graph's iteration order -/
  atoms : List Atom
  /-- `molecule.interactions` in dict order; names are distinct -/
  inters : List (String × List Inter)
  pre : List (String × List String)
  post : List (String × List String)
  deriving Repr

/-! ### atom order and the renumbering table -/

/-- `key=lambda n: nodes[n].get('atomid', inf)` compared with `<=` -/
def atomidLe : Option Int → Option Int → Bool
  | _, none => true
  | none, some _ => false
  | some x, some y => decide (x ≤ y)

def sortedNodes (m : Mol) : List Atom :=
  m.atoms.mergeSort (fun a b => atomidLe a.atomid b.atomid)

/-- `correspondence[original_idx] = idx` for `enumerate(sorted_nodes, start=1)` -/
def corrOf (l : List Atom) (start : Nat) : List (Int × Nat) :=
  match l with
  | [] => []
  | a :: rest => (a.key, start) :: corrOf rest (start + 1)

def correspondence (m : Mol) : List (Int × Nat) := corrOf (sortedNodes m) 1

def lookupIdx (c : List (Int × Nat)) (k : Int) : Option Nat := c.lookup k

/-! ### lines -/

structure Widths where
  idx : Nat
  atype : Nat
  resid : Nat
  resname : Nat
  atomname : Nat
  cgnr : Nat
  charge : Nat
  mass : Nat
  deriving DecidableEq, Repr

inductive Line where
  | blank
  | comment (text : String)                       -- `; text`
  | sect (name : String)                          -- `[ name ]`
  | directive (kw : String) (args : List String)  -- `#ifdef X`, `#endif`, `#define N V`
  | free (text : String)                          -- pre/post section line, verbatim
  | moltype (name nrexcl : String)
  | atom (w : Widths) (idx : Nat) (a : Atom)
  | inter (w : Nat) (vsn : Bool) (atoms : List Nat) (params : List String) (comment : Option String)
  deriving DecidableEq, Repr

def spaces (n : Nat) : List Char := List.replicate n ' '
/-- `'{:>w}'.format(s)` -/
def padL (w : Nat) (s : String) : List Char := spaces (w - s.length) ++ s.toList
/-- `'{:<w}'.format(s)` -/
def padR (w : Nat) (s : String) : List Char := s.toList ++ spaces (w - s.length)

def maxLen (l : List String) : Nat := l.foldl (fun acc s => max acc s.length) 0

def widthsOf (m : Mol) : Widths :=
  { idx := (toString m.atoms.length).length
    atype := maxLen (m.atoms.map (·.atype))
    resid := maxLen (m.atoms.map (·.resid))
    resname := maxLen (m.atoms.map (·.resname))
    atomname := maxLen (m.atoms.map (·.atomname))
    cgnr := maxLen (m.atoms.map (·.cgnr))
    charge := maxLen (m.atoms.map (·.charge))
    mass := maxLen (m.atoms.map (·.mass)) }

/-- `' '.join(cells)` on character lists -/
def joinSp : List (List Char) → List Char
  | [] => []
  | a :: rest =>
    match rest with
    | [] => a
    | _ :: _ => a ++ ' ' :: joinSp rest

/-- the characters of a written line (without the newline) -/
def renderLineChars : Line → List Char
  | .blank => []
  | .comment t => ';' :: ' ' :: t.toList
  | .sect n => joinSp [['['], n.toList, [']']]
  | .directive kw args => joinSp (kw.toList :: args.map String.toList)
  | .free t => t.toList
  | .moltype a b => joinSp [a.toList, b.toList]
  | .atom w i a =>
      joinSp [padL w.idx (toString i), padR w.atype a.atype, padL w.resid a.resid,
              padR w.resname a.resname, padR w.atomname a.atomname, padL w.cgnr a.cgnr,
              padL w.charge a.charge, padL w.mass a.mass]
  | .inter w vsn atoms params comment =>
      let cells := atoms.map (fun (i : Nat) => padL w (toString i))
      let p := joinSp (params.map String.toList)
      let toJoin := if vsn then
          (match cells with
           | a :: rest => a :: p :: rest
           | [] => [p])
        else cells ++ [p]
      joinSp toJoin ++ (match comment with
        | some c => ' ' :: ';' :: ' ' :: c.toList
        | none => [])

def renderLine (l : Line) : String := String.ofList (renderLineChars l)

def renderChars (ls : List Line) : List Char := ls.flatMap (fun l => renderLineChars l ++ ['\n'])

def render (ls : List Line) : String := String.ofList (renderChars ls)

/-! ### interaction ordering -/

/-- `_interaction_sorting_key` -/
structure Key where
  cond : Option (String × Bool)
  group : String
  deriving DecidableEq, Repr

def hasBoth (i : Inter) : Bool := i.ifdef.isSome && i.ifndef.isSome

def condOf (i : Inter) : Option (String × Bool) :=
  match i.ifdef, i.ifndef with
  | some d, _ => some (d, true)
  | none, some d => some (d, false)
  | none, none => none

def keyOf (i : Inter) : Key := { cond := condOf i, group := i.group.getD "" }

def strLe (a b : String) : Bool := !(decide (b < a))

/-- Python tuple order on `()` / `(name, flag)`: `()` first, then by name, then False < True -/
def condLt : Option (String × Bool) → Option (String × Bool) → Bool
  | none, none => false
  | none, some _ => true
  | some _, none => false
  | some (a, x), some (b, y) => decide (a < b) || (a == b && (!x && y))

def keyLe (a b : Key) : Bool :=
  condLt a.cond b.cond || (a.cond == b.cond && strLe a.group b.group)

def sortInters (is : List Inter) : List Inter :=
  is.mergeSort (fun a b => keyLe (keyOf a) (keyOf b))

/-- `itertools.groupby(..., key)` : runs of consecutive equal keys -/
def groupRuns : List Inter → List (Key × List Inter)
  | [] => []
  | i :: rest =>
    match groupRuns rest with
    | (k, is) :: gs => if keyOf i = k then (k, i :: is) :: gs else (keyOf i, [i]) :: (k, is) :: gs
    | [] => [(keyOf i, [i])]

/-- `Molecule.sort_interactions`: non-empty types by (len(first.atoms), name) -/
def sectKeys (inters : List (String × List Inter)) : List (Nat × String × List Inter) :=
  inters.filterMap (fun p => match p.2 with
    | [] => none
    | i :: _ => some (i.atoms.length, p.1, p.2))

def sectLe (a b : Nat × String × List Inter) : Bool :=
  decide (a.1 < b.1) || (a.1 == b.1 && strLe a.2.1 b.2.1)

def sortInteractions (m : Mol) : List (Nat × String × List Inter) :=
  (sectKeys m.inters).mergeSort sectLe

def retag (name : String) : String := if name = "impropers" then "dihedrals" else name

/-! ### the writer -/

def linesOf (tbl : List (String × List String)) (name : String) : List Line :=
  ((tbl.lookup name).getD []).map Line.free

def writeInter (c : List (Int × Nat)) (w : Nat) (vsn : Bool) (i : Inter) : Except Err Line :=
  match i.atoms.mapM (lookupIdx c) with
  | none => .error .keyerror
  | some idxs =>
    if vsn && idxs.isEmpty then .error .indexerror
    else .ok (.inter w vsn idxs i.params i.comment)

def writeBlock (c : List (Int × Nat)) (w : Nat) (name : String) (post : List Line)
    (blk : Key × List Inter) : Except Err (List Line) := do
  let ls ← blk.2.mapM (writeInter c w (name == "virtual_sitesn"))
  let guardOpen := match blk.1.cond with
    | some (d, flag) => [Line.directive (if flag then "#ifdef" else "#ifndef") [d]]
    | none => []
  let guardClose := match blk.1.cond with
    | some _ => [Line.directive "#endif" []]
    | none => []
  let grp := if blk.1.group = "" then [] else [Line.comment blk.1.group]
  pure (guardOpen ++ grp ++ ls ++ guardClose ++ post ++ [Line.blank])

def writeSection (m : Mol) (c : List (Int × Nat)) (w : Nat) (s : Nat × String × List Inter) :
    Except Err (List Line) := do
  let name := retag s.2.1
  if s.2.2.any hasBoth then throw .valueerror
  let blocks ← (groupRuns (sortInters s.2.2)).mapM (writeBlock c w name (linesOf m.post name))
  pure ([Line.sect name] ++ linesOf m.pre name ++ blocks.flatten)

def atomLines (w : Widths) (l : List Atom) (start : Nat) : List Line :=
  match l with
  | [] => []
  | a :: rest => Line.atom w start a :: atomLines w rest (start + 1)

def prelude (m : Mol) : List Line :=
  m.header.map Line.comment ++ (if m.header.isEmpty then [] else [Line.blank])
  ++ m.defines.flatMap (fun d =>
      [Line.directive "#ifndef" [d.1], Line.directive "#define" [d.1, d.2],
       Line.directive "#endif" [], Line.blank])
  ++ [Line.sect "moleculetype", Line.moltype m.moltype m.nrexcl, Line.blank]

def atomsPart (m : Mol) : List Line :=
  [Line.sect "atoms"] ++ linesOf m.pre "atoms" ++ atomLines (widthsOf m) (sortedNodes m) 1
  ++ linesOf m.post "atoms" ++ [Line.blank]

def seenSections (m : Mol) : List String :=
  "atoms" :: (sortInteractions m).map (fun s => retag s.2.1)

/-- sections that only have pre/post lines.  The code iterates a `set`; the model uses
first-appearance order (the harness compares text only when at most one such section exists). -/
def remainingNames (m : Mol) : List String :=
  ((m.pre.map (·.1) ++ m.post.map (·.1)).eraseDups).filter (fun n => !(seenSections m).contains n)

def remainingPart (m : Mol) : List Line :=
  (remainingNames m).flatMap (fun n => [Line.sect n] ++ linesOf m.pre n ++ linesOf m.post n ++ [Line.blank])

/-- the left-over sections written in a GIVEN order.  In the code the order is the iteration order of
a Python `set` of section names (`remaining_sections`), which depends on the per-process string hash
seed: any permutation of `remainingNames m` can be observed. -/
def remainingPartOf (m : Mol) (names : List String) : List Line :=
  names.flatMap (fun n => [Line.sect n] ++ linesOf m.pre n ++ linesOf m.post n ++ [Line.blank])

/-- an atom the `[ atoms ]` columns can express: not (mass present and charge absent) -/
def atomOk (a : Atom) : Bool := !(a.mass != "" && a.charge == "")

/-- everything after the `[ atoms ]` section -/
def writeBody (m : Mol) : Except Err (List Line) := do
  let secs ← (sortInteractions m).mapM (writeSection m (correspondence m) (widthsOf m).idx)
  pure (prelude m ++ atomsPart m ++ secs.flatten ++ remainingPart m)

def write (m : Mol) : Except Err (List Line) :=
  -- `max()` over an empty atom sequence raises ValueError
  if m.atoms.isEmpty then .error .valueerror
  -- raised inside the `[ atoms ]` loop: an atom with a mass but no charge cannot be expressed
  -- in the positional columns (the mass would be read as the charge); ValueError
  else if !m.atoms.all atomOk then .error .valueerror
  else writeBody m

/-- the writer with the iteration order of the left-over section set made explicit -/
def writeBodyOrd (m : Mol) (names : List String) : Except Err (List Line) := do
  let secs ← (sortInteractions m).mapM (writeSection m (correspondence m) (widthsOf m).idx)
  pure (prelude m ++ atomsPart m ++ secs.flatten ++ remainingPartOf m names)

def writeOrd (m : Mol) (names : List String) : Except Err (List Line) :=
  if m.atoms.isEmpty then .error .valueerror
  else if !m.atoms.all atomOk then .error .valueerror
  else writeBodyOrd m names

/-! ### tokens of a line, whitespace splitter -/

def isWs (c : Char) : Bool := c = ' ' || c = '\t' || c = '\r' || c = '\n' || c = '\x0b' || c = '\x0c'

/-- split on runs of whitespace; `cur` is the current word reversed -/
def splitGo : List Char → List Char → List String
  | [], cur => if cur.isEmpty then [] else [String.ofList cur.reverse]
  | c :: cs, cur =>
    if isWs c then
      (if cur.isEmpty then splitGo cs [] else String.ofList cur.reverse :: splitGo cs [])
    else splitGo cs (c :: cur)

def splitWs (cs : List Char) : List String := splitGo cs []

def stripComment (cs : List Char) : List Char := cs.takeWhile (fun c => c != ';')

/-- tokens of a text line: drop everything from the first `;`, split on whitespace -/
def tokenizeChars (cs : List Char) : List String := splitWs (stripComment cs)
def tokenize (s : String) : List String := tokenizeChars s.toList

/-- the tokens a line is meant to carry (what `tokenize (renderLine l)` gives for well-formed fields) -/
def lineTokens : Line → List String
  | .blank => []
  | .comment _ => []
  | .sect n => ["[", n, "]"]
  | .directive kw args => kw :: args
  | .free t => tokenize t
  | .moltype a b => [a, b]
  | .atom _ i a =>
      [toString i, a.atype, a.resid, a.resname, a.atomname, a.cgnr]
        ++ (if a.charge = "" then [] else [a.charge]) ++ (if a.mass = "" then [] else [a.mass])
  | .inter _ vsn atoms params _ =>
      let cells := atoms.map (fun (i : Nat) => toString i)
      if vsn then
        (match cells with
         | a :: rest => a :: params ++ rest
         | [] => params)
      else cells ++ params

/-! ### the independent reader -/

inductive Arity where
  | fixed (k : Nat)   -- the first k tokens are atoms
  | all               -- every token is an atom (`exclusions`)
  | firstSkip         -- token 0 and tokens 2.. are atoms, token 1 is the parameter (`virtual_sitesn`)
  deriving DecidableEq, Repr

/-- an entry of `itp_read.ITPDirector.atom_idxs` as written in the code -/
inductive IdxItem where
  | pos (i : Nat)
  | slice (start : Nat) (stop : Option Nat)
  deriving DecidableEq, Repr

def arityOf : List IdxItem → Option Arity
  | [.slice 0 none] => some .all
  | [.pos 0, .slice 2 none] => some .firstSkip
  | [.slice 0 (some k)] => some (.fixed k)
  | items => if items = (List.range items.length).map IdxItem.pos then some (.fixed items.length) else none

def arityTableOf (raw : List (String × List IdxItem)) : List (String × Arity) :=
  raw.filterMap (fun p => (arityOf p.2).map (fun a => (p.1, a)))

def splitAtoms (ar : Arity) (toks : List String) : Option (List String × List String) :=
  match ar with
  | .fixed k => if toks.length < k then none else some (toks.take k, toks.drop k)
  | .all => some (toks, [])
  | .firstSkip =>
    match toks with
    | [] => none
    | [a] => some ([a], [])
    | a :: p :: rest => some (a :: rest, [p])

structure PAtom where
  atype : String
  resid : String
  resname : String
  atomname : String
  cgnr : String
  charge : Option String
  mass : Option String
  deriving DecidableEq, Repr

structure PInter where
  sect : String
  guard : List (String × Bool)
  atoms : List Nat
  params : List String
  deriving DecidableEq, Repr

structure Parsed where
  moltype : Option (String × String)
  atoms : List PAtom
  inters : List PInter
  deriving DecidableEq, Repr

inductive PErr where
  | badDirective | unbalanced | noSection | badMoltype | badAtomRow | badIndex
  | unknownSection | badArity | badRef
  deriving DecidableEq, Repr

structure PState where
  sect : Option String
  guard : List (String × Bool)
  out : Parsed
  deriving DecidableEq, Repr

def PState.init : PState := { sect := none, guard := [], out := { moltype := none, atoms := [], inters := [] } }

def pushAtom (st : PState) (a : PAtom) : PState :=
  { st with out := { st.out with atoms := st.out.atoms ++ [a] } }

def content (tbl : List (String × Arity)) (st : PState) (toks : List String) : Except PErr PState :=
  match st.sect with
  | none => .error .noSection
  | some s =>
    if s = "moleculetype" then
      match toks with
      | [a, b] => .ok { st with out := { st.out with moltype := some (a, b) } }
      | _ => .error .badMoltype
    else if s = "atoms" then
      match toks with
      | i :: ty :: ri :: rn :: an :: cg :: rest =>
        if i ≠ toString (st.out.atoms.length + 1) then .error .badIndex
        else match rest with
          | [] => .ok (pushAtom st ⟨ty, ri, rn, an, cg, none, none⟩)
          | [c] => .ok (pushAtom st ⟨ty, ri, rn, an, cg, some c, none⟩)
          | [c, ms] => .ok (pushAtom st ⟨ty, ri, rn, an, cg, some c, some ms⟩)
          | _ => .error .badAtomRow
      | _ => .error .badAtomRow
    else
      match tbl.lookup s with
      | none => .error .unknownSection
      | some ar =>
        match splitAtoms ar toks with
        | none => .error .badArity
        | some (as, ps) =>
          match as.mapM String.toNat? with
          | none => .error .badRef
          | some ns =>
            if ns.all (fun n => decide (1 ≤ n) && decide (n ≤ st.out.atoms.length)) then
              .ok { st with out := { st.out with
                      inters := st.out.inters ++ [⟨s, st.guard, ns, ps⟩] } }
            else .error .badRef

def step (tbl : List (String × Arity)) (st : PState) (toks : List String) : Except PErr PState :=
  match toks with
  | [] => .ok st
  | t :: rest =>
    if t.isNat then content tbl st toks
    else if t = "[" then
      (match rest with
       | [name, "]"] => .ok { st with sect := some name }
       | _ => .error .badDirective)
    else if t = "#ifdef" then
      (match rest with
       | [x] => .ok { st with guard := (x, true) :: st.guard }
       | _ => .error .badDirective)
    else if t = "#ifndef" then
      (match rest with
       | [x] => .ok { st with guard := (x, false) :: st.guard }
       | _ => .error .badDirective)
    else if t = "#endif" then
      (match st.guard with
       | _ :: g => .ok { st with guard := g }
       | [] => .error .unbalanced)
    else if t = "#define" || t = "#include" then .ok st
    else content tbl st toks

def finish (st : PState) : Except PErr Parsed :=
  if st.guard.isEmpty then .ok st.out else .error .unbalanced

/-- reader at token level -/
def parseTokens (tbl : List (String × Arity)) (lines : List (List String)) : Except PErr Parsed :=
  match lines.foldlM (step tbl) PState.init with
  | .ok st => finish st
  | .error e => .error e

/-- split a text into lines at `\n` (a trailing newline gives a final empty line) -/
def splitLinesGo : List Char → List Char → List (List Char)
  | [], cur => [cur.reverse]
  | c :: cs, cur => if c = '\n' then cur.reverse :: splitLinesGo cs [] else splitLinesGo cs (c :: cur)

def splitLines (cs : List Char) : List (List Char) := splitLinesGo cs []

/-- reader at character level -/
def parse (tbl : List (String × Arity)) (text : String) : Except PErr Parsed :=
  parseTokens tbl ((splitLines text.toList).map tokenizeChars)

/-! ### what the reader must return: the molecule in memory, canonically -/

def toPAtom (a : Atom) : PAtom :=
  { atype := a.atype, resid := a.resid, resname := a.resname, atomname := a.atomname, cgnr := a.cgnr,
    charge := if a.charge = "" then none else some a.charge,
    mass := if a.mass = "" then none else some a.mass }

def guardOf (i : Inter) : List (String × Bool) :=
  match condOf i with
  | some c => [c]
  | none => []

/-- an in-memory interaction as the file should state it -/
def toPInter (c : List (Int × Nat)) (name : String) (i : Inter) : PInter :=
  { sect := retag name, guard := guardOf i, atoms := i.atoms.filterMap (lookupIdx c), params := i.params }

def canon (m : Mol) : Parsed :=
  { moltype := some (m.moltype, m.nrexcl)
    atoms := (sortedNodes m).map toPAtom
    inters := (sortInteractions m).flatMap (fun s =>
      (sortInters s.2.2).map (toPInter (correspondence m) s.2.1)) }

/-! ### the domain on which the round trip is claimed -/

def keywords : List String := ["[", "#ifdef", "#ifndef", "#endif", "#define", "#include"]

/-- a free-text line the reader skips: empty, comment, `#define ...` or `#include ...` -/
def skippable (toks : List String) : Bool :=
  match toks with
  | [] => true
  | t :: _ => t = "#define" || t = "#include"

def freeOk (tbl : List (String × List String)) : Bool :=
  tbl.all (fun p => p.2.all (fun s => skippable (tokenize s)))

def interOk (keys : List Int) (ar : Arity) (i : Inter) : Bool :=
  !hasBoth i
  && (match ar with
      | .fixed k => i.atoms.length == k && decide (1 ≤ k)
      | .all => i.params.isEmpty && !i.atoms.isEmpty
      | .firstSkip => i.params.length == 1 && !i.atoms.isEmpty)
  && i.atoms.all (fun k => keys.contains k)

def sectionOk (tbl : List (String × Arity)) (keys : List Int) (p : String × List Inter) : Bool :=
  p.2.isEmpty ||
    (retag p.1 != "moleculetype" && retag p.1 != "atoms" &&
      (match tbl.lookup (retag p.1) with
       | some ar => ((ar == Arity.firstSkip) == (retag p.1 == "virtual_sitesn")) && p.2.all (interOk keys ar)
       | none => false))

def nodupKeys : List Int → Bool
  | [] => true
  | k :: rest => !rest.contains k && nodupKeys rest

/-- Token-level well-formedness (decidable, evaluated by the driver on every case). -/
def wellFormed (tbl : List (String × Arity)) (m : Mol) : Bool :=
  !m.atoms.isEmpty
  && nodupKeys (m.atoms.map (·.key))
  && m.atoms.all atomOk
  && !keywords.contains m.moltype
  && m.inters.all (sectionOk tbl (m.atoms.map (·.key)))
  && freeOk m.pre && freeOk m.post

/-- Character-level conditions: every field that becomes a token is a non-empty string without
whitespace or `;`, and no free text contains a newline. -/
def tokOk (s : String) : Bool := !s.isEmpty && s.toList.all (fun c => !isWs c && c != ';')
def textOk (s : String) : Bool := s.toList.all (fun c => c != '\n')

def charOk (m : Mol) : Bool :=
  tokOk m.moltype && tokOk m.nrexcl
  && m.header.all textOk
  && m.defines.all (fun d => tokOk d.1 && tokOk d.2)
  && m.atoms.all (fun a => tokOk a.atype && tokOk a.resid && tokOk a.resname && tokOk a.atomname
        && tokOk a.cgnr && (a.charge.isEmpty || tokOk a.charge) && (a.mass.isEmpty || tokOk a.mass))
  && m.inters.all (fun p => tokOk (retag p.1) && p.2.all (fun i =>
        i.params.all tokOk && (i.ifdef.all tokOk) && (i.ifndef.all tokOk)
        && (i.group.all textOk) && (i.comment.all textOk)))
  && m.pre.all (fun p => tokOk p.1 && p.2.all textOk)
  && m.post.all (fun p => tokOk p.1 && p.2.all textOk)

end C02
