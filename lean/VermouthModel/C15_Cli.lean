import VermouthModel.C15
/-
C15 — the command-line layer of `bin/martinize2` in front of `ApplyRubberBand`:

    rb_group.add_argument("-elastic" / "-ef" / "-el" / "-eu" / "-ermd" / "-ea" / "-ep" / "-em" / "-eb" / "-eunit")
    if args.elastic and args.go: parser.error(...)
    if args.to_ff.startswith("elnedyn"): args.elastic = True
    if args.elastic: <choice of the domain criterion from args.rb_unit, of the selector from
                      args.rb_selection, construction of vermouth.ApplyRubberBand(...)>
                     rubber_band_processor.run_system(system)
                     vermouth.NameMolType(deduplicate=not args.keep_duplicate_itp, molname=args.molname).run_system(system)

Strings are lists of characters.  `pyInt` is Python's `int(str)` for ASCII strings (base 10): surrounding
white space (C `isspace`), an optional sign, decimal digits with single underscores between digits.
`splitOn` is `str.split(sep)` for a one-character separator.  Floats never enter: the values of
`-ef -el -eu -ea -ep -em` arrive as the exact rationals of the doubles argparse produced (`type=float` is
Python's, not modelled).
-/
namespace C15

/-! ### `str.split(sep)`, `int(str)` -/

/-- `s.split(sep)` for a separator of one character: always at least one piece -/
def splitOn (sep : Char) : List Char → List (List Char)
  | [] => [[]]
  | c :: cs =>
      if c = sep then [] :: splitOn sep cs
      else match splitOn sep cs with
        | [] => [[c]]
        | h :: t => (c :: h) :: t

/-- C `isspace` on ASCII: what `int()` strips from an ASCII string -/
def isWs (c : Char) : Bool :=
  c = ' ' || c = '\t' || c = '\n' || c = '\x0b' || c = '\x0c' || c = '\r'

def stripWs (s : List Char) : List Char :=
  ((s.dropWhile isWs).reverse.dropWhile isWs).reverse

def isDig (c : Char) : Bool := '0' ≤ c && c ≤ '9'

def digVal (c : Char) : Nat := c.toNat - '0'.toNat

/-- after the first digit: digits, each optionally preceded by ONE underscore -/
def digitsLoop (acc : Nat) : List Char → Option Nat
  | [] => some acc
  | '_' :: c :: r => if isDig c then digitsLoop (acc * 10 + digVal c) r else none
  | c :: r => if isDig c then digitsLoop (acc * 10 + digVal c) r else none

def parseDigits : List Char → Option Nat
  | [] => none
  | c :: r => if isDig c then digitsLoop (digVal c) r else none

/-- Python `int(s)` for an ASCII string; `none` = ValueError -/
def pyInt (s : List Char) : Option Int :=
  match stripWs s with
  | '+' :: r => (parseDigits r).map Int.ofNat
  | '-' :: r => (parseDigits r).map fun n => - Int.ofNat n
  | r => (parseDigits r).map Int.ofNat

/-! ### `-eunit` -/

inductive UnitChoice where
  | molecule                      -- always_true
  | all                           -- MergeAllMolecules().run_system(system); always_true
  | chain                         -- same_chain
  | regions (rs : List (Int × Int))   -- make_same_region_criterion(rs)
  | errInt                        -- ValueError from int() inside the list comprehension
  | errFaulty                     -- ValueError 'Faulty resid interval for elastic network unit: "..."'
  deriving DecidableEq, Repr, Inhabited

def pairOfList : List (Option Int) → Option (Int × Int)
  | [some a, some b] => some (a, b)
  | _ => none

/-- the `if args.rb_unit == "molecule": ... elif "all" ... elif "chain" ... else:` statement.
In the `else` branch ALL pieces are converted with `int` first (the comprehension), then the arity is tested. -/
def parseUnit (s : List Char) : UnitChoice :=
  if s = "molecule".toList then .molecule
  else if s = "all".toList then .all
  else if s = "chain".toList then .chain
  else
    let pieces := (splitOn ',' s).map fun apair => (splitOn ':' apair).map pyInt
    if pieces.any (fun p => p.any Option.isNone) then .errInt
    else if pieces.any (fun p => p.length != 2) then .errFaulty
    else .regions (pieces.filterMap pairOfList)

def unitDomain : UnitChoice → Option Domain
  | .molecule => some .always
  | .all => some .always
  | .chain => some .chain
  | .regions rs => some (.regions rs)
  | _ => none

def unitMerges : UnitChoice → Bool
  | .all => true
  | _ => false

/-! ### canonical rendering of a region list (`'%d:%d'` joined by commas) -/

def digChar (d : Nat) : Char := Char.ofNat ('0'.toNat + d)

/-- decimal digits, most significant first (`fuel` bounds the recursion; `n + 1` is always enough) -/
def natDigitsAux : Nat → Nat → List Char
  | 0, _ => []
  | f + 1, n => if n < 10 then [digChar n] else natDigitsAux f (n / 10) ++ [digChar (n % 10)]

def natDigits (n : Nat) : List Char := natDigitsAux (n + 1) n

def renderInt (i : Int) : List Char :=
  if i < 0 then '-' :: natDigits i.natAbs else natDigits i.natAbs

def renderRegion (r : Int × Int) : List Char := renderInt r.1 ++ ':' :: renderInt r.2

def renderRegions : List (Int × Int) → List Char
  | [] => []
  | [r] => renderRegion r
  | r :: rs => renderRegion r ++ ',' :: renderRegions rs

/-! ### the options and what is built from them -/

/-- the option values as argparse delivers them, except that `-ermd`, `-eb`, `-eunit` are still the raw strings
(`none` = option not given) and the six floats are exact rationals (`none` = option not given: the default) -/
structure CliArgs where
  elastic : Bool
  go : Bool                 -- truthiness of args.go
  toFF : List Char
  ef : Option Rat
  el : Option Rat
  eu : Option Rat
  ea : Option Rat
  ep : Option Rat
  em : Option Rat
  ermd : Option (List Char)
  eb : Option (List Char)
  eunit : Option (List Char)
  sep : Bool := false                       -- `-sep` (args.keep_duplicate_itp)
  molname : Option (List Char) := none      -- `-name` (args.molname), default "molecule"
  deriving Inhabited

/-- the `default=` of the options (extracted from the source on every run: `Generated/C15Cli.lean`) -/
def dfltEf : Rat := 700
def dfltEl : Rat := 0
/-- the double nearest to 0.9 -/
def dfltEu : Rat := mkRat 8106479329266893 9007199254740992
def dfltEa : Rat := 0
def dfltEp : Rat := 1
def dfltEm : Rat := 0
def dfltEunit : List Char := "molecule".toList

inductive CliResult where
  | usageError                       -- parser.error(...): SystemExit(2)
  | noElastic                        -- no rubber-band processor is built
  | valueError (faulty : Bool)       -- ValueError out of the -eunit parsing (faulty: the 'Faulty resid interval' one)
  | processor (mergeAll : Bool) (defaultSelector : Bool) (p : Proc)
  deriving DecidableEq, Inhabited

/-- `-eb`: `type=lambda x: x.split(",")`, then `functools.partial(proto_select_attribute_in, attribute="atomname",
values=...)`; without the option `selectors.select_backbone` (atomname == "BB") -/
def selectorNames (eb : Option (List Char)) : List String :=
  match eb with
  | none => ["BB"]
  | some s => (splitOn ',' s).map String.ofList

def elnedyn : List Char := "elnedyn".toList

/-- `args.elastic` after `if args.to_ff.startswith("elnedyn"): args.elastic = True` -/
def elasticOn (a : CliArgs) : Bool := a.elastic || elnedyn.isPrefixOf a.toFF

/-- the constructor call `vermouth.ApplyRubberBand(lower_bound=args.rb_lower_bound, ...)` -/
def cliProc (a : CliArgs) (rmd : Option Int) (dom : Domain) : Proc :=
  { names := selectorNames a.eb
    lower := a.el.getD dfltEl
    upper := a.eu.getD dfltEu
    decayFactor := a.ea.getD dfltEa
    decayPower := a.ep.getD dfltEp
    base := a.ef.getD dfltEf
    minForce := a.em.getD dfltEm
    resMinDist := rmd
    bondType := none
    bondTypeVar := "elastic_network_bond_type"
    resMinDistVar := "elastic_network_res_min_dist"
    dom := dom }

/-- argparse (`-ermd` has `type=int`: a string `int()` rejects ends in `parser.error`), the two statements after
`parse_args`, and the `if args.elastic:` block -/
def cliBuild (a : CliArgs) : CliResult :=
  match (match a.ermd with
         | none => some none
         | some s => (pyInt s).map some : Option (Option Int)) with
  | none => .usageError
  | some rmd =>
    if a.elastic && a.go then .usageError
    else if !elasticOn a then .noElastic
    else
      let u := parseUnit (a.eunit.getD dfltEunit)
      match unitDomain u with
      | none => .valueError (u = .errFaulty)
      | some dom => .processor (unitMerges u) a.eb.isNone (cliProc a rmd dom)

/-! ### what the `if args.elastic:` block does to the system, in order -/

def dfltMolname : List Char := "molecule".toList

inductive CliEvent where
  | mergeAll                                          -- vermouth.MergeAllMolecules().run_system(system)
  | network (p : Proc)                                -- rubber_band_processor.run_system(system)
  | nameTypes (dedup : Bool) (molname : List Char)    -- vermouth.NameMolType(deduplicate, molname).run_system(system)
  deriving DecidableEq, Inhabited

/-- the `run_system` calls of the block, in the order of the source: the merge (for `-eunit all`), the network on
every molecule, and then the molecule types are assigned AGAIN (molecules that shared a type before may carry
different networks now; one ITP is written per type) -/
def cliEvents (a : CliArgs) : List CliEvent :=
  match cliBuild a with
  | .processor m _ p =>
      (if m then [.mergeAll] else []) ++ [.network p, .nameTypes (!a.sep) (a.molname.getD dfltMolname)]
  | _ => []

end C15
