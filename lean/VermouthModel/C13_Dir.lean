import VermouthModel.C13_Reader
/-
C13 — model of loading a force field from a DIRECTORY
(`vermouth.forcefield.ForceField.__init__`, `read_from`, `_read_from_file`,
`iter_force_field_files`; `glob.glob(os.path.join(directory, '*' + ext))`, `os.path.splitext`,
`os.path.basename` as far as they are used there).

The directory is an INPUT: its entries in the order in which the operating system enumerates them
(`os.scandir`, which is what `glob` iterates; the code does NOT sort), each with its name, whether
it is a directory, and the lines of the file.  The table `FORCE_FIELD_PARSERS` (extension -> parser,
in insertion order) is an input as well (re-extracted from the repository on every run).

What is transcribed:
* `iter_force_field_files`: for each extension of the table in table order, the entries whose name
  matches `'*' + ext` in enumeration order (fnmatch: the name ends with the extension; a name that
  starts with '.' is hidden from a pattern that does not);
* `_read_from_file`: the parser is looked up by `os.path.splitext(path)[-1]` (KeyError if absent),
  the path is opened (a directory raises IsADirectoryError) and the parser is run on the SAME
  force-field object: `read_ff` creates a fresh `FFDirector` (fresh macros, fresh "has a context",
  fresh current block/link/modification) that writes `force_field.blocks[name] = block`,
  `force_field.links.append(link)`, `force_field.modifications[name] = modification`,
  `force_field.variables[key] = value` into the dictionaries/lists that the earlier files filled;
* `ForceField.__init__`: name = `name` if given, else the base name of the directory; TypeError
  without both.

Only `read_ff` is modelled as a parser; a selected `.rtp` / `.bib` file is modelled only when it is
empty (it then contributes nothing) — `modelled` says whether a listing is inside the model.
`none` = the real code raises.
-/
namespace C13.Dir
open C13
open Lean (Json)

/-- one entry of the directory, in `os.scandir` order -/
structure DirEntry where
  name : String
  isDir : Bool := false
  lines : List String := []
  deriving Repr, DecidableEq, Inhabited

/-- `fnmatch(name, '*' + ext)` as `glob` applies it in a directory: the name ends with `ext`, and a
name starting with '.' is hidden (the pattern `'*' + ext` does not start with '.') -/
def globStar (ext : String) (name : String) : Bool :=
  name.toList.head? != some '.' && ext.toList.isSuffixOf name.toList

/-- `iter_force_field_files(directory)`: `itertools.chain(*(glob(dir/'*'+ext) for ext in extensions))` -/
def readOrder (exts : List String) (listing : List DirEntry) : List DirEntry :=
  exts.flatMap fun x => listing.filter fun e => globStar x e.name

/-- `os.path.splitext(name)[-1]` (posixpath, on the last path component): the suffix from the last
dot, unless only dots precede it -/
def splitExt (name : String) : String :=
  let cs := name.toList
  if !cs.contains '.' then ""
  else
    let rev := cs.reverse
    let extRev := rev.takeWhile (· ≠ '.')
    let before := ((rev.dropWhile (· ≠ '.')).drop 1)
    if before.any (· ≠ '.') then String.ofList ('.' :: extRev.reverse) else ""

/-- `os.path.basename(str(directory))` -/
def basename (path : String) : String :=
  String.ofList (path.toList.reverse.takeWhile (· ≠ '/')).reverse

/-! ### the force field object -/

abbrev Vars := List (String × JVal)

structure FF where
  blocks : List (Option String × (Nat × Ctx)) := []
  links : List (Nat × Ctx) := []
  mods : List (Option String × (Nat × Ctx)) := []
  vars : Vars := []

/-- `json.loads(value)`, or the token itself when it is not JSON (`_parse_variables`) -/
def varValue (tok : String) : JVal :=
  match Json.parse tok with
  | .ok j => toJVal j
  | .error _ => .str tok

/-- the `(key, value)` pairs written by the `[ variables ]` lines of a (classified, macro-expanded)
file, in file order.  `_variables` only WRITES `force_field.variables[key] = value`; whether the line
is accepted (two tokens, no context open) is decided by the dispatcher run (`ffHandleG`). -/
def fileVars (T : List Path) : Path → List Line → List (String × JVal)
  | _, [] => []
  | sec, .header n :: r => fileVars T (nextSec T sec n) r
  | sec, .content t :: r =>
    if sec = ["variables"] then
      match tokenizeS t with
      | some [k, v] => (k, varValue v) :: fileVars T sec r
      | _ => fileVars T sec r
    else fileVars T sec r

/-- the dispatcher state a fresh `FFDirector(force_field)` starts from: nothing current, and the
dictionaries / list of the force field as the earlier files left them -/
def startState (ff : FF) : St Ctx Unit :=
  { blocks := ff.blocks, links := ff.links, mods := ff.mods, g := () }

/-- `read_ff(lines, force_field)` on a force field that already has content -/
def readFFInto (nt : List (String × Nat)) (tab : List Entry) (ff : FF) (raw : List String) : Option FF := do
  let lines ← classify raw
  let lines' ← expandMacros (tab.map (·.path)) [] [] lines
  let s ← ffRunFromWith ffFinalize (ffParams nt tab) (startState ff) 0 lines'
  pure { blocks := s.blocks, links := s.links, mods := s.mods,
         vars := (fileVars (tab.map (·.path)) [] lines').foldl (fun d kv => dictSet d kv.1 kv.2) ff.vars }

def isBlank (l : String) : Bool := l.toList.all isWs

/-- `ForceField._read_from_file(path)`; `parsers` = `FORCE_FIELD_PARSERS` as (extension, parser name) -/
def loadFile (nt : List (String × Nat)) (tab : List Entry) (parsers : List (String × String))
    (ff : FF) (e : DirEntry) : Option FF :=
  match parsers.find? (fun p => p.1 = splitExt e.name) with
  | none => none                       -- KeyError
  | some p =>
    if e.isDir then none               -- IsADirectoryError
    else if p.2 = "read_ff" then readFFInto nt tab ff e.lines
    else some ff                       -- another parser: modelled for empty files only (see `modelled`)

def foldOpt {α β : Type} (f : β → α → Option β) : β → List α → Option β
  | b, [] => some b
  | b, a :: r => match f b a with
    | none => none
    | some b' => foldOpt f b' r

/-- `ForceField.read_from(directory)` on a fresh force field -/
def loadDir (nt : List (String × Nat)) (tab : List Entry) (parsers : List (String × String))
    (listing : List DirEntry) : Option FF :=
  foldOpt (loadFile nt tab parsers) {} (readOrder (parsers.map (·.1)) listing)

/-- the listing is inside the model: every selected file that is not read by `read_ff` is empty -/
def modelled (parsers : List (String × String)) (listing : List DirEntry) : Bool :=
  (readOrder (parsers.map (·.1)) listing).all fun e =>
    match parsers.find? (fun p => p.1 = splitExt e.name) with
    | some p => p.2 = "read_ff" || e.isDir || e.lines.all isBlank
    | none => true

/-- `ForceField(directory, name)`: the force field and its name; `none` = an exception -/
def ffInit (nt : List (String × Nat)) (tab : List Entry) (parsers : List (String × String))
    (directory : Option (String × List DirEntry)) (name : Option String) : Option (String × FF) :=
  let ffo : Option FF := match directory with
    | none => some {}
    | some d => loadDir nt tab parsers d.2
  let nm : Option String := match name with
    | some n => some n
    | none => directory.map fun d => basename d.1
  match ffo, nm with
  | some ff, some n => some (n, ff)
  | _, _ => none                       -- an exception while reading / TypeError: neither directory nor name

/-- `find_force_fields(directory, force_fields)`: `top` = the entries of `directory` in `os.listdir`
order, each a sub-directory with its own listing or (`none`) something else; `pre` = the dictionary that
is passed in.  A sub-directory without any force-field file is skipped; a name that is already a key
is UPDATED (`read_from` on the existing object), otherwise `ForceField(path)` is created under that
name.  `none` = an exception. -/
def findForceFields (nt : List (String × Nat)) (tab : List Entry) (parsers : List (String × String))
    (pre : List (String × FF)) (top : List (String × Option (List DirEntry))) : Option (List (String × FF)) :=
  foldOpt (fun acc (e : String × Option (List DirEntry)) =>
    match e.2 with
    | none => some acc                       -- glob under a file finds nothing
    | some listing =>
      let order := readOrder (parsers.map (·.1)) listing
      if order.isEmpty then some acc
      else
        let start : FF := ((acc.find? (fun x => x.1 = e.1)).map (·.2)).getD {}
        (foldOpt (loadFile nt tab parsers) start order).map fun ff => dictSet acc e.1 ff) pre top

/-! ### the mapping directory (`vermouth.map_input.read_mapping_directory`)

`Path(directory).glob('**/*.map')` then `glob('**/*.mapping')`: pathlib walks the directory tree in
pre-order (a directory, then its sub-directories recursively, each in `os.scandir` order) and in
every directory yields the entries whose name matches, hidden ones included (pathlib does not hide
names that start with '.', unlike `glob.glob`), directories included (opening one raises).
Each file is read with `read_backmapping_file` / `read_mapping_file` and merged with
`combine_mappings`: `known[origin][destination][residue] = mapping` on nested dictionaries.
The per-file readers are inputs here (`C13_Backmap.lean`, `C13_Mapping.lean`): this layer is generic
in the keyed entries a file yields. -/

inductive Tree where
  | file (name : String) (lines : List String)
  | dir (name : String) (children : List Tree)
  deriving Repr, Inhabited

def Tree.name : Tree → String
  | .file n _ => n
  | .dir n _ => n

def endsWith (ext name : String) : Bool := ext.toList.isSuffixOf name.toList

mutual
/-- the directories at and below one entry, pre-order, each as (relative path, children) -/
def walkTree (path : String) : Tree → List (String × List Tree)
  | .file _ _ => []
  | .dir n ch => (path ++ n ++ "/", ch) :: walkList (path ++ n ++ "/") ch
termination_by structural t => t
def walkList (path : String) : List Tree → List (String × List Tree)
  | [] => []
  | t :: r => walkTree path t ++ walkList path r
termination_by structural l => l
end

/-- pre-order list of the directories below (and including) a directory given by its children -/
def walkDirs (path : String) (children : List Tree) : List (String × List Tree) :=
  (path, children) :: walkList path children

/-- `Path(directory).glob('**/*' + ext)`: (relative path, entry) in the order pathlib yields them -/
def globRec (ext : String) (children : List Tree) : List (String × Tree) :=
  (walkDirs "" children).flatMap fun d =>
    (d.2.filter fun e => endsWith ext e.name).map fun e => (d.1 ++ e.name, e)

/-- residue key: a `.map` file registers a molecule under its name (a string), a `.mapping` file
under the tuple of its block names -/
inductive RKey where
  | name (s : String)
  | names (l : List String)
  deriving Repr, DecidableEq, Inhabited

abbrev MKey := Option String × Option String × RKey

/-- `combine_mappings(known, partial)` with values `V`: nested insertion-ordered dictionaries -/
def combine {V : Type} (known : List (Option String × List (Option String × List (RKey × V))))
    (part : List (MKey × V)) : List (Option String × List (Option String × List (RKey × V))) :=
  part.foldl (fun d kv =>
    let inner := ((d.find? (fun e => e.1 = kv.1.1)).map (·.2)).getD []
    let inner2 := ((inner.find? (fun e => e.1 = kv.1.2.1)).map (·.2)).getD []
    dictSet d kv.1.1 (dictSet inner kv.1.2.1 (dictSet inner2 kv.1.2.2 kv.2))) known

def flatten3 {V : Type} (d : List (Option String × List (Option String × List (RKey × V)))) :
    List (MKey × V) :=
  d.flatMap fun (f, l1) => l1.flatMap fun (t, l2) => l2.map fun (n, v) => ((f, t, n), v)

/-- `read_mapping_directory`: `readMap` / `readMapping` give the keyed entries of one file in the
iteration order of the nested dictionary the per-file reader returns (`none` = it raises); the value
kept for a key is (path of the file, index of the entry in that file).  `none` = an exception. -/
def mapStep (reader : List String → Option (List MKey))
    (acc : List (Option String × List (Option String × List (RKey × (String × Nat)))))
    (pe : String × Tree) : Option (List (Option String × List (Option String × List (RKey × (String × Nat))))) :=
  match pe.2 with
  | .dir _ _ => none                 -- open() of a directory
  | .file _ lines =>
    match reader lines with
    | none => none
    | some keys => some (combine acc ((keys.zipIdx).map fun (k, i) => (k, (pe.1, i))))

def readMapDir (readMap readMapping : List String → Option (List MKey)) (children : List Tree) :
    Option (List (MKey × (String × Nat))) :=
  match foldOpt (mapStep readMap) [] (globRec ".map" children) with
  | none => none
  | some d1 =>
    match foldOpt (mapStep readMapping) d1 (globRec ".mapping" children) with
    | none => none
    | some d2 => some (flatten3 d2)

end C13.Dir
