import VermouthModel.C03_Sort
/-
C03 — martinize2 as a sequence of steps on (molecule, molecule-type name) pairs, from the first
`NameMolType` to the writers (`bin/martinize2`, after commit 834f70d):

    NameMolType(deduplicate = not -sep)                                   # first naming
    if -elastic:  [MergeAllMolecules if -eunit all]; ApplyRubberBand; NameMolType(...)   # named AGAIN
    if -water-bias:  VirtualSiteCreator (without -go), ComputeWaterBias
    if -resid input:  resid := _old_resid
    if not -go:  SortMoleculeAtoms()
    write_gmx_topology / write_pdb

An editing processor changes every molecule using data the comparison of molecule types does not
see (ApplyRubberBand: the coordinates), so its result is a function of the POSITION of the molecule
in the system as well as of the molecule.  The name is stored on the molecule and survives edits.
-/
namespace C03

inductive Step where
  /-- `NameMolType(deduplicate).run_system` -/
  | name (dedup : Bool)
  /-- a processor that edits every molecule in place (`f i m`: the molecule at position `i`) -/
  | edit (f : Nat → Mol → Mol)
  /-- `MergeAllMolecules`: one molecule, which keeps the metadata (name) of the first -/
  | mergeAll (merge : List Mol → Mol)

abbrev CliState := List (Mol × Option Nat)

def editAll (f : Nat → Mol → Mol) : Nat → CliState → CliState
  | _, [] => []
  | i, (m, n) :: rest => (f i m, n) :: editAll f (i + 1) rest

def stepRun (shares : Mol → Mol → Bool) (st : CliState) : Step → CliState
  | .name d => (st.map (·.1)).zip ((nameMolTypes shares d (st.map (·.1))).map some)
  | .edit f => editAll f 0 st
  | .mergeAll merge =>
    match st with
    | [] => []
    | (m, n) :: rest => [(merge (m :: rest.map (·.1)), n)]

def runSteps (shares : Mol → Mol → Bool) (st : CliState) (steps : List Step) : CliState :=
  steps.foldl (stepRun shares) st

/-- the switches that decide the order of steps -/
structure CliOrder where
  sep : Bool
  elastic : Bool
  eunitAll : Bool
  waterBias : Bool
  residInput : Bool
  go : Bool
  deriving DecidableEq, Repr

/-- the editing processors, as opaque functions -/
structure CliEdits where
  rubber : Nat → Mol → Mol
  water : Nat → Mol → Mol
  restore : Nat → Mol → Mol
  sort : Nat → Mol → Mol
  merge : List Mol → Mol

/-- the edits that follow the LAST naming -/
def postEdits (o : CliOrder) (e : CliEdits) : List (Nat → Mol → Mol) :=
  (if o.waterBias then [e.water] else []) ++ (if o.residInput then [e.restore] else [])
    ++ (if o.go then [] else [e.sort])

/-- what precedes the last naming when `-elastic` is given -/
def elasticPrefix (o : CliOrder) (e : CliEdits) : List Step :=
  [Step.name (!o.sep)] ++ (if o.eunitAll then [Step.mergeAll e.merge] else []) ++ [Step.edit e.rubber]

/-- martinize2 since 834f70d -/
def cliSteps (o : CliOrder) (e : CliEdits) : List Step :=
  (if o.elastic then elasticPrefix o e else []) ++ [Step.name (!o.sep)] ++ (postEdits o e).map Step.edit

/-- martinize2 before 834f70d: no second naming after the rubber bands -/
def cliStepsOld (o : CliOrder) (e : CliEdits) : List Step :=
  [Step.name (!o.sep)]
    ++ (if o.elastic then (if o.eunitAll then [Step.mergeAll e.merge] else []) ++ [Step.edit e.rubber] else [])
    ++ (postEdits o e).map Step.edit

def initState (sys : List Mol) : CliState := sys.map fun m => (m, none)

end C03
