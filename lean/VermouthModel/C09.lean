import VermouthModel.Proto
/-
C09 — model of `vermouth.processors.average_beads.do_average_bead` and of
`DoAverageBead.run_molecule`.

The functions are written ONCE, polymorphically over a number type `K` that only
has to provide `0`, `1`, `+`, `*`, `/`, unary `-` and a decidable `<` (core type
classes only, no Mathlib).  The driver runs them at core `Rat`
(`beadPosQ`, `runMoleculeQ`); the theorems in `VermouthProps/C09.lean` are
proved about the very same constants for every linear ordered field, and
`VermouthProps.C09.model_is_instance` checks that the `Rat` version the driver
executes is that function instantiated with Mathlib's field structure on `Rat`.

Transcription notes (code as it is in average_beads.py):
* a dict is an association list in insertion order; `.get(k, d)` = first match or `d`;
* a constituent counts as positioned iff `selectors.selector_has_position(subnode)`:
  `position is not None and np.all(np.isfinite(position))` — the attribute is present, not `None`,
  and EVERY coordinate is a finite number (`Atom.coords` keeps the three coordinates separately,
  `none` = NaN/inf; `Atom.pos` is the position if all three are finite); since the fix of
  F-C09-1 (8cf210c) this is what `do_average_bead` uses;
* weight of a constituent = `mapping_weights.get(key, 1) * subnode.get(weight, 1)`,
  the table is looked up by the *node key* of the constituent; a missing
  `mapping_weights` attribute is the empty table; `weight=None` gives factor 1;
* `abs(sum(weights)) < 1e-7` gives NaN, otherwise `np.average` =
  `(Σ w·x) / (Σ w)` per coordinate;
* first loop: a particle with a 'graph' one of whose atoms (positioned or not)
  lacks the centre-weight attribute raises KeyError at once; particles without
  'graph' raise ValueError after the loop unless `ignore_missing_graphs`; such
  particles are left untouched otherwise.
-/
namespace C09

structure V3 (K : Type) where
  x : K
  y : K
  z : K
  deriving Repr, DecidableEq

/-- `dict.get`: first entry with the key. -/
def assoc {α β : Type} [DecidableEq α] : List (α × β) → α → Option β
  | [], _ => none
  | (k', v) :: r, k => if k' = k then some v else assoc r k

/-- An atom of the underlying (fine-grained) graph: its node key, its `position` attribute
(`none` = attribute missing or `None`; otherwise three coordinates, each `none` when it is not
a finite number) and its numeric attributes by name. -/
structure Atom (K : Type) where
  key : Int
  coords : Option (V3 (Option K))
  attrs : List (String × K)
  deriving Repr

/-- `selector_has_position`: the position of the atom if the attribute is there and ALL its
coordinates are finite, else `none` (the atom is then "without coordinates"). -/
def Atom.pos {K : Type} (a : Atom K) : Option (V3 K) :=
  match a.coords with
  | some ⟨some x, some y, some z⟩ => some ⟨x, y, z⟩
  | _ => none

/-- an atom with a fully defined position -/
def Atom.at {K : Type} (key : Int) (p : V3 K) (attrs : List (String × K)) : Atom K :=
  ⟨key, some ⟨some p.x, some p.y, some p.z⟩, attrs⟩

/-- A particle of the molecule being updated: `'graph'` (absent = `none`) as the
list of its atoms in the subgraph's node order and `'mapping_weights'`
(absent = `none`) as an association list keyed by atom key. -/
structure Bead (K : Type) where
  graph : Option (List (Atom K))
  weights : Option (List (Int × K))
  deriving Repr

section generic
variable {K : Type} [OfNat K 0] [OfNat K 1] [Add K] [Mul K] [Div K] [Neg K] [LT K] [DecidableLT K]

/-- `subnode.get(weight, 1)` -/
def centerFactor (weight : Option String) (a : Atom K) : K :=
  match weight with
  | none => 1
  | some w => (assoc a.attrs w).getD 1

/-- `node.get('mapping_weights', {}).get(subnode_key, 1) * subnode.get(weight, 1)` -/
def atomWeight (weight : Option String) (tbl : List (Int × K)) (a : Atom K) : K :=
  (assoc tbl a.key).getD 1 * centerFactor weight a

/-- the (weight, position) pairs of the positioned constituents, in graph order -/
def terms (weight : Option String) (tbl : List (Int × K)) (g : List (Atom K)) : List (K × V3 K) :=
  g.filterMap fun a => a.pos.map fun p => (atomWeight weight tbl a, p)

/-- `sum(weights)` -/
def wsum : List (K × V3 K) → K
  | [] => 0
  | t :: r => t.1 + wsum r

/-- `Σ w · c(position)` for a coordinate functional `c` -/
def wcsum (c : V3 K → K) : List (K × V3 K) → K
  | [] => 0
  | t :: r => t.1 * c t.2 + wcsum c r

/-- `abs(s) < eps` -/
def small (eps s : K) : Bool := decide (-eps < s) && decide (s < eps)

/-- NaN (`none`) if the weight sum is below the tolerance, else `np.average`. -/
def mean (eps : K) (l : List (K × V3 K)) : Option (V3 K) :=
  if small eps (wsum l) then none
  else some ⟨wcsum V3.x l / wsum l, wcsum V3.y l / wsum l, wcsum V3.z l / wsum l⟩

/-- new `position` of a particle that has a 'graph'; `none` = NaN -/
def beadPos (eps : K) (weight : Option String) (g : List (Atom K)) (mw : Option (List (Int × K))) :
    Option (V3 K) :=
  mean eps (terms weight (mw.getD []) g)

inductive Outcome (K : Type) where
  | keyError
  | valueError
  /-- per particle: `none` = untouched (no 'graph'), `some none` = NaN, `some (some p)` -/
  | ok (l : List (Option (Option (V3 K))))
  deriving Repr, DecidableEq

def lacksAttr (w : String) (b : Bead K) : Bool :=
  match b.graph with
  | some g => g.any fun a => (assoc a.attrs w).isNone
  | none => false

/-- first loop: some particle with a graph has an atom without the centre-weight attribute -/
def keyErr (weight : Option String) (mol : List (Bead K)) : Bool :=
  match weight with
  | some w => mol.any (lacksAttr w)
  | none => false

/-- after the first loop: particles without graph and not told to ignore them -/
def valErr (ignoreMissing : Bool) (mol : List (Bead K)) : Bool :=
  !ignoreMissing && mol.any (fun b => b.graph.isNone)

def doAverageBead (eps : K) (mol : List (Bead K)) (ignoreMissing : Bool) (weight : Option String) :
    Outcome K :=
  if keyErr weight mol then .keyError
  else if valErr ignoreMissing mol then .valueError
  else .ok (mol.map fun b => b.graph.map fun g => beadPos eps weight g b.weights)

/-- the `weight` argument of `DoAverageBead`: `None`, `False`, or an attribute name -/
inductive WeightArg where
  | unset
  | off
  | attr (name : String)
  deriving Repr, DecidableEq

/-- `DoAverageBead.run_molecule`: which attribute (if any) weights the centre.
`ffVar` = `molecule.force_field.variables.get('center_weight', None)`. -/
def selectWeight (self : WeightArg) (ffVar : Option String) : Option String :=
  match self with
  | .unset => ffVar
  | .off => none
  | .attr n => some n

def runMolecule (eps : K) (self : WeightArg) (ffVar : Option String) (ignoreMissing : Bool)
    (mol : List (Bead K)) : Outcome K :=
  doAverageBead eps mol ignoreMissing (selectWeight self ffVar)

/-- the `DoAverageBead` object: its two constructor arguments are its whole state -/
structure Proc where
  ignoreMissing : Bool
  weight : WeightArg
  deriving Repr, DecidableEq

/-- one `run_molecule` call: the molecule comes with the `center_weight` variable of ITS force
field; returns the processor afterwards (the code does not assign to `self`) and the outcome -/
def procStep (eps : K) (p : Proc) (op : Option String × List (Bead K)) : Proc × Outcome K :=
  (p, runMolecule eps p.weight op.1 p.ignoreMissing op.2)

/-- one processor object applied to a sequence of molecules -/
def runHistory (eps : K) (p : Proc) : List (Option String × List (Bead K)) → List (Outcome K)
  | [] => []
  | op :: ops => (procStep eps p op).2 :: runHistory eps (procStep eps p op).1 ops

end generic

/-! ### the instance that is executed -/

/-- the tolerance `1e-7` of the code as an exact rational -/
def epsQ : Rat := 1 / 10000000

def beadPosQ (weight : Option String) (g : List (Atom Rat)) (mw : Option (List (Int × Rat))) :
    Option (V3 Rat) :=
  beadPos epsQ weight g mw

def doAverageBeadQ (mol : List (Bead Rat)) (ignoreMissing : Bool) (weight : Option String) : Outcome Rat :=
  doAverageBead epsQ mol ignoreMissing weight

def runMoleculeQ (self : WeightArg) (ffVar : Option String) (ignoreMissing : Bool)
    (mol : List (Bead Rat)) : Outcome Rat :=
  runMolecule epsQ self ffVar ignoreMissing mol

def runHistoryQ (p : Proc) (ops : List (Option String × List (Bead Rat))) : List (Outcome Rat) :=
  runHistory epsQ p ops

/-- quantisation to 2^-30 (round half up), used only to cross the protocol boundary -/
def quant (q : Rat) : Int := (q * 1073741824 + 1 / 2).floor

end C09
