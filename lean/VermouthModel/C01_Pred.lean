import VermouthModel.C01
/-
C01 — the node matcher of `do_mapping` with PREDICATE-valued template attributes.

`.mapping` files (and force-field link files) may describe an attribute of a `block_from` node with a
`LinkPredicate` instead of a plain value: `"resname": "ASP|GLU"` is parsed to `Choice(['ASP', 'GLU'])`
(`ffinput._parse_atom_attributes`), force-field files also produce `NotDefinedOrNot(v)`.  The node matcher of
`Mapping.map` is `_old_atomname_match` (block mappings) resp. `ptm_resname_match` (modification mappings),
both end in `attributes_match`, which honours predicates:

    for attr, value in template_attributes.items():
        if attr in ignore_keys: continue
        if attributes.get(attr) != value:
            if isinstance(value, LinkPredicate) and value.match(attributes, attr): continue
            return False
    return True

This file transcribes that (values of the molecule's atoms are plain Python values, opaque apart from equality
and truthiness: `PV`), `_old_atomname_match`, `ptm_resname_match`, and states the reference matcher for both
kinds of mappings (`refMatchesP`): block mappings with the `edge_matcher` colour, modification mappings
without edge condition (`edge_match=None`), both as INDUCED subgraph matchers (networkx
`subgraph_isomorphisms_iter`).  `C01.refMatches` (plain string values) stays in use for templates without
predicates; the driver runs both on such inputs.
-/
namespace C01
namespace Pred

/-- a Python value of a node attribute, opaque apart from equality: `none` = `None`, otherwise a type-tagged
text (`s…` strings, `i…` integers, `b…` booleans, `r…` repr of anything else) -/
abbrev PV := Option String

/-- `not value` for the values the harness generates -/
def falsy (v : PV) : Bool :=
  v == none || v == some "s" || v == some "bFalse" || v == some "i0" || v == some "r[]" || v == some "r()"

/-- the value of an attribute of a template node (`block_from` of a block or modification mapping) -/
inductive TVal where
  | plain (v : PV)
  | choice (vs : List PV)       -- `Choice(vs)`: the attribute is defined and one of `vs`
  | notDef (v : PV)             -- `NotDefinedOrNot(v)`: the attribute is not defined or differs from `v`
  deriving Repr, Inhabited, BEq, DecidableEq

abbrev AAttrs := List (String × PV)
abbrev TAttrs := List (String × TVal)

/-- `dict.get(k)` -/
def getA (a : AAttrs) (k : String) : PV := (a.lookup k).join

/-- one round of the loop of `attributes_match` for the key `k` with template value `v`:
`not (attributes.get(k) != v)  or  (isinstance(v, LinkPredicate) and v.match(attributes, k))` -/
def TVal.holds (a : AAttrs) (k : String) : TVal → Bool
  | .plain v => getA a k == v
  | .choice vs => vs.contains (getA a k)                    -- `node.get(key) in self.value`
  | .notDef v => match a.lookup k with                       -- `key not in node or node[key] != self.value`
    | none => true
    | some x => x != v

/-- `attributes_match(a, t, ignore_keys=node_matcher's)` -/
def attributesMatchP (a : AAttrs) (t : TAttrs) : Bool :=
  t.all (fun kv => ignoreKeys.contains kv.1 || kv.2.holds a kv.1)

/-- `node1.get('_old_atomname', node1['atomname'])` -/
def nameA (a : AAttrs) : PV :=
  match a.lookup "_old_atomname" with
  | some v => v
  | none => getA a "atomname"

def nameT (t : TAttrs) : TVal :=
  match t.lookup "_old_atomname" with
  | some v => v
  | none => (t.lookup "atomname").getD (.plain none)

/-- the copy of node1 `_old_atomname_match` compares: `_name` set, `atomname` deleted -/
def viewA (a : AAttrs) : AAttrs :=
  ("_name", nameA a) :: a.filter (fun kv => kv.1 != "atomname" && kv.1 != "_name")

/-- the copy of node2: `_name` set, `atomname` deleted; `order` is copied to node1 when node1 lacks it, which
makes that round of the loop pass whatever the value: the key is dropped here -/
def viewT (a : AAttrs) (t : TAttrs) : TAttrs :=
  ("_name", nameT t) :: t.filter (fun kv => kv.1 != "atomname" && kv.1 != "_name"
                                            && !(kv.1 == "order" && (a.lookup "order").isNone))

/-- `_old_atomname_match(node1, node2)` -/
def oldAtomnameMatchP (a : AAttrs) (t : TAttrs) : Bool :=
  attributesMatchP (viewA a) (viewT a t)

/-- a node of the molecule; `mods` = names of the entries of its `modifications` attribute (none = no such key) -/
structure ANode where
  key : Int
  attrs : AAttrs
  resid : Option Int
  mods : Option (List String) := none
  deriving Repr, Inhabited

/-- a node of `block_from` -/
structure TNode where
  key : Int
  attrs : TAttrs
  resid : Option Int
  mods : Option (List String) := none
  deriving Repr, Inhabited

/-- the two deletions at the top of `ptm_resname_match`: a falsy `resname`, a falsy `PTM_atom` -/
def ptmView (t : TAttrs) : TAttrs :=
  t.filter (fun kv => !(match kv.2 with
    | .plain v => (kv.1 == "resname" || kv.1 == "PTM_atom") && falsy v
    | _ => false))

/-- the `modifications` part of `ptm_resname_match`: when the atom has the attribute, every modification the
template names must be among the atom's; when it has not, the template's `modifications` stay in the
dictionary and `attributes_match` compares `None` with a list: no match -/
def modsMatch (am tm : Option (List String)) : Bool :=
  match am with
  | some l => (tm.getD []).all l.contains
  | none => tm.isNone

/-- `ptm_resname_match(mol_node, map_node)` -/
def ptmResnameMatchP (a : ANode) (t : TNode) : Bool :=
  oldAtomnameMatchP a.attrs (ptmView t.attrs) && modsMatch a.mods t.mods

def sameResP (rs : List (Int × Option Int)) (u v : Int) : Int :=
  match rs.lookup u, rs.lookup v with
  | some a, some b => if a == b then 1 else 0
  | _, _ => 0

/-- block mappings: `edge_matcher` as edge colour (1 = both ends in the same residue); modification
mappings: `edge_match=None`, every bond matches every bond -/
def toGraphP (block : Bool) (rs : List (Int × Option Int)) (es : List (Int × Int)) : Iso.Graph :=
  { nodes := rs.map (fun n => (n.1, 0)),
    edges := es.map (fun e => (e.1, e.2, if block then sameResP rs e.1 e.2 else 0)) }

def nodePredP (block : Bool) (mol : List ANode) (medges : List (Int × Int)) (pat : List TNode)
    (pedges : List (Int × Int)) : Iso.NodePred := fun p t =>
  match pat.find? (fun n => n.key == p), mol.find? (fun n => n.key == t) with
  | some pn, some tn =>
    (if block then oldAtomnameMatchP tn.attrs pn.attrs else ptmResnameMatchP tn pn)
      && (hasLoop pedges p == hasLoop medges t)
  | _, _ => false

/-- every place where the mapping fits: `block = true`: `Mapping.map(molecule, _old_atomname_match,
edge_matcher)`; `block = false`: `Mapping.map(molecule, ptm_resname_match)` -/
def refMatchesP (block : Bool) (mol : List ANode) (medges : List (Int × Int)) (pat : List TNode)
    (pedges : List (Int × Int)) : List Iso.Map :=
  Iso.allIsosP (toGraphP block (mol.map (fun n => (n.key, n.resid))) medges)
    (toGraphP block (pat.map (fun n => (n.key, n.resid))) pedges) (nodePredP block mol medges pat pedges)

end Pred
end C01
