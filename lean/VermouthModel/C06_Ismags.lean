import VermouthModel.Iso
/-
# C06_Ismags — TRANSCRIPTION of the search core of `vermouth/ismags.py`

Unlike `Iso.lean` (a reference = executable specification) the functions below follow the
code of `ISMAGS` statement by statement.  Theorems about them: `VermouthProofs/C06_Ismags.lean`,
`VermouthProps/C06_Ismags.lean`.  The differential tie (`harness/c06.py`, ops `tcand`, `tiso`,
`tlcs`, `tcons` of `Drivers/C06.lean`) compares the output of every function transcribed here
with the output of the real function on every generated case.

## Representation

* graphs: `Iso.Graph` (integer node keys, integer node colours, coloured edge list).  The code's
  colour machinery (`make_partitions`, `partition_to_color`, `_node_compatibility`,
  `_edge_compatibility`: "index of the class of equal nodes/edges", "class of the graph that is
  equal to class i of the subgraph") is represented by the integer colours themselves: two
  nodes/edges are equal iff their colours are equal (any transitive equality is such a colouring),
  a subgraph colour is "compatible" iff some node/edge of the graph carries it.
  `graph[n]`, `(u, v) in edge_colors`, `edge_colors[u, v]` are all read through `Graph.ecol`
  (`none` = not adjacent), so the model is defined for every edge list.
* a Python `set`/`frozenset` of graph nodes: a `List Int`; all sets the code builds are
  comprehension-filters of `graph.nodes`, here `g.keys.filter ..` (so equal sets are equal lists).
* `candidates` (dict: subgraph node -> frozenset of frozensets): `Cands`, association list in
  dict order; the inner frozenset is a duplicate-free list in insertion order (`insertSet`).
* `constraints` (set of pairs `(low, high)`): `List (Int × Int)`.
* `mapping` (dict sgn -> gn): association list, NEWEST pair first.  A yielded `{gn: sgn}` dict
  is the final association list (read as a dict; the drivers list it along the pattern nodes).
* generators: the list of yielded values, in yield order.

## What depends on CPython's set iteration order

`min(left_to_map, key=...)`, `min(candidates[n], key=len)`, `for sgn2 in left_to_map`,
`for nodes in to_be_mapped` iterate sets.  The SET of yielded mappings does not depend on these
orders (theorems `mapNodes_*` hold for every choice function `pick` that returns a member of its
argument), the ORDER of the yields does.  Two ways of running the model:
(a) `pickMin`: `left_to_map` in the order of `to_be_mapped` (the pattern-node order), ties in `min`
    to the first element in that order; outputs compared as SORTED lists with multiplicity (ops `tiso`, `tlcs`);
(b) RECORDED choices: the harness records the node every real `_map_nodes` call was started with,
    the driver feeds them back as `pick` after checking each with `legalChoice` (is it a possible
    result of the code's `min(..)` for SOME iteration order?) and compares the yield SEQUENCES
    (ops `qiso`, `qlcs`).  CPython's set iteration order itself is not modelled.
Note the key of the outer `min` is a frozenset, so `<` is "proper subset": `pickMin` / `legalChoice`
transcribe exactly that.

## Deviations (all unreachable from `find_isomorphisms` / `largest_common_subgraph`)

* `intersect([])` raises IndexError in Python, `min(())` raises ValueError: the model returns the
  empty set / yields nothing (`left_to_map` is never empty after the base case because
  `mapping.keys() ⊆ to_be_mapped`; every pattern node has a candidate entry).
* recursion depth is made explicit by `fuel` (= number of nodes still to map; `mapNodes_fuel`).
-/
namespace C06I
open Iso

abbrev NodeSet := List Int
abbrev Cands := List (Int × List NodeSet)
abbrev Constraints := List (Int × Int)

/-! ### dict / frozenset helpers -/

/-- `candidates[u]` -/
def Cands.get (c : Cands) (u : Int) : List NodeSet := (c.lookup u).getD []

/-- `candidates[u] = v` (in place when the key exists, appended otherwise) -/
def Cands.set : Cands → Int → List NodeSet → Cands
  | [], u, v => [(u, v)]
  | e :: r, u, v => if u == e.1 then (u, v) :: r else e :: Cands.set r u v

/-- `frozenset_of_frozensets.union([s])` -/
def insertSet (cs : List NodeSet) (s : NodeSet) : List NodeSet := if cs.contains s then cs else cs ++ [s]

/-- `intersect(collection_of_sets)`: the members of one of the sets that lie in all others -/
def intersect : List NodeSet → NodeSet
  | [] => []
  | s :: rest => s.filter fun t => rest.all fun r => r.contains t

/-- `sorted(..)` (insertion sort: structurally recursive, so the kernel can evaluate it) -/
def insertBy {α} (le : α → α → Bool) (a : α) : List α → List α
  | [] => [a]
  | b :: l => if le a b then a :: b :: l else b :: insertBy le a l

def sortBy {α} (le : α → α → Bool) (l : List α) : List α := l.foldr (insertBy le) []

def sortInts (l : List Int) : List Int := sortBy (fun a b => a ≤ b) l

/-! ### `_find_nodecolor_candidates` -/

/-- the graph nodes of the colour of subgraph node `u` (`_gn_partitions[_node_compatibility[colour u]]`,
or `frozenset()` when no graph node has that colour) -/
def nodeColourSet (g sg : Graph) (u : Int) : NodeSet := g.keys.filter fun t => g.ncol t == sg.ncol u

def findNodecolorCandidates (g sg : Graph) : Cands := sg.keys.map fun u => (u, [nodeColourSet g sg u])

/-! ### `_find_neighbor_color_count`, `_get_lookahead_candidates` -/

/-- `_find_neighbor_color_count(graph, u, ..)[ec, nc]`: number of neighbours of `u` of colour `nc`
joined to `u` by an edge of colour `ec` -/
def nbCount (g : Graph) (u ec nc : Int) : Nat :=
  (g.keys.filter fun v => g.ecol u v == some ec && g.ncol v == some nc).length

/-- `ec in self._edge_compatibility` for explicit `edge_match` -/
def hasEdgeColour (g : Graph) (ec : Int) : Bool := g.keys.any fun a => g.keys.any fun b => g.ecol a b == some ec

/-- `nc in self._node_compatibility` -/
def hasNodeColour (g : Graph) (nc : Int) : Bool := g.keys.any fun t => g.ncol t == some nc

/-- `all(new_sg_count[x] <= g_count[x] for x in new_sg_count)` for subgraph node `u` and graph node `t`.
`new_sg_count` has one entry per (edge colour, node colour) occurring around `u`, EXCEPT the ones
whose colours do not occur in the graph (the `except KeyError: pass`).  `edgeNone`: the matcher was
made with `edge_match=None` (then `_edge_compatibility = {0: 0}` whatever the graph contains). -/
def lookaheadOK (edgeNone : Bool) (g sg : Graph) (u t : Int) : Bool :=
  sg.keys.all fun v =>
    match sg.ecol u v, sg.ncol v with
    | some ec, some nc =>
      !((edgeNone || hasEdgeColour g ec) && hasNodeColour g nc) || decide (nbCount sg u ec nc ≤ nbCount g t ec nc)
    | _, _ => true

def lookaheadSet (edgeNone : Bool) (g sg : Graph) (u : Int) : NodeSet := g.keys.filter (lookaheadOK edgeNone g sg u)

def getLookaheadCandidates (edgeNone : Bool) (g sg : Graph) : Cands :=
  sg.keys.map fun u => (u, [lookaheadSet edgeNone g sg u])

/-! ### `_make_constraints` -/

/-- cosets: dict node -> set of nodes, as an association list -/
def makeConstraints (cosets : List (Int × List Int)) : Constraints :=
  cosets.flatMap fun e => (e.2.filter fun t => e.1 != t).map fun t => (e.1, t)

/-! ### specification of what `analyze_symmetry` + `_make_constraints` must deliver (a CHECKER, not a transcription) -/

/-- does the automorphism `a` (total map on the pattern nodes) fix every pattern node with a key smaller than `i`? -/
def fixesBelow (sg : Graph) (a : Map) (i : Int) : Bool := sg.keys.all fun j => !decide (j < i) || a.toFun j == j

/-- `constraints` is exactly the set of pairs `(i, t)`, `t ≠ i`, with `t` in the orbit of `i` under the
automorphisms of the pattern that fix all nodes smaller than `i` (the cosets of the stabiliser chain
in key order: what the ISMAGS paper asks of the symmetry analysis).  Decided by enumerating `auts sg`. -/
def constraintsValidB (sg : Graph) (C : Constraints) : Bool :=
  let A := auts sg
  (C.all fun lh => sg.keys.contains lh.1 && lh.1 != lh.2
      && A.any fun a => fixesBelow sg a lh.1 && a.toFun lh.1 == lh.2)
  && sg.keys.all fun i => A.all fun a => !fixesBelow sg a i || a.toFun i == i || C.contains (i, a.toFun i)

/-! ### `_map_nodes` -/

/-- the set added to `new_candidates[sgn2]` for the edge / non-edge between `sgn` (just mapped on
`gn`) and `sgn2`: `not_gn_neighbours`, or `{n for e in g_edges for n in e if gn in e}` with
`g_edges = _edges_of_same_color(sgn, sgn2)` -/
def edgeOptions (g sg : Graph) (sgn gn sgn2 : Int) : NodeSet :=
  match sg.ecol sgn sgn2 with
  | none => g.keys.filter fun t => (g.ecol gn t).isNone
  | some c =>
    if (g.keys.filter fun t => g.ecol gn t == some c).isEmpty then []
    else g.keys.filter fun t => t == gn || g.ecol gn t == some c

/-- the set added for a constraint between `sgn` and `sgn2`, if there is one (`if .. elif .. else continue`) -/
def consOptions (g : Graph) (C : Constraints) (sgn gn sgn2 : Int) : Option NodeSet :=
  if C.contains (sgn, sgn2) then some (g.keys.filter fun t => gn < t)
  else if C.contains (sgn2, sgn) then some (g.keys.filter fun t => t < gn)
  else none

/-- body of `for sgn2 in left_to_map:` -/
def addOptions (g sg : Graph) (C : Constraints) (sgn gn : Int) (nc : Cands) (sgn2 : Int) : Cands :=
  let nc1 := nc.set sgn2 (insertSet (nc.get sgn2) (edgeOptions g sg sgn gn sgn2))
  match consOptions g C sgn gn sgn2 with
  | none => nc1
  | some s => nc1.set sgn2 (insertSet (nc1.get sgn2) s)

/-- `to_be_mapped == set(mapping.keys())` -/
def sameSet (a b : List Int) : Bool := a.all (fun x => b.contains x) && b.all (fun x => a.contains x)

/-- `min(cs, key=len)` (first of the shortest) -/
def smallest : List NodeSet → NodeSet
  | [] => []
  | s :: rest => rest.foldl (fun best x => if x.length < best.length then x else best) s

/-- frozenset `<` -/
def properSubset (a b : NodeSet) : Bool := a.all (fun x => b.contains x) && !(b.all fun x => a.contains x)

/-- `min(nodes, key=lambda n: min(candidates[n], key=len))`: the keys are frozensets, `<` is proper subset -/
def pickMin (c : Cands) : List Int → Int
  | [] => 0
  | u :: rest =>
    rest.foldl (fun best x => if properSubset (smallest (c.get x)) (smallest (c.get best)) then x else best) u

/-- Which results of `min(nodes, key=lambda n: min(candidates[n], key=len))` are possible, whatever the
iteration order of the sets involved: `x` is a member of `nodes` and for one of its shortest candidate sets
`kx` no other node `y` is forced to have a key that is a proper subset of `kx` (every `y` has a shortest
candidate set that is not a proper subset of `kx`).  (`min` keeps the first item and replaces it only by a
strictly smaller one, so its result is a minimal element, and every minimal element is the result for some
order.) -/
def shortestSets (cs : List NodeSet) : List NodeSet :=
  cs.filter fun s => cs.all fun s' => s.length ≤ s'.length

def legalChoice (c : Cands) (nodes : List Int) (x : Int) : Bool :=
  nodes.contains x &&
    (if (c.get x).isEmpty then [[]] else shortestSets (c.get x)).any fun kx =>
      nodes.all fun y => y == x ||
        (if (c.get y).isEmpty then [[]] else shortestSets (c.get y)).any fun ky => !properSubset ky kx

/-- `_map_nodes(sgn, candidates, constraints, mapping, to_be_mapped)`; `pick` is the rule choosing the
next node among `left_to_map` (`fun _ => pickMin` for the code with a fixed iteration order; the driver
also runs it with the choices RECORDED from the real run, each checked with `legalChoice`).  `pick`
sees the mapping made so far (the recorded choices are keyed by it). -/
def mapNodes (pick : Map → Cands → List Int → Int) (g sg : Graph) (C : Constraints) :
    Nat → Int → Cands → Map → List Int → List Map
  | 0, _, _, _, _ => []
  | fuel + 1, sgn, cands, mapping, tbm =>
    let sgnCandidates := intersect (cands.get sgn)
    let cands := cands.set sgn [sgnCandidates]
    (sortInts sgnCandidates).flatMap fun gn =>
      if mapping.any (fun p => p.2 == gn) || !tbm.contains sgn then []
      else
        let mapping' : Map := (sgn, gn) :: mapping
        let keys := mapping'.map Prod.fst
        if sameSet tbm keys then [mapping']
        else
          let left := tbm.filter fun u => !keys.contains u
          if left.isEmpty then []
          else
            let newCands := left.foldl (addOptions g sg C sgn gn) cands
            mapNodes pick g sg C fuel (pick mapping' newCands left) newCands mapping' tbm

/-! ### `find_isomorphisms` -/

/-- the candidate table of `find_isomorphisms` before the start node is chosen -/
def initialCands (edgeNone : Bool) (g sg : Graph) : Cands :=
  sg.keys.map fun u =>
    let extra := lookaheadSet edgeNone g sg u
    (u, if extra.isEmpty then [nodeColourSet g sg u] else insertSet [nodeColourSet g sg u] extra)

def findIsomorphismsWith (pick : Map → Cands → List Int → Int) (edgeNone : Bool) (g sg : Graph) (C : Constraints) : List Map :=
  if sg.keys.isEmpty then [[]]
  else if g.keys.isEmpty then []
  else if g.keys.length < sg.keys.length then []
  else
    let cands := initialCands edgeNone g sg
    if cands.any fun e => !e.2.isEmpty then
      let start := pick [] cands (cands.map Prod.fst)
      let cands := cands.set start [intersect (cands.get start)]
      mapNodes pick g sg C sg.keys.length start cands [] sg.keys
    else []

/-- `find_isomorphisms(symmetry)` with `constraints` as produced by `analyze_symmetry` + `_make_constraints`
(`[]` for `symmetry=False`) -/
def findIsomorphisms (edgeNone : Bool) (g sg : Graph) (C : Constraints) : List Map :=
  findIsomorphismsWith (fun _ => pickMin) edgeNone g sg C

/-! ### `subgraph_is_isomorphic`, `is_isomorphic` -/

/-- `subgraph_is_isomorphic(symmetry)`: `next(self.subgraph_isomorphisms_iter(symmetry), None) is not None` -/
def subgraphIsIsomorphicWith (pick : Map → Cands → List Int → Int) (edgeNone : Bool) (g sg : Graph)
    (C : Constraints) : Bool :=
  !(findIsomorphismsWith pick edgeNone g sg C).isEmpty

/-- `is_isomorphic(symmetry)`: `len(self.subgraph) == len(self.graph) and self.subgraph_is_isomorphic(symmetry)` -/
def isIsomorphicWith (pick : Map → Cands → List Int → Int) (edgeNone : Bool) (g sg : Graph) (C : Constraints) : Bool :=
  sg.keys.length == g.keys.length && subgraphIsIsomorphicWith pick edgeNone g sg C

/-! ### `_remove_node`, `_largest_common_subgraph`, `largest_common_subgraph` -/

/-- `_remove_node(node, nodes, constraints)`: follow constraints `(node, high)` with `high in nodes`
(first match in the order of `constraints`) as long as there is one; `fuel` bounds the `while True`
(it does not terminate in Python for cyclic constraints inside `nodes`). -/
def removeNode (C : Constraints) (nodes : List Int) : Nat → Int → List Int
  | 0, node => nodes.filter (· != node)
  | fuel + 1, node =>
    match C.find? (fun lh => lh.1 == node && nodes.contains lh.2) with
    | some lh => removeNode C nodes fuel lh.2
    | none => nodes.filter (· != node)

def lexLe : List Int → List Int → Bool
  | [], _ => true
  | _ :: _, [] => false
  | a :: as, b :: bs => a < b || (a == b && lexLe as bs)

def dedup : List (List Int) → List (List Int)
  | [] => []
  | a :: l => if l.contains a then dedup l else a :: dedup l

/-- the `for nodes in sorted(to_be_mapped, key=sorted): .. yield from self._map_nodes(next_sgn, ..)` loop -/
def lcsFound (pick : Map → Cands → List Int → Int) (g sg : Graph) (cands : Cands) (C : Constraints)
    (tbm : List (List Int)) : List Map :=
  (sortBy (fun a b => lexLe (sortInts a) (sortInts b)) tbm).flatMap fun nodes =>
    mapNodes pick g sg C nodes.length (pick [] cands nodes) cands [] nodes

/-- `left_to_be_mapped`: every set of `to_be_mapped` with one node removed (`_remove_node`), as a set -/
def lcsShrink (C : Constraints) (tbm : List (List Int)) : List (List Int) :=
  dedup (tbm.flatMap fun nodes => nodes.map fun sgn => removeNode C nodes nodes.length sgn)

/-- `_largest_common_subgraph(candidates, constraints, to_be_mapped)`; `level` = `current_size` bounds
the recursion (one node fewer per level). -/
def lcsWith (pick : Map → Cands → List Int → Int) (g sg : Graph) (cands : Cands) (C : Constraints) :
    Nat → List (List Int) → List Map
  | 0, _ => []
  | level + 1, tbm =>
    let currentSize := (tbm.head?.getD []).length
    let found : List Map := if currentSize ≤ g.keys.length then lcsFound pick g sg cands C tbm else []
    if !found.isEmpty || currentSize == 1 then found
    else lcsWith pick g sg cands C level (lcsShrink C tbm)

def largestCommonSubgraphWith (pick : Map → Cands → List Int → Int) (g sg : Graph) (C : Constraints) : List Map :=
  if sg.keys.isEmpty then [[]]
  else if g.keys.isEmpty then []
  else
    let cands := findNodecolorCandidates g sg
    if cands.any fun e => !e.2.isEmpty then lcsWith pick g sg cands C sg.keys.length [sg.keys]
    else []

def largestCommonSubgraph (g sg : Graph) (C : Constraints) : List Map :=
  largestCommonSubgraphWith (fun _ => pickMin) g sg C

end C06I
