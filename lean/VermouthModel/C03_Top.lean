import VermouthModel.C03_Text
import VermouthModel.C03_Sort
/-
C03 — the TEXT of the `.top` file and the orchestration of `write_gmx_topology`
(`vermouth/gmx/topology.py`), plus an independent `.top` reader.

Transcribed:
* `if not system.molecules: raise ValueError`
* the `atomtypes` / `nonbond_params` files: written to `itp_paths[key]` iff `key in
  system.gmx_topology_params` (`itp_paths = []`, as martinize2 passes without Go/water bias, is a
  TypeError then; a dict without the key a KeyError).  They are NOT included in the `.top`
  (`include_string` stays empty: `martini.itp` includes them under `#ifdef GO_VIRT`).
* the header: lines longer than 4000 characters are cut and get `" ..."`; for every ITP written
  `header[-1] += "\n"` (IndexError on an empty header), `"Please cite the following papers:"` and
  the formatted citations of the molecule written are APPENDED to the one list - the header grows
  from ITP to ITP within one call.
* the template of the `.top`: `#define` lines, `#include "martini.itp"`, one `#include "<name>.itp"`
  per name at first appearance, `[ system ]`, `[ molecules ]` with `'{mtype:<{length}}    {num}'`,
  `length` = longest name; `textwrap.dedent` of the result (no common margin since the martini
  include starts in column 0: its only effect is that lines of blanks/tabs become empty).

Text is `List Char`; `String` only at the driver boundary.
-/
namespace C03

/-! ### text primitives -/

/-- `'\n'.join(lines)` -/
def joinNl : List (List Char) → List Char
  | [] => []
  | [l] => l
  | l :: rest => l ++ '\n' :: joinNl rest

/-- `text.split('\n')` -/
def splitNlGo : List Char → List Char → List (List Char)
  | [], cur => [cur.reverse]
  | c :: cs, cur => if c = '\n' then cur.reverse :: splitNlGo cs [] else splitNlGo cs (c :: cur)

def splitNl (t : List Char) : List (List Char) := splitNlGo t []

def isBlankTab (c : Char) : Bool := c = ' ' || c = '\t'

/-- `_whitespace_only_re.sub('', text)` of `textwrap.dedent`, line by line -/
def blankWs (l : List Char) : List Char := if l.all isBlankTab then [] else l

/-- `textwrap.dedent(text)` for a text that has a non-blank line starting in column 0 -/
def dedent0 (t : List Char) : List Char := joinNl ((splitNl t).map blankWs)

/-- `'{:<w}'.format(s)` -/
def padRight (w : Nat) (s : List Char) : List Char := s ++ List.replicate (w - s.length) ' '

/-! ### the `.top` text -/

def maxNameLen (names : List (List Char)) : Nat := names.foldl (fun acc n => max acc n.length) 0

def defineLine (d : List Char) : List Char := ['#', 'd', 'e', 'f', 'i', 'n', 'e', ' '] ++ d
def includeLine (n : List Char) : List Char := ['#', 'i', 'n', 'c', 'l', 'u', 'd', 'e', ' ', '\"'] ++ n ++ ['.', 'i', 't', 'p', '\"']
def moleculeLine (w : Nat) (g : List Char × Nat) : List Char :=
  padRight w g.1 ++ [' ', ' ', ' ', ' '] ++ C16.natDigits g.2

/-- `template.format(includes=..., molecules=..., defines=...)` -/
def topRaw (defines : List (List Char)) (names : List (List Char)) : List Char :=
  joinNl (defines.map defineLine) ++ ['\n', '#', 'i', 'n', 'c', 'l', 'u', 'd', 'e', ' ', '\"', 'm', 'a', 'r', 't', 'i', 'n', 'i', '.', 'i', 't', 'p', '\"', '\n']
    ++ joinNl ((includes names).map includeLine)
    ++ ['\n', '\n', '[', ' ', 's', 'y', 's', 't', 'e', 'm', ' ', ']', '\n', 'T', 'i', 't', 'l', 'e', ' ', 'o', 'f', ' ', 't', 'h', 'e', ' ', 's', 'y', 's', 't', 'e', 'm', '\n', '\n', '[', ' ', 'm', 'o', 'l', 'e', 'c', 'u', 'l', 'e', 's', ' ', ']', '\n']
    ++ joinNl ((groups names).map (moleculeLine (maxNameLen names))) ++ ['\n']

/-- the text of the `.top` file -/
def topText (defines : List (List Char)) (names : List (List Char)) : List Char :=
  dedent0 (topRaw defines names)

/-! ### the header handed to the ITP writer -/

def charLimit : Nat := 4000

/-- `line[:4000] + " ..."` for over-long header lines -/
def clipLine (l : List Char) : List Char := if l.length > charLimit then l.take charLimit ++ [' ', '.', '.', '.'] else l

inductive TopErr where
  | valueerror | indexerror | typeerror | keyerror
  | itp (e : C02.Err)
  deriving DecidableEq, Repr

/-- `header[-1] = header[-1] + "\n"; header.append("Please cite ..."); header.append(cite)...` -/
def headerStep (h : List (List Char)) (cites : List (List Char)) : Except TopErr (List (List Char)) :=
  match h.reverse with
  | [] => .error .indexerror
  | last :: revInit =>
    .ok (revInit.reverse ++ [last ++ ['\n']] ++ [['P', 'l', 'e', 'a', 's', 'e', ' ', 'c', 'i', 't', 'e', ' ', 't', 'h', 'e', ' ', 'f', 'o', 'l', 'l', 'o', 'w', 'i', 'n', 'g', ' ', 'p', 'a', 'p', 'e', 'r', 's', ':']] ++ cites)

/-- the headers of the successive ITP files: `ws` = the molecules written, in order -/
def itpHeaders (cites : List (List (List Char))) :
    List (List Char) → List Nat → Except TopErr (List (List (List Char)))
  | _, [] => .ok []
  | h, i :: rest =>
    match headerStep h (cites.getD i []) with
    | .error e => .error e
    | .ok h' =>
      match itpHeaders cites h' rest with
      | .error e => .error e
      | .ok hs => .ok (h' :: hs)

/-! ### `write_gmx_topology` -/

structure TopIn where
  sys : List TMol
  /-- `molecule.meta['moltype']` -/
  names : List (List Char)
  /-- formatted citations of each molecule (opaque strings, in the iteration order of the set) -/
  cites : List (List (List Char))
  /-- `system.meta.get('header', [])` -/
  header : List (List Char)
  defines : List (List Char)
  /-- the keys present in `system.gmx_topology_params` -/
  params : List String
  /-- `itp_paths` when it is a dict -/
  itpPaths : Option (List (String × String))

structure TopOutText where
  /-- files written for `atomtypes` / `nonbond_params` (contents: not modelled) -/
  paramFiles : List String
  /-- (file stem, index of the molecule written, header, text) -/
  itps : List (List Char × Nat × List (List Char) × String)
  top : List Char

def paramFile (inp : TopIn) (key : String) : Except TopErr (List String) :=
  if inp.params.contains key then
    match inp.itpPaths with
    | none => .error .typeerror
    | some d =>
      match d.lookup key with
      | none => .error .keyerror
      | some p => .ok [p]
  else .ok []

def writeItps (inp : TopIn) : List (List Char × Nat) → List (List (List Char)) →
    Except TopErr (List (List Char × Nat × List (List Char) × String))
  | [], _ => .ok []
  | (n, i) :: ws, h :: hs =>
    match inp.sys[i]? with
    | none => .error .indexerror
    | some t =>
      match itpText (h.map String.ofList) (String.ofList n) t with
      | .error e => .error (.itp e)
      | .ok text =>
        match writeItps inp ws hs with
        | .error e => .error e
        | .ok r => .ok ((n, i, h, text) :: r)
  | _ :: _, [] => .error .indexerror

def writeTopology (inp : TopIn) : Except TopErr TopOutText :=
  if inp.sys.isEmpty then .error .valueerror else
  match paramFile inp "atomtypes" with
  | .error e => .error e
  | .ok f1 =>
  match paramFile inp "nonbond_params" with
  | .error e => .error e
  | .ok f2 =>
  let ws := itpWrites inp.names
  match itpHeaders inp.cites (inp.header.map clipLine) (ws.map (·.2)) with
  | .error e => .error e
  | .ok hs =>
  match writeItps inp ws hs with
  | .error e => .error e
  | .ok itps =>
    .ok { paramFiles := f1 ++ f2, itps := itps, top := topText inp.defines inp.names }

/-! ### martinize2: `SortMoleculeAtoms()` between naming and writing, on the full molecule -/

/-- the nodes of the molecule reordered (decorations move with their node) -/
def sortTMol (t : TMol) : TMol :=
  let ps := insSortBy (fun p q : Atom × Deco => sortLe sortbyDefault p.1 q.1) t.atoms
  { t with mol := { t.mol with nodes := ps.map (·.1) }, deco := ps.map (·.2) }

/-- `NameMolType(deduplicate, molname)`, then `SortMoleculeAtoms()`, then `write_gmx_topology`:
the names are those of the UNSORTED molecules -/
def pipelineIn (dedup : Bool) (molname : String) (inp : TopIn) : TopIn :=
  { inp with
    names := (nameMolTypes (shareMolType npClose) dedup (inp.sys.map (·.mol))).map fun g => (molName molname g).toList
    sys := inp.sys.map sortTMol }

/-! ### an independent `.top` reader

Lines; everything from the first `;` is a comment; tokens are separated by blanks.
`#define tok*`, `#include "file"`, `[ section ]`, in `[ molecules ]` lines `name count`, in
`[ system ]` the title.  Shares nothing with the writer. -/

def isSp (c : Char) : Bool := c = ' ' || c = '\t' || c = '\r' || c = '\x0b' || c = '\x0c' || c = '\n'

def splitWsGo : List Char → List Char → List (List Char)
  | [], cur => if cur.isEmpty then [] else [cur.reverse]
  | c :: cs, cur =>
    if isSp c then (if cur.isEmpty then splitWsGo cs [] else cur.reverse :: splitWsGo cs [])
    else splitWsGo cs (c :: cur)

def splitWs (l : List Char) : List (List Char) := splitWsGo l []

def uncomment (l : List Char) : List Char := l.takeWhile (· ≠ ';')

/-- `"file"` → `file` -/
def unquote (t : List Char) : Option (List Char) :=
  match t with
  | '"' :: r =>
    match r.reverse with
    | '"' :: m => some m.reverse
    | _ => none
  | _ => none

def parseNat (t : List Char) : Option Nat :=
  if t ≠ [] ∧ t.all C16.isDigit then some (C16.digitsVal t) else none

structure TopParsed where
  defines : List (List (List Char))
  includes : List (List Char)
  title : List (List (List Char))
  molecules : List (List Char × Nat)
  deriving DecidableEq, Repr

inductive TopPErr where
  | badInclude | badSection | badMolecule | noSection
  deriving DecidableEq, Repr

structure TopPState where
  sect : Option (List Char)
  out : TopParsed
  deriving DecidableEq, Repr

def TopPState.init : TopPState := ⟨none, ⟨[], [], [], []⟩⟩

def topStep (st : TopPState) (toks : List (List Char)) : Except TopPErr TopPState :=
  match toks with
  | [] => .ok st
  | t :: rest =>
    if t = ['#', 'd', 'e', 'f', 'i', 'n', 'e'] then .ok { st with out := { st.out with defines := st.out.defines ++ [rest] } }
    else if t = ['#', 'i', 'n', 'c', 'l', 'u', 'd', 'e'] then
      match rest with
      | [q] =>
        match unquote q with
        | some f => .ok { st with out := { st.out with includes := st.out.includes ++ [f] } }
        | none => .error .badInclude
      | _ => .error .badInclude
    else if t = ['['] then
      match rest with
      | [name, [']']] => .ok { st with sect := some name }
      | _ => .error .badSection
    else
      match st.sect with
      | none => .error .noSection
      | some s =>
        if s = ['m', 'o', 'l', 'e', 'c', 'u', 'l', 'e', 's'] then
          match toks with
          | [name, cnt] =>
            match parseNat cnt with
            | some c => .ok { st with out := { st.out with molecules := st.out.molecules ++ [(name, c)] } }
            | none => .error .badMolecule
          | _ => .error .badMolecule
        else if s = ['s', 'y', 's', 't', 'e', 'm'] then
          .ok { st with out := { st.out with title := st.out.title ++ [toks] } }
        else .error .badSection

def topFold : TopPState → List (List (List Char)) → Except TopPErr TopPState
  | st, [] => .ok st
  | st, l :: ls =>
    match topStep st l with
    | .ok st' => topFold st' ls
    | .error e => .error e

def parseTop (text : List Char) : Except TopPErr TopParsed :=
  match topFold TopPState.init ((splitNl text).map fun l => splitWs (uncomment l)) with
  | .ok st => .ok st.out
  | .error e => .error e

end C03
