import VermouthModel.Proto
/-
C03 — system-level output logic: which atom order the three writers use, how
molecule-type names are assigned, how the `.top` groups and includes them and
which molecule's ITP is written for a name.

Transcribed from
* `vermouth/molecule.py`      `Molecule.sorted_nodes`, `share_moltype_with`,
                              `same_nodes`, `same_edges`, `same_interactions`
* `vermouth/utils.py`         `are_different` (scalar cases)
* `vermouth/processors/name_moltype.py`  `NameMolType`
* `vermouth/gmx/topology.py`  `write_gmx_topology` (group loop, include list)
* the atom loops of `write_pdb_string`, `write_gro`, `write_molecule_itp`
  (all three iterate `molecule.sorted_nodes`).

Numbers: attribute values cross the boundary as `Val.int i` (python int) or
`Val.num n` (python float, exact value n * 1e-12).  No float enters the model.
-/
namespace C03

/-! ### data -/

inductive Val where
  | none
  | int (i : Int)
  | num (n : Int)
  | str (s : String)
  deriving DecidableEq, Repr, Inhabited

/-- a node: key + attribute dictionary (association list, sorted by attribute name by the
harness: the order of a python dict does not take part in any comparison here) -/
structure Atom where
  key : Int
  attrs : List (String × Val)
  deriving DecidableEq, Repr, Inhabited

/-- one interaction: atom keys and everything else (parameters, meta) in a canonical encoding;
the code compares interactions with `==` on the named tuples, i.e. exactly -/
structure Inter where
  atoms : List Int
  rest : String
  deriving DecidableEq, Repr, Inhabited

/-- one entry of `molecule.meta` whose value is a dictionary: `define` (name -> [value]) or
`pre_section_lines` / `post_section_lines` (section -> lines); keys sorted by the harness (python
compares dictionaries regardless of order) -/
abbrev MetaDict := List (String × List Val)

structure Mol where
  nrexcl : Option Int
  ff : Option Int                      -- identity of the force field object (None = none)
  metadata : List (String × MetaDict)      -- `molecule.meta` without the moltype, sorted by key
  nodes : List Atom                    -- in node (insertion) order
  edges : List (Int × Int)             -- the *set* of undirected edges in canonical order
  inters : List (String × List Inter)  -- interaction categories sorted by name, lists in order
  deriving DecidableEq, Repr, Inhabited

def getAttr (a : Atom) (k : String) : Val :=
  match a.attrs.find? (fun p => p.1 == k) with
  | some p => p.2
  | Option.none => Val.none

/-! ### `Molecule.sorted_nodes`: `sorted(nodes, key = atomid or +inf)`, stable -/

/-- the sort key; `none` is `numpy.inf` -/
def atomidOf (a : Atom) : Option Int :=
  match getAttr a "atomid" with
  | Val.int i => some i
  | _ => Option.none

/-- `x ≤ y` on sort keys, `none` = +infinity -/
def keyLe : Option Int → Option Int → Bool
  | _, Option.none => true
  | Option.none, some _ => false
  | some a, some b => a ≤ b

/-- insert `x` in front of an already sorted list: before every element that is not smaller
(so that `x`, which came earlier in the input, stays in front of equal keys) -/
def insertAtom (x : Atom) : List Atom → List Atom
  | [] => [x]
  | y :: ys => if keyLe (atomidOf x) (atomidOf y) then x :: y :: ys else y :: insertAtom x ys

/-- stable insertion sort by atom id -/
def sortedNodes : List Atom → List Atom
  | [] => []
  | x :: xs => insertAtom x (sortedNodes xs)

/-! ### the atom loops of the three writers -/

/-- what a coordinate record and an `[ atoms ]` line have in common -/
structure Rec where
  atomname : Val
  resname : Val
  resid : Val
  deriving DecidableEq, Repr, Inhabited

def recOf (a : Atom) : Rec :=
  { atomname := getAttr a "atomname", resname := getAttr a "resname", resid := getAttr a "resid" }

/-- `for node_idx in molecule.sorted_nodes: ...` — one definition, three call sites -/
def writeAtoms (m : Mol) : List Rec := (sortedNodes m.nodes).map recOf
def pdbRecords (m : Mol) : List Rec := writeAtoms m
def groRecords (m : Mol) : List Rec := writeAtoms m
def itpAtoms (m : Mol) : List Rec := writeAtoms m

/-! ### `are_different` / `share_moltype_with` -/

/-- `are_different(left, right)` on scalars; `close` stands for `numpy.isclose(left, right)` -/
def valDiff (close : Val → Val → Bool) : Val → Val → Bool
  | Val.none, Val.none => false
  | Val.int i, Val.int j => !close (Val.int i) (Val.int j)
  | Val.num a, Val.num b => !close (Val.num a) (Val.num b)
  | Val.str s, Val.str t => s != t
  | _, _ => true      -- classes differ

def ignoreAttrs : List String := ["position", "chain", "graph", "mapping_weights"]

def keptAttrs (a : Atom) : List (String × Val) := a.attrs.filter (fun p => !ignoreAttrs.contains p.1)

/-- comparison of two attribute dictionaries given as name-sorted lists: same key set, no
value different -/
def attrsSame (close : Val → Val → Bool) : List (String × Val) → List (String × Val) → Bool
  | [], [] => true
  | (k, v) :: r, (k', v') :: r' => k == k' && !valDiff close v v' && attrsSame close r r'
  | _, _ => false

def nodesSame (close : Val → Val → Bool) : List Atom → List Atom → Bool
  | [], [] => true
  | a :: r, b :: r' => a.key == b.key && attrsSame close (keptAttrs a) (keptAttrs b) && nodesSame close r r'
  | _, _ => false

/-- the relevant interaction categories: those that actually hold interactions -/
def relevantInters (m : Mol) : List (String × List Inter) := m.inters.filter (fun p => !p.2.isEmpty)

/-- `molecule.meta.get(key)` -/
def metaGet (m : Mol) (k : String) : Option MetaDict :=
  (m.metadata.find? (fun p => p.1 == k)).map (·.2)

/-- `written_meta` of `share_moltype_with`: the parts of the metadata that are compared -/
def writtenMeta : List String := ["define", "pre_section_lines", "post_section_lines"]

/-- the meta entries `write_molecule_itp` reads (besides the moltype, which is the name itself) -/
def itpMetaKeys : List String := ["define", "post_section_lines", "pre_section_lines"]

/-- `molecule.share_moltype_with(template)`; `close x y` = `numpy.isclose(x, y)` with `x` from
the molecule and `y` from the template -/
def shareMolType (close : Val → Val → Bool) (m t : Mol) : Bool :=
  m.nrexcl == t.nrexcl && m.ff == t.ff && writtenMeta.all (fun k => metaGet m k == metaGet t k)
    && nodesSame close m.nodes t.nodes
    && m.edges == t.edges && relevantInters m == relevantInters t

/-- exact integers in units of 1e-12: `|a - b| <= 1e-8 + 1e-5 * |b|` -/
def closeUnits (a b : Int) : Bool := 100000 * (a - b).natAbs ≤ 1000000000 + b.natAbs

/-- model of `numpy.isclose(x, y, equal_nan=True)` on the values that cross the boundary -/
def npClose : Val → Val → Bool
  | Val.int i, Val.int j => closeUnits (i * 1000000000000) (j * 1000000000000)
  | Val.num a, Val.num b => closeUnits a b
  | _, _ => false

def exactClose (x y : Val) : Bool := x == y

/-! ### `NameMolType` -/

/-- `for match_id, template in representatives: if molecule.share_moltype_with(template): break` -/
def findRep (shares : Mol → Mol → Bool) : List Mol → Mol → Option Nat
  | [], _ => Option.none
  | t :: ts, m => if shares m t then some 0 else (findRep shares ts m).map (· + 1)

/-- the loop of `_name_with_deduplication`; `reps` is the list of representatives, whose ids are
their positions (`group_id` always equals `len(representatives) - 1`) -/
def nameLoop (shares : Mol → Mol → Bool) : List Mol → List Mol → List Nat
  | _, [] => []
  | reps, m :: ms =>
    match findRep shares reps m with
    | some i => i :: nameLoop shares reps ms
    | Option.none => reps.length :: nameLoop shares (reps ++ [m]) ms

/-- molecule-type ids (the name is `'{molname}_{id}'`) in system order -/
def nameMolTypes (shares : Mol → Mol → Bool) (dedup : Bool) (sys : List Mol) : List Nat :=
  if dedup then
    match sys with
    | [] => []
    | m0 :: _ => nameLoop shares [m0] sys
  else List.range' 0 sys.length

/-! ### `write_gmx_topology` -/

theorem dropWhile_length_le {α} (p : α → Bool) (l : List α) : (l.dropWhile p).length ≤ l.length := by
  induction l with
  | nil => simp
  | cons a t ih => simp only [List.dropWhile_cons]; split <;> simp <;> omega

/-- `itertools.groupby(molecules, key=moltype)` followed by
`moltype_count.append([moltype, 1 + len(list(molecules))])` -/
def groups {α} [DecidableEq α] : List α → List (α × Nat)
  | [] => []
  | n :: rest =>
    (n, 1 + (rest.takeWhile (· == n)).length) :: groups (rest.dropWhile (· == n))
termination_by l => l.length
decreasing_by
  have := dropWhile_length_le (· == n) rest
  simp only [List.length_cons]; omega

/-- `dict.fromkeys(keys)`: insertion-ordered set -/
def dictFromKeys {α} [DecidableEq α] (keys : List α) : List α :=
  keys.foldl (fun acc k => if acc.contains k then acc else acc ++ [k]) []

/-- the `#include` lines for molecule types -/
def includes {α} [DecidableEq α] (names : List α) : List α :=
  dictFromKeys ((groups names).map (·.1))

/-- the loop over groups that writes ITP files: `off` is the index in the system of the first
molecule of the group (`next(molecules)`), `written` is `moltype_written`.
Result: (name, index of the molecule whose ITP is written), in writing order. -/
def itpLoop {α} [DecidableEq α] : List (α × Nat) → Nat → List α → List (α × Nat)
  | [], _, _ => []
  | (n, c) :: gs, off, written =>
    if written.contains n then itpLoop gs (off + c) written
    else (n, off) :: itpLoop gs (off + c) (n :: written)

def itpWrites {α} [DecidableEq α] (names : List α) : List (α × Nat) := itpLoop (groups names) 0 []

/-- index of the molecule whose ITP is the file of molecule type `n` -/
def itpSource {α} [DecidableEq α] (names : List α) (n : α) : Option Nat :=
  ((itpWrites names).find? (fun p => p.1 == n)).map (·.2)

/-! ### the processor and the writer as objects with state

`NameMolType` is an object that can be applied to several systems in a row; the only things it
keeps are its configuration (`deduplicate`; `meta_key` and `molname` only shape the rendering of
the name).  The list of representatives and the group counter are LOCAL to one `run_system`.
`write_gmx_topology` is a function: `moltype_written`, `moltype_count` and the header list are
locals of one call.  Both are written here with explicit state so that "one application = what a
fresh object does" is a statement about the model. -/

structure Proc where
  deduplicate : Bool
  deriving Repr, DecidableEq

/-- one `processor.run_system(system)`: new processor state and the ids handed out -/
def procStep (shares : Mol → Mol → Bool) (p : Proc) (sys : List Mol) : Proc × List Nat :=
  (p, nameMolTypes shares p.deduplicate sys)

/-- one processor object applied to the systems in order -/
def runHistory (shares : Mol → Mol → Bool) (p : Proc) : List (List Mol) → List (List Nat)
  | [] => []
  | sys :: rest =>
    let r := procStep shares p sys
    r.2 :: runHistory shares r.1 rest

/-- what one call of `write_gmx_topology` leaves in the `.top` and which ITPs it writes -/
structure TopOut (α : Type) where
  groups : List (α × Nat)
  includes : List α
  itps : List (α × Nat)
  deriving Repr, DecidableEq

/-- state that survives a call of `write_gmx_topology`: none -/
abbrev WriterState := Unit

def writeStep {α} [DecidableEq α] (st : WriterState) (names : List α) : WriterState × TopOut α :=
  (st, { groups := groups names, includes := includes names, itps := itpWrites names })

def writeHistory {α} [DecidableEq α] (st : WriterState) : List (List α) → List (TopOut α)
  | [] => []
  | names :: rest =>
    let r := writeStep st names
    r.2 :: writeHistory r.1 rest

/-! ### everything the check observes of one system -/

structure SysOut where
  names : List Nat
  groups : List (Nat × Nat)
  includes : List Nat
  src : List (Nat × Nat)
  pdb : List (List Rec)
  gro : List (List Rec)
  itp : List (List Rec)
  deriving Repr

/-- the observable output of a system given the ids its molecules carry -/
def sysOutOf (names : List Nat) (sys : List Mol) : SysOut :=
  let top := (writeStep () names).2
  let ws := top.itps
  { names := names
    groups := top.groups
    includes := top.includes
    src := ws
    pdb := sys.map pdbRecords
    gro := sys.map groRecords
    itp := ws.map (fun p => match sys[p.2]? with | some m => itpAtoms m | Option.none => []) }

/-- a history: one processor over all systems, then every system written -/
def historyOut (close : Val → Val → Bool) (dedup : Bool) (syss : List (List Mol)) : List SysOut :=
  (List.zip (runHistory (shareMolType close) ⟨dedup⟩ syss) syss).map (fun p => sysOutOf p.1 p.2)

def sysOut (close : Val → Val → Bool) (dedup : Bool) (sys : List Mol) : SysOut :=
  let names := nameMolTypes (shareMolType close) dedup sys
  let ws := itpWrites names
  { names := names
    groups := groups names
    includes := includes names
    src := ws
    pdb := sys.map pdbRecords
    gro := sys.map groRecords
    itp := ws.map (fun p => match sys[p.2]? with | some m => itpAtoms m | Option.none => []) }

end C03
