import VermouthModel.C02
/-
C02 — the CALL of `write_molecule_itp(molecule, outfile, header, moltype, post_section_lines,
pre_section_lines)`: how the arguments and the molecule's `meta` are resolved before anything is
written (lines 103-117 and 151-154 of `vermouth/gmx/itp.py`).

* `moltype`: the argument unless it `is None`, then `molecule.meta.get('moltype')`; `None` → ValueError.
  An empty string is a molecule name like any other (the test is `is None`, not truthiness).
* `nrexcl`: `_attr_has_not_none_attr(molecule, 'nrexcl')`: absent or `None` → ValueError (0 is a value).
* every atom must have `atype`, `resid`, `resname`, `atomname`, `charge_group` (`attribute in atom`:
  presence of the key; a falsy value such as 0 or '' is present) → ValueError otherwise.
* `post_section_lines` / `pre_section_lines`: the argument unless it `is None`, then
  `molecule.meta.get(..., {})`.  An EMPTY dict argument is an argument: it hides the meta lines.
-/
namespace C02

structure RawAtom where
  key : Int
  atomid : Option Int
  atype : Option String
  resid : Option String
  resname : Option String
  atomname : Option String
  cgnr : Option String
  charge : String
  mass : String
  deriving Repr

structure Call where
  moltypeArg : Option String
  moltypeMeta : Option String
  nrexcl : Option String
  header : List String
  defines : List (String × String)
  atoms : List RawAtom
  inters : List (String × List Inter)
  preArg : Option (List (String × List String))
  postArg : Option (List (String × List String))
  preMeta : Option (List (String × List String))
  postMeta : Option (List (String × List String))
  deriving Repr

/-- `x if x is not None else y` -/
def orElseNone {α} (a b : Option α) : Option α :=
  match a with
  | some x => some x
  | none => b

def resolveAtom (a : RawAtom) : Option Atom :=
  match a.atype, a.resid, a.resname, a.atomname, a.cgnr with
  | some ty, some ri, some rn, some an, some cg =>
    some { key := a.key, atomid := a.atomid, atype := ty, resid := ri, resname := rn, atomname := an,
           cgnr := cg, charge := a.charge, mass := a.mass }
  | _, _, _, _, _ => none

/-- the molecule the body of the writer works on; `ValueError` for the three early checks -/
def resolve (c : Call) : Except Err Mol :=
  match orElseNone c.moltypeArg c.moltypeMeta with
  | none => .error .valueerror
  | some mt =>
    match c.nrexcl with
    | none => .error .valueerror
    | some nr =>
      match c.atoms.mapM resolveAtom with
      | none => .error .valueerror
      | some atoms =>
        .ok { moltype := mt, nrexcl := nr, header := c.header, defines := c.defines, atoms := atoms,
              inters := c.inters,
              pre := (orElseNone c.preArg c.preMeta).getD [],
              post := (orElseNone c.postArg c.postMeta).getD [] }

/-- the whole call; `names` = iteration order of the set of left-over sections (default: model order) -/
def writeCall (c : Call) (names : Option (List String)) : Except Err (List Line) :=
  match resolve c with
  | .error e => .error e
  | .ok m => writeOrd m (names.getD (remainingNames m))

end C02
