import VermouthModel.Proto
import VermouthModel.Iso
import VermouthModel.C12
/-
C01 — model of `vermouth.processors.do_mapping.do_mapping` for block mappings
(DESIGN 5.1).  Core Lean only.

Layers (each is a separate total function; `assemble` composes them):

1. `graphMap`     `Mapping._graph_map`: a raw match (molecule atom ↦ block_from node, in the order of
                  the dict yielded by the matcher) composed with the weight table and the references.
                  The matcher itself (networkx VF2) is NOT transcribed: the raw matches of the real
                  code are an input of the model; `refMatches` is the *reference* answer
                  (`Iso.allIsosP` with the node predicate of `_old_atomname_match`/`attributes_match`
                  and `edge_matcher` as an edge colour) against which the harness compares them.
2. `order`        `sorted(block_matches, key=min key, reverse=True)` consumed with `pop(-1)`.
3. `applyBlock`   `apply_block_mapping`: `C12.Mol.merge` (= `merge_molecule`), the two nested
                  dictionaries `mol_to_out` / `out_to_mol` (association lists in insertion order),
                  none-to-one beads, overlap, references.
4. `beadOf`       the attribute loop: `graph`, `mapping_weights`, the stash attribute `_old_resid`,
                  for the configuration martinize2 uses: keep = (chain,), must = (resname,),
                  stash = (resid,), every input atom carrying resid, resname and chain.
5. `interEdges`   edges between placements (`combinations` × `edges_between` × `product`).
6. warnings       overlap, garbage attributes, disconnected one-to-many, unmapped atoms.

Two defects found while building this model are fixed in /repo (F-C01-1: the reference branch of
the attribute loop copied every attribute of the reference atom, the stashed resid included;
F-C01-2: the edge loop created empty `mol_to_out` entries that hid uncovered atoms).  The model is
the code after those fixes.
-/
namespace C01
open C12 (Mol Attrs Inter Outcome)

/-- an atom of the input molecule -/
structure Atom where
  key : Int
  resid : Int
  resname : String
  chain : String
  isH : Bool
  deriving Repr, DecidableEq, Inhabited

structure MolIn where
  atoms : List Atom
  edges : List (Int × Int)
  deriving Repr, Inhabited

def MolIn.keys (m : MolIn) : List Int := m.atoms.map (·.key)
def MolIn.atom? (m : MolIn) (k : Int) : Option Atom := m.atoms.find? (fun a => a.key == k)
def MolIn.adj (m : MolIn) (a b : Int) : Bool := m.edges.contains (a, b) || m.edges.contains (b, a)

/-- `{key: {key: weight}}` in insertion order -/
abbrev Dict2 := List (Int × List (Int × Rat))

/-- a block mapping: `block_to`, `mapping` (block_from node ↦ block_to node ↦ weight), `references`
(block_to node ↦ block_from node) -/
structure MapSpec where
  blockTo : Mol
  weights : Dict2
  refs : List (Int × Int)
  deriving Repr, Inhabited

/-- what `Mapping.map` yields: molecule atom ↦ block_to node ↦ weight, the block, references
(block_to node ↦ molecule atom) -/
structure Placement where
  molToBlock : Dict2
  block : Mol
  refs : List (Int × Int)
  deriving Repr, DecidableEq, Inhabited

def Placement.atoms (p : Placement) : List Int := p.molToBlock.map Prod.fst

/-! ### 1. `_graph_map` -/

/-- `none` = KeyError (a matched block_from node without weight entry, or a reference to a
block_from node that is not matched) -/
def graphMap (M : MapSpec) (mt : List (Int × Int)) : Option Placement := do
  let mtb ← mt.mapM (fun gf => (M.weights.lookup gf.2).map (fun ws => (gf.1, ws)))
  let refs ← M.refs.mapM (fun orf => (mt.find? (fun gf => gf.2 == orf.2)).map (fun gf => (orf.1, gf.1)))
  pure { molToBlock := mtb, block := M.blockTo, refs := refs }

/-! ### 2. ordering -/

/-- `min(x[0].keys())` -/
def minKey (p : Placement) : Int :=
  match p.atoms with
  | [] => 0
  | k :: ks => ks.foldl min k

/-- insert into a list sorted in descending key order, before the first element whose key is not
larger (stable) -/
def insertDesc (x : Placement) : List Placement → List Placement
  | [] => [x]
  | y :: ys => if minKey y ≤ minKey x then x :: y :: ys else y :: insertDesc x ys

/-- `sorted(l, key=minKey, reverse=True)` (stable) -/
def sortDesc : List Placement → List Placement
  | [] => []
  | x :: xs => insertDesc x (sortDesc xs)

/-- the processing order: the sorted list is consumed from its end -/
def order (ps : List Placement) : List Placement := (sortDesc ps).reverse

/-! ### 3. `apply_block_mapping` -/

def dset (d : List (Int × Rat)) (k : Int) (w : Rat) : List (Int × Rat) :=
  match d with
  | [] => [(k, w)]
  | (k', w') :: r => if k' = k then (k', w) :: r else (k', w') :: dset r k w

/-- `d[a][b] = w` on a `defaultdict(dict)` -/
def dset2 (d : Dict2) (a b : Int) (w : Rat) : Dict2 :=
  match d with
  | [] => [(a, [(b, w)])]
  | (a', inner) :: r => if a' = a then (a', dset inner b w) :: r else (a', inner) :: dset2 r a b w

def get2 (d : Dict2) (a b : Int) : Option Rat := (d.lookup a).bind (fun inner => inner.lookup b)

def dom (d : Dict2) : List Int := d.map Prod.fst

/-- the key `merge_molecule` will number from: `self.max_node` (cache, else `max(self)`) or 0 -/
def mergeOffset (self : Mol) : Int :=
  if self.nodes.isEmpty then 0
  else (match self.maxNode with | some k => some k | none => C12.maxKey self.keys).getD 0

/-- `(mol_idx, out_idx, weight)` for the two nested loops over `mol_to_block`; `none` = KeyError -/
def weightEntries (bkeys : List Int) (offset : Int) (mtb : Dict2) : Option (List (Int × Int × Rat)) :=
  (mtb.flatMap (fun aw => aw.2.map (fun bw => (aw.1, bw.1, bw.2)))).mapM
    (fun e => (C12.corrOf bkeys offset e.2.1).map (fun o => (e.1, o, e.2.2)))

/-- block nodes nobody maps to -/
def spawnedBlock (bkeys : List Int) (mtb : Dict2) : List Int :=
  bkeys.filter (fun k => !(mtb.any (fun aw => aw.2.any (fun bw => bw.1 == k))))

def spawnedOut (bkeys : List Int) (offset : Int) (mtb : Dict2) : List Int :=
  (spawnedBlock bkeys mtb).filterMap (C12.corrOf bkeys offset)

/-- weight 0 from every atom of the placement to every spawned bead -/
def zeroEntries (atoms : List Int) (sp : List Int) : List (Int × Int × Rat) :=
  sp.flatMap (fun s => atoms.map (fun a => (a, s, (0 : Rat))))

structure St where
  out : Mol := {}
  molToOut : Dict2 := []
  outToMol : Dict2 := []
  overlap : List Int := []
  spawned : List Int := []
  refs : List (Int × Int) := []
  /-- `all_matches`: the atom keys of the placements applied so far, in order -/
  placed : List (List Int) := []
  err : Option Outcome := none
  deriving Repr, Inhabited

def addEntries (d : Dict2) (es : List (Int × Int × Rat)) : Dict2 :=
  es.foldl (fun d e => dset2 d e.1 e.2.1 e.2.2) d

def addEntriesRev (d : Dict2) (es : List (Int × Int × Rat)) : Dict2 :=
  es.foldl (fun d e => dset2 d e.2.1 e.1 e.2.2) d

def unionInt (a b : List Int) : List Int := a ++ b.filter (fun x => !a.contains x)

def applyBlock (st : St) (p : Placement) : St :=
  if st.err.isSome then st else
  -- `if graph_out.nrexcl is None: graph_out.nrexcl = blocks_to.nrexcl`
  let out0 : Mol := if st.out.nrexcl.isNone then { st.out with nrexcl := p.block.nrexcl } else st.out
  let offset := mergeOffset out0
  match out0.merge p.block with
  | (out1, .ok) =>
    let bkeys := p.block.keys
    let atoms := p.atoms
    match weightEntries bkeys offset p.molToBlock,
          p.refs.mapM (fun r => (C12.corrOf bkeys offset r.1).map (fun o => (o, r.2))) with
    | some wes, some newRefs =>
      -- `set(mol_to_out) & set(mol_to_block)` (in apply_block_mapping) united with
      -- `block_matched_atoms.intersection(match[0])` (in do_mapping)
      let overlap := atoms.filter (fun a => (dom st.molToOut).contains a || st.placed.any (fun k => k.contains a))
      let sp := spawnedOut bkeys offset p.molToBlock
      let es := wes ++ zeroEntries atoms sp
      { out := out1,
        molToOut := addEntries st.molToOut es,
        outToMol := addEntriesRev st.outToMol es,
        overlap := unionInt st.overlap overlap,
        spawned := unionInt st.spawned sp,
        refs := newRefs.foldl (fun rs r => (rs.filter (fun x => x.1 != r.1)) ++ [r]) st.refs,
        placed := st.placed ++ [atoms],
        err := none }
    | _, _ => { st with err := some .keyerror }
  | (_, e) => { st with err := some e }

def placeAll (ps : List Placement) : St := ps.foldl applyBlock {}

/-! ### 4. attributes of the output particles -/

structure Bead where
  key : Int
  name : Option String
  resid : Option Int
  cg : Option Int
  oldResid : Option Int
  /-- keys of the constituent subgraph `graph`, in insertion order -/
  atoms : List Int
  weights : List (Int × Rat)
  deriving Repr, Inhabited

def allEq [BEq α] : List α → Bool
  | [] => true
  | x :: xs => xs.all (· == x)

/-- does the attribute loop warn about "garbage" attributes for a bead built from `as`? -/
def garbage (m : MolIn) (as : List Int) : Bool :=
  let ats := as.filterMap m.atom?
  !(allEq (ats.map (·.resid)) && allEq (ats.map (·.resname)) && allEq (ats.map (·.chain)))

/-- the attribute loop for one particle.  Reference branch: `chain` is copied (keep), `resname` and
`resid` are already present, `_old_resid` = resid of the reference atom.  Otherwise `_old_resid` =
resid of the first constituent atom. -/
def beadOf (m : MolIn) (st : St) (n : Int × Attrs) : Bead :=
  match st.outToMol.lookup n.1 with
  | none => { key := n.1, name := n.2.name, resid := n.2.resid, cg := n.2.cg, oldResid := none,
              atoms := [], weights := [] }
  | some ws =>
    let as := ws.map Prod.fst
    match (st.refs.lookup n.1).bind m.atom? with
    | some r => { key := n.1, name := n.2.name,
                  -- `resid` is stashed: copied only when the particle has none (a particle created by a
                  -- modification mapping; every block particle got one from merge_molecule)
                  resid := n.2.resid.orElse (fun _ => some r.resid), cg := n.2.cg,
                  oldResid := some r.resid, atoms := as, weights := ws }
    | none =>
      let first := (as.filterMap m.atom?).head?.map (·.resid)
      { key := n.1, name := n.2.name, resid := n.2.resid.orElse (fun _ => first), cg := n.2.cg,
        oldResid := first, atoms := as, weights := ws }

def garbageCount (m : MolIn) (st : St) : Nat :=
  (st.outToMol.filter (fun bw => ((st.refs.lookup bw.1).bind m.atom?).isNone
                                  && garbage m (bw.2.map Prod.fst))).length

/-! ### 5. edges between placements -/

/-- `itertools.combinations(l, 2)` -/
def pairsOf : List α → List (α × α)
  | [] => []
  | x :: xs => xs.map (fun y => (x, y)) ++ pairsOf xs

/-- `molecule.edges_between(k1, k2)` -/
def edgesBetween (m : MolIn) (k1 k2 : List Int) : List (Int × Int) :=
  k1.flatMap (fun a => (k2.filter (fun b => m.adj a b)).map (fun b => (a, b)))

/-- `mol_to_out[a].keys() - none_to_one_mappings` -/
def beadsOf (st : St) (a : Int) : List Int :=
  (((st.molToOut.lookup a).getD []).map Prod.fst).filter (fun o => !st.spawned.contains o)

/-- all bonded atom pairs between two different placements, in the order the code visits them -/
def crossBonds (m : MolIn) (st : St) : List (Int × Int) :=
  (pairsOf st.placed).flatMap (fun kk => edgesBetween m kk.1 kk.2)

def interEdges (m : MolIn) (st : St) : List (Int × Int) :=
  (crossBonds m st).flatMap (fun ab =>
    (beadsOf st ab.1).flatMap (fun u => ((beadsOf st ab.2).filter (fun v => u != v)).map (fun v => (u, v))))

def withInterEdges (m : MolIn) (st : St) : Mol :=
  (interEdges m st).foldl (fun o e => o.addEdge e.1 e.2) st.out

/-! ### 6. sanity warnings -/

def reachStep (g : Mol) (S R : List Int) : List Int :=
  R ++ S.filter (fun v => !R.contains v && R.any (fun u => g.hasEdge u v))

def iter (f : α → α) : Nat → α → α
  | 0, x => x
  | n + 1, x => iter f n (f x)

/-- `nx.is_connected(graph_out.subgraph(S))` for non-empty `S` -/
def connectedB (g : Mol) (S : List Int) : Bool :=
  match S with
  | [] => true
  | s :: _ => let R := iter (reachStep g S) S.length [s]; S.all (fun v => R.contains v)

def disconnectedCount (g : Mol) (st : St) : Nat :=
  (st.molToOut.filter (fun ao =>
    let outs := (ao.2.map Prod.fst).filter (fun o => !st.spawned.contains o)
    decide (outs.length > 1) && !connectedB g outs)).length

def uncovered (m : MolIn) (st : St) : List Int :=
  m.keys.filter (fun k => !((dom st.molToOut).contains k))

def isHyd (m : MolIn) (k : Int) : Bool := match m.atom? k with | some a => a.isH | none => false

structure Warnings where
  overlap : Bool
  garbage : Nat
  disconnected : Nat
  unmapped : Bool
  hydrogens : Bool
  deriving Repr, DecidableEq, Inhabited

structure Result where
  beads : List Bead
  edges : List (Int × Int)
  inters : List (String × Inter)
  warn : Warnings
  deriving Repr, Inhabited

/-- everything after the placement loop -/
def finish (m : MolIn) (st : St) : Result :=
  let g := withInterEdges m st
  let unc := uncovered m st
  { beads := g.nodes.map (beadOf m st),
    edges := g.edges,
    inters := g.inters,
    warn := { overlap := !st.overlap.isEmpty,
              garbage := garbageCount m st,
              disconnected := disconnectedCount g st,
              unmapped := unc.any (fun k => !isHyd m k),
              hydrogens := unc.any (fun k => isHyd m k) } }

/-- `do_mapping` for block mappings, given the matches in the order the code found them -/
def assemble (m : MolIn) (ps : List Placement) : Except Outcome Result :=
  -- `min(x[0].keys())` of a match without atoms (block_from without mapped atoms): ValueError
  if ps.any (fun p => p.atoms.isEmpty) then .error .valueerror else
  let st := placeAll (order ps)
  match st.err with
  | some e => .error e
  | none => .ok (finish m st)

/-- from mapping specs and raw matches -/
def doMapping (m : MolIn) (maps : List MapSpec) (raw : List (Nat × List (Int × Int))) : Except Outcome Result :=
  match raw.mapM (fun im => (maps[im.1]?).bind (fun M => graphMap M im.2)) with
  | none => .error .keyerror
  | some ps => assemble m ps

/-! ### the reference matcher for block mappings -/

abbrev AttrList := List (String × String)

def ignoreKeys : List String := ["atype", "charge", "charge_group", "mass", "resid", "replace", "_old_atomname"]

/-- `attributes_match(attributes, template, ignore_keys)` on plain (string-encoded) values -/
def attributesMatch (a tmpl : AttrList) : Bool :=
  tmpl.all (fun kv => ignoreKeys.contains kv.1 || a.lookup kv.1 == some kv.2)

def renameView (n : AttrList) : AttrList :=
  let name := (n.lookup "_old_atomname").orElse (fun _ => n.lookup "atomname")
  (("_name", name.getD "") :: n.filter (fun kv => kv.1 != "atomname" && kv.1 != "_name"))

/-- `_old_atomname_match(node1, node2)` -/
def oldAtomnameMatch (n1 n2 : AttrList) : Bool :=
  let v1 := renameView n1
  let v2 := renameView n2
  let v1 := match n2.lookup "order", n1.lookup "order" with
    | some o, none => ("order", o) :: v1
    | _, _ => v1
  attributesMatch v1 v2

structure MNode where
  key : Int
  attrs : AttrList
  resid : Option Int
  deriving Repr, Inhabited

def sameRes (ns : List MNode) (u v : Int) : Int :=
  match ns.find? (fun n => n.key == u), ns.find? (fun n => n.key == v) with
  | some a, some b => if a.resid == b.resid then 1 else 0
  | _, _ => 0

/-- graph with the `edge_matcher` rule as edge colour: 1 = both ends in the same residue -/
def toGraph (ns : List MNode) (es : List (Int × Int)) : Iso.Graph :=
  { nodes := ns.map (fun n => (n.key, 0)), edges := es.map (fun e => (e.1, e.2, sameRes ns e.1 e.2)) }

def hasLoop (es : List (Int × Int)) (k : Int) : Bool := es.contains (k, k)

/-- `_old_atomname_match` on the two nodes; a node with a self-loop is matched by a node with a
self-loop only (the matcher is an INDUCED subgraph matcher: VF2 compares the number of self-loops;
`edge_matcher` on a loop compares a resid with itself and never objects) -/
def nodePred (mol : List MNode) (medges : List (Int × Int)) (pat : List MNode) (pedges : List (Int × Int)) :
    Iso.NodePred := fun p t =>
  match pat.find? (fun n => n.key == p), mol.find? (fun n => n.key == t) with
  | some pn, some tn => oldAtomnameMatch tn.attrs pn.attrs && (hasLoop pedges p == hasLoop medges t)
  | _, _ => false

/-- every induced, residue-boundary-respecting embedding of `block_from` into the molecule -/
def refMatches (mol : List MNode) (medges : List (Int × Int)) (pat : List MNode) (pedges : List (Int × Int)) :
    List Iso.Map :=
  Iso.allIsosP (toGraph mol medges) (toGraph pat pedges) (nodePred mol medges pat pedges)

end C01
