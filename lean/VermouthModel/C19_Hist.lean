import VermouthModel.C19
/-!
# C19 — one `AnnotateMutMod` object over systems that use different force fields

The library of known modifications / blocks is read from the molecule at hand
(`molecule.force_field`), not kept on the processor: in a history every application has its own `Lib`.
-/
namespace C19

def runHistoryLibs : Proc → List (Lib × Op) → List OpResult
  | _, [] => []
  | p, (lib, op) :: rest =>
    let r := procStep lib p op
    r.2 :: runHistoryLibs r.1 rest

end C19

/-!
## a pool of systems: annotate one, copy one

`System.copy()` / `Molecule.copy()` copy the attribute dictionaries of the atoms shallowly: right
after a copy the `modification` / `mutation` LIST OBJECTS of an already annotated system are shared
between original and copy (and `RepairGraph` leaves one list object on all atoms of a residue).
`_resiter` never mutates such a list (`get(key, []) + [mod]` builds a new one), so in the model a
copy is a value and an annotation touches the system it is applied to and nothing else.
-/
namespace C19

inductive PoolOp where
  | annotate (mods muts : List Request) (o : Nat)
  | copy (o : Nat)
  deriving Repr, Inhabited

abbrev Pool := List (List Mol)

def poolStep (lib : Lib) (pool : Pool) : PoolOp → Pool × Option Err
  | .annotate mods muts o =>
    match pool[o]? with
    | none => (pool, none)
    | some sys =>
      let r := runSystem lib mods muts sys
      (pool.set o r.mols, r.err)
  | .copy o =>
    match pool[o]? with
    | none => (pool, none)
    | some sys => (pool ++ [sys], none)

/-- the pool and the exception after every operation -/
def poolHistory (lib : Lib) : Pool → List PoolOp → List (Pool × Option Err)
  | _, [] => []
  | pool, op :: rest =>
    let r := poolStep lib pool op
    r :: poolHistory lib r.1 rest

end C19
