import VermouthModel.C19
/-!
# C19 — one `AnnotateMutMod` object over systems that use different force fields

The library of known modifications / blocks is read from the molecule at hand
(`molecule.force_field`), not kept on the processor: in a history every application has its own `Lib`.
-/
namespace C19

def runHistoryLibs : Proc → List (Lib × Op) → List OpResult
  | _, [] => []
  | p, (lib, op) :: rest =>
    let r := procStep lib p op
    r.2 :: runHistoryLibs r.1 rest

end C19
