import VermouthModel.Proto
import VermouthModel.Iso
/-
C14 — model of `vermouth/processors/canonicalize_modifications.py` (DESIGN 5.14).

Transcribed (the code that exists, its quirks included):

* `find_ptm_atoms`      -> `traverse`, `findGroups`   (worklist traversal from the extra atoms;
                           sets are lists without duplicates, `pop` takes the head; the result of
                           the real traversal does not depend on the pop order);
* `ptm_node_matcher`    -> `ptmPred`;  `allowed_ptms` -> `allowed` (a modification is allowed iff the
                           REFERENCE matcher `Iso.allIsosP` finds >= 1 induced placement; networkx VF2
                           is not transcribed), sorted by number of PTM atoms, descending, stable;
* `_cover_graph`        -> `coverWith usable` : the recursion with its iteration order over
                           fragments and matches and `fragments[idx:]`; `coverGraph` uses the test of the
                           code as it is now (`matching <= available and matching & to_cover`),
                           `coverGraphOld` the test before the F-C14-1 repair (`matching <= available`).
                           The candidate placements of each fragment are an INPUT (the list the real
                           matcher produced, in its order); `candsOk` compares them as sets with the
                           reference matcher.
* `identify_ptms`       -> `identify` (including the branch for atoms that already carry
                           `modifications`, its two KeyErrors and the in-place `ptm_atoms -= known_matched`);
* `fix_ptm`             -> `fixPtm` : sort groups by the sorted resids of their anchors, `groupby`,
                           residue = nodes of those resids minus removed, options, identify, then
                           either warning + removal or renaming / `replace` / `_old_atomname` /
                           residue-wide `modifications` (on the nodes of the residue that still exist:
                           `n_idxs - removed`); this is the state after the repairs F-C14-2, F-C14-3 and F-C14-4
                           (`identify_ptms` reads the `annotated` snapshot of the input, not the live labels) and
                           F-C14-5 (the removal branch removes only atoms flagged `PTM_atom`; the warning still
                           names every atom of the groups).

* the warning record of a failed iteration -> `warnRec` (`_residue_name` -> `residueName`, residue names for the
                           sorted set of the key, `atomid-atomname` of the atoms of the mutated sets); one record per failed
                           iteration in `St.wlog`, parallel to `St.warnings`;
* the processor object  -> `Proc` (no attributes), `Proc.runMolecule`, `Proc.runHistory`.

Every iteration is logged (`IterLog`) with its key, the allowed options, the result, and the residue, induced
edges, groups and candidate lists it worked on.

Attribute values are strings or `None` (`Option String`); `graph`, `ptm.match` and log records
below warning level are not modelled.
-/
namespace C14
open Iso

/-! ## data -/

abbrev Attrs := List (String × Option String)

def aget (a : Attrs) (k : String) : Option (Option String) := a.lookup k

/-- `d[k] = v` -/
def aset (a : Attrs) (k : String) (v : Option String) : Attrs :=
  if a.any (fun p => p.1 == k) then a.map (fun p => if p.1 == k then (k, v) else p) else a ++ [(k, v)]

structure Atom where
  key : Int
  resid : Int
  /-- `PTM_atom` is truthy -/
  ptm : Bool
  /-- the (singular) attribute `modification` is present -/
  hasModKey : Bool
  /-- the `modifications` list (indices into the library) -/
  mods : List Nat
  attrs : Attrs
  deriving Repr, Inhabited, DecidableEq

structure Mol where
  atoms : List Atom
  edges : List (Int × Int)
  deriving Repr, Inhabited

structure MAtom where
  key : Int
  ptm : Bool
  /-- every attribute except `PTM_atom` and `replace` -/
  attrs : Attrs
  replace : Option Attrs
  deriving Repr, Inhabited

structure Modif where
  name : String
  atoms : List MAtom
  edges : List (Int × Int)
  deriving Repr, Inhabited

def Mol.keys (m : Mol) : List Int := m.atoms.map (·.key)
def Mol.atom? (m : Mol) (k : Int) : Option Atom := m.atoms.find? (fun a => a.key == k)
def Modif.atom? (m : Modif) (k : Int) : Option MAtom := m.atoms.find? (fun a => a.key == k)

def adjOf (edges : List (Int × Int)) (k : Int) : List Int :=
  edges.filterMap fun e => if e.1 == k && e.2 != k then some e.2 else if e.2 == k && e.1 != k then some e.1 else none

/-- union of a list-set with new elements, insertion order kept -/
def addNew (l : List Int) (xs : List Int) : List Int :=
  xs.foldl (fun acc x => if acc.contains x then acc else acc ++ [x]) l

/-! ## find_ptm_atoms -/

def isExtra (a : Atom) : Bool := a.ptm || !a.mods.isEmpty

/-- the inner `while True` loop; returns `(atoms, anchors)` -/
def traverse (adj : Int → List Int) (extra : List Int) :
    Nat → Int → List Int → List Int → List Int → List Int × List Int
  | 0, _, _, atoms, anchors => (atoms, anchors)
  | n + 1, orig, toSee, atoms, anchors =>
    let st : List Int × List Int × List Int :=
      if extra.contains orig && !atoms.contains orig then
        (addNew toSee (adj orig), orig :: atoms, anchors)
      else if !extra.contains orig then
        (toSee, atoms, if anchors.contains orig then anchors else orig :: anchors)
      else (toSee, atoms, anchors)
    match st.1 with
    | [] => (st.2.1, st.2.2)
    | o :: rest => traverse adj extra n o rest st.2.1 st.2.2

/-- the outer `while extra_atoms` loop -/
def findGroups (adj : Int → List Int) (fuelT : Nat) : Nat → List Int → List (List Int × List Int)
  | 0, _ => []
  | _ + 1, [] => []
  | n + 1, o :: rest =>
    let g := traverse adj (o :: rest) fuelT o [] [] []
    g :: findGroups adj fuelT n ((o :: rest).filter fun x => !g.1.contains x)

def Mol.extra (m : Mol) : List Int := (m.atoms.filter isExtra).map (·.key)

/-- every pop of the inner loop was pushed by an atom that was added: at most one push per
(atom, neighbour) pair, plus the first round -/
def traverseFuel (m : Mol) : Nat := 2 * m.edges.length + 2

def findPtmGroups (m : Mol) : List (List Int × List Int) :=
  findGroups (adjOf m.edges) (traverseFuel m) m.extra.length m.extra

/-! ## matching: node predicate of `ptm_node_matcher`, reference placements -/

abbrev Placement := List (Int × Int)      -- (residue node, modification node)
def patoms (p : Placement) : List Int := p.map Prod.fst

def toGraph (keys : List Int) (edges : List (Int × Int)) : Graph :=
  { nodes := keys.map fun k => (k, 0), edges := edges.map fun e => (e.1, e.2, 0) }

def nameOf (a : Attrs) : Option (Option String) := aget a "atomname"
def elemOf (a : Attrs) : Option (Option String) := aget a "element"

/-- `ptm_node_matcher(node1 = residue node t, node2 = modification node p)` -/
def ptmPred (res : List Atom) (md : Modif) : NodePred := fun p t =>
  match md.atom? p, res.find? (fun a => a.key == t) with
  | some mp, some rt =>
    rt.ptm == mp.ptm && (if mp.ptm then elemOf rt.attrs == elemOf mp.attrs else nameOf rt.attrs == nameOf mp.attrs)
  | _, _ => false

/-- `categorical_node_match('atomname', '')` -/
def namePred (res : List Atom) (md : Modif) : NodePred := fun p t =>
  match md.atom? p, res.find? (fun a => a.key == t) with
  | some mp, some rt => (nameOf rt.attrs).getD (some "") == (nameOf mp.attrs).getD (some "")
  | _, _ => false

def insertPair (x : Int × Int) : Placement → Placement
  | [] => [x]
  | y :: l => if x.1 ≤ y.1 then x :: y :: l else y :: insertPair x l

/-- a reference map (pattern -> target) as a placement (target, pattern) sorted by target node -/
def toPlacement (m : Map) : Placement := m.foldr (fun q acc => insertPair (q.2, q.1) acc) []

def induced (keys : List Int) (edges : List (Int × Int)) : List (Int × Int) :=
  edges.filter fun e => keys.contains e.1 && keys.contains e.2

def modGraph (md : Modif) : Graph := toGraph (md.atoms.map (·.key)) md.edges

/-- all induced placements of `md` in the residue under `pred` (reference matcher) -/
def refPlacements (res : List Atom) (edges : List (Int × Int)) (md : Modif)
    (pred : List Atom → Modif → NodePred) : List Placement :=
  (allIsosP (toGraph (res.map (·.key)) edges) (modGraph md) (pred res md)).map toPlacement

def nPtm (md : Modif) : Nat := (md.atoms.filter (·.ptm)).length

def default_modif : Modif := { name := "", atoms := [], edges := [] }
def modAt (mods : List Modif) (i : Nat) : Modif := mods.getD i default_modif

/-- `allowed_ptms` followed by `sorted(..., key = number of PTM atoms, reverse=True)` (stable) -/
def allowed (res : List Atom) (edges : List (Int × Int)) (mods : List Modif) : List Nat :=
  ((List.range mods.length).filter fun i => !(refPlacements res edges (modAt mods i) ptmPred).isEmpty).mergeSort
    fun i j => decide (nPtm (modAt mods j) ≤ nPtm (modAt mods i))

def sameSet (a b : List Placement) : Bool :=
  a.all (fun p => b.contains p) && b.all (fun p => a.contains p) && a.length == b.length

/-- the candidate lists handed in for one iteration agree, as sets without repetition, with the
reference matcher (one list per allowed option, in the order of `allowed`) -/
def candsOk (res : List Atom) (edges : List (Int × Int)) (mods : List Modif) (given : List (List Placement)) : Bool :=
  let al := allowed res edges mods
  al.length == given.length &&
    (al.zip given).all fun ig => sameSet ig.2 (refPlacements res edges (modAt mods ig.1) ptmPred)

/-! ## _cover_graph -/

abbrev Frag := Nat × List Placement
abbrev Cover := List (Nat × Placement)

inductive Res where
  | ok (c : Cover)
  | keyError
  | outOfFuel
  deriving Repr, Inhabited, DecidableEq

/-- the test in front of the recursive call, as the code is now -/
def usable (avail tc : List Int) (p : Placement) : Bool :=
  (patoms p).all (fun a => avail.contains a) && (patoms p).any (fun a => tc.contains a)

/-- the test before the repair of F-C14-1 -/
def usableOld (avail _tc : List Int) (p : Placement) : Bool :=
  (patoms p).all (fun a => avail.contains a)

def minus (tc : List Int) (p : Placement) : List Int := tc.filter fun a => !(patoms p).contains a

/-- `for match in matches:` of one fragment; `.keyError` = fall through to the next fragment -/
def tryMatches (us : Placement → Bool) (tc : List Int) (modIdx : Nat) (rec : List Int → Res) :
    List Placement → Res
  | [] => .keyError
  | m :: ms =>
    if us m then
      match rec (minus tc m) with
      | .ok r => .ok ((modIdx, m) :: r)
      | .keyError => tryMatches us tc modIdx rec ms
      | .outOfFuel => .outOfFuel
    else tryMatches us tc modIdx rec ms

/-- `for idx, option in enumerate(fragments):` with `fragments[idx:]` handed to the recursion -/
def tryFrags (us : Placement → Bool) (tc : List Int) (rec : List Frag → List Int → Res) : List Frag → Res
  | [] => .keyError
  | f :: fs =>
    match tryMatches us tc f.1 (rec (f :: fs)) f.2 with
    | .keyError => tryFrags us tc rec fs
    | r => r

/-- `_cover_graph(graph, to_cover, fragments)`; `np` = the non-PTM nodes of `graph` -/
def coverWith (usableF : List Int → List Int → Placement → Bool) (np : List Int) :
    Nat → List Int → List Frag → Res
  | _, [], _ => .ok []
  | 0, _ :: _, _ => .outOfFuel
  | n + 1, a :: tc, frs =>
    tryFrags (usableF (np ++ (a :: tc)) (a :: tc)) (a :: tc) (fun frs' tc' => coverWith usableF np n tc' frs') frs

def coverGraph := coverWith usable
def coverGraphOld := coverWith usableOld

/-! ## identify_ptms -/

structure Group where
  atoms : List Int
  anchors : List Int
  deriving Repr, Inhabited, DecidableEq

inductive IdRes where
  | ok (usedCover : Cover) (cover : Cover)
  | keyError (toRemove : List Int)
  | outOfFuel
  deriving Repr, Inhabited

def dedupNat : List Nat → List Nat
  | [] => []
  | a :: l => a :: (dedupNat l).filter (· != a)

/-- the `used_mods` branch for one group: `.inr left` = KeyError, `left` = what the (mutated) set
`ptm_atoms` of this group holds at that moment -/
def usedBranch (res : List Atom) (edges : List (Int × Int)) (mods : List Modif) (g : Group) :
    List Nat → Cover → List Int → Cover ⊕ List Int
  | [], cov, known =>
    let left := g.atoms.filter fun a => !known.contains a
    if left.isEmpty then .inl cov else .inr left
  | i :: rest, cov, known =>
    let sub := res.filter fun a => g.atoms.contains a.key
    match refPlacements sub (induced g.atoms edges) (modAt mods i) namePred with
    | [m] => usedBranch res edges mods g rest (cov ++ [(i, m)]) (known ++ patoms m)
    | _ => .inr g.atoms

/-- the loop over `residue_ptms`; `pending` = atoms of the groups seen so far that were not emptied
by the `used_mods` branch; `annot idx` = the `modifications` the atom carried in the INPUT (the snapshot
`annotated` taken by `fix_ptm` before its loop) -/
def identifyLoop (res : List Atom) (edges : List (Int × Int)) (mods : List Modif) (annot : Int → List Nat) :
    List Group → Cover → List Int → List Int → (Cover × List Int × List Int) ⊕ IdRes
  | [], cov, tc, pending => .inl (cov, tc, pending)
  | g :: gs, cov, tc, pending =>
    let used := dedupNat (g.atoms.flatMap annot)
    if used.isEmpty then
      identifyLoop res edges mods annot gs cov (addNew (addNew tc g.atoms) g.anchors) (pending ++ g.atoms)
    else if g.atoms.any (fun a => !(res.map (·.key)).contains a) then
      /- `residue.subgraph(ptm_atoms)` (Molecule.subgraph copies `self.nodes[n]`) raises KeyError -/
      .inr (.keyError (pending ++ g.atoms ++ gs.flatMap (·.atoms)))
    else
      match usedBranch res edges mods g used cov [] with
      | .inl cov' => identifyLoop res edges mods annot gs cov' tc pending
      | .inr left => .inr (.keyError (pending ++ left ++ gs.flatMap (·.atoms)))

def nonPtm (res : List Atom) : List Int := (res.filter fun a => !a.ptm).map (·.key)

def identify (res : List Atom) (edges : List (Int × Int)) (mods : List Modif) (annot : Int → List Nat)
    (groups : List Group) (frags : List Frag) : IdRes :=
  match identifyLoop res edges mods annot groups [] [] [] with
  | .inr r => r
  | .inl (cov, tc, pending) =>
    match coverGraph (nonPtm res) tc.length tc frags with
    | .ok c => .ok cov c
    | .keyError => .keyError pending
    | .outOfFuel => .outOfFuel

/-! ## fix_ptm -/

def insertSorted (x : Int) : List Int → List Int
  | [] => [x]
  | y :: l => if x ≤ y then x :: y :: l else y :: insertSorted x l

def sortInts (l : List Int) : List Int := l.foldr insertSorted []

def lexLe : List Int → List Int → Bool
  | [], _ => true
  | _ :: _, [] => false
  | a :: as, b :: bs => a < b || (a == b && lexLe as bs)

def residOf (m : Mol) (k : Int) : Int := ((m.atom? k).map (·.resid)).getD 0

/-- `key_func`: the sorted resids of the anchors (with repetitions) -/
def groupKey (m : Mol) (g : Group) : List Int := sortInts (g.anchors.map (residOf m))

/-- `itertools.groupby` on a list of (key, item) -/
def groupRuns : List (List Int × Group) → List (List Int × List Group)
  | [] => []
  | (k, g) :: rest =>
    match groupRuns rest with
    | (k', gs) :: more => if k == k' then (k, g :: gs) :: more else (k, [g]) :: (k', gs) :: more
    | [] => [(k, [g])]

/-- the iterations of the `for resids, res_ptms in itertools.groupby(...)` loop -/
def iterations (m : Mol) : List (List Int × List Group) :=
  let gs := (findPtmGroups m).map fun g => ({ atoms := g.1, anchors := g.2 } : Group)
  let keyed := gs.map fun g => (groupKey m g, g)
  groupRuns (keyed.mergeSort fun a b => lexLe a.1 b.1)

structure IterLog where
  key : List Int
  allowedMods : List Nat
  candsOk : Bool
  /-- `some (used, cover)` = identified; `none` = unknown (warning + removal) -/
  result : Option (Cover × Cover)
  /-- the residue handed to `allowed_ptms` / `identify_ptms` in this iteration (`molecule.subgraph(n_idxs - removed)`:
  the atoms as they are at that moment), its induced edges, the groups of the iteration (`res_ptms`) and the
  candidate lists recorded from the real matcher, one per allowed option -/
  res : List Atom := []
  edges : List (Int × Int) := []
  groups : List Group := []
  given : List (List Placement) := []
  deriving Repr, Inhabited

/-- one record at WARNING level (`type='unknown-input'`): the residue names
`[_residue_name(resid) for resid in sorted(set(resids))]` and, per atom of the (mutated) sets `idxs[0]`,
its key and the `atomname` it carries at that moment (`'{atomid}-{atomname}'`) -/
structure WarnRec where
  residues : List String
  atoms : List (Int × Option String)
  deriving Repr, Inhabited, DecidableEq

structure St where
  mol : Mol
  removed : List Int
  warnings : List (List Int)
  log : List IterLog
  /-- the warning records, one per iteration that ended in `KeyError` (parallel to `warnings`) -/
  wlog : List WarnRec := []
  deriving Repr, Inhabited

inductive Outcome where
  | done (s : St)
  | outOfFuel
  deriving Repr, Inhabited

/-- the attribute changes for one matched pair `(mol_idx, ptm_idx)` -/
def applyPair (ma : MAtom) (a : Atom) : Atom :=
  let attrs1 := if ma.ptm then ma.attrs.foldl (fun acc kv => aset acc kv.1 kv.2) a.attrs else a.attrs
  let attrs2 :=
    match ma.replace with
    | none => attrs1
    | some rep =>
      rep.foldl (fun acc kv =>
        let acc1 := if kv.1 == "atomname" then aset acc "_old_atomname" ((aget acc "atomname").getD none) else acc
        if (aget acc1 kv.1).getD none != kv.2 then aset acc1 kv.1 kv.2 else acc1) attrs1
  { a with attrs := attrs2 }

def updAtom (atoms : List Atom) (k : Int) (f : Atom → Atom) : List Atom :=
  atoms.map fun a => if a.key == k then f a else a

def applyPlacement (md : Modif) (p : Placement) (atoms : List Atom) : List Atom :=
  p.foldl (fun acc q =>
    match md.atom? q.2 with
    | some ma => updAtom acc q.1 (applyPair ma)
    | none => acc) atoms

/-- `node['modifications'].append(ptm)` unless `'modification' in node and ptm in node['modifications']` -/
def labelAtom (i : Nat) (a : Atom) : Atom :=
  if a.hasModKey && a.mods.contains i then a else { a with mods := a.mods ++ [i] }

def applyOne (mods : List Modif) (nIdxs : List Int) (atoms : List Atom) (c : Nat × Placement) : List Atom :=
  (applyPlacement (modAt mods c.1) c.2 atoms).map fun a => if nIdxs.contains a.key then labelAtom c.1 a else a

/-- `molecule.nodes[idx].get('PTM_atom', False)` -/
def isFlagged (m : Mol) (k : Int) : Bool :=
  match m.atom? k with
  | some a => a.ptm
  | none => false

def removeAtoms (m : Mol) (rm : List Int) : Mol :=
  { atoms := m.atoms.filter (fun a => !rm.contains a.key),
    edges := m.edges.filter (fun e => !rm.contains e.1 && !rm.contains e.2) }

def dedupInts : List Int → List Int
  | [] => []
  | a :: l => a :: (dedupInts l).filter (· != a)

/-- `str.format` of an attribute value that is a string or `None` -/
def fmtOpt : Option String → String
  | some x => x
  | none => "None"

/-- `_residue_name(resid)`: `'{resname}{resid}'` of the first atom of the residue (in the node order of
the input, `resid_to_idxs`) that has not been removed, read from the molecule as it is now; `str(resid)` when
every atom of the residue has been removed (`residue_name_no_fallback`: never the case for a resid of a key).
A node without `resname` raises KeyError in the code; the model prints `None` (the generators always set it). -/
def residueName (orig : List Atom) (m : Mol) (removed : List Int) (resid : Int) : String :=
  match (orig.filter fun a => a.resid == resid).find? (fun a => !removed.contains a.key) with
  | some a0 =>
    match m.atom? a0.key with
    | some a => fmtOpt ((aget a.attrs "resname").getD none) ++ toString resid
    | none => toString resid
  | none => toString resid

/-- the record of the warning of one iteration -/
def warnRec (orig : List Atom) (s : St) (key : List Int) (rm : List Int) : WarnRec :=
  { residues := (dedupInts key).map (residueName orig s.mol s.removed),
    atoms := rm.map fun k => (k, ((s.mol.atom? k).map fun a => (nameOf a.attrs).getD none).getD none) }

/-- one iteration of the loop of `fix_ptm`; `orig` = the node list at the start (`resid_to_idxs`) -/
def step (mods : List Modif) (orig : List Atom) (s : St) (key : List Int) (groups : List Group)
    (given : List (List Placement)) : Outcome :=
  let nIdxs := (orig.filter fun a => key.contains a.resid).map (·.key)
  let res := s.mol.atoms.filter fun a => nIdxs.contains a.key
  let edges := induced (res.map (·.key)) s.mol.edges
  let al := allowed res edges mods
  let ok := candsOk res edges mods given
  let frags := al.zip given
  let annot : Int → List Nat := fun k => ((orig.find? fun a => a.key == k).map (·.mods)).getD []
  match identify res edges mods annot groups frags with
  | .outOfFuel => .outOfFuel
  | .keyError rm =>
    /- the warning names every atom of the groups; only the atoms flagged `PTM_atom` are removed
    (atoms that merely carry an annotation are known to the residue template: F-C14-5) -/
    let rmF := rm.filter (isFlagged s.mol)
    .done { mol := removeAtoms s.mol rmF, removed := s.removed ++ rmF, warnings := s.warnings ++ [rm],
            log := s.log ++ [{ key := key, allowedMods := al, candsOk := ok, result := none,
                               res := res, edges := edges, groups := groups, given := given }],
            wlog := s.wlog ++ [warnRec orig s key rm] }
  | .ok used cov =>
    .done { s with mol := { s.mol with atoms := (used ++ cov).foldl (applyOne mods nIdxs) s.mol.atoms },
                   log := s.log ++ [{ key := key, allowedMods := al, candsOk := ok, result := some (used, cov),
                                      res := res, edges := edges, groups := groups, given := given }] }

def runIters (mods : List Modif) (orig : List Atom) :
    St → List (List Int × List Group) → List (List (List Placement)) → Outcome
  | s, [], _ => .done s
  | s, (key, groups) :: rest, given =>
    match step mods orig s key groups (given.headD []) with
    | .done s' => runIters mods orig s' rest given.tail
    | r => r

/-- `fix_ptm(molecule)` with `molecule.force_field.modifications = mods`; `given` = per iteration, per
allowed option, the placements the real matcher produced -/
def fixPtm (m : Mol) (mods : List Modif) (given : List (List (List Placement))) : Outcome :=
  runIters mods m.atoms { mol := m, removed := [], warnings := [], log := [] } (iterations m) given

/-- the residue, its induced edges and the allowed options of iteration `k`, for the caller that has
to hand in `given` (the harness asks the real matcher) -/
def refGiven (res : List Atom) (edges : List (Int × Int)) (mods : List Modif) : List (List Placement) :=
  (allowed res edges mods).map fun i => refPlacements res edges (modAt mods i) ptmPred

/-- `fixPtm` with the reference placements in reference order (no input from the real matcher) -/
def runItersRef (mods : List Modif) (orig : List Atom) : St → List (List Int × List Group) → Outcome
  | s, [] => .done s
  | s, (key, groups) :: rest =>
    let nIdxs := (orig.filter fun a => key.contains a.resid).map (·.key)
    let res := s.mol.atoms.filter fun a => nIdxs.contains a.key
    let edges := induced (res.map (·.key)) s.mol.edges
    match step mods orig s key groups (refGiven res edges mods) with
    | .done s' => runItersRef mods orig s' rest
    | r => r

def fixPtmRef (m : Mol) (mods : List Modif) : Outcome :=
  runItersRef mods m.atoms { mol := m, removed := [], warnings := [], log := [] } (iterations m)

/-! ## the processor object

`CanonicalizeModifications` defines no attributes and `Processor` (its base class) defines none: the state an
instance carries from one call of `run_molecule` to the next is empty.  `run_molecule(molecule)` reads the
modifications from `molecule.force_field.modifications` at the moment of the call; `run_system` calls
`run_molecule` for the molecules in order. -/

structure Proc where
  deriving Repr, Inhabited

/-- one call: the molecule, the modifications of ITS force field as they are now, the candidate lists recorded
from the real matcher during this call -/
abbrev Job := Mol × List Modif × List (List (List Placement))

def Proc.runMolecule (p : Proc) (j : Job) : Proc × Outcome := (p, fixPtm j.1 j.2.1 j.2.2)

/-- a sequence of calls on ONE instance (`run_system`, or one processor object used for several systems) -/
def Proc.runHistory (p : Proc) : List Job → Proc × List Outcome
  | [] => (p, [])
  | j :: js =>
    let r := p.runMolecule j
    let rs := r.1.runHistory js
    (rs.1, r.2 :: rs.2)

end C14
