import VermouthModel.C15_Cli
import VermouthModel.C03
/-
C15 — the molecule types after the elastic network (`NameMolType` run again at the end of the `if args.elastic:`
block).  The molecules, `share_moltype_with` and the naming loop are those of the C03 model (imported read-only);
the network of a molecule is the list of interactions `apply_rubber_band` appended to its category `bonds`
(atoms + everything else in a canonical encoding, as `share_moltype_with` compares interactions exactly).
-/
namespace C15
open C03 (Mol Inter)

/-- `molecule.interactions['bonds']` -/
def bondsOf (m : Mol) : List Inter := ((m.inters.find? fun p => p.1 == "bonds").map (·.2)).getD []

/-- the category `k` of a list of categories -/
def catOf (l : List (String × List Inter)) (k : String) : List Inter := ((l.find? fun p => p.1 == k).map (·.2)).getD []

/-- `molecule.add_interaction('bonds', ...)` for every bond of the network: appended to the category -/
def applyNet (m : Mol) (net : List Inter) : Mol :=
  { m with inters := ("bonds", bondsOf m ++ net) :: m.inters.filter fun p => p.1 != "bonds" }

/-- an emitted bond as the interaction `share_moltype_with` sees: atoms, `[bond_type, length, force constant]` and
the meta `{'group': 'Rubber band'}` in a canonical text -/
def interOfBond (bt : Int) (b : Bond) : Inter :=
  { atoms := [b.a, b.b],
    rest := toString bt ++ " " ++ toString b.len5 ++ " " ++ toString b.k.num ++ "/" ++ toString b.k.den ++ " Rubber band" }

/-- the ids `NameMolType(deduplicate=dedup)` gives after the networks `nets` were added to the molecules `sys` -/
def typesAfterNetwork (dedup : Bool) (sys : List Mol) (nets : List (List Inter)) : List Nat :=
  C03.nameMolTypes (C03.shareMolType C03.npClose) dedup (List.zipWith applyNet sys nets)

end C15
