import VermouthModel.C18
import VermouthModel.C18_Order
/-
C18 (follow-up) — the Go pipeline on a molecule that ALREADY carries interactions, in a system whose
parameter tables ALREADY hold entries.

`molecule.interactions` is a `defaultdict(list)`: section name -> list of `Interaction(atoms, parameters,
meta)`, in key insertion order.  `system.gmx_topology_params` is a `defaultdict(list)` as well
(`'atomtypes'`, `'nonbond_params'`): a key exists only once something read or appended to it.

What the code does with them (rcsu/go_vs_includes.py, rcsu/go_structure_bias.py):

* `add_virtual_sites` never READS `molecule.interactions`; after the loop it executes
  `molecule.interactions['virtual_sitesn'] += virtual_sites` (the key is created, possibly with an empty
  list, unless the molecule has no atoms: early `return`), and inside the loop
  `system.gmx_topology_params['atomtypes'].append(...)` once per created site;
* `contact_selector` executes `molecule.interactions['exclusions'].append(excl)` for every pair it
  emits, at the moment it emits it - also when a LATER contact ends the loop with `sys.exit(1)` or a
  `KeyError` (the exclusions appended so far stay in the molecule); nothing is looked up, an exclusion
  that is already there is written again;
* `compute_go_interaction` (reached only when the loop ended normally) appends one `NonbondParam` per
  emitted pair to `system.gmx_topology_params['nonbond_params']`.

`make_residue_graph` copies the interactions of every residue into its sub-graph (`Molecule.subgraph`);
nothing reads those copies.

The state below is everything these functions can see or change; the functions are transcriptions that
thread the whole state.  That the interaction table and the parameter tables are never an INPUT of the
created sites / selected contacts is then a theorem (`VermouthProps/C18_Inter.lean`), and the tie to the
code is the differential run on molecules that carry `virtual_sitesn` built from backbone beads,
exclusions between backbone beads, other sections, and on systems with non-empty tables.

`parameters` and `meta` of an interaction cross as one opaque string (`tag`); the two kinds of entry the
pipeline creates have the fixed tags `vsTag` / `exclTag` (the harness renders
`repr(list(parameters)) + '|' + json.dumps(meta, sort_keys=True)`).
-/
namespace C18

/-- one entry of a section of `molecule.interactions` -/
structure Inter where
  atoms : List Int
  tag : String
  deriving Repr, DecidableEq, Inhabited

/-- `molecule.interactions` in key insertion order (keys are distinct: it is a dict) -/
abbrev ITable := List (String × List Inter)

/-- `table.get(name, [])` -/
def tabGet : ITable → String → List Inter
  | [], _ => []
  | (n, l) :: rest, name => if n = name then l else tabGet rest name

/-- `name in table` -/
def tabHas : ITable → String → Bool
  | [], _ => false
  | (n, _) :: rest, name => if n = name then true else tabHas rest name

/-- `table[name] += items` on a `defaultdict(list)`: an existing section is extended in place, a
missing one is created at the end (also when `items` is empty) -/
def tabExtend : ITable → String → List Inter → ITable
  | [], name, items => [(name, items)]
  | (n, l) :: rest, name, items =>
    if n = name then (n, l ++ items) :: rest else (n, l) :: tabExtend rest name items

/-- `for x in items: table[name].append(x)`: nothing is created for no items -/
def tabAppendEach (t : ITable) (name : String) (items : List Inter) : ITable :=
  if items.isEmpty then t else tabExtend t name items

/-- the same for a table of `system.gmx_topology_params` (`none` = key absent) -/
def dictAppendEach (t : Option (List α)) (items : List α) : Option (List α) :=
  if items.isEmpty then t else some (t.getD [] ++ items)

/-- `parameters=['1'], meta={'go_vs': True, 'group': 'Virtual go site'}` -/
def vsTag : String := "['1']|{\"go_vs\": true, \"group\": \"Virtual go site\"}"
/-- `parameters=[], meta={"group": "Go model exclusion"}` -/
def exclTag : String := "[]|{\"group\": \"Go model exclusion\"}"

def vsInter (v : VSite) : Inter := { atoms := [v.key, v.bb], tag := vsTag }
def exclInter (c : Cand) : Inter := { atoms := [c.bbA, c.bbB], tag := exclTag }

/-- an entry of `gmx_topology_params['atomtypes']`: the i-th entry that was there before, or the
`Atomtype(node=key, molecule=molecule, sigma=0.0, epsilon=0.0, meta={})` of a created site -/
inductive AtE where
  | pre (i : Nat)
  | site (key : Int)
  deriving Repr, DecidableEq, Inhabited

/-- an entry of `gmx_topology_params['nonbond_params']` -/
inductive NbE where
  | pre (i : Nat)
  | go (ta tb : String) (d2 : Nat)
  deriving Repr, DecidableEq, Inhabited

/-- everything the Go processors can see or change -/
structure GoState where
  atoms : List Atom
  edges : List (Int × Int)
  inter : ITable
  atomtypes : Option (List AtE)
  nonbond : Option (List NbE)
  deriving Repr, Inhabited

/-- `VirtualSiteCreator.add_virtual_sites` on the whole state -/
def addVirtualSitesM (pre backbone vsname : String) (s : GoState) : GoState × List VSite :=
  if s.atoms.isEmpty then (s, [])            -- `if not molecule.nodes: return`
  else
    let vs := addVirtualSites pre backbone vsname s.atoms
    ({ s with atoms := withSites s.atoms vs,
              inter := tabExtend s.inter "virtual_sitesn" (vs.map vsInter),
              atomtypes := dictAppendEach s.atomtypes (vs.map fun v => AtE.site v.key) }, vs)

/-- the loop of `contact_selector`; second component: the pairs emitted (exclusion appended) before the
loop ended, normally or not -/
def runLoopP : List Verdict → LoopState → Outcome × List Cand
  | [], s => (.ok s.out, s.out)
  | .skip :: r, s => runLoopP r s
  | .exit :: _, s => (.exit, s.out)
  | .keyerror :: _, s => (.keyerror, s.out)
  | .cand c :: r, s => runLoopP r (step s c)

/-- the verdicts of the contact lines on a molecule whose residues are iterated in `orders` -/
def verdictsOrd (P : Params) (atoms : List Atom) (edges : List (Int × Int)) (contacts : List Contact)
    (orders : List (List Int)) : List Verdict :=
  let rs := residuesOf atoms
  contacts.map (classify P (applyOrders orders rs) (resEdges rs edges))

/-- the pairs whose exclusion `contact_selector` appends, in order (all emitted pairs when the loop
ends normally, those before the abort otherwise) -/
def excludedPairs (P : Params) (atoms : List Atom) (edges : List (Int × Int)) (contacts : List Contact)
    (orders : List (List Int)) : List Cand :=
  (runLoopP (verdictsOrd P atoms edges contacts orders) { cm := [], out := [] }).2

/-- `ComputeStructuralGoBias.run_molecule` on the whole state -/
def selectContactsM (P : Params) (s : GoState) (contacts : List Contact) (orders : List (List Int)) :
    GoState × Outcome :=
  let r := runLoopP (verdictsOrd P s.atoms s.edges contacts orders) { cm := [], out := [] }
  let nb := match r.1 with
    | .ok out => dictAppendEach s.nonbond (out.map fun c => NbE.go c.ta c.tb c.d2)
    | _ => s.nonbond
  ({ s with inter := tabAppendEach s.inter "exclusions" (r.2.map exclInter), nonbond := nb }, r.1)

/-- `GoPipeline.run_system` after the merge, on the whole state -/
def goPipelineM (P : Params) (vsname : String) (s : GoState) (contacts : List Contact)
    (orders : List (List Int)) : GoState × List VSite × Outcome :=
  let r1 := addVirtualSitesM P.pre P.backbone vsname s
  let r2 := selectContactsM P r1.1 contacts orders
  (r2.1, r1.2, r2.2)

/-! ### `chain` and `_old_resid` that are `None`

Both are legal values of a bead (`chain` of a structure without chain column read through the API,
`_old_resid = None` is what `do_mapping` stores when no constructing atom had a resid).  The code only
compares them (`==`, dict keys, `attributes_match`) and copies them to the site; a contact line names a
residue by an `int` and a chain.  They cross to the model through two injections:

* `chainTag`: `None ↦ "N"`, `s ↦ "S" ++ s` (injective, `untagChain` is its inverse);
* `_old_resid = None` (or a missing key on a bead that is not a backbone bead) `↦ oldSentinel`, an
  integer that no contact line names and no bead carries, so it can never be the subject of a lookup
  (`(chain, None)` is never asked for: `_chain_id_to_resnode(chain, resid)` gets an `int`) and never
  matches `attributes_match(..., _old_resid=resid)`. -/

def chainTag : Option String → String
  | none => "N"
  | some s => "S" ++ s

def untagChain (s : String) : Option String :=
  match s.toList with
  | 'S' :: rest => some (String.ofList rest)
  | _ => none

/-- `1 + max |x|` over the numbers that occur -/
def oldSentinel (olds : List (Option Int)) (contacts : List (Int × Int)) : Int :=
  1 + ((olds.filterMap id).map Int.natAbs ++ contacts.flatMap (fun c => [c.1.natAbs, c.2.natAbs])).foldl max 0

end C18
