import VermouthModel.C17_Residues
/-
C17 (follow-up round) — the SELECTORS the `-dssp` / `-ss` / `-collagen` statement of `bin/martinize2`
uses, on node tables that carry the attributes themselves, and histories in which the residue
attributes of ONE `Molecule` object are edited in place between annotations.

Until this round the model received the residue of a node as a number computed by the harness and
the selection of a molecule as a flag computed by the real selector.  Here a node carries what
`get_attrs(node, ('chain', 'resid', 'resname', 'insertion_code'))` reads, and the model computes

* `Node.ident`, `resCode`   : the key of the `collect_residues` dict (the tuple of the four
                              `node.get(attr)` values: an absent attribute and `None` are the same
                              thing) and a number for it (first appearance in node order);
* `isProtein`               : `selectors.is_protein`

      return all(molecule.nodes[n_idx].get('resname') in PROTEIN_RESIDUES for n_idx in molecule)

                              (`PROTEIN_RESIDUES` is re-extracted into `Generated/C17Selectors.lean`);
                              an atom without `resname` gives `None in PROTEIN_RESIDUES` = False, an
                              empty molecule gives `all([])` = True;
* `hasPosition`             : `selectors.selector_has_position` (`position is not None and
                              np.all(np.isfinite(position))`; the harness sends, per coordinate,
                              whether it is finite);
* `filterMinimal`           : `selectors.filter_minimal`;
* `selectAll`               : `selectors.select_all` (default selector of `AnnotateResidues`).

`eStep` / `runEdits` model a history on one `System` whose `Molecule` objects are edited in place:
the state is NOTHING BUT the node tables (the real `Molecule` has no slot that remembers a residue
partition), every reader recomputes the partition from the current table.
-/
namespace C17

/-- what `node.get(attr)` returns for the attributes that identify a residue: `None` (also: the
attribute is absent), an `int`, a `str`.  Python equality between these is structural (`bool` and
`float` values, for which `1 == True == 1.0`, are not generated). -/
inductive PyVal where
  | none
  | int (i : Int)
  | str (s : String)
  deriving Repr, DecidableEq

/-- one node with the attributes the C17 code reads or writes: `src` = the attribute that
`AnnotateResidues` / `annotate_dssp` write and the conversion reads (`aasecstruct`), `dst` = the
attribute the conversion (or `-collagen`) writes (`cgsecstruct`) -/
structure Node where
  key : Int
  chain : PyVal
  resid : PyVal
  resname : PyVal
  icode : PyVal
  src : Option Nat
  dst : Option Nat
  deriving Repr, DecidableEq

abbrev NMol := List Node

abbrev Ident := PyVal × PyVal × PyVal × PyVal

/-- `get_attrs(node, ('chain', 'resid', 'resname', 'insertion_code'))` -/
def Node.ident (n : Node) : Ident := (n.chain, n.resid, n.resname, n.icode)

/-- a number for the dict key of `collect_residues`: where the identity appears first in node order -/
def resCode (ns : NMol) (n : Node) : Nat := (ns.map Node.ident).idxOf n.ident

/-- the node table as the residue code of the earlier rounds sees it -/
def toMol2 (ns : NMol) : Mol2 := ns.map fun n => ⟨n.key, resCode ns n, n.src, n.dst⟩

def toSrc (ns : NMol) : Mol := srcMol (toMol2 ns)
def toDst (ns : NMol) : Mol := dstMol (toMol2 ns)

/-- write the values of `src` / `dst` back (in-place mutation of the node dicts) -/
def putVals (ns : NMol) (m : Mol2) : NMol :=
  List.zipWith (fun n a => { n with src := a.src, dst := a.dst }) ns m

def putSrc (ns : NMol) (m : Mol) : NMol := List.zipWith (fun n a => { n with src := a.val }) ns m

/-! ## the selectors -/

/-- `value in PROTEIN_RESIDUES` (a set of `str`) -/
def protName (tbl : List String) : PyVal → Bool
  | .str s => tbl.contains s
  | _ => false

/-- `selectors.is_protein` -/
def isProtein (tbl : List String) (ns : NMol) : Bool := ns.all fun n => protName tbl n.resname

/-- `selectors.select_all` -/
def selectAll (_ : NMol) : Bool := true

/-- `selectors.selector_has_position`; the `position` attribute is `none` (absent or `None`) or the
list of "this coordinate is finite" -/
def hasPosition : Option (List Bool) → Bool
  | none => false
  | some fs => fs.all id

/-- `selectors.filter_minimal(molecule, selector)`: the keys of the nodes the selector accepts, in
node order -/
def filterMinimal {α : Type} (sel : α → Bool) (nodes : List (Int × α)) : List Int :=
  (nodes.filter fun p => sel p.2).map (·.1)

/-- the selectors modelled here, by their name in `vermouth/selectors.py` -/
def modelledSelectors : List String := ["filter_minimal", "is_protein", "select_all", "selector_has_position"]

/-! ## `AnnotateResidues(..., molecule_selector=selectors.is_protein)` and the command-line statement -/

def selSys (prot : List String) (sys : List NMol) : Sys := sys.map fun ns => (isProtein prot ns, toSrc ns)

def selSys2 (prot : List String) (sys : List NMol) : Sys2 := sys.map fun ns => (isProtein prot ns, toMol2 ns)

/-- `AnnotateResidues('aasecstruct', seq, molecule_selector=selectors.is_protein).run_system` -/
def annotateSystemN (prot : List String) (sys : List NMol) (seq : List Nat) : Except Err Sys :=
  annotateSystem (selSys prot sys) seq

/-- `-ss` -/
def cliSsN (tbl : List (Char × Char)) (pats : List (List Char × List Char)) (prot : List String)
    (sys : List NMol) (ss : List Char) : Except Err (List Mol2) :=
  cliSs tbl pats (selSys2 prot sys) ss

/-- `-collagen` -/
def cliCollagenN (prot : List String) (sys : List NMol) : Except Err (List Mol2) :=
  cliCollagen (selSys2 prot sys)

/-- `-dssp`; per molecule: the node table, the `position` attribute of every node, the answer of the
DSSP callable -/
def cliDsspN (tbl : List (Char × Char)) (pats : List (List Char × List Char)) (prot : List String)
    (sys : List (NMol × List (Option (List Bool)) × List Nat)) : Except Err (List Mol2) :=
  cliDssp tbl pats (sys.map fun p => (isProtein prot p.1, toMol2 p.1, p.2.1.map hasPosition, p.2.2))

/-- the keys `annotate_dssp` hands to `molecule.subgraph(...)` -/
def cleanKeys (ns : NMol) (pos : List (Option (List Bool))) : List Int :=
  filterMinimal hasPosition ((ns.map (·.key)).zip pos)

/-! ## histories with in-place edits -/

inductive Attr where
  | chain | resid | resname | icode
  deriving Repr, DecidableEq

/-- `molecule.nodes[key][attr] = value` (or `del molecule.nodes[key][attr]` for `PyVal.none`) -/
def Node.setAttr (n : Node) : Attr → PyVal → Node
  | .chain, v => { n with chain := v }
  | .resid, v => { n with resid := v }
  | .resname, v => { n with resname := v }
  | .icode, v => { n with icode := v }

def editNode (ns : NMol) (key : Int) (a : Attr) (v : PyVal) : NMol :=
  ns.map fun n => if n.key = key then n.setAttr a v else n

def applyEdits (ns : NMol) (es : List (Int × Attr × PyVal)) : NMol :=
  es.foldl (fun ns e => editNode ns e.1 e.2.1 e.2.2) ns

/-- one step of a history on a system (`mi` = index of the molecule object) -/
inductive EOp where
  | edit (mi : Nat) (es : List (Int × Attr × PyVal))   -- in-place edits of residue attributes
  | iterres (mi : Nat)                                 -- list(molecule.iter_residues())
  | isprot (mi : Nat)                                  -- selectors.is_protein(molecule)
  | seqres (mi : Nat)                                  -- list(sequence_from_residues(molecule, 'aasecstruct'))
  | annot (mi : Nat) (seq : List Nat)                  -- annotate_residues_from_sequence(molecule, 'aasecstruct', seq)
  | convert (mi : Nat)                                 -- AnnotateMartiniSecondaryStructures.run_molecule(molecule)
  | annotsys (seq : List Nat)                          -- AnnotateResidues('aasecstruct', seq, is_protein).run_system(system)
  | convsys                                            -- AnnotateMartiniSecondaryStructures().run_system(system)

inductive Obs where
  | nomol                                              -- no molecule with that index
  | done
  | tuples (t : List (List Int)) (exact : Bool)
  | flag (b : Bool)
  | seq (l : List (Option Nat))
  | err (e : Err)
  deriving Repr, DecidableEq

abbrev EState := List NMol

structure Tables where
  ssCg : List (Char × Char)
  pats : List (List Char × List Char)
  prot : List String

/-- `convert_dssp_annotation_to_martini(molecule)` on a node table -/
def convertN (T : Tables) (ns : NMol) : Except Err NMol :=
  match convertAnnotationCode T.ssCg T.pats (toMol2 ns) with
  | .error e => .error e
  | .ok m => .ok (putVals ns m)

/-- `Processor.run_system`: `run_molecule` on every molecule in order; an exception leaves the
molecules converted so far converted (they are mutated in place) -/
def convertAll (T : Tables) : EState → EState × Option Err
  | [] => ([], none)
  | ns :: rest =>
    match convertN T ns with
    | .error e => (ns :: rest, some e)
    | .ok ns' =>
      let r := convertAll T rest
      (ns' :: r.1, r.2)

/-- A READ of the state: what the step reports.  It is a function of the current node tables. -/
def observe (T : Tables) (st : EState) : EOp → Obs
  | .edit mi _ => if mi < st.length then .done else .nomol
  | .iterres mi =>
    match st[mi]? with
    | none => .nomol
    | some ns => .tuples ((iterResidues (toSrc ns)).map (·.2)) (iterResiduesExact (toSrc ns))
  | .isprot mi =>
    match st[mi]? with
    | none => .nomol
    | some ns => .flag (isProtein T.prot ns)
  | .seqres mi =>
    match st[mi]? with
    | none => .nomol
    | some ns => .seq (seqFromResiduesCode (toSrc ns))
  | .annot mi seq =>
    match st[mi]? with
    | none => .nomol
    | some ns =>
      match annotateMolCode (toSrc ns) seq with
      | .error e => .err e
      | .ok _ => .done
  | .convert mi =>
    match st[mi]? with
    | none => .nomol
    | some ns =>
      match convertN T ns with
      | .error e => .err e
      | .ok _ => .done
  | .annotsys seq =>
    match annotateSystemN T.prot st seq with
    | .error e => .err e
    | .ok _ => .done
  | .convsys =>
    match (convertAll T st).2 with
    | some e => .err e
    | none => .done

/-- the node tables after the step -/
def mutate (T : Tables) (st : EState) : EOp → EState
  | .edit mi es =>
    match st[mi]? with
    | none => st
    | some ns => st.set mi (applyEdits ns es)
  | .iterres _ => st
  | .isprot _ => st
  | .seqres _ => st
  | .annot mi seq =>
    match st[mi]? with
    | none => st
    | some ns =>
      match annotateMolCode (toSrc ns) seq with
      | .error _ => st
      | .ok m => st.set mi (putSrc ns m)
  | .convert mi =>
    match st[mi]? with
    | none => st
    | some ns =>
      match convertN T ns with
      | .error _ => st
      | .ok ns' => st.set mi ns'
  | .annotsys seq =>
    match annotateSystemN T.prot st seq with
    | .error _ => st
    | .ok s => List.zipWith (fun ns p => putSrc ns p.2) st s
  | .convsys => (convertAll T st).1

/-- one step on FRESH objects built from the node tables `st` -/
def eStep (T : Tables) (st : EState) (op : EOp) : Obs × EState := (observe T st op, mutate T st op)

/-- the same `Molecule` objects through a whole history: what every step reported and the node
tables after it -/
def runEdits (T : Tables) (st : EState) : List EOp → List (Obs × EState)
  | [] => []
  | op :: ops => eStep T st op :: runEdits T (eStep T st op).2 ops

/-- the node tables at the end of a history -/
def finalState (T : Tables) (st : EState) : List EOp → EState
  | [] => st
  | op :: ops => finalState T (mutate T st op) ops

/-- steps that only read -/
def EOp.isRead : EOp → Bool
  | .iterres _ => true
  | .isprot _ => true
  | .seqres _ => true
  | _ => false

end C17
