import VermouthModel.C16
/-
C16 — `vermouth.truncating_formatter.TruncFormatter.format_field` IN GENERAL.

`VermouthModel/C16.lean` models the formatter on the `Spec` records the layout extractor produces
(type `s`/`d`/`f`, explicit or default alignment `<`/`>`, fill, width, precision, `t`).  This file
transcribes the method as it is written, on the format-spec STRING:

    truncate = format_spec.endswith('t'); format_spec = format_spec[:-1] if truncate
    result   = super().format_field(value, format_spec)            # python's own format()
    spec     = format_spec_re.fullmatch(format_spec).group(...)    # fill align sign # 0 width , .prec type
    if not truncate or width == 0 or len(result) <= width: return result
    type default by isinstance (str -> s, int -> d, float -> g); align default: s -> '<', else '>'
    '<': result[:-overflow]   '>': result[overflow:]   '=': NotImplementedError
    '^': result[overflow//2 : -overflow//2]

* `parseSpec`   — the regular expression `format_spec_re` as a deterministic left-to-right parse
                  (each optional group takes what it can; the character classes of the groups are
                  such that no other split of a string can match — argued, not proved: the model
                  has no regular-expression semantics; the differential stream covers it);
* `pyFormat`    — python's `format(value, spec)` for the type letters `s`, `d`, `f`/`F` and no type
                  letter, values `str`, `int` and decimals on the grid of the precision, with fill,
                  the four alignments, sign `+`/`-`/blank, `#`, the `0` flag, width, precision
                  (truncating for strings, an error for integers).  Everything else python can do
                  (`,` grouping of numbers, types b c o x X n e E g G %, floats without type letter)
                  is answered `unmodelled` and such cases are left to the oracle;
* `formatFieldG` — the truncation logic on top; `formatField` — the whole method on the string.

Values are the `Val` of the main model: `.fix k` is the real number `k / 10^p`, `p` the precision
of the spec (6 when the spec gives none), for which CPython's `f` rendering is the exact decimal.
-/
namespace C16

inductive FErr where
  | valueerror | notimplemented | unmodelled
  deriving DecidableEq, Repr

def FErr.toString : FErr → String
  | .valueerror => "valueerror" | .notimplemented => "notimplemented" | .unmodelled => "unmodelled"

/-- the groups of `format_spec_re` that `format_field` keeps (and `alt`, `zero`, `comma`, which
python's own formatting needs) -/
structure GSpec where
  fill : Option Char
  align : Option Char
  sign : Option Char
  alt : Bool
  zero : Bool
  /-- `int(width)` or 0 -/
  width : Nat
  comma : Bool
  /-- digits after the point; `some []` is a point without digits -/
  prec : Option (List Char)
  ty : Option Char
  deriving DecidableEq, Repr

def isAlignCh (c : Char) : Bool := c = '<' || c = '>' || c = '=' || c = '^'
def isSignCh (c : Char) : Bool := c = '+' || c = '-' || c = ' '
/-- `[sbcdoxXneEfFgGn%]` -/
def isTypeCh (c : Char) : Bool :=
  c = 's' || c = 'b' || c = 'c' || c = 'd' || c = 'o' || c = 'x' || c = 'X' || c = 'n' || c = 'e' || c = 'E' ||
  c = 'f' || c = 'F' || c = 'g' || c = 'G' || c = '%'

/-- `(([\s\S])?([<>=\^]))?` -/
def takeFillAlign (s : List Char) : Option Char × Option Char × List Char :=
  match s with
  | c :: a :: r =>
    if isAlignCh a then (some c, some a, r)
    else if isAlignCh c then (none, some c, a :: r)
    else (none, none, s)
  | [c] => if isAlignCh c then (none, some c, []) else (none, none, s)
  | [] => (none, none, [])

def takeIf (p : Char → Bool) (s : List Char) : Option Char × List Char :=
  match s with
  | c :: r => if p c then (some c, r) else (none, s)
  | [] => (none, [])

/-- the groups after the fill/align group: `([\+\- ])?(#)?(0)?(\d*)?(,)?((\.)(\d*))?([sbcdoxXneEfFgGn%])?` -/
def parseRest (fill align : Option Char) (s : List Char) : Option GSpec :=
  let sign := takeIf isSignCh s
  let alt := takeIf (· = '#') sign.2
  let zero := takeIf (· = '0') alt.2
  let wd := zero.2.takeWhile isDigit
  let comma := takeIf (· = ',') (zero.2.dropWhile isDigit)
  let prec : Option (List Char) × List Char :=
    match comma.2 with
    | '.' :: r => (some (r.takeWhile isDigit), r.dropWhile isDigit)
    | _ => (none, comma.2)
  let ty := takeIf isTypeCh prec.2
  if ty.2 = [] then
    some { fill := fill, align := align, sign := sign.1, alt := alt.1.isSome, zero := zero.1.isSome,
           width := digitsVal wd, comma := comma.1.isSome, prec := prec.1, ty := ty.1 }
  else none

/-- `format_spec_re.fullmatch(spec)`: `none` when the string is not matched -/
def parseSpec (s : List Char) : Option GSpec :=
  parseRest (takeFillAlign s).1 (takeFillAlign s).2.1 (takeFillAlign s).2.2

/-! ### python's `format(value, spec)` -/

/-- fill character in force: explicit, else `0` with the zero flag, else blank -/
def GSpec.pyFill (g : GSpec) : Char :=
  match g.fill with
  | some c => c
  | none => if g.zero then '0' else ' '

/-- alignment in force: explicit; else `=` for numbers with the zero flag; else `>` for numbers
and `<` for strings -/
def GSpec.pyAlign (g : GSpec) (isNum : Bool) : Char :=
  match g.align with
  | some a => a
  | none => if isNum then (if g.zero then '=' else '>') else '<'

/-- `calc_padding` / `fill_number`: the sign goes in front of the digits except for `=`, where the
padding sits between them -/
def padNum (fill align : Char) (width : Nat) (sign digits : List Char) : List Char :=
  let pad := width - (sign.length + digits.length)
  if align = '<' then sign ++ digits ++ List.replicate pad fill
  else if align = '^' then List.replicate (pad / 2) fill ++ sign ++ digits ++ List.replicate (pad - pad / 2) fill
  else if align = '=' then sign ++ List.replicate pad fill ++ digits
  else List.replicate pad fill ++ sign ++ digits

def signStr (g : GSpec) (neg : Bool) : List Char :=
  if neg then ['-']
  else match g.sign with
    | some '+' => ['+']
    | some ' ' => [' ']
    | _ => []

/-- digits of `a / 10^p` with `p` decimals (`#` keeps the point when `p = 0`) -/
def fixBody (alt : Bool) (p a : Nat) : List Char :=
  natDigits (a / 10 ^ p) ++
    (if p = 0 then (if alt then ['.'] else []) else '.' :: padZeros p (natDigits (a % 10 ^ p)))

def isF (t : Option Char) : Bool := t = some 'f' || t = some 'F'

def pyFormat (g : GSpec) (v : Val) : Except FErr (List Char) :=
  if g.prec = some [] then .error .valueerror            -- "Format specifier missing precision"
  else
    let prec : Option Nat := g.prec.map digitsVal
    match v with
    | .str s =>
      if g.ty = none ∨ g.ty = some 's' then
        if g.comma ∨ g.sign.isSome ∨ g.alt ∨ g.align = some '=' then .error .valueerror
        else
          let s' := match prec with | some p => s.take p | none => s
          .ok (padNum g.pyFill (g.pyAlign false) g.width [] s')
      else .error .valueerror                            -- "Unknown format code"
    | .int i =>
      if g.ty = none ∨ g.ty = some 'd' then
        if prec.isSome then .error .valueerror           -- "Precision not allowed in integer format specifier"
        else if g.comma then .error .unmodelled
        else .ok (padNum g.pyFill (g.pyAlign true) g.width (signStr g (decide (i < 0))) (natDigits i.natAbs))
      else if isF g.ty then
        if g.comma then .error .unmodelled
        else
          let p := prec.getD 6
          .ok (padNum g.pyFill (g.pyAlign true) g.width (signStr g (decide (i < 0))) (fixBody g.alt p (i.natAbs * 10 ^ p)))
      else if g.ty = some 's' then .error .valueerror
      else .error .unmodelled
    | .fix k =>
      if isF g.ty then
        if g.comma then .error .unmodelled
        else
          let p := prec.getD 6
          .ok (padNum g.pyFill (g.pyAlign true) g.width (signStr g (decide (k < 0))) (fixBody g.alt p k.natAbs))
      else if g.ty = some 's' ∨ g.ty = some 'd' ∨ g.ty = some 'b' ∨ g.ty = some 'c' ∨ g.ty = some 'o' ∨
              g.ty = some 'x' ∨ g.ty = some 'X' then .error .valueerror
      else .error .unmodelled
    | .nan =>
      -- `format(float('nan'), spec)`: the text `nan` (never a minus sign), padded like a number
      if isF g.ty then
        if g.comma then .error .unmodelled
        else .ok (padNum g.pyFill (g.pyAlign true) g.width (signStr g false) ['n', 'a', 'n'])
      else if g.ty = some 's' ∨ g.ty = some 'd' ∨ g.ty = some 'b' ∨ g.ty = some 'c' ∨ g.ty = some 'o' ∨
              g.ty = some 'x' ∨ g.ty = some 'X' then .error .valueerror
      else .error .unmodelled

/-! ### the truncation of `TruncFormatter.format_field` -/

/-- type letter after the `isinstance` defaults -/
def effType (g : GSpec) (v : Val) : Char :=
  match g.ty with
  | some t => t
  | none => match v with
    | .str _ => 's'
    | .int _ => 'd'
    | .fix _ => 'g'
    | .nan => 'g'

/-- alignment after the defaults of `format_field`: strings keep their left end, everything else the right end -/
def effAlign (g : GSpec) (v : Val) : Char :=
  match g.align with
  | some a => a
  | none => if effType g v = 's' then '<' else '>'

def formatFieldG (g : GSpec) (trunc : Bool) (v : Val) : Except FErr (List Char) :=
  match pyFormat g v with
  | .error e => .error e
  | .ok r =>
    if !trunc || g.width == 0 || decide (r.length ≤ g.width) then .ok r
    else
      let o := r.length - g.width
      let a := effAlign g v
      if a = '<' then .ok (r.take (r.length - o))                                    -- result[:-overflow]
      else if a = '>' then .ok (r.drop o)                                            -- result[overflow:]
      else if a = '=' then .error .notimplemented
      else if a = '^' then .ok ((r.take (r.length - (o + 1) / 2)).drop (o / 2))      -- result[o//2 : -o//2]
      else .ok r

/-- `spec.endswith('t')`, `spec[:-1]` -/
def splitT (spec : List Char) : Bool × List Char :=
  if spec.getLast? = some 't' then (true, spec.dropLast) else (false, spec)

/-- `TruncFormatter().format_field(value, spec)`.  `_` and `z` (accepted by python's own parser in
places where the regular expression of the class does not know them) are outside the model. -/
def formatField (spec : List Char) (v : Val) : Except FErr (List Char) :=
  let (trunc, s) := splitT spec
  if s.contains '_' || s.contains 'z' then .error .unmodelled
  else match parseSpec s with
    | none => .error .valueerror
    | some g => formatFieldG g trunc v

/-! ### the specs of the layouts -/

/-- what the layout extractor makes of a parsed spec (`none`: outside the `Spec` fragment) -/
def GSpec.toSpec? (g : GSpec) (trunc : Bool) : Option Spec :=
  if g.sign.isSome || g.alt || g.zero || g.comma then none
  else
    let al : Option Align :=
      match g.align with
      | none => some .dflt
      | some '<' => some .left
      | some '>' => some .right
      | _ => none
    match al with
    | none => none
    | some al =>
      let fill := g.fill.getD ' '
      if g.prec = some [] then none
      else if g.ty = some 's' then
        (if g.prec.isSome then none else some ⟨fill, al, g.width, 0, .s, trunc⟩)
      else if g.ty = some 'd' then
        (if g.prec.isSome then none else some ⟨fill, al, g.width, 0, .d, trunc⟩)
      else if g.ty = some 'f' then some ⟨fill, al, g.width, (g.prec.map digitsVal).getD 6, .f, trunc⟩
      else none

/-- format-spec string → `Spec` of the main model -/
def specOfString (spec : List Char) : Option Spec :=
  let (trunc, s) := splitT spec
  match parseSpec s with
  | none => none
  | some g => g.toSpec? trunc

end C16
