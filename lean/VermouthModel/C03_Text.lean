import VermouthModel.C03
import VermouthModel.C02
import VermouthModel.C16
/-
C03, text level — the three writers applied to ONE node dictionary.

`C03.Mol` is what `NameMolType` compares.  The TEXT of the files is owned by C02 (`C02.write`,
`C02.render`: the ITP) and C16 (`C16.writePdb`, `C16.writeGro`).  This file is the bridge: from one
molecule (`TMol` = the abstract molecule, plus the few things the text writers read that the
abstract model does not carry) it builds the `C02.Mol` the ITP writer model prints and the
`C16.Mol`s the PDB / GRO writer models print, exactly as the real writers read ONE node dictionary:

* `write_molecule_itp`: `node['atype'|'resid'|'resname'|'atomname'|'charge_group']` (ValueError when one
  is missing), `str()` of each; `charge`, `mass` optional.
* `write_pdb_string`:  `get_not_none(node, 'atomname', '')`, `... 'resname', ''`, `... 'resid', 1`, chain,
  altloc, insertion_code, element, occupancy, temp_factor; `position * 10`.
* `write_gro`:         `node['atomname']`, `node['resname']`, `node['resid']`, `node['position']`.

Floats do not enter: `charge`/`mass` arrive as python's `str()`; positions on the 0.001 nm grid.
-/
namespace C03

/-- what the text writers read of a node beyond the attributes carried by `C03.Atom` -/
structure Deco where
  /-- `str(node['charge'])`, `''` when absent -/
  charge : String
  mass : String
  /-- position in units of 0.001 nm -/
  x : Int
  y : Int
  z : Int
  /-- occupancy / temperature factor in units of 0.01 -/
  occ : Option Int
  temp : Option Int
  deriving DecidableEq, Repr, Inhabited

def Deco.default : Deco := ⟨"", "", 0, 0, 0, none, none⟩

/-- a string-valued attribute; anything else (absent, `None`) is `none` -/
def strAttr (a : Atom) (k : String) : Option (List Char) :=
  match getAttr a k with
  | Val.str s => some s.toList
  | _ => none

def intAttr (a : Atom) (k : String) : Option Int :=
  match getAttr a k with
  | Val.int i => some i
  | _ => none

/-- `attribute in atom` -/
def hasAttr (a : Atom) (k : String) : Bool := a.attrs.any (fun p => p.1 == k)

/-- the node as `write_pdb_string` sees it (coordinates in 0.001 Å = position × 10) -/
def pdbAtom (p : Atom × Deco) : C16.Atom :=
  { key := p.1.key, atomid := atomidOf p.1,
    atomname := strAttr p.1 "atomname", altloc := strAttr p.1 "altloc", resname := strAttr p.1 "resname",
    chain := strAttr p.1 "chain", resid := intAttr p.1 "resid", icode := strAttr p.1 "insertion_code",
    x := 10 * p.2.x, y := 10 * p.2.y, z := 10 * p.2.z, occ := p.2.occ, temp := p.2.temp,
    element := strAttr p.1 "element" }

/-- the node as `write_gro` sees it (coordinates in 0.001 nm) -/
def groAtom (p : Atom × Deco) : C16.Atom :=
  { pdbAtom p with x := p.2.x, y := p.2.y, z := p.2.z }

/-- `str(i)` for a python int -/
def intStr (i : Int) : String := String.ofList (C16.intRepr i)

/-- the node as `write_molecule_itp` sees it -/
def itpAtom (p : Atom × Deco) : C02.Atom :=
  { key := p.1.key, atomid := atomidOf p.1,
    atype := String.ofList ((strAttr p.1 "atype").getD []),
    resid := intStr ((intAttr p.1 "resid").getD 1),
    resname := String.ofList ((strAttr p.1 "resname").getD []),
    atomname := String.ofList ((strAttr p.1 "atomname").getD []),
    cgnr := intStr ((intAttr p.1 "charge_group").getD 1),
    charge := p.2.charge, mass := p.2.mass }

/-- one molecule as the three writers get it -/
structure TMol where
  mol : Mol
  /-- parallel to `mol.nodes` (missing entries = `Deco.default`) -/
  deco : List Deco
  /-- everything of the ITP that is not an atom row and not the name: `nrexcl`, defines,
  interactions, pre/post section lines (`atoms`, `moltype`, `header` of the shell are ignored) -/
  shell : C02.Mol

def zipDeco : List Atom → List Deco → List (Atom × Deco)
  | [], _ => []
  | a :: as, [] => (a, Deco.default) :: zipDeco as []
  | a :: as, d :: ds => (a, d) :: zipDeco as ds

def TMol.atoms (t : TMol) : List (Atom × Deco) := zipDeco t.mol.nodes t.deco

def pdbMol (t : TMol) : C16.Mol := { atoms := t.atoms.map pdbAtom, edges := t.mol.edges }
def groMol (t : TMol) : C16.Mol := { atoms := t.atoms.map groAtom, edges := t.mol.edges }

/-- the molecule handed to the ITP writer under the molecule-type name `name` with the comment
header `header` -/
def itpMol (header : List String) (name : String) (t : TMol) : C02.Mol :=
  { t.shell with moltype := name, header := header, atoms := t.atoms.map itpAtom }

/-- the attributes `write_molecule_itp` insists on -/
def itpRequired : List String := ["atype", "resid", "resname", "atomname", "charge_group"]

/-- `write_molecule_itp(molecule, outfile, header=header)` with `meta['moltype'] = name`:
the checks in front of the writer proper (`nrexcl` not None, every required attribute on every
atom), then C02's writer -/
def writeItp (header : List String) (name : String) (t : TMol) : Except C02.Err (List C02.Line) :=
  if t.mol.nrexcl.isNone then .error .valueerror
  else if !(t.mol.nodes.all fun a => itpRequired.all (hasAttr a)) then .error .valueerror
  else C02.write (itpMol header name t)

/-- the text of the file -/
def itpText (header : List String) (name : String) (t : TMol) : Except C02.Err String :=
  match writeItp header name t with
  | .ok ls => .ok (C02.render ls)
  | .error e => .error e

/-- `'{}_{}'.format(molname, id)` -/
def molName (molname : String) (g : Nat) : String := molname ++ "_" ++ intStr g

/-- `write_pdb(system, path, conect)`: the lines of the file -/
def pdbLines (L : C16.PdbLayout) (conect : Bool) (sys : List TMol) : Except C16.Err (List (List Char)) :=
  C16.writePdb L conect (sys.map pdbMol)

/-- `write_gro(system, path)`: the atom lines of the file -/
def groLines (G : C16.GroLayout) (sys : List TMol) : List (List Char) :=
  C16.writeGro G (sys.map groMol)

/-! ### keys of the records read back: what a coordinate record and an `[ atoms ]` row share -/

structure TextKey where
  atomname : List Char
  resname : List Char
  resid : Int
  deriving DecidableEq, Repr

def pdbKey (a : C16.PAtom) : TextKey := ⟨a.atomname, a.resname, a.resid⟩
def groKey (a : C16.GAtom) : TextKey := ⟨a.atomname, a.resname, a.resid⟩

/-- the key of an `[ atoms ]` row as read by C02's reader (`none`: the residue number is not an
integer literal) -/
def itpKey (a : C02.PAtom) : Option TextKey :=
  (C16.parseInt a.resid.toList).map fun i => ⟨a.atomname.toList, a.resname.toList, i⟩

/-- the residue number a `w` columns wide right-aligned truncating integer field shows for `i`:
`i` itself when `str(i)` fits, else what the last `w` characters of `str(i)` spell -/
def truncResid (w : Nat) (i : Int) : Int :=
  if (C16.intRepr i).length ≤ w then i else ((i.natAbs % 10 ^ w : Nat) : Int)

end C03
