import VermouthModel.Iso
/-!
# C04 — model of `repair_graph` GIVEN the reference graph made by `make_reference`

Transcription of `vermouth/processors/repair_graph.py`: `repair_residue` (canonical attributes
copied onto the matched atoms; the `while missing and added` loop that re-adds block atoms next to
a present neighbour) and `repair_graph` (atoms of the residue outside the match are flagged
`PTM_atom`, flagged atoms carrying a mutation / modification request are removed).

NOT transcribed: the matcher (ISMAGS `largest_common_subgraph` with the name-biased node order in
`make_reference`).  Its SPECIFICATION is `M ∈ Iso.allMCIS (resGraph …) (blockGraph …)` — a maximum
common induced subgraph on element colours — and the theorems in `VermouthProps/C04.lean` that
talk about the matcher are stated for every such `M`.

Encoding
* a node dictionary is split into `name` (= `atomname`), `elem` (= `element`, as an integer code;
  the harness uses the big-endian bytes of the string), `ptm` (= `PTM_atom`; block atoms contributed
  by a requested modification carry `PTM_atom = True` and hand it on) and `attrs` = every
  other attribute in dictionary order, values as `repr` strings (`position` and `graph` never
  cross the boundary);
* reference (block) atoms are keyed by their index in the block's node order;
* `Residue.common` = the residue-level attributes of the node of the reference graph (everything
  but `match`, `found`, `reference`, `nnodes`, `nedges`, `density` — and `graph`), as made by
  `make_residue_graph` and patched by `make_reference` for mutations.

Quirks kept: the rebuild pass iterates over `missing` while popping from it, so the element that
follows a rebuilt one is skipped until the next pass (`pass`); an isolated block atom is never
rebuilt (`all([])` is true); the fresh key is `max(molecule) + 1` over the WHOLE molecule; a match
that is not injective makes the later block atom overwrite the earlier one.
Not modelled: `assert neighbours != 0` (cannot fail: `missing` is by construction the complement of
`dom match`), the `KeyError`s for a match pointing outside the molecule (never produced by
`make_reference`; the model skips such pairs).
-/
namespace C04
open Iso

abbrev Attrs := List (String × String)

structure Atom where
  key : Int
  name : String
  elem : Int
  attrs : Attrs
  /-- `PTM_atom`: absent / False / True -/
  ptm : Option Bool
  deriving Repr, DecidableEq, Inhabited

structure Mol where
  nodes : List Atom
  edges : List (Int × Int)
  deriving Repr, DecidableEq, Inhabited

/-- a reference block (possibly patched with modifications / mutation by `_get_reference_residue`) -/
structure Block where
  nodes : List Atom
  edges : List (Int × Int)
  deriving Repr, DecidableEq, Inhabited

/-- one node of the reference graph -/
structure Residue where
  block : Block
  /-- keys of the atoms of the residue in the molecule (`found`) -/
  found : List Int
  /-- block atom ↦ molecule atom -/
  mtch : Map
  common : Attrs
  deriving Repr, Inhabited

inductive Event where
  | missing (name : String) (hydrogen : Bool)
  | adding (key : Int) (name : String) (hydrogen : Bool)
  | lost (name : String)
  deriving Repr, DecidableEq, Inhabited

/-! ### dictionaries -/

/-- `d[k] = v` -/
def setAttr (d : Attrs) (k v : String) : Attrs :=
  if d.any (fun p => p.1 == k) then d.map (fun p => if p.1 == k then (k, v) else p) else d ++ [(k, v)]

/-- `d.update(new)` -/
def updAttrs (d new : Attrs) : Attrs := new.foldl (fun d p => setAttr d p.1 p.2) d

/-- `ref_node = reference.nodes[ref_idx].copy(); del ref_node['resid']` -/
def refAttrs (ref : Atom) : Attrs := ref.attrs.filter (fun p => p.1 != "resid")

/-- truth value of a `repr` string -/
def truthy (v : String) : Bool :=
  !(["None", "False", "0", "0.0", "''", "\"\"", "[]", "()", "{}", "set()"].contains v)

/-- `node.get('mutation') or node.get('modification')` -/
def requested (a : Atom) : Bool :=
  (a.attrs.lookup "mutation").any truthy || (a.attrs.lookup "modification").any truthy

/-! ### graphs -/

def Mol.keys (m : Mol) : List Int := m.nodes.map (·.key)
def Block.keys (b : Block) : List Int := b.nodes.map (·.key)

def hasEdge (es : List (Int × Int)) (u v : Int) : Bool :=
  es.any fun e => (e.1 == u && e.2 == v) || (e.1 == v && e.2 == u)

def addEdge (es : List (Int × Int)) (e : Int × Int) : List (Int × Int) :=
  if hasEdge es e.1 e.2 then es else es ++ [e]

/-- neighbours of `r` (adjacency of the block) -/
def nbrs (es : List (Int × Int)) (r : Int) : List Int :=
  es.filterMap fun e => if e.1 = r then some e.2 else if e.2 = r then some e.1 else none

def maxKey : List Int → Int
  | [] => 0
  | k :: ks => if ks.isEmpty then k else max k (maxKey ks)

def elemH : Int := 72

/-- element-coloured graph of the block -/
def blockGraph (b : Block) : Graph :=
  { nodes := b.nodes.map fun a => (a.key, a.elem), edges := b.edges.map fun e => (e.1, e.2, 0) }

/-- element-coloured graph induced by the atoms `found` of the molecule -/
def resGraph (m : Mol) (found : List Int) : Graph :=
  { nodes := (m.nodes.filter fun a => found.contains a.key).map fun a => (a.key, a.elem),
    edges := (m.edges.filter fun e => found.contains e.1 && found.contains e.2).map fun e => (e.1, e.2, 0) }

/-! ### step 1: canonical attributes onto matched atoms; which block atoms are missing -/

/-- `node.update(ref_node)` -/
def canonAtom (a ref : Atom) : Atom :=
  { key := a.key, name := ref.name, elem := ref.elem, attrs := updAttrs a.attrs (refAttrs ref),
    ptm := ref.ptm.orElse fun _ => a.ptm }

/-- `node.update(ref_node)` on the atom with key `k` -/
def updateNode (nodes : List Atom) (k : Int) (ref : Atom) : List Atom :=
  nodes.map fun a => if a.key = k then canonAtom a ref else a

def canonicalise (b : Block) (M : Map) (nodes : List Atom) : List Atom :=
  b.nodes.foldl (fun ns r => match M.lookup r.key with
                             | some k => updateNode ns k r
                             | none => ns) nodes

def missingAtoms (b : Block) (M : Map) : List Atom := b.nodes.filter fun r => (M.lookup r.key).isNone

def missing0 (b : Block) (M : Map) : List Int := (missingAtoms b M).map (·.key)

/-! ### step 2: the rebuild loop -/

structure RState where
  nodes : List Atom
  edges : List (Int × Int)
  mtch : Map
  log : List Event
  deriving Repr, Inhabited

def newAtom (common : Attrs) (ref : Atom) (k : Int) : Atom :=
  { key := k, name := ref.name, elem := ref.elem,
    attrs := setAttr (updAttrs common (refAttrs ref)) "atomid" (toString (k + 1)), ptm := ref.ptm }

/-- the new edges of the fresh atom `k` playing block atom `r`: one to every neighbour that has a match -/
def newEdges (bedges : List (Int × Int)) (M : Map) (r k : Int) : List (Int × Int) :=
  (nbrs bedges r).filterMap fun q => (M.lookup q).map fun kq => (kq, k)

def addAtom (R : Residue) (st : RState) (r : Int) : RState :=
  match R.block.nodes.find? (fun a => a.key = r) with
  | none => st
  | some ref =>
    let k := maxKey (st.nodes.map (·.key)) + 1
    let M' := st.mtch ++ [(r, k)]
    { nodes := st.nodes ++ [newAtom R.common ref k],
      edges := (newEdges R.block.edges M' r k).foldl addEdge st.edges,
      mtch := M',
      log := st.log ++ [Event.adding k ref.name (ref.elem == elemH)] }

/-- "has no known neighbour": `all(ref_neighbour in missing for ref_neighbour in reference[ref_idx])` -/
def stuck (bedges : List (Int × Int)) (cur : List Int) (r : Int) : Bool :=
  (nbrs bedges r).all fun q => cur.contains q

/-- One `for ref_idx in missing:` pass.  The first argument is the part of `missing` the list
iterator has not visited yet; `cur` is the list itself.  Popping the current element makes the
iterator skip the next one. -/
def pass (R : Residue) : List Int → List Int → RState → Bool → List Int × RState × Bool
  | [], cur, st, added => (cur, st, added)
  | r :: rest, cur, st, added =>
    if stuck R.block.edges cur r then pass R rest cur st added
    else
      match rest with
      | [] => (cur.erase r, addAtom R st r, true)
      | _ :: rest' => pass R rest' (cur.erase r) (addAtom R st r) true

/-- `while missing and added:` with the number of passes bounded by `fuel`
(`rebuild_terminates`: `missing.length + 1` passes always suffice) -/
def rebuild (R : Residue) : Nat → List Int → RState → List Int × RState
  | 0, cur, st => (cur, st)
  | fuel + 1, cur, st =>
    if cur.isEmpty then (cur, st)
    else
      match pass R cur cur st false with
      | (cur', st', true) => rebuild R fuel cur' st'
      | (cur', st', false) => (cur', st')

/-! ### step 3: flag what no block atom accounts for -/

def ran (M : Map) : List Int := M.map Prod.snd
def dom (M : Map) : List Int := M.map Prod.fst

def extraAtoms (found : List Int) (M : Map) : List Int := found.filter fun k => !(ran M).contains k

def flagExtra (extra : List Int) (nodes : List Atom) (edges : List (Int × Int)) : Mol :=
  let flagged := nodes.map fun a => if extra.contains a.key then { a with ptm := some true } else a
  let gone := (flagged.filter fun a => extra.contains a.key && requested a).map (·.key)
  { nodes := flagged.filter fun a => !gone.contains a.key,
    edges := edges.filter fun e => !gone.contains e.1 && !gone.contains e.2 }

/-! ### the whole thing -/

structure Outcome where
  mol : Mol
  /-- the match after rebuilding -/
  mtch : Map
  /-- block atoms that could not be rebuilt -/
  lost : List Int
  log : List Event
  deriving Repr, Inhabited

def nameOf (b : Block) (r : Int) : String := ((b.nodes.find? fun a => a.key = r).map (·.name)).getD ""

def startState (m : Mol) (R : Residue) : RState :=
  { nodes := canonicalise R.block R.mtch m.nodes, edges := m.edges, mtch := R.mtch,
    log := (missingAtoms R.block R.mtch).map fun r => Event.missing r.name (r.elem == elemH) }

def rebuilt (m : Mol) (R : Residue) : List Int × RState :=
  rebuild R ((missing0 R.block R.mtch).length + 1) (missing0 R.block R.mtch) (startState m R)

def repairResidue (m : Mol) (R : Residue) : Outcome :=
  let (lost, st) := rebuilt m R
  { mol := flagExtra (extraAtoms R.found st.mtch) st.nodes st.edges,
    mtch := st.mtch, lost := lost,
    log := st.log ++ lost.map fun r => Event.lost (nameOf R.block r) }

/-- `repair_graph`: residues in reference-graph order; logs concatenated -/
def repairGraph (m : Mol) (rs : List Residue) : Mol × List Map × List Event :=
  rs.foldl (fun (acc : Mol × List Map × List Event) R =>
    let o := repairResidue acc.1 R
    (o.mol, acc.2.1 ++ [o.mtch], acc.2.2 ++ o.log)) (m, [], [])

/-! ### connectedness of a block (decidable hypothesis of `rebuild_complete`) -/

/-- nodes reached from `seen` in one more step -/
def expand (es : List (Int × Int)) (seen : List Int) : List Int :=
  seen ++ (seen.flatMap (nbrs es)).filter fun q => !seen.contains q

def reachFrom (es : List (Int × Int)) : Nat → List Int → List Int
  | 0, seen => seen
  | n + 1, seen => reachFrom es n (expand es seen)

/-- every block atom is reached from the first one within `|block|` expansion steps -/
def connectedB (b : Block) : Bool :=
  match b.keys with
  | [] => true
  | k :: _ => b.keys.all fun q => (reachFrom b.edges b.keys.length [k]).contains q

end C04
