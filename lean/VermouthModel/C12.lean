import VermouthModel.Proto
/-
C12 — model of the editing operations of `vermouth.molecule.Molecule`
(networkx.Graph with ordered nodes + interaction table + citation set + the
cached highest key `max_node`).

A molecule value is immutable here; the pool (`List Mol`) is what the harness
holds as real `Molecule` objects, so aliasing between a copy/subgraph and its
source shows up as a disagreement in the correspondence run.
-/
namespace C12

structure Attrs where
  name  : Option String := none
  resid : Option Int := none
  cg    : Option Int := none
  chain : Option String := none
  deriving Repr, DecidableEq, Inhabited

/-- `dict.update`: keys given in `new` overwrite. -/
def Attrs.update (old new : Attrs) : Attrs :=
  { name := new.name.orElse (fun _ => old.name),
    resid := new.resid.orElse (fun _ => old.resid),
    cg := new.cg.orElse (fun _ => old.cg),
    chain := new.chain.orElse (fun _ => old.chain) }

/-- `new_atom['resid'] = new_atom.get('resid', 1) + offset`, same for the charge group -/
def Attrs.shift (a : Attrs) (roff coff : Int) : Attrs :=
  { a with resid := some (a.resid.getD 1 + roff), cg := some (a.cg.getD 1 + coff) }

structure Inter where
  atoms   : List Int
  params  : String
  version : Int
  deriving Repr, DecidableEq, Inhabited

structure Mol where
  nodes   : List (Int × Attrs) := []
  edges   : List (Int × Int) := []
  inters  : List (String × Inter) := []     -- per-type order = relative order in this list
  cites   : List String := []               -- a set
  nrexcl  : Option Int := none
  maxNode : Option Int := none              -- the cache; never compared with the code
  deriving Repr, DecidableEq, Inhabited

def Mol.keys (m : Mol) : List Int := m.nodes.map Prod.fst
def Mol.hasNode (m : Mol) (k : Int) : Bool := m.keys.contains k
def Mol.hasEdge (m : Mol) (u v : Int) : Bool := m.edges.contains (u, v) || m.edges.contains (v, u)

def lookupAttrs (nodes : List (Int × Attrs)) (k : Int) : Option Attrs :=
  (nodes.find? (fun p => p.1 == k)).map Prod.snd

/-- networkx `add_node`: update in place when the key exists, else append. -/
def upsert (nodes : List (Int × Attrs)) (k : Int) (a : Attrs) : List (Int × Attrs) :=
  match nodes with
  | [] => [(k, a)]
  | (k', a') :: rest => if k' = k then (k', a'.update a) :: rest else (k', a') :: upsert rest k a

def Mol.addNode (m : Mol) (k : Int) (a : Attrs) : Mol :=
  { m with nodes := upsert m.nodes k a, maxNode := none }

def Mol.addNodes (m : Mol) (l : List (Int × Attrs)) : Mol :=
  { m with nodes := l.foldl (fun ns p => upsert ns p.1 p.2) m.nodes, maxNode := none }

def interMentions (ks : List Int) (i : Inter) : Bool := i.atoms.any (fun a => ks.contains a)

/-- remove the nodes of `ks` that are present, their edges, and every interaction mentioning a key of `ks` -/
def Mol.dropNodes (m : Mol) (ks : List Int) : Mol :=
  { m with
    nodes := m.nodes.filter (fun p => !ks.contains p.1),
    edges := m.edges.filter (fun e => !ks.contains e.1 && !ks.contains e.2),
    inters := m.inters.filter (fun ti => !interMentions ks ti.2),
    maxNode := none }

def Mol.addEdge (m : Mol) (u v : Int) : Mol :=
  let m1 := if m.hasNode u then m else { m with nodes := m.nodes ++ [(u, {})], maxNode := none }
  let m2 := if m1.hasNode v then m1 else { m1 with nodes := m1.nodes ++ [(v, {})], maxNode := none }
  if m2.hasEdge u v then m2 else { m2 with edges := m2.edges ++ [(u, v)] }

inductive Outcome where
  | ok | keyerror | valueerror | nxerror | badindex
  deriving Repr, DecidableEq, Inhabited

def Outcome.str : Outcome → String
  | .ok => "ok" | .keyerror => "keyerror" | .valueerror => "valueerror"
  | .nxerror => "nxerror" | .badindex => "badindex"

def Mol.addInter (m : Mol) (ty : String) (atoms : List Int) (params : String) (version : Int) : Mol × Outcome :=
  if atoms.all m.hasNode then
    ({ m with inters := m.inters ++ [(ty, { atoms := atoms, params := params, version := version })] }, .ok)
  else (m, .keyerror)

/-- replace the first interaction of type `ty` with the same atoms and version -/
def replaceFirst (l : List (String × Inter)) (ty : String) (i : Inter) : Option (List (String × Inter)) :=
  match l with
  | [] => none
  | (t, j) :: rest =>
    if t = ty ∧ j.atoms = i.atoms ∧ j.version = i.version then some ((t, i) :: rest)
    else (replaceFirst rest ty i).map (fun r => (t, j) :: r)

def unionSet (a b : List String) : List String := a ++ b.filter (fun x => !a.contains x)

def Mol.addOrReplace (m : Mol) (ty : String) (atoms : List Int) (params : String) (version : Int)
    (cites : List String) : Mol × Outcome :=
  let i : Inter := { atoms := atoms, params := params, version := version }
  match replaceFirst m.inters ty i with
  | some l => ({ m with inters := l, cites := unionSet m.cites cites }, .ok)
  | none =>
    match m.addInter ty atoms params version with
    | (m', .ok) => ({ m' with cites := unionSet m'.cites cites }, .ok)
    | (m', e) => (m', e)        -- KeyError raised before the citations are updated

def removeFirst (l : List (String × Inter)) (ty : String) (atoms : List Int) (version : Int) :
    Option (List (String × Inter)) :=
  match l with
  | [] => none
  | (t, j) :: rest =>
    if t = ty ∧ j.atoms = atoms ∧ j.version = version then some rest
    else (removeFirst rest ty atoms version).map (fun r => (t, j) :: r)

def Mol.removeInter (m : Mol) (ty : String) (atoms : List Int) (version : Int) : Mol × Outcome :=
  match removeFirst m.inters ty atoms version with
  | some l => ({ m with inters := l }, .ok)
  | none => (m, .keyerror)

/-! ### `remove_matching_interaction` / `interaction_match` -/

/-- `attributes_match(node, template)`: every attribute the template gives must be equal -/
def attrsMatch (node tmpl : Attrs) : Bool :=
  (tmpl.name.isNone || tmpl.name == node.name) && (tmpl.resid.isNone || tmpl.resid == node.resid) &&
  (tmpl.cg.isNone || tmpl.cg == node.cg) && (tmpl.chain.isNone || tmpl.chain == node.chain)

/-- template of `remove_matching_interaction`: atoms, optional parameters (`none` = empty list =
any), optional version in the meta template (`none` = meta template without version), optional
per-atom attribute templates (`none` = plain `Interaction`, `some` = `DeleteInteraction`) -/
structure Template where
  atoms  : List Int
  params : Option String := none
  version : Option Int := none
  atomAttrs : Option (List Attrs) := none
  deriving Repr, DecidableEq, Inhabited

/-- `interaction_match(molecule, interaction, template)`.  An atom of the interaction that is
not a node makes the code raise KeyError; unreachable under the invariant, modelled as no match. -/
def interMatch (nodes : List (Int × Attrs)) (t : Template) (i : Inter) : Bool :=
  i.atoms == t.atoms && (t.params.isNone || t.params == some i.params) &&
  (match t.atomAttrs with
   | none => true
   | some l => (i.atoms.zip l).all (fun ax =>
       match lookupAttrs nodes ax.1 with
       | some na => attrsMatch na ax.2
       | none => false)) &&
  (t.version.isNone || t.version == some i.version)

/-- remove the first interaction of type `ty` satisfying `p` -/
def removeFirstP (l : List (String × Inter)) (ty : String) (p : Inter → Bool) :
    Option (List (String × Inter)) :=
  match l with
  | [] => none
  | (t, j) :: rest =>
    if t = ty ∧ p j = true then some rest
    else (removeFirstP rest ty p).map (fun r => (t, j) :: r)

def Mol.removeMatching (m : Mol) (ty : String) (t : Template) : Mol × Outcome :=
  match removeFirstP m.inters ty (interMatch m.nodes t) with
  | some l => ({ m with inters := l }, .ok)
  | none => (m, .valueerror)

/-! ### `edge_tuning.prune_edges_between_selections` / `prune_edges_with_selectors` -/

def edgeBetween (a b : List Int) (e : Int × Int) : Bool :=
  (a.contains e.1 && b.contains e.2) || (a.contains e.2 && b.contains e.1)

def Mol.pruneEdges (m : Mol) (a b : List Int) : Mol :=
  { m with edges := m.edges.filter (fun e => !edgeBetween a b e) }

/-- `selectors.filter_minimal(molecule, lambda atom: atom.get('atomname') == n)` -/
def Mol.selectByName (m : Mol) (n : String) : List Int :=
  (m.nodes.filter (fun p => p.2.name == some n)).map Prod.fst

def Mol.pruneByName (m : Mol) (na : String) (nb : Option String) : Mol :=
  m.pruneEdges (m.selectByName na) (m.selectByName (nb.getD na))

def dedupKeys : List Int → List Int
  | [] => []
  | k :: rest => k :: (dedupKeys rest).filter (fun x => x != k)

/-- `Molecule.subgraph(ks)`; `none` = KeyError (a key is not a node). -/
def Mol.subgraph (m : Mol) (ks : List Int) : Option Mol :=
  if ks.all m.hasNode then
    some { nodes := (dedupKeys ks).filterMap (fun k => (lookupAttrs m.nodes k).map (fun a => (k, a))),
           edges := m.edges.filter (fun e => ks.contains e.1 && ks.contains e.2),
           inters := m.inters.filter (fun ti => ti.2.atoms.all (fun a => ks.contains a)),
           cites := m.cites, nrexcl := m.nrexcl, maxNode := none }
  else none

def Mol.copy (m : Mol) : Mol := (m.subgraph m.keys).getD m

def maxKey : List Int → Option Int
  | [] => none
  | k :: rest => some (rest.foldl max k)

/-- position of `k` in the node order of the newcomer, as new key `offset + 1 + pos` -/
def corrOf (keys : List Int) (offset : Int) (k : Int) : Option Int :=
  match keys.findIdx? (fun x => x == k) with
  | some i => some (offset + 1 + (i : Int))
  | none => none

def mapAtoms (keys : List Int) (offset : Int) (atoms : List Int) : Option (List Int) :=
  atoms.mapM (corrOf keys offset)

def renameInters (keys : List Int) (offset : Int) : List (String × Inter) → Option (List (String × Inter))
  | [] => some []
  | (t, i) :: rest => do
      let a ← mapAtoms keys offset i.atoms
      let r ← renameInters keys offset rest
      pure ((t, { i with atoms := a }) :: r)

def renameEdges (keys : List Int) (offset : Int) : List (Int × Int) → Option (List (Int × Int))
  | [] => some []
  | (u, v) :: rest => do
      let u' ← corrOf keys offset u
      let v' ← corrOf keys offset v
      let r ← renameEdges keys offset rest
      pure (if u' = v' then r else (u', v') :: r)

def enumFrom (start : Int) : List (Int × Attrs) → List (Int × Attrs)
  | [] => []
  | (_, a) :: rest => (start, a) :: enumFrom (start + 1) rest

/-- `if self.nrexcl is None and not self: self.nrexcl = molecule.nrexcl` -/
def mergeNrexcl (self other : Mol) : Option Int :=
  if self.nrexcl.isNone && self.nodes.isEmpty then other.nrexcl else self.nrexcl

/-- `if self.max_node is None: self.max_node = max(self)`; then `self.max_node` -/
def Mol.lastKey (self : Mol) : Option Int :=
  match self.maxNode with
  | some k => some k
  | none => maxKey self.keys

/-- (key offset, resid offset, charge-group offset); `none` = KeyError on a stale cache
(unreachable, see `merge_outcome`) -/
def Mol.mergeOffs (self : Mol) : Option (Int × Int × Int) :=
  if self.nodes.isEmpty then some (0, 0, 0)
  else
    match self.lastKey with
    | none => none
    | some last =>
      match lookupAttrs self.nodes last with
      | none => none
      | some a => some (last, a.resid.getD 1, a.cg.getD 1)

/-- the body of `merge_molecule` once nrexcl and the offsets are known -/
def Mol.mergeCore (self other : Mol) (nrexcl : Option Int) (offset roff coff : Int) : Mol × Outcome :=
  let okeys := other.keys
  let newNodes := enumFrom (offset + 1)
    (other.nodes.map (fun p => (p.1, p.2.shift roff coff)))
  match renameInters okeys offset other.inters, renameEdges okeys offset other.edges with
  | some ri, some re =>
    let m1 : Mol := { self with nrexcl := nrexcl,
                                nodes := newNodes.foldl (fun ns p => upsert ns p.1 p.2) self.nodes }
    -- add_interaction validates the atoms (all are new nodes)
    let m2 : Mol := { m1 with inters := m1.inters ++ ri }
    let m3 : Mol := re.foldl (fun m e => m.addEdge e.1 e.2) m2
    ({ m3 with cites := unionSet self.cites other.cites,
               maxNode := some (offset + (other.nodes.length : Int)) }, .ok)
  | _, _ => (self, .keyerror)              -- dangling atom in `other` (unreachable under the invariant)

/-- `self.merge_molecule(other)` -/
def Mol.merge (self other : Mol) : Mol × Outcome :=
  let nrexcl := mergeNrexcl self other
  if nrexcl ≠ other.nrexcl then (self, .valueerror) else
  match self.mergeOffs with
  | none => (self, .keyerror)
  | some (offset, roff, coff) => self.mergeCore other nrexcl offset roff coff

/-! ### Blocks (string node names) -/

structure Block where
  nodes  : List (String × Attrs) := []
  edges  : List (String × String) := []
  inters : List (String × List String × String × Int) := []   -- type, atom names, params, version
  cites  : List String := []
  nrexcl : Option Int := none
  name   : String := ""
  deriving Repr, Inhabited

def nameIdx (names : List String) (off : Int) (n : String) : Option Int :=
  match names.findIdx? (fun x => x == n) with
  | some i => some (off + (i : Int))
  | none => none

def blockInter (names : List String) (off : Int) (x : String × List String × String × Int) :
    Option (String × Inter) :=
  match x.2.1.mapM (nameIdx names off) with
  | some a => some (x.1, { atoms := a, params := x.2.2.1, version := x.2.2.2 })
  | none => none

def blockEdge (names : List String) (off : Int) (e : String × String) : Option (Int × Int) :=
  match nameIdx names off e.1, nameIdx names off e.2 with
  | some u, some v => some (u, v)
  | _, _ => none

/-- `Block.to_molecule(atom_offset, offset_resid, offset_charge_group)`; `none` = KeyError. -/
def Block.toMolecule (b : Block) (atomOff residOff cgOff : Int) : Option Mol :=
  let names := b.nodes.map Prod.fst
  let nodes := enumFrom atomOff
    (b.nodes.map (fun p => ((0 : Int), p.2.shift residOff cgOff)))
  match b.inters.mapM (blockInter names atomOff), b.edges.mapM (blockEdge names atomOff) with
  | some inters, some edges =>
    let m0 : Mol := { nodes := nodes, inters := inters, cites := b.cites, nrexcl := b.nrexcl }
    some (edges.foldl (fun m e => m.addEdge e.1 e.2) m0)
  | _, _ => none

/-! ### The pool state machine -/

inductive Op where
  | addNode (m : Nat) (k : Int) (a : Attrs)
  | addNodes (m : Nat) (l : List (Int × Attrs))
  | removeNode (m : Nat) (k : Int)
  | removeNodes (m : Nat) (ks : List Int)
  | addEdge (m : Nat) (u v : Int)
  | addInter (m : Nat) (ty : String) (atoms : List Int) (params : String) (version : Int)
  | addOrReplace (m : Nat) (ty : String) (atoms : List Int) (params : String) (version : Int) (cites : List String)
  | removeInter (m : Nat) (ty : String) (atoms : List Int) (version : Int)
  | removeMatching (m : Nat) (ty : String) (t : Template)
  | pruneEdges (m : Nat) (a b : List Int)
  | pruneByName (m : Nat) (na : String) (nb : Option String)
  | copy (m : Nat)
  | subgraph (m : Nat) (ks : List Int)
  | merge (m j : Nat)
  | newMol (nrexcl : Option Int)
  | fromBlock (b : Block) (atomOff residOff cgOff : Int)
  deriving Repr, Inhabited

abbrev Pool := List Mol

def setAt (p : Pool) (i : Nat) (m : Mol) : Pool := p.set i m

def onMol (p : Pool) (i : Nat) (f : Mol → Mol × Outcome) : Pool × Outcome :=
  match p[i]? with
  | none => (p, .badindex)
  | some m => let r := f m; (setAt p i r.1, r.2)

def step (p : Pool) : Op → Pool × Outcome
  | .addNode i k a => onMol p i (fun m => (m.addNode k a, .ok))
  | .addNodes i l => onMol p i (fun m => (m.addNodes l, .ok))
  | .removeNode i k => onMol p i (fun m => if m.hasNode k then (m.dropNodes [k], .ok) else (m, .nxerror))
  | .removeNodes i ks => onMol p i (fun m => (m.dropNodes ks, .ok))
  | .addEdge i u v => onMol p i (fun m => (m.addEdge u v, .ok))
  | .addInter i ty atoms params version => onMol p i (fun m => m.addInter ty atoms params version)
  | .addOrReplace i ty atoms params version cites => onMol p i (fun m => m.addOrReplace ty atoms params version cites)
  | .removeInter i ty atoms version => onMol p i (fun m => m.removeInter ty atoms version)
  | .removeMatching i ty t => onMol p i (fun m => m.removeMatching ty t)
  | .pruneEdges i a b => onMol p i (fun m => (m.pruneEdges a b, .ok))
  | .pruneByName i na nb => onMol p i (fun m => (m.pruneByName na nb, .ok))
  | .copy i => match p[i]? with
      | none => (p, .badindex)
      | some m => (p ++ [m.copy], .ok)
  | .subgraph i ks => match p[i]? with
      | none => (p, .badindex)
      | some m => match m.subgraph ks with
        | some s => (p ++ [s], .ok)
        | none => (p, .keyerror)
  | .merge i j =>
      if i = j then (p, .badindex) else
      match p[i]?, p[j]? with
      | some a, some b => let r := a.merge b; (setAt p i r.1, r.2)
      | _, _ => (p, .badindex)
  | .newMol n => (p ++ [{ nrexcl := n }], .ok)
  | .fromBlock b ao ro co => match b.toMolecule ao ro co with
      | some m => (p ++ [m], .ok)
      | none => (p, .keyerror)

def run (p : Pool) (ops : List Op) : Pool := ops.foldl (fun s o => (step s o).1) p

/-! ### Systems (`vermouth.system.System`, `MergeAllMolecules`, `MergeChains`)

A system holds REFERENCES to molecule objects: here a list of pool indices, so that a molecule
that sits in a system (or in two) and is edited through the pool shows up in both views. -/

/-- fold `merge_molecule` over the operands; stops at the first failure and returns the
accumulator as it is then (the code has mutated it in place up to there) -/
def mergeFold (acc : Mol) : List Mol → Mol × Outcome
  | [] => (acc, .ok)
  | o :: rest =>
    match acc.merge o with
    | (a, .ok) => mergeFold a rest
    | (a, e) => (a, e)

structure State where
  pool : Pool := []
  systems : List (List Nat) := []
  deriving Repr, Inhabited, DecidableEq

inductive SOp where
  | mol (op : Op)
  | newSys
  | addMol (s i : Nat)
  | copySys (s : Nat)
  | mergeAll (s : Nat)
  | mergeChains (s : Nat) (chains : List (Option String)) (all : Bool)
  deriving Repr, Inhabited

def getMols (p : Pool) (idxs : List Nat) : Option (List Mol) := idxs.mapM (fun i => p[i]?)

/-- `molecule_chains.issubset(_chains)`; with `all_chains` the set holds every chain of the system -/
def chainSelected (chains : List (Option String)) (all : Bool) (m : Mol) : Bool :=
  all || m.nodes.all (fun p => chains.contains p.2.chain)

/-- new molecule list of `merge_chains`: the merged molecule (pool index `n`) takes the place of
the first selected molecule, the other selected ones disappear, the rest keep their order -/
def replaceSelected (n : Nat) : List (Nat × Bool) → Bool → List Nat
  | [], _ => []
  | (i, sel) :: rest, done =>
    if sel then (if done then replaceSelected n rest true else n :: replaceSelected n rest true)
    else i :: replaceSelected n rest done

/-- `Molecule()` as created inside `merge_chains` -/
def freshMerged (nrexcl : Option Int) : Mol := { nrexcl := nrexcl, cites := ["vermouth"] }

def sstep (st : State) : SOp → State × Outcome
  | .mol op => let r := step st.pool op; ({ st with pool := r.1 }, r.2)
  | .newSys => ({ st with systems := st.systems ++ [[]] }, .ok)
  | .addMol s i =>
      match st.systems[s]?, st.pool[i]? with
      | some l, some _ => ({ st with systems := st.systems.set s (l ++ [i]) }, .ok)
      | _, _ => (st, .badindex)
  | .copySys s =>
      match st.systems[s]? with
      | none => (st, .badindex)
      | some l =>
        match getMols st.pool l with
        | none => (st, .badindex)
        | some ms => ({ pool := st.pool ++ ms.map Mol.copy,
                        systems := st.systems ++ [List.range' st.pool.length ms.length] }, .ok)
  | .mergeAll s =>
      match st.systems[s]? with
      | none => (st, .badindex)
      | some [] => (st, .ok)
      | some (i0 :: rest) =>
        if rest.contains i0 then (st, .badindex) else     -- merging an object into itself
        match st.pool[i0]?, getMols st.pool rest with
        | some m0, some ms =>
          let r := mergeFold m0 ms
          ({ pool := st.pool.set i0 r.1,
             systems := if r.2 = .ok then st.systems.set s [i0] else st.systems }, r.2)
        | _, _ => (st, .badindex)
  | .mergeChains s chains all =>
      match st.systems[s]? with
      | none => (st, .badindex)
      | some l =>
        if (all && !chains.isEmpty) || (!all && chains.isEmpty) then (st, .valueerror) else
        match getMols st.pool l with
        | none => (st, .badindex)
        | some ms =>
          let sels := ms.map (chainSelected chains all)
          match (ms.zip sels).filter (fun x => x.2) with
          | [] => (st, .ok)
          | (f, _) :: more =>
            let r := mergeFold (freshMerged f.nrexcl) (f :: more.map Prod.fst)
            if r.2 = .ok then
              ({ pool := st.pool ++ [r.1],
                 systems := st.systems.set s (replaceSelected st.pool.length (l.zip sels) false) }, .ok)
            else (st, r.2)

def srun (st : State) (ops : List SOp) : State := ops.foldl (fun s o => (sstep s o).1) st

end C12
