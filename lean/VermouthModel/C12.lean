import VermouthModel.Proto
/-
C12 — model of the editing operations of `vermouth.molecule.Molecule`
(networkx.Graph with ordered nodes + bond attribute dicts + interaction table + citation set +
log entries + force field + the cached highest key `max_node`), of `Block` construction /
`Block.to_molecule`, and of `System` / `MergeAllMolecules` / `MergeChains`.

A molecule value is immutable here; the pool (`List Mol`) is what the harness
holds as real `Molecule` objects, so aliasing between a copy/subgraph and its
source shows up as a disagreement in the correspondence run.
-/
namespace C12

structure Attrs where
  name  : Option String := none
  resid : Option Int := none
  cg    : Option Int := none
  chain : Option String := none
  deriving Repr, DecidableEq, Inhabited

/-- `dict.update`: keys given in `new` overwrite. -/
def Attrs.update (old new : Attrs) : Attrs :=
  { name := new.name.orElse (fun _ => old.name),
    resid := new.resid.orElse (fun _ => old.resid),
    cg := new.cg.orElse (fun _ => old.cg),
    chain := new.chain.orElse (fun _ => old.chain) }

/-- `new_atom['resid'] = new_atom.get('resid', 1) + offset`, same for the charge group -/
def Attrs.shift (a : Attrs) (roff coff : Int) : Attrs :=
  { a with resid := some (a.resid.getD 1 + roff), cg := some (a.cg.getD 1 + coff) }

/-- attribute dict of a bond (`add_edge(u, v, **attr)`): two representative keys -/
structure EAttrs where
  order : Option Int := none
  kind  : Option String := none
  deriving Repr, DecidableEq, Inhabited

/-- `dict.update` on a bond's attribute dict -/
def EAttrs.update (old new : EAttrs) : EAttrs :=
  { order := new.order.orElse (fun _ => old.order), kind := new.kind.orElse (fun _ => old.kind) }

/-- `version` = `meta.get('version')` (`none`: the key is absent; where the code says
`meta.get('version', 0)` the model says `version.getD 0`); `edge` = `meta.get('edge', True)` -/
structure Inter where
  atoms   : List Int
  params  : String
  version : Option Int := none
  edge    : Bool := true
  deriving Repr, DecidableEq, Inhabited

/-- one format map of a log entry: name -> node key (the keys of a `correspondence` dict that
`merge_molecule` appends are node keys; they are written with `toString`, as the consumer in
`bin/martinize2` does with `str(k)`) -/
abbrev FmtArg := List (String × Int)

/-- `log_entries`: `{loglevel: {entry: [fmt_arg, ...]}}`, both dicts in insertion order -/
abbrev Logs := List (Int × List (String × List FmtArg))

set_option synthInstance.maxSize 512 in
instance : DecidableEq Logs := inferInstanceAs (DecidableEq (List (Int × List (String × List FmtArg))))

structure Mol where
  nodes   : List (Int × Attrs) := []
  edges   : List (Int × Int) := []
  inters  : List (String × Inter) := []     -- per-type order = relative order in this list
  cites   : List String := []               -- a set
  nrexcl  : Option Int := none
  maxNode : Option Int := none              -- the cache; never compared with the code
  eattr   : List ((Int × Int) × EAttrs) := []  -- attribute dicts of the bonds, keyed by the bond
  ff      : Option String := none           -- `_force_field` (an opaque object compared with `!=`)
  logs    : Logs := []
  deriving Repr, DecidableEq, Inhabited

def Mol.keys (m : Mol) : List Int := m.nodes.map Prod.fst
def Mol.hasNode (m : Mol) (k : Int) : Bool := m.keys.contains k
def Mol.hasEdge (m : Mol) (u v : Int) : Bool := m.edges.contains (u, v) || m.edges.contains (v, u)

def lookupAttrs (nodes : List (Int × Attrs)) (k : Int) : Option Attrs :=
  (nodes.find? (fun p => p.1 == k)).map Prod.snd

/-- networkx `add_node`: update in place when the key exists, else append. -/
def upsert (nodes : List (Int × Attrs)) (k : Int) (a : Attrs) : List (Int × Attrs) :=
  match nodes with
  | [] => [(k, a)]
  | (k', a') :: rest => if k' = k then (k', a'.update a) :: rest else (k', a') :: upsert rest k a

def Mol.addNode (m : Mol) (k : Int) (a : Attrs) : Mol :=
  { m with nodes := upsert m.nodes k a, maxNode := none }

def Mol.addNodes (m : Mol) (l : List (Int × Attrs)) : Mol :=
  { m with nodes := l.foldl (fun ns p => upsert ns p.1 p.2) m.nodes, maxNode := none }

/-- `add_nodes_from(nodes, **common)` where an entry is a bare key (`none`) or `(key, dict)`:
networkx updates the node with `common` overridden by the entry's dict -/
def withCommon (common : Attrs) (l : List (Int × Option Attrs)) : List (Int × Attrs) :=
  l.map (fun p => (p.1, match p.2 with
                         | none => common
                         | some dd => common.update dd))

/-! ### the bond attribute table -/

/-- the undirected bond `{u, v}` -/
def sameEdge [BEq κ] (u v : κ) (k : κ × κ) : Bool := (k.1 == u && k.2 == v) || (k.1 == v && k.2 == u)

/-- attribute dict of bond `{u, v}` (a bond without entry has the empty dict) -/
def lookupE [BEq κ] (t : List ((κ × κ) × EAttrs)) (u v : κ) : EAttrs :=
  match t.find? (fun x => sameEdge u v x.1) with
  | some x => x.2
  | none => {}

/-- `datadict.update(attr)` on the dict of bond `{u, v}` -/
def upsertE [BEq κ] (t : List ((κ × κ) × EAttrs)) (u v : κ) (a : EAttrs) : List ((κ × κ) × EAttrs) :=
  match t with
  | [] => [((u, v), a)]
  | x :: rest => if sameEdge u v x.1 then (x.1, x.2.update a) :: rest else x :: upsertE rest u v a

def interMentions (ks : List Int) (i : Inter) : Bool := i.atoms.any (fun a => ks.contains a)

/-- remove the nodes of `ks` that are present, their edges (with their attribute dicts), and every
interaction mentioning a key of `ks`; log entries are NOT touched -/
def Mol.dropNodes (m : Mol) (ks : List Int) : Mol :=
  { m with
    nodes := m.nodes.filter (fun p => !ks.contains p.1),
    edges := m.edges.filter (fun e => !ks.contains e.1 && !ks.contains e.2),
    eattr := m.eattr.filter (fun x => !ks.contains x.1.1 && !ks.contains x.1.2),
    inters := m.inters.filter (fun ti => !interMentions ks ti.2),
    maxNode := none }

def Mol.addEdge (m : Mol) (u v : Int) : Mol :=
  let m1 := if m.hasNode u then m else { m with nodes := m.nodes ++ [(u, {})], maxNode := none }
  let m2 := if m1.hasNode v then m1 else { m1 with nodes := m1.nodes ++ [(v, {})], maxNode := none }
  if m2.hasEdge u v then m2 else { m2 with edges := m2.edges ++ [(u, v)] }

/-- `add_edge(u, v, **a)` -/
def Mol.addEdgeA (m : Mol) (u v : Int) (a : EAttrs) : Mol :=
  { m.addEdge u v with eattr := upsertE (m.addEdge u v).eattr u v a }

/-- `add_edges_from([(u, v, dict), ...])`; `Molecule.add_edges_from` always resets the cache -/
def Mol.addEdgesA (m : Mol) (l : List (Int × Int × EAttrs)) : Mol :=
  { l.foldl (fun acc e => acc.addEdgeA e.1 e.2.1 e.2.2) m with maxNode := none }

/-- `remove_edges_from`: absent bonds are ignored; the attribute dicts go with the bonds -/
def Mol.dropEdges (m : Mol) (l : List (Int × Int)) : Mol :=
  { m with edges := m.edges.filter (fun e => !l.any (fun uv => sameEdge uv.1 uv.2 e)),
           eattr := m.eattr.filter (fun x => !l.any (fun uv => sameEdge uv.1 uv.2 x.1)) }

/-- `zip(atoms[:-1], atoms[1:])` -/
def consecPairs : List κ → List (κ × κ)
  | a :: b :: rest => (a, b) :: consecPairs (b :: rest)
  | _ => []

/-- one `self.add_edges_from(zip(atoms[:-1], atoms[1:]))` (which resets the cache) -/
def Mol.addPath (m : Mol) (atoms : List Int) : Mol :=
  { (consecPairs atoms).foldl (fun a e => a.addEdge e.1 e.2) m with maxNode := none }

/-- `make_edges_from_interaction_type(type_)`: for every interaction of the type with
`meta.get('edge', True)`, `add_edges_from` of the consecutive atom pairs -/
def Mol.makeEdgesType (m : Mol) (ty : String) : Mol :=
  (m.inters.filter (fun ti => ti.1 == ty && ti.2.edge)).foldl (fun acc ti => acc.addPath ti.2.atoms) m

def knownEdgeTypes : List String := ["bonds", "angles", "dihedrals", "cmap", "constraints"]

/-- `make_edges_from_interactions()` -/
def Mol.makeEdgesAll (m : Mol) : Mol := knownEdgeTypes.foldl Mol.makeEdgesType m

/-- `Molecule.clear()` = `nx.Graph.clear()` + cache reset: nodes, bonds and their attribute dicts
go; interactions, citations, nrexcl, force field and log entries STAY (finding F-C12-4) -/
def Mol.clear (m : Mol) : Mol := { m with nodes := [], edges := [], eattr := [], maxNode := none }

inductive Outcome where
  | ok | keyerror | valueerror | nxerror | badindex | runtimeerror
  deriving Repr, DecidableEq, Inhabited

def Outcome.str : Outcome → String
  | .ok => "ok" | .keyerror => "keyerror" | .valueerror => "valueerror"
  | .nxerror => "nxerror" | .badindex => "badindex" | .runtimeerror => "runtimeerror"

def Mol.addInter (m : Mol) (ty : String) (atoms : List Int) (params : String) (version : Option Int)
    (edge : Bool := true) : Mol × Outcome :=
  if atoms.all m.hasNode then
    ({ m with inters := m.inters ++ [(ty, { atoms := atoms, params := params, version := version, edge := edge })] }, .ok)
  else (m, .keyerror)

/-- replace the first interaction of type `ty` with the same atoms and version (absent = 0) -/
def replaceFirst (l : List (String × Inter)) (ty : String) (i : Inter) : Option (List (String × Inter)) :=
  match l with
  | [] => none
  | (t, j) :: rest =>
    if t = ty ∧ j.atoms = i.atoms ∧ j.version.getD 0 = i.version.getD 0 then some ((t, i) :: rest)
    else (replaceFirst rest ty i).map (fun r => (t, j) :: r)

def unionSet (a b : List String) : List String := a ++ b.filter (fun x => !a.contains x)

def Mol.addOrReplace (m : Mol) (ty : String) (atoms : List Int) (params : String) (version : Option Int)
    (cites : List String) (edge : Bool := true) : Mol × Outcome :=
  let i : Inter := { atoms := atoms, params := params, version := version, edge := edge }
  match replaceFirst m.inters ty i with
  | some l => ({ m with inters := l, cites := unionSet m.cites cites }, .ok)
  | none =>
    match m.addInter ty atoms params version edge with
    | (m', .ok) => ({ m' with cites := unionSet m'.cites cites }, .ok)
    | (m', e) => (m', e)        -- KeyError raised before the citations are updated

def removeFirst (l : List (String × Inter)) (ty : String) (atoms : List Int) (version : Int) :
    Option (List (String × Inter)) :=
  match l with
  | [] => none
  | (t, j) :: rest =>
    if t = ty ∧ j.atoms = atoms ∧ j.version.getD 0 = version then some rest
    else (removeFirst rest ty atoms version).map (fun r => (t, j) :: r)

def Mol.removeInter (m : Mol) (ty : String) (atoms : List Int) (version : Int) : Mol × Outcome :=
  match removeFirst m.inters ty atoms version with
  | some l => ({ m with inters := l }, .ok)
  | none => (m, .keyerror)

/-! ### `remove_matching_interaction` / `interaction_match` / `attributes_match` / `LinkPredicate` -/

/-- a value of a template dict: a plain value (Python `None` included), `Choice(values)` or
`NotDefinedOrNot(value)` -/
inductive Pred (α : Type) where
  | eq (v : Option α)
  | choice (vs : List (Option α))
  | notDefOrNot (v : Option α)
  deriving Repr, DecidableEq, Inhabited

/-- one key of `attributes_match`; `x` = `attributes.get(key)` (`none`: the key is absent — the
harness never stores an explicit `None` in a node or meta dict).
plain value: `attributes.get(key) == value`; `Choice`: `node.get(key) in self.value`;
`NotDefinedOrNot`: `key not in node or node[key] != self.value` -/
def Pred.holds [BEq α] (p : Pred α) (x : Option α) : Bool :=
  match p with
  | .eq v => x == v
  | .choice vs => vs.contains x
  | .notDefOrNot v => x.isNone || x != v

/-- `none` = the template dict does not have the key -/
def predOk [BEq α] (p : Option (Pred α)) (x : Option α) : Bool :=
  match p with
  | none => true
  | some q => q.holds x

structure TAttrs where
  name  : Option (Pred String) := none
  resid : Option (Pred Int) := none
  cg    : Option (Pred Int) := none
  chain : Option (Pred String) := none
  deriving Repr, DecidableEq, Inhabited

/-- `attributes_match(node, template)`: every key the template gives must hold -/
def attrsMatch (node : Attrs) (tmpl : TAttrs) : Bool :=
  predOk tmpl.name node.name && predOk tmpl.resid node.resid &&
  predOk tmpl.cg node.cg && predOk tmpl.chain node.chain

/-- template of `remove_matching_interaction`: atoms, optional parameters (`none` = empty list =
any), optional `version` key of the meta template (a plain value — 0 included — or a predicate),
optional per-atom attribute templates (`none` = plain `Interaction`, `some` = `DeleteInteraction`) -/
structure Template where
  atoms  : List Int
  params : Option String := none
  version : Option (Pred Int) := none
  atomAttrs : Option (List TAttrs) := none
  deriving Repr, DecidableEq, Inhabited

/-- `interaction_match(molecule, interaction, template)`.  An atom of the interaction that is
not a node makes the code raise KeyError; unreachable under the invariant, modelled as no match. -/
def interMatch (nodes : List (Int × Attrs)) (t : Template) (i : Inter) : Bool :=
  i.atoms == t.atoms && (t.params.isNone || t.params == some i.params) &&
  (match t.atomAttrs with
   | none => true
   | some l => (i.atoms.zip l).all (fun ax =>
       match lookupAttrs nodes ax.1 with
       | some na => attrsMatch na ax.2
       | none => false)) &&
  predOk t.version i.version

/-- remove the first interaction of type `ty` satisfying `p` -/
def removeFirstP (l : List (String × Inter)) (ty : String) (p : Inter → Bool) :
    Option (List (String × Inter)) :=
  match l with
  | [] => none
  | (t, j) :: rest =>
    if t = ty ∧ p j = true then some rest
    else (removeFirstP rest ty p).map (fun r => (t, j) :: r)

def Mol.removeMatching (m : Mol) (ty : String) (t : Template) : Mol × Outcome :=
  match removeFirstP m.inters ty (interMatch m.nodes t) with
  | some l => ({ m with inters := l }, .ok)
  | none => (m, .valueerror)

/-! ### `edge_tuning.prune_edges_between_selections` / `prune_edges_with_selectors` -/

def edgeBetween (a b : List Int) (e : Int × Int) : Bool :=
  (a.contains e.1 && b.contains e.2) || (a.contains e.2 && b.contains e.1)

def Mol.pruneEdges (m : Mol) (a b : List Int) : Mol :=
  { m with edges := m.edges.filter (fun e => !edgeBetween a b e),
           eattr := m.eattr.filter (fun x => !edgeBetween a b x.1) }

/-- `selectors.filter_minimal(molecule, lambda atom: atom.get('atomname') == n)` -/
def Mol.selectByName (m : Mol) (n : String) : List Int :=
  (m.nodes.filter (fun p => p.2.name == some n)).map Prod.fst

def Mol.pruneByName (m : Mol) (na : String) (nb : Option String) : Mol :=
  m.pruneEdges (m.selectByName na) (m.selectByName (nb.getD na))

def dedupKeys : List Int → List Int
  | [] => []
  | k :: rest => k :: (dedupKeys rest).filter (fun x => x != k)

/-- `Molecule.subgraph(ks)`; `none` = KeyError (a key is not a node).  The new molecule gets the
bonds between requested atoms with (copies of) their attribute dicts, the citations, nrexcl and
force field, and EMPTY log entries. -/
def Mol.subgraph (m : Mol) (ks : List Int) : Option Mol :=
  if ks.all m.hasNode then
    some { nodes := (dedupKeys ks).filterMap (fun k => (lookupAttrs m.nodes k).map (fun a => (k, a))),
           edges := m.edges.filter (fun e => ks.contains e.1 && ks.contains e.2),
           inters := m.inters.filter (fun ti => ti.2.atoms.all (fun a => ks.contains a)),
           cites := m.cites, nrexcl := m.nrexcl, maxNode := none,
           eattr := m.eattr.filter (fun x => ks.contains x.1.1 && ks.contains x.1.2),
           ff := m.ff, logs := [] }
  else none

/-- `Molecule.copy()`: the subgraph on all nodes plus a deep copy of the log entries -/
def Mol.copy (m : Mol) : Mol := { (m.subgraph m.keys).getD m with logs := m.logs }

def maxKey : List Int → Option Int
  | [] => none
  | k :: rest => some (rest.foldl max k)

/-- position of `k` in the node order of the newcomer, as new key `offset + 1 + pos` -/
def corrOf (keys : List Int) (offset : Int) (k : Int) : Option Int :=
  match keys.findIdx? (fun x => x == k) with
  | some i => some (offset + 1 + (i : Int))
  | none => none

def mapAtoms (keys : List Int) (offset : Int) (atoms : List Int) : Option (List Int) :=
  atoms.mapM (corrOf keys offset)

def renameInters (keys : List Int) (offset : Int) : List (String × Inter) → Option (List (String × Inter))
  | [] => some []
  | (t, i) :: rest => do
      let a ← mapAtoms keys offset i.atoms
      let r ← renameInters keys offset rest
      pure ((t, { i with atoms := a }) :: r)

def renameEdges (keys : List Int) (offset : Int) : List (Int × Int) → Option (List (Int × Int))
  | [] => some []
  | (u, v) :: rest => do
      let u' ← corrOf keys offset u
      let v' ← corrOf keys offset v
      let r ← renameEdges keys offset rest
      pure (if u' = v' then r else (u', v') :: r)

/-- the attribute dicts of the newcomer's bonds, re-keyed (`add_edge(c[u], c[v], **attrs)`; self
loops are skipped like the bonds themselves) -/
def renameEAttr (keys : List Int) (offset : Int) (t : List ((Int × Int) × EAttrs)) : List ((Int × Int) × EAttrs) :=
  t.filterMap (fun x =>
    match corrOf keys offset x.1.1, corrOf keys offset x.1.2 with
    | some u, some v => if u = v then none else some ((u, v), x.2)
    | _, _ => none)

def enumFrom (start : Int) : List (Int × Attrs) → List (Int × Attrs)
  | [] => []
  | (_, a) :: rest => (start, a) :: enumFrom (start + 1) rest

/-! ### log entries -/

def extendEntry (es : List (String × List FmtArg)) (entry : String) (args : List FmtArg) :
    List (String × List FmtArg) :=
  match es with
  | [] => [(entry, args)]
  | (e, a) :: rest => if e = entry then (e, a ++ args) :: rest else (e, a) :: extendEntry rest entry args

/-- `log_entries[lvl][entry] += args` on the nested defaultdict -/
def extendLog (logs : Logs) (lvl : Int) (entry : String) (args : List FmtArg) : Logs :=
  match logs with
  | [] => [(lvl, [(entry, args)])]
  | (l, es) :: rest =>
    if l = lvl then (l, extendEntry es entry args) :: rest else (l, es) :: extendLog rest lvl entry args

/-- iteration order of `for loglevel, entries in log_entries.items(): for entry, fmt_args in entries.items()` -/
def flattenLogs (logs : Logs) : List (Int × String × List FmtArg) :=
  logs.flatMap (fun le => le.2.map (fun ea => (le.1, ea.1, ea.2)))

/-- `{name: correspondence[old] for (name, old) in fmt_arg.items()}`; `none` = KeyError -/
def renameArg (keys : List Int) (offset : Int) (fa : FmtArg) : Option FmtArg :=
  fa.mapM (fun p => (corrOf keys offset p.2).map (fun k => (p.1, k)))

def corrArgFrom (start : Int) : List Int → FmtArg
  | [] => []
  | k :: rest => (toString k, start) :: corrArgFrom (start + 1) rest

/-- the `correspondence` dict itself, which `merge_molecule` appends as one more format map -/
def corrArg (keys : List Int) (offset : Int) : FmtArg := corrArgFrom (offset + 1) keys

/-- the last loop of `merge_molecule`: every entry of the newcomer, renumbered, plus the
correspondence, is appended to the same entry of `self`.  `false` = a format map mentions a key
that is not a node of the newcomer: KeyError, the entries before it are already in -/
def mergeLogs (acc : Logs) (keys : List Int) (offset : Int) : List (Int × String × List FmtArg) → Logs × Bool
  | [] => (acc, true)
  | (l, e, args) :: rest =>
    match args.mapM (renameArg keys offset) with
    | none => (acc, false)
    | some r => mergeLogs (extendLog acc l e (r ++ [corrArg keys offset])) keys offset rest

/-- `log_entries[lvl][entry] += args`, the way `do_links` / `do_mapping` add entries -/
def Mol.addLog (m : Mol) (lvl : Int) (entry : String) (args : List FmtArg) : Mol :=
  { m with logs := extendLog m.logs lvl entry args }

/-! ### merge_molecule -/

/-- `if self.nrexcl is None and not self: self.nrexcl = molecule.nrexcl` -/
def mergeNrexcl (self other : Mol) : Option Int :=
  if self.nrexcl.isNone && self.nodes.isEmpty then other.nrexcl else self.nrexcl

/-- `if self.max_node is None: self.max_node = max(self)`; then `self.max_node` -/
def Mol.lastKey (self : Mol) : Option Int :=
  match self.maxNode with
  | some k => some k
  | none => maxKey self.keys

/-- (key offset, resid offset, charge-group offset); `none` = KeyError on a stale cache
(unreachable, see `merge_outcome`) -/
def Mol.mergeOffs (self : Mol) : Option (Int × Int × Int) :=
  if self.nodes.isEmpty then some (0, 0, 0)
  else
    match self.lastKey with
    | none => none
    | some last =>
      match lookupAttrs self.nodes last with
      | none => none
      | some a => some (last, a.resid.getD 1, a.cg.getD 1)

/-- the body of `merge_molecule` once nrexcl and the offsets are known.  Order of the code: nodes,
cache, interactions, bonds (with their attribute dicts), citations, log entries; a KeyError in the
log-entry loop leaves everything before it in place (finding F-C12-6) -/
def Mol.mergeCore (self other : Mol) (nrexcl : Option Int) (offset roff coff : Int) : Mol × Outcome :=
  let okeys := other.keys
  let newNodes := enumFrom (offset + 1)
    (other.nodes.map (fun p => (p.1, p.2.shift roff coff)))
  match renameInters okeys offset other.inters, renameEdges okeys offset other.edges with
  | some ri, some re =>
    let m1 : Mol := { self with nrexcl := nrexcl,
                                nodes := newNodes.foldl (fun ns p => upsert ns p.1 p.2) self.nodes }
    -- add_interaction validates the atoms (all are new nodes)
    let m2 : Mol := { m1 with inters := m1.inters ++ ri }
    let m3 : Mol := re.foldl (fun m e => m.addEdge e.1 e.2) m2
    let lg := mergeLogs self.logs okeys offset (flattenLogs other.logs)
    ({ m3 with cites := unionSet self.cites other.cites,
               maxNode := some (offset + (other.nodes.length : Int)),
               eattr := self.eattr ++ renameEAttr okeys offset other.eattr,
               logs := lg.1 }, if lg.2 then .ok else .keyerror)
  | _, _ => (self, .keyerror)              -- dangling atom in `other` (unreachable under the invariant)

/-- `self.merge_molecule(other)` for two different objects -/
def Mol.merge (self other : Mol) : Mol × Outcome :=
  if self.ff ≠ other.ff then (self, .valueerror) else
  let nrexcl := mergeNrexcl self other
  if nrexcl ≠ other.nrexcl then (self, .valueerror) else
  match self.mergeOffs with
  | none => (self, .keyerror)
  | some (offset, roff, coff) => self.mergeCore other nrexcl offset roff coff

/-- `m.merge_molecule(m)` (finding F-C12-5).  The loops of `merge_molecule` iterate over the very
containers they add to:
* no atom: the normal path (only the log entries grow);
* two or more atoms: the first new atom is added (fresh key, shifted copy of the first atom) and
  the next step of `for node in molecule.nodes()` raises `RuntimeError: OrderedDict mutated during
  iteration`; nothing else of the merge has happened;
* exactly one atom `k`: the node loop ends normally (one new atom `k'`).  Without interactions the
  rest is the normal path, i.e. a correct duplication.  With interactions, the loop over the first
  non-empty interaction list appends a renamed copy of each of its interactions to that same list,
  then reaches the first copy, whose atoms are not keys of the correspondence: KeyError.  (The
  model takes the type of the first interaction for "the first non-empty list"; the order of the
  type dict is not part of the state, the harness only merges a one-atom molecule into itself when
  it has interactions of a single type.) -/
def Mol.selfMerge (m : Mol) : Mol × Outcome :=
  match m.nodes with
  | [] => m.merge m
  | [first] =>
    match m.inters with
    | [] => m.merge m
    | (ty, _) :: _ =>
      match m.mergeOffs with
      | some (offset, roff, coff) =>
        ({ m with nodes := upsert m.nodes (offset + 1) (first.2.shift roff coff),
                  inters := m.inters ++ (m.inters.filter (fun ti => ti.1 == ty)).map
                    (fun ti => (ti.1, { ti.2 with atoms := ti.2.atoms.map (fun _ => offset + 1) })),
                  maxNode := some (offset + 1) }, .keyerror)
      | none => (m, .keyerror)
  | first :: _ :: _ =>
    match m.mergeOffs with
    | some (offset, roff, coff) =>
      ({ m with nodes := upsert m.nodes (offset + 1) (first.2.shift roff coff), maxNode := none }, .runtimeerror)
    | none => (m, .keyerror)

/-! ### Blocks (string node names) -/

structure BInter where
  ty      : String
  atoms   : List String
  params  : String
  version : Option Int := none
  edge    : Bool := true
  deriving Repr, DecidableEq, Inhabited

structure Block where
  nodes  : List (String × Attrs) := []
  edges  : List (String × String) := []
  inters : List BInter := []
  cites  : List String := []
  nrexcl : Option Int := none
  name   : String := ""
  eattr  : List ((String × String) × EAttrs) := []
  ff     : Option String := none
  logs   : List (Int × String) := []     -- `log_entries[lvl][entry] = []` as the force-field parser leaves them
  deriving Repr, DecidableEq, Inhabited

def nameIdx (names : List String) (off : Int) (n : String) : Option Int :=
  match names.findIdx? (fun x => x == n) with
  | some i => some (off + (i : Int))
  | none => none

def blockInter (names : List String) (off : Int) (x : BInter) : Option (String × Inter) :=
  match x.atoms.mapM (nameIdx names off) with
  | some a => some (x.ty, { atoms := a, params := x.params, version := x.version, edge := x.edge })
  | none => none

def blockEdge (names : List String) (off : Int) (e : String × String) : Option (Int × Int) :=
  match nameIdx names off e.1, nameIdx names off e.2 with
  | some u, some v => some (u, v)
  | _, _ => none

def blockEAttr (names : List String) (off : Int) (t : List ((String × String) × EAttrs)) :
    List ((Int × Int) × EAttrs) :=
  t.filterMap (fun x =>
    match nameIdx names off x.1.1, nameIdx names off x.1.2 with
    | some u, some v => some ((u, v), x.2)
    | _, _ => none)

/-- `Block.to_molecule(atom_offset, offset_resid, offset_charge_group)`; `none` = KeyError.
Citations and log entries are copied, the force field is the block's. -/
def Block.toMolecule (b : Block) (atomOff residOff cgOff : Int) : Option Mol :=
  let names := b.nodes.map Prod.fst
  let nodes := enumFrom atomOff
    (b.nodes.map (fun p => ((0 : Int), p.2.shift residOff cgOff)))
  match b.inters.mapM (blockInter names atomOff), b.edges.mapM (blockEdge names atomOff) with
  | some inters, some edges =>
    let m0 : Mol := { nodes := nodes, inters := inters, cites := b.cites, nrexcl := b.nrexcl,
                      eattr := blockEAttr names atomOff b.eattr, ff := b.ff,
                      logs := b.logs.foldl (fun acc le => extendLog acc le.1 le.2 []) [] }
    some (edges.foldl (fun m e => m.addEdge e.1 e.2) m0)
  | _, _ => none

/-! #### building a block with its own editing methods -/

inductive BStep where
  | addAtom (a : Attrs)                          -- `Block.add_atom(dict)`
  | addNode (n : String) (a : Attrs)             -- `add_node(n, **a)`
  | addEdge (u v : String) (a : EAttrs)          -- `add_edge(u, v, **a)` (creates missing nodes)
  | addInter (i : BInter)                        -- `add_interaction`: KeyError on an unknown atom
  | rawInter (i : BInter)                        -- `interactions[ty].append(...)` as the parsers do
  | makeEdges (ty : String)                      -- `make_edges_from_interaction_type(ty)`
  | log (lvl : Int) (entry : String)             -- `log_entries[lvl][entry] = []`
  deriving Repr, Inhabited

def upsertB (nodes : List (String × Attrs)) (n : String) (a : Attrs) : List (String × Attrs) :=
  match nodes with
  | [] => [(n, a)]
  | (n', a') :: rest => if n' = n then (n', a'.update a) :: rest else (n', a') :: upsertB rest n a

def Block.names (b : Block) : List String := b.nodes.map Prod.fst
def Block.hasEdge (b : Block) (u v : String) : Bool := b.edges.contains (u, v) || b.edges.contains (v, u)

def Block.ensure (b : Block) (u : String) : Block :=
  if b.names.contains u then b else { b with nodes := b.nodes ++ [(u, {})] }

def Block.addEdge (b : Block) (u v : String) (a : EAttrs) : Block :=
  let b2 := (b.ensure u).ensure v
  let b3 := if b2.hasEdge u v then b2 else { b2 with edges := b2.edges ++ [(u, v)] }
  { b3 with eattr := upsertE b3.eattr u v a }

def Block.makeEdges (b : Block) (ty : String) : Block :=
  (b.inters.filter (fun i => i.ty == ty && i.edge)).foldl
    (fun acc i => (consecPairs i.atoms).foldl (fun a e => a.addEdge e.1 e.2 {}) acc) b

def Block.bstep (b : Block) : BStep → Except Outcome Block
  | .addAtom a =>
    match a.name with
    | none => .error .valueerror                 -- 'Atom has no atomname'
    | some n => .ok { b with nodes := upsertB b.nodes n a }
  | .addNode n a => .ok { b with nodes := upsertB b.nodes n a }
  | .addEdge u v a => .ok (b.addEdge u v a)
  | .addInter i =>
    if i.atoms.all b.names.contains then .ok { b with inters := b.inters ++ [i] } else .error .keyerror
  | .rawInter i => .ok { b with inters := b.inters ++ [i] }
  | .makeEdges ty => .ok (b.makeEdges ty)
  | .log lvl entry => .ok { b with logs := if b.logs.contains (lvl, entry) then b.logs else b.logs ++ [(lvl, entry)] }

def Block.build (b0 : Block) : List BStep → Except Outcome Block
  | [] => .ok b0
  | s :: rest =>
    match b0.bstep s with
    | .ok b => Block.build b rest
    | .error e => .error e

/-! ### The pool state machine -/

inductive Op where
  | addNode (m : Nat) (k : Int) (a : Attrs)
  | addNodes (m : Nat) (l : List (Int × Attrs))
  | addNodesC (m : Nat) (l : List (Int × Option Attrs)) (common : Attrs)
  | removeNode (m : Nat) (k : Int)
  | removeNodes (m : Nat) (ks : List Int)
  | addEdge (m : Nat) (u v : Int)
  | addEdgeA (m : Nat) (u v : Int) (a : EAttrs)
  | addEdgesA (m : Nat) (l : List (Int × Int × EAttrs))
  | removeEdge (m : Nat) (u v : Int)
  | removeEdges (m : Nat) (l : List (Int × Int))
  | makeEdgesType (m : Nat) (ty : String)
  | makeEdgesAll (m : Nat)
  | clear (m : Nat)
  | addInter (m : Nat) (ty : String) (atoms : List Int) (params : String) (version : Option Int) (edge : Bool := true)
  | addOrReplace (m : Nat) (ty : String) (atoms : List Int) (params : String) (version : Option Int)
      (cites : List String) (edge : Bool := true)
  | removeInter (m : Nat) (ty : String) (atoms : List Int) (version : Int)
  | removeMatching (m : Nat) (ty : String) (t : Template)
  | pruneEdges (m : Nat) (a b : List Int)
  | pruneByName (m : Nat) (na : String) (nb : Option String)
  | addLog (m : Nat) (lvl : Int) (entry : String) (args : List FmtArg)
  | copy (m : Nat)
  | subgraph (m : Nat) (ks : List Int)
  | merge (m j : Nat)
  | newMol (nrexcl : Option Int) (ff : Option String := none)
  | fromBlock (b : Block) (atomOff residOff cgOff : Int)
  | buildBlock (b0 : Block) (steps : List BStep) (atomOff residOff cgOff : Int)
  deriving Repr, Inhabited

abbrev Pool := List Mol

def setAt (p : Pool) (i : Nat) (m : Mol) : Pool := p.set i m

def onMol (p : Pool) (i : Nat) (f : Mol → Mol × Outcome) : Pool × Outcome :=
  match p[i]? with
  | none => (p, .badindex)
  | some m => let r := f m; (setAt p i r.1, r.2)

def fromBlockStep (p : Pool) (b : Block) (ao ro co : Int) : Pool × Outcome :=
  match b.toMolecule ao ro co with
  | some m => (p ++ [m], .ok)
  | none => (p, .keyerror)

def step (p : Pool) : Op → Pool × Outcome
  | .addNode i k a => onMol p i (fun m => (m.addNode k a, .ok))
  | .addNodes i l => onMol p i (fun m => (m.addNodes l, .ok))
  | .addNodesC i l common => onMol p i (fun m => (m.addNodes (withCommon common l), .ok))
  | .removeNode i k => onMol p i (fun m => if m.hasNode k then (m.dropNodes [k], .ok) else (m, .nxerror))
  | .removeNodes i ks => onMol p i (fun m => (m.dropNodes ks, .ok))
  | .addEdge i u v => onMol p i (fun m => (m.addEdge u v, .ok))
  | .addEdgeA i u v a => onMol p i (fun m => (m.addEdgeA u v a, .ok))
  | .addEdgesA i l => onMol p i (fun m => (m.addEdgesA l, .ok))
  | .removeEdge i u v => onMol p i (fun m => if m.hasEdge u v then (m.dropEdges [(u, v)], .ok) else (m, .nxerror))
  | .removeEdges i l => onMol p i (fun m => (m.dropEdges l, .ok))
  | .makeEdgesType i ty => onMol p i (fun m => (m.makeEdgesType ty, .ok))
  | .makeEdgesAll i => onMol p i (fun m => (m.makeEdgesAll, .ok))
  | .clear i => onMol p i (fun m => (m.clear, .ok))
  | .addInter i ty atoms params version edge => onMol p i (fun m => m.addInter ty atoms params version edge)
  | .addOrReplace i ty atoms params version cites edge =>
      onMol p i (fun m => m.addOrReplace ty atoms params version cites edge)
  | .removeInter i ty atoms version => onMol p i (fun m => m.removeInter ty atoms version)
  | .removeMatching i ty t => onMol p i (fun m => m.removeMatching ty t)
  | .pruneEdges i a b => onMol p i (fun m => (m.pruneEdges a b, .ok))
  | .pruneByName i na nb => onMol p i (fun m => (m.pruneByName na nb, .ok))
  | .addLog i lvl entry args => onMol p i (fun m => (m.addLog lvl entry args, .ok))
  | .copy i => match p[i]? with
      | none => (p, .badindex)
      | some m => (p ++ [m.copy], .ok)
  | .subgraph i ks => match p[i]? with
      | none => (p, .badindex)
      | some m => match m.subgraph ks with
        | some s => (p ++ [s], .ok)
        | none => (p, .keyerror)
  | .merge i j =>
      if i = j then onMol p i Mol.selfMerge else
      match p[i]?, p[j]? with
      | some a, some b => let r := a.merge b; (setAt p i r.1, r.2)
      | _, _ => (p, .badindex)
  | .newMol n ff => (p ++ [{ nrexcl := n, ff := ff }], .ok)
  | .fromBlock b ao ro co => fromBlockStep p b ao ro co
  | .buildBlock b0 steps ao ro co =>
      match b0.build steps with
      | .ok b => fromBlockStep p b ao ro co
      | .error e => (p, e)

def run (p : Pool) (ops : List Op) : Pool := ops.foldl (fun s o => (step s o).1) p

/-! ### Systems (`vermouth.system.System`, `MergeAllMolecules`, `MergeChains`)

A system holds REFERENCES to molecule objects: here a list of pool indices, so that a molecule
that sits in a system (or in two) and is edited through the pool shows up in both views. -/

/-- fold `merge_molecule` over the operands; stops at the first failure and returns the
accumulator as it is then (the code has mutated it in place up to there) -/
def mergeFold (acc : Mol) : List Mol → Mol × Outcome
  | [] => (acc, .ok)
  | o :: rest =>
    match acc.merge o with
    | (a, .ok) => mergeFold a rest
    | (a, e) => (a, e)

/-- one step of the fold when the operand may be the accumulator object itself (`none`) -/
def mergeS (acc : Mol) : Option Mol → Mol × Outcome
  | some x => acc.merge x
  | none => acc.selfMerge

/-- the same fold when the operand list may mention the accumulator object itself (`none`) -/
def mergeFoldS (acc : Mol) : List (Option Mol) → Mol × Outcome
  | [] => (acc, .ok)
  | o :: rest =>
    match mergeS acc o with
    | (a, .ok) => mergeFoldS a rest
    | (a, e) => (a, e)

structure State where
  pool : Pool := []
  systems : List (List Nat) := []
  sysff : List (Option String) := []      -- `System.force_field`, parallel to `systems`
  deriving Repr, Inhabited, DecidableEq

inductive SOp where
  | mol (op : Op)
  | newSys (ff : Option String := none)
  | addMol (s i : Nat)
  | copySys (s : Nat)
  | mergeAll (s : Nat)
  | mergeChains (s : Nat) (chains : List (Option String)) (all : Bool)
  deriving Repr, Inhabited

def getMols (p : Pool) (idxs : List Nat) : Option (List Mol) := idxs.mapM (fun i => p[i]?)

/-- operands of MergeAllMolecules when the first molecule (index `i0`) is listed again -/
def getMolsS (p : Pool) (i0 : Nat) (idxs : List Nat) : Option (List (Option Mol)) :=
  idxs.mapM (fun i => if i = i0 then some none else (p[i]?).map some)

/-- `molecule_chains.issubset(_chains)`; with `all_chains` the set holds every chain of the system -/
def chainSelected (chains : List (Option String)) (all : Bool) (m : Mol) : Bool :=
  all || m.nodes.all (fun p => chains.contains p.2.chain)

/-- new molecule list of `merge_chains`: the merged molecule (pool index `n`) takes the place of
the first selected molecule, the other selected ones disappear, the rest keep their order -/
def replaceSelected (n : Nat) : List (Nat × Bool) → Bool → List Nat
  | [], _ => []
  | (i, sel) :: rest, done =>
    if sel then (if done then replaceSelected n rest true else n :: replaceSelected n rest true)
    else i :: replaceSelected n rest done

/-- `Molecule()` as created inside `merge_chains` (`merged._force_field = system.force_field`) -/
def freshMerged (nrexcl : Option Int) (ff : Option String := none) : Mol :=
  { nrexcl := nrexcl, cites := ["vermouth"], ff := ff }

/-- `molecule._force_field = value` for the listed pool members (the `force_field` setter) -/
def setFFs (p : Pool) (idxs : List Nat) (f : Option String) : Pool :=
  idxs.foldl (fun q k => match q[k]? with
                         | some x => q.set k { x with ff := f }
                         | none => q) p

def State.ffOf (st : State) (s : Nat) : Option String := (st.sysff[s]?).join

/-- `if molecule.force_field is None: molecule._force_field = self.force_field` -/
def takeFF (sff mff : Option String) : Option String := if mff.isNone then sff else mff

def sstep (st : State) : SOp → State × Outcome
  | .mol op => let r := step st.pool op; ({ st with pool := r.1 }, r.2)
  | .newSys ff => ({ st with systems := st.systems ++ [[]], sysff := st.sysff ++ [ff] }, .ok)
  | .addMol s i =>
      match st.systems[s]?, st.pool[i]? with
      | some l, some m =>
        let sff := st.ffOf s
        let mff := takeFF sff m.ff
        -- `if molecule.force_field != self.force_field: raise KeyError` (only when both are set)
        if sff.isSome && mff != sff then (st, .keyerror) else
        -- `if self.force_field is None: self.force_field = molecule.force_field` (setter: every
        -- molecule already in the system gets it)
        let pool1 := st.pool.set i { m with ff := mff }
        ({ pool := if sff.isNone then setFFs pool1 l mff else pool1,
           systems := st.systems.set s (l ++ [i]),
           sysff := if sff.isNone then st.sysff.set s mff else st.sysff }, .ok)
      | _, _ => (st, .badindex)
  | .copySys s =>
      match st.systems[s]? with
      | none => (st, .badindex)
      | some l =>
        match getMols st.pool l with
        | none => (st, .badindex)
        | some ms =>
          -- `new_system.force_field = self.force_field` sets it on every copy
          ({ pool := st.pool ++ ms.map (fun m => { m.copy with ff := st.ffOf s }),
             systems := st.systems ++ [List.range' st.pool.length ms.length],
             sysff := st.sysff ++ [st.ffOf s] }, .ok)
  | .mergeAll s =>
      match st.systems[s]? with
      | none => (st, .badindex)
      | some [] => (st, .ok)
      | some (i0 :: rest) =>
        if rest.contains i0 then
          -- the first molecule is listed again: at that point it is merged into itself
          match st.pool[i0]?, getMolsS st.pool i0 rest with
          | some m0, some ms =>
            let r := mergeFoldS m0 ms
            ({ st with pool := st.pool.set i0 r.1,
                       systems := if r.2 = .ok then st.systems.set s [i0] else st.systems }, r.2)
          | _, _ => (st, .badindex)
        else
        match st.pool[i0]?, getMols st.pool rest with
        | some m0, some ms =>
          let r := mergeFold m0 ms
          ({ st with pool := st.pool.set i0 r.1,
                     systems := if r.2 = .ok then st.systems.set s [i0] else st.systems }, r.2)
        | _, _ => (st, .badindex)
  | .mergeChains s chains all =>
      match st.systems[s]? with
      | none => (st, .badindex)
      | some l =>
        if (all && !chains.isEmpty) || (!all && chains.isEmpty) then (st, .valueerror) else
        match getMols st.pool l with
        | none => (st, .badindex)
        | some ms =>
          let sels := ms.map (chainSelected chains all)
          match (ms.zip sels).filter (fun x => x.2) with
          | [] => (st, .ok)
          | (f, _) :: more =>
            let r := mergeFold (freshMerged f.nrexcl (st.ffOf s)) (f :: more.map Prod.fst)
            if r.2 = .ok then
              ({ st with pool := st.pool ++ [r.1],
                         systems := st.systems.set s (replaceSelected st.pool.length (l.zip sels) false) }, .ok)
            else (st, r.2)

def srun (st : State) (ops : List SOp) : State := ops.foldl (fun s o => (sstep s o).1) st

end C12
