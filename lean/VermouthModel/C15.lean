import VermouthModel.Proto
/-
C15 — model of `vermouth.processors.apply_rubber_band.apply_rubber_band`
(and of the helpers it calls: `compute_force_constants`,
`build_connectivity_matrix` on top of `graph_utils.make_residue_graph`,
`build_pair_matrix`, the domain criteria `always_true`, `same_chain`,
`make_same_region_criterion`, and the selector
`selectors.proto_select_attribute_in(attribute='atomname')`).

Numbers.  Coordinates are integers on a lattice of 1/256 nm, distances are
kept SQUARED (`Nat`), the upper cut-off is given squared.  Force constants are
exact rationals.  The decayed constant `base * exp(-a (d - lo)^p)` is an INPUT
of the model: a table `kTab` from squared distance to constant (default: the
base constant, which is what the code computes for `decay_factor = 0`).  The
cap at the base constant, the minimum-force cut, the diagonal and the upper
cut-off are modelled in the order in which the code applies them.

Indexing.  `selection` is the list of node *indices* (enumeration order of
`molecule.nodes`) of the selected atoms; the N×N matrices `connectivity` and
`share_domain` are built over all node indices and then cut down with
`M[:, selection][selection]` (`subMatrix`), after which rows/columns are
*sub-selection* indices `0..m-1`; keys are recovered with
`idx_to_node[selection[i]]`.
-/
namespace C15

structure ResKey where
  chain : Option String
  resid : Option Int
  resname : Option String
  icode : Option String
  deriving DecidableEq, Repr, Inhabited

inductive Pos where
  | missing
  | nan
  | at (x y z : Int)
  deriving DecidableEq, Repr, Inhabited

structure Atom where
  key : Int
  name : Option String
  res : ResKey
  oldResid : Option Int
  pos : Pos
  deriving DecidableEq, Repr, Inhabited

inductive Domain where
  | always
  | chain
  | regions (rs : List (Int × Int))
  deriving DecidableEq, Repr, Inhabited

/-- the parameters of the decay `exp(-a (d - lower)^p)` when the power is a non-negative integer -/
structure Decay where
  a : Rat          -- decay_factor
  lower : Rat      -- lower_bound, nm
  p : Nat          -- decay_power
  deriving DecidableEq, Repr, Inhabited

structure Params where
  names : List String
  sep : Nat
  upper2 : Nat
  base : Rat
  minForce : Rat
  kTab : List (Nat × Rat)
  dom : Domain
  decay : Option Decay := none
  deriving Inhabited

abbrev V3 := Int × Int × Int

def dist2 (a b : V3) : Nat :=
  ((a.1 - b.1) * (a.1 - b.1) + (a.2.1 - b.2.1) * (a.2.1 - b.2.1)
    + (a.2.2 - b.2.2) * (a.2.2 - b.2.2)).toNat

structure Bond where
  a : Int
  b : Int
  d2 : Nat      -- squared lattice distance between the two atoms
  len5 : Nat    -- length in 1e-5 nm, `distance_matrix.round(5)`
  k : Rat
  deriving DecidableEq, Repr

inductive Outcome where
  | error (missing : List Int)   -- ValueError: selected atoms without coordinates
  | nothing                      -- empty selection: return without doing anything
  | nanWarning                   -- NaN among the selected coordinates: warning, no network
  | bonds (bs : List Bond)
  deriving DecidableEq, Repr

/-! ### selection -/

/-- `proto_select_attribute_in(node, 'atomname', names)`: `node.get('atomname') in names` -/
def selected (names : List String) (a : Atom) : Bool :=
  match a.name with
  | some n => names.contains n
  | none => false

def atomAt (atoms : List Atom) (i : Nat) : Atom := atoms.getD i default

/-- node indices of the selected atoms, in node order -/
def selection (names : List String) (atoms : List Atom) : List Nat :=
  (List.range atoms.length).filter fun i => selected names (atomAt atoms i)

/-- `idx_to_node[i]` -/
def keyAt (atoms : List Atom) (i : Nat) : Int := (atomAt atoms i).key

/-! ### matrices as lists of rows -/

def tabulate (n : Nat) (f : Nat → Nat → α) : List (List α) :=
  (List.range n).map fun i => (List.range n).map fun j => f i j

def mget (M : List (List α)) (i j : Nat) (d : α) : α := (M.getD i []).getD j d

/-- `M[:, sel]` -/
def sliceCols (M : List (List α)) (sel : List Nat) (d : α) : List (List α) :=
  M.map fun row => sel.map fun c => row.getD c d

/-- `M[sel]` -/
def sliceRows (M : List (List α)) (sel : List Nat) : List (List α) :=
  sel.map fun r => M.getD r []

/-- `M[i, j] = v` (no effect when out of range) -/
def mset (M : List (List α)) (i j : Nat) (v : α) : List (List α) :=
  M.set i ((M.getD i []).set j v)

/-- a sequence of single-cell assignments, in order -/
def fill (M : List (List α)) (W : List ((Nat × Nat) × α)) : List (List α) :=
  W.foldl (fun M w => mset M w.1.1 w.1.2 w.2) M

/-- `np.zeros((n, n), dtype=bool)` -/
def zeros (n : Nat) : List (List Bool) := tabulate n fun _ _ => false

/-- `M[:, sel][sel]` -/
def subMatrix (M : List (List α)) (sel : List Nat) (d : α) : List (List α) :=
  sliceRows (sliceCols M sel d) sel

/-! ### residue graph and bounded breadth-first search -/

/-- node lookup by key (keys are unique in a molecule) -/
def atomOfKey (atoms : List Atom) (k : Int) : Option Atom := atoms.find? fun a => a.key == k

/-- Edges of `make_residue_graph`: one per atom edge joining two different residue keys. -/
def resEdges (atoms : List Atom) (edges : List (Int × Int)) : List (ResKey × ResKey) :=
  edges.filterMap fun e =>
    match atomOfKey atoms e.1, atomOfKey atoms e.2 with
    | some a, some b => if a.res = b.res then none else some (a.res, b.res)
    | _, _ => none

def nbrs (E : List (ResKey × ResKey)) (r : ResKey) : List ResKey :=
  E.flatMap fun e => (if e.1 = r then [e.2] else []) ++ (if e.2 = r then [e.1] else [])

def expand (E : List (ResKey × ResKey)) (S : List ResKey) : List ResKey :=
  (S ++ S.flatMap (nbrs E)).eraseDups

/-- residues within `c` steps of `r` (`all_pairs_shortest_path_length(cutoff=c)`) -/
def ball (E : List (ResKey × ResKey)) : Nat → ResKey → List ResKey
  | 0, r => [r]
  | c + 1, r => expand E (ball E c r)

def resConnected (E : List (ResKey × ResKey)) (c : Nat) (a b : ResKey) : Bool :=
  (ball E c a).contains b

/-- entry (i, j) of the full `connectivity` matrix after `fill_diagonal(False)` (closed form; see
`connFull` for the loops and `mget_connFull` for the proof that they agree) -/
def connEntry (atoms : List Atom) (E : List (ResKey × ResKey)) (sep : Nat) (i j : Nat) : Bool :=
  i != j && resConnected E sep (atomAt atoms i).res (atomAt atoms j).res

/-- nodes of the residue graph -/
def residues (atoms : List Atom) : List ResKey := (atoms.map (·.res)).eraseDups

/-- `res_graph.nodes[r]['graph'].nodes()`, as node indices -/
def nodesOf (atoms : List Atom) (r : ResKey) : List Nat :=
  (List.range atoms.length).filter fun i => (atomAt atoms i).res = r

/-- the assignments `connectivity[node_to_idx[origin], node_to_idx[target]] = True` of the three nested loops
of `build_connectivity_matrix` -/
def connWrites (atoms : List Atom) (E : List (ResKey × ResKey)) (sep : Nat) : List ((Nat × Nat) × Bool) :=
  (residues atoms).flatMap fun R => (ball E sep R).flatMap fun T =>
    (nodesOf atoms R).flatMap fun o => (nodesOf atoms T).map fun t => ((o, t), true)

/-- the full `connectivity` matrix: zeros, the loops, then `np.fill_diagonal(connectivity, False)` -/
def connFull (atoms : List Atom) (E : List (ResKey × ResKey)) (sep : Nat) : List (List Bool) :=
  fill (fill (zeros atoms.length) (connWrites atoms E sep))
    ((List.range atoms.length).map fun i => ((i, i), false))

/-! ### domain criteria -/

/-- `node.get('_old_resid', node['resid'])` -/
def effResid (a : Atom) : Int := a.oldResid.getD (a.res.resid.getD 0)

def inRegion (r : Int × Int) (x : Int) : Bool := min r.1 r.2 ≤ x && x ≤ max r.1 r.2

def crit (d : Domain) (a b : Atom) : Bool :=
  match d with
  | .always => true
  | .chain => a.res.chain == b.res.chain
  | .regions rs => rs.any fun r => inRegion r (effResid a) && inRegion r (effResid b)

/-- entry (i, j) of the full `share_domain` matrix in closed form: filled for `combinations(selection, 2)`
(first index earlier in the selection) and mirrored; everything else stays False
(see `domFull` for the loop and `mget_domFull` for the proof that they agree). -/
def domEntry (sel : List Nat) (atoms : List Atom) (d : Domain) (i j : Nat) : Bool :=
  sel.contains i && sel.contains j &&
    (if i < j then crit d (atomAt atoms i) (atomAt atoms j)
     else if j < i then crit d (atomAt atoms j) (atomAt atoms i)
     else false)

/-- `itertools.combinations(l, 2)` -/
def combos2 : List Nat → List (Nat × Nat)
  | [] => []
  | x :: t => (t.map fun y => (x, y)) ++ combos2 t

/-- the assignments of the loop of `build_pair_matrix`:
`share_domain[kdx, jdx] = criterion(graph, key_kdx, key_jdx); share_domain[jdx, kdx] = share_domain[kdx, jdx]` -/
def domWrites (sel : List Nat) (atoms : List Atom) (d : Domain) : List ((Nat × Nat) × Bool) :=
  (combos2 sel).flatMap fun kj =>
    [((kj.1, kj.2), crit d (atomAt atoms kj.1) (atomAt atoms kj.2)),
     ((kj.2, kj.1), crit d (atomAt atoms kj.1) (atomAt atoms kj.2))]

/-- the full `share_domain` matrix -/
def domFull (sel : List Nat) (atoms : List Atom) (d : Domain) : List (List Bool) :=
  fill (zeros atoms.length) (domWrites sel atoms d)

/-! ### force constants -/

/-- `d = sqrt(d2)/256 < lower`, decided on squares (`lower ≥ 0`) -/
def belowLower (lower : Rat) (d2 : Nat) : Bool := 0 ≤ lower && (d2 : Rat) < (lower * 256) * (lower * 256)

/-- `d = lower` -/
def onLower (lower : Rat) (d2 : Nat) : Bool := 0 ≤ lower && (d2 : Rat) = (lower * 256) * (lower * 256)

/-- The cases in which the decay `exp(-a (d - lower)^p)` is ≥ 1 whatever `exp` is, so that the capped constant is
the base constant EXACTLY: no decay at all (`a = 0`), `d = lower` with `p ≥ 1`, or `a > 0`, `d < lower` and `p` odd
(for even `p` the decay applies below the lower bound as well). -/
def noDecay (dec : Decay) (d2 : Nat) : Bool :=
  dec.a == 0 || (dec.p != 0 && onLower dec.lower d2) || (decide (0 < dec.a) && dec.p % 2 == 1 && belowLower dec.lower d2)

def noDecayAt (p : Params) (d2 : Nat) : Bool :=
  match p.decay with
  | some dec => decide (0 ≤ p.base) && noDecay dec d2
  | none => false

/-- base constant × decay by squared distance: the base constant itself where the decay cannot lower it
(`noDecayAt`; the code computes `base·decay ≥ base` there, and the cap brings it back to `base`:
`capped_of_ge_base`), else the input table; `decay_factor = 0` (empty table) gives the base -/
def kOf (p : Params) (d2 : Nat) : Rat :=
  if noDecayAt p d2 then p.base
  else match p.kTab.lookup d2 with
    | some k => k
    | none => p.base

/-- `compute_force_constants`, one entry -/
def forceConst (p : Params) (diag : Bool) (d2 : Nat) : Rat :=
  let c1 := if diag then 0 else kOf p d2
  let c2 := if c1 < p.minForce then 0 else c1
  let c3 := if c2 > p.base then p.base else c2
  if d2 > p.upper2 then 0 else c3

/-! ### length rounding: `distance_matrix.round(5)` on a lattice of 1/256 nm -/

/-- nearest integer (ties to even) to `sqrt d2 * num / den` -/
def roundSqrtScaled (num den d2 : Nat) : Nat :=
  let x := 4 * d2 * (num * num)
  let r := Nat.sqrt (x / (den * den))
  let n := (r + 1) / 2
  if r % 2 = 1 ∧ r * r * (den * den) = x ∧ n % 2 = 1 then n - 1 else n

/-- 1e5 / 256 = 3125 / 8 -/
def len5Of (d2 : Nat) : Nat := roundSqrtScaled 3125 8 d2

/-- what the length oracle tests on a rendered length `n`·1e-5 nm: `|n - sqrt(d2)·num/den| ≤ 1/2`, as the integer
inequality `(2n-1)²·den² ≤ 4·d2·num² ≤ (2n+1)²·den²` (for `n = 0` the left part is void: truncated subtraction) -/
def roundAdmissible (num den d2 n : Nat) : Bool :=
  (2 * n - 1) * (2 * n - 1) * (den * den) ≤ 4 * d2 * (num * num) &&
  4 * d2 * (num * num) ≤ (2 * n + 1) * (2 * n + 1) * (den * den)

/-- the smallest and the largest admissible `n` (they differ, by one, exactly on a tie) -/
def roundBounds (num den d2 : Nat) : Nat × Nat :=
  let x := 4 * d2 * (num * num)
  let r := Nat.sqrt (x / (den * den))
  let hi := (r + 1) / 2
  if r % 2 = 1 ∧ r * r * (den * den) = x then (hi - 1, hi) else (hi, hi)

def lenAdmissible (d2 n : Nat) : Bool := roundAdmissible 3125 8 d2 n

def lenBounds (d2 : Nat) : Nat × Nat := roundBounds 3125 8 d2

/-! ### the whole function -/

def vec (p : Pos) : V3 :=
  match p with
  | .at x y z => (x, y, z)
  | _ => (0, 0, 0)

def triu (m : Nat) : List (Nat × Nat) :=
  (List.range m).flatMap fun i => ((List.range m).filter fun j => i ≤ j).map fun j => (i, j)

structure Mats where
  sel : List Nat
  dist : List (List Nat)
  conn : List (List Bool)
  dom : List (List Bool)

def mats (atoms : List Atom) (edges : List (Int × Int)) (p : Params) : Mats :=
  let sel := selection p.names atoms
  let coords := sel.map fun i => vec (atomAt atoms i).pos
  let E := resEdges atoms edges
  { sel := sel
    dist := coords.map fun a => coords.map fun b => dist2 a b
    conn := subMatrix (connFull atoms E p.sep) sel false
    dom := subMatrix (domFull sel atoms p.dom) sel false }

/-- `constants[i, j]` after `constants *= (~connected) & same_domain` -/
def constEntry (p : Params) (M : Mats) (i j : Nat) : Rat :=
  if !(mget M.conn i j false) && mget M.dom i j false then
    forceConst p (i == j) (mget M.dist i j 0)
  else 0

def emit (atoms : List Atom) (p : Params) (M : Mats) : List Bond :=
  (triu M.sel.length).filterMap fun ij =>
    if constEntry p M ij.1 ij.2 > p.minForce then
      some { a := keyAt atoms (M.sel.getD ij.1 0), b := keyAt atoms (M.sel.getD ij.2 0),
             d2 := mget M.dist ij.1 ij.2 0, len5 := len5Of (mget M.dist ij.1 ij.2 0),
             k := constEntry p M ij.1 ij.2 }
    else none

def run (atoms : List Atom) (edges : List (Int × Int)) (p : Params) : Outcome :=
  let sel := selection p.names atoms
  let selAtoms := sel.map (atomAt atoms)
  let missing := (selAtoms.filter fun a => a.pos = Pos.missing).map (·.key)
  if missing ≠ [] then .error missing
  else if selAtoms = [] then .nothing
  else if selAtoms.any (fun a => a.pos = Pos.nan) then .nanWarning
  else .bonds (emit atoms p (mats atoms edges p))

/-! ### the processor object `ApplyRubberBand`

`__init__` stores its arguments; `run_molecule` reads them and assigns nothing to `self`.
Two options are resolved per molecule: `bond_type` and `res_min_dist` are used as given unless they
are `None` (tested with `is None`, so an explicit 0 counts as given), in which case the value of the
force-field variable named `bond_type_variable` / `res_min_dist_variable` is used if the force field
has it, else `DEFAULT_BOND_TYPE = 6` / `DEFAULT_RMD = 2`.  Selector, bounds, decay parameters, base
constant, minimum force and domain criterion always come from the constructor. -/

def DEFAULT_BOND_TYPE : Int := 6
def DEFAULT_RMD : Int := 2

structure Proc where
  names : List String            -- selector
  lower : Rat
  upper : Rat                    -- nm
  decayFactor : Rat
  decayPower : Rat
  base : Rat
  minForce : Rat
  resMinDist : Option Int
  bondType : Option Int
  bondTypeVar : String
  resMinDistVar : String
  dom : Domain
  deriving DecidableEq, Inhabited

/-- what `run_molecule` hands to `apply_rubber_band` -/
structure Options where
  names : List String
  lower : Rat
  upper : Rat
  decayFactor : Rat
  decayPower : Rat
  base : Rat
  minForce : Rat
  bondType : Int
  resMinDist : Int
  dom : Domain

/-- `x if x is not None else variables.get(name, default)` -/
def orVariable (given : Option Int) (vars : List (String × Int)) (name : String) (dflt : Int) : Int :=
  match given with
  | some v => v
  | none => (vars.lookup name).getD dflt

def resolveOptions (p : Proc) (vars : List (String × Int)) : Options :=
  { names := p.names, lower := p.lower, upper := p.upper, decayFactor := p.decayFactor,
    decayPower := p.decayPower, base := p.base, minForce := p.minForce, dom := p.dom,
    bondType := orVariable p.bondType vars p.bondTypeVar DEFAULT_BOND_TYPE,
    resMinDist := orVariable p.resMinDist vars p.resMinDistVar DEFAULT_RMD }

/-- one molecule handed to the processor: atoms, edges, the variables of ITS force field, and the
decay table for its distances (see `kOf`) -/
structure MolInput where
  atoms : List Atom
  edges : List (Int × Int)
  vars : List (String × Int)
  kTab : List (Nat × Rat)

/-- squared cut-off in lattice units: `d ≤ upper` iff `d2 ≤ ⌊(256·upper)²⌋` for `upper ≥ 0` -/
def upper2Of (upper : Rat) : Nat := ((upper * 256) * (upper * 256)).floor.toNat

/-- the decay parameters of the processor when the power is a non-negative integer -/
def decayOfOptions (o : Options) : Option Decay :=
  if o.decayPower.den = 1 ∧ 0 ≤ o.decayPower.num then
    some { a := o.decayFactor, lower := o.lower, p := o.decayPower.num.toNat }
  else none

def paramsOfOptions (o : Options) (kTab : List (Nat × Rat)) : Params :=
  { names := o.names, sep := o.resMinDist.toNat, upper2 := upper2Of o.upper, base := o.base,
    minForce := o.minForce, kTab := kTab, dom := o.dom, decay := decayOfOptions o }

/-- `ApplyRubberBand(...).run_molecule(molecule)` of a freshly constructed processor:
the outcome and the bond type written into every bond -/
def runMolecule (p : Proc) (m : MolInput) : Outcome × Int :=
  let o := resolveOptions p m.vars
  (run m.atoms m.edges (paramsOfOptions o m.kTab), o.bondType)

/-- one application of a processor object: new state of the object and result.
The code assigns nothing to `self`. -/
def procStep (p : Proc) (m : MolInput) : Proc × (Outcome × Int) := (p, runMolecule p m)

/-- the same processor object applied to several molecules in a row -/
def runHistory (p : Proc) : List MolInput → List (Outcome × Int)
  | [] => []
  | m :: ms => (procStep p m).2 :: runHistory (procStep p m).1 ms

/-- several processor objects — which may have been given the SAME criterion object or selector — applied in any
interleaving to molecules: the i-th object is used and put back as it is after each application -/
def runInterleaved (ps : List Proc) : List (Nat × MolInput) → List (Outcome × Int)
  | [] => []
  | im :: rest =>
      (procStep (ps.getD im.1 default) im.2).2 ::
        runInterleaved (ps.set im.1 (procStep (ps.getD im.1 default) im.2).1) rest

end C15
