import VermouthModel.Proto
/-
C17 (extension) — `read_dssp2`: the parser of the text DSSP writes.

    numbered_lines = enumerate(lines, start=1)
    _, first_line = next(numbered_lines)                    -- StopIteration on no line at all
    if first_line and first_line.startswith('****'): raise IOError
    for line_num, line in numbered_lines:                   -- the FIRST line is never a candidate
        if line.startswith('  #  RESIDUE AA'): break
    else: raise IOError
    for line_num, line in numbered_lines:
        if '!' in line or not line: continue
        elif len(line) >= 17:
            secondary_structure = line[16]
            if secondary_structure not in 'HBEGITS ': raise IOError
            if secondary_structure == ' ': secondary_structure = 'C'
            secstructs.append(secondary_structure)
        else: raise IOError
    return secstructs

Lines are lists of characters exactly as handed to the function (a trailing newline, if the caller
left one, is part of the line).
-/
namespace C17

inductive DsspErr where
  | stopIteration   -- `next()` on an empty iterable: not the documented IOError
  | ioError
  deriving Repr, DecidableEq

def v1Mark : List Char := "****".toList
def headerMark : List Char := "  #  RESIDUE AA".toList
def dsspClasses : List Char := "HBEGITS ".toList

/-- skip up to and including the first line that starts with the header mark -/
def skipHeader : List (List Char) → Option (List (List Char))
  | [] => none
  | l :: ls => if headerMark.isPrefixOf l then some ls else skipHeader ls

/-- `'!' in line or not line` -/
def skippedLine (l : List Char) : Bool := l.contains '!' || l.isEmpty

/-- the class read from a residue line, `none` = IOError (short line or unknown class) -/
def classOf (l : List Char) : Option Char :=
  if l.length ≥ 17 then
    match l[16]? with
    | none => none
    | some c => if dsspClasses.contains c then some (if c = ' ' then 'C' else c) else none
  else none

def readBody : List (List Char) → Except DsspErr (List Char)
  | [] => .ok []
  | l :: ls =>
    if skippedLine l then readBody ls
    else
      match classOf l with
      | none => .error .ioError
      | some c =>
        match readBody ls with
        | .error e => .error e
        | .ok cs => .ok (c :: cs)

/-- `read_dssp2(lines)` -/
def readDssp2 (lines : List (List Char)) : Except DsspErr (List Char) :=
  match lines with
  | [] => .error .stopIteration
  | first :: rest =>
    if !first.isEmpty && v1Mark.isPrefixOf first then .error .ioError
    else
      match skipHeader rest with
      | none => .error .ioError
      | some body => readBody body

/-! ## `_savefile_path`: name of the file the DSSP output is saved to -/

inductive SaveErr where
  | indexError   -- a molecule without atoms: `list(molecule.nodes.keys())[0]`
  | valueError   -- no chain is set
  deriving Repr, DecidableEq

def insertStr (s : String) : List String → List String
  | [] => [s]
  | x :: xs => if s < x then s :: x :: xs else if s = x then x :: xs else x :: insertStr s xs

/-- `'chain_{}.ssd'.format(','.join(sorted(chains)))`, `chains` = the set of the chains of the FIRST atom
of every molecule (`firstChains`: `none` = the molecule has no atom, `some none` = no chain) -/
def savefileName (firstChains : List (Option (Option String))) : Except SaveErr String :=
  if firstChains.contains none then .error .indexError
  else
    let chains := (firstChains.filterMap fun c => c.join).foldr insertStr []
    if chains.isEmpty then .error .valueError
    else .ok ("chain_" ++ ",".intercalate chains ++ ".ssd")

end C17
