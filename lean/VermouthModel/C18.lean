import VermouthModel.Proto
/-
C18 — model of the Go-model processors of vermouth

* `addVirtualSites`  : `VirtualSiteCreator.add_virtual_sites` (rcsu/go_vs_includes.py)
* `selectContacts`   : `ComputeStructuralGoBias.contact_selector` + `compute_go_interaction`
                       (rcsu/go_structure_bias.py), with `make_residue_graph`
                       (graph_utils.py) and `get_go_type_from_attributes` (rcsu/go_utils.py)
* `goPipeline`       : what `GoPipeline.run_system` does to the (already merged) molecule.

Geometry is exact: positions are points of an integer lattice, a distance is
represented by its square (a `Nat`), a cut-off by a rational `p/q` (`q > 0`),
and `low < d < up` is decided by comparing squares.  The numeric values
sigma = d / 2^(1/6) and epsilon never enter the model.

The molecule is the node table in *node order* (dict insertion order of the
networkx graph) plus the list of edges.  Atoms are those of a coarse-grained
molecule as produced by the martinize pipeline: every node has `atomname`,
`resid`, `_old_resid`, `resname`, `chain`, `atype`, `position`; `charge_group`
and `cgsecstruct` are optional; `insertion_code` is absent (the mapping does not
carry it over to beads).
-/
namespace C18

abbrev Pos := Int × Int × Int

structure Atom where
  key : Int
  atomname : String
  resid : Int
  oldResid : Int
  resname : String
  chain : String
  atype : String
  cg : Option Int
  pos : Pos
  ss : Option String
  deriving Repr, DecidableEq, Inhabited

/-- A node created by `add_virtual_sites`, with everything the code stores on it
and the key `bb` of the backbone node it was constructed from. -/
structure VSite where
  key : Int
  bb : Int
  resid : Int
  oldResid : Int
  resname : String
  atype : String
  cg : Int
  chain : String
  pos : Pos
  atomname : String
  charge : Int
  mass : Int
  ss : Option String
  deriving Repr, DecidableEq, Inhabited

/-- `max(molecule.nodes)` for a non-empty node table (0 for the empty one, never used). -/
def maxInts : List Int → Int
  | [] => 0
  | [a] => a
  | a :: rest => max a (maxInts rest)

/-- `'{}_{}'.format(prefix, atom['resid'])` -/
def goType (pre : String) (resid : Int) : String := pre ++ "_" ++ Int.repr resid

def mkVS (pre vsname : String) (a : Atom) (k g : Int) : VSite :=
  { key := k, bb := a.key, resid := a.resid, oldResid := a.oldResid, resname := a.resname,
    atype := goType pre a.resid, cg := g, chain := a.chain, pos := a.pos,
    atomname := vsname, charge := 0, mass := 0, ss := a.ss }

/-- The loop over `molecule.nodes(data=True)`; `k`, `g` are `new_node_id` and
`new_charge_group` before the iteration. -/
def vsLoop (pre backbone vsname : String) : List Atom → Int → Int → List VSite
  | [], _, _ => []
  | a :: rest, k, g =>
    if a.atomname = backbone then
      mkVS pre vsname a (k + 1) (g + 1) :: vsLoop pre backbone vsname rest (k + 1) (g + 1)
    else vsLoop pre backbone vsname rest k g

/-- `max(charge_groups) if charge_groups else 0` over the nodes that have a charge group -/
def startCg (atoms : List Atom) : Int :=
  let cgs := atoms.filterMap (·.cg)
  if cgs.isEmpty then 0 else maxInts cgs

/-- The virtual sites created for a molecule, in creation order (empty molecule: none). -/
def addVirtualSites (pre backbone vsname : String) (atoms : List Atom) : List VSite :=
  vsLoop pre backbone vsname atoms (maxInts (atoms.map (·.key))) (startCg atoms)

def VSite.toAtom (v : VSite) : Atom :=
  { key := v.key, atomname := v.atomname, resid := v.resid, oldResid := v.oldResid,
    resname := v.resname, chain := v.chain, atype := v.atype, cg := some v.cg,
    pos := v.pos, ss := v.ss }

/-- node table after `molecule.add_nodes_from(virtual_site_nodes)` -/
def withSites (atoms : List Atom) (vs : List VSite) : List Atom := atoms ++ vs.map VSite.toAtom

/-- the `virtual_sitesn` interactions appended: atoms `[vs, bb]` (parameters `['1']`) -/
def vsInteractions (vs : List VSite) : List (Int × Int) := vs.map fun v => (v.key, v.bb)

/-! ### residue graph -/

structure Residue where
  chain : String
  resid : Int
  resname : String
  members : List Atom
  deriving Repr, Inhabited

def Residue.has (r : Residue) (a : Atom) : Bool :=
  r.chain == a.chain && r.resid == a.resid && r.resname == a.resname

/-- `collect_residues`: groups in order of first appearance, members in node order -/
def insertAtom : List Residue → Atom → List Residue
  | [], a => [{ chain := a.chain, resid := a.resid, resname := a.resname, members := [a] }]
  | r :: rest, a =>
    if r.has a then { r with members := r.members ++ [a] } :: rest
    else r :: insertAtom rest a

def collectResidues (atoms : List Atom) : List Residue := atoms.foldl insertAtom []

def minInts : List Int → Int
  | [] => 0
  | [a] => a
  | a :: rest => min a (minInts rest)

def Residue.minKey (r : Residue) : Int := minInts (r.members.map (·.key))

/-- `sorted(partitions, key=min)` as an insertion sort (the minima are distinct) -/
def insertSorted (r : Residue) : List Residue → List Residue
  | [] => [r]
  | s :: rest => if r.minKey ≤ s.minKey then r :: s :: rest else s :: insertSorted r rest

def sortResidues : List Residue → List Residue
  | [] => []
  | r :: rest => insertSorted r (sortResidues rest)

/-- nodes of `make_residue_graph(molecule)`: index in this list = residue node -/
def residuesOf (atoms : List Atom) : List Residue := sortResidues (collectResidues atoms)

/-- `_items_with_common_values` for `_old_resid`: present iff all members agree -/
def Residue.old (r : Residue) : Option Int :=
  match r.members with
  | [] => none
  | a :: rest => if rest.all (fun b => b.oldResid == a.oldResid) then some a.oldResid else none

def resIndexOf (rs : List Residue) (key : Int) : Option Nat :=
  rs.findIdx? (fun r => r.members.any (fun a => a.key == key))

/-- edges of the residue graph (pairs of residue indices), from `partition_graph` -/
def resEdges (rs : List Residue) (edges : List (Int × Int)) : List (Nat × Nat) :=
  edges.filterMap fun e =>
    match resIndexOf rs e.1, resIndexOf rs e.2 with
    | some i, some j => if i ≠ j then some (i, j) else none
    | _, _ => none

def nbrs (E : List (Nat × Nat)) (i : Nat) : List Nat :=
  E.filterMap fun e => if e.1 = i then some e.2 else if e.2 = i then some e.1 else none

/-- residues within `k` steps of `s` (`single_source_shortest_path_length(G, s, cutoff=k)` as a set) -/
def ball (E : List (Nat × Nat)) (s : Nat) : Nat → List Nat
  | 0 => [s]
  | k + 1 =>
    let b := ball E s k
    b ++ ((b.flatMap (nbrs E)).filter (fun x => !b.contains x)).eraseDups

/-- `_chain_id_to_resnode`: the dict is filled in residue order, so the last residue with a
given (chain, `_old_resid`) wins. -/
def findRes (rs : List Residue) (chain : String) (resid : Int) : Option Nat :=
  (rs.zipIdx).foldl
    (fun acc ri => if ri.1.chain == chain && ri.1.old == some resid then some ri.2 else acc) none

/-- `next(filter_minimal(res['graph'], select_backbone, bb_atomname=...))` -/
def firstBB (r : Residue) (backbone : String) : Option Atom :=
  r.members.find? (fun a => a.atomname == backbone)

/-- Python `str.startswith` -/
def startsWith (s pre : String) : Bool := pre.toList.isPrefixOf s.toList

/-- `next(get_go_type_from_attributes(res['graph'], _old_resid=.., chain=.., prefix=..))` -/
def firstType (r : Residue) (pre chain : String) (resid : Int) : Option String :=
  (r.members.find? (fun a => a.oldResid == resid && a.chain == chain && startsWith a.atype pre)).map (·.atype)

def sq (a : Int) : Int := a * a

/-- squared lattice distance -/
def dist2 (p q : Pos) : Nat := (sq (p.1 - q.1) + sq (p.2.1 - q.2.1) + sq (p.2.2 - q.2.2)).toNat

/-- a cut-off `p/q`, `q > 0` -/
structure Cut where
  p : Int
  q : Nat
  deriving Repr, DecidableEq, Inhabited

/-- `c < d` for `d = sqrt d2` -/
def Cut.below (c : Cut) (d2 : Nat) : Bool := c.p < 0 || c.p * c.p < (d2 : Int) * c.q * c.q
/-- `d < c` for `d = sqrt d2` -/
def Cut.above (c : Cut) (d2 : Nat) : Bool := 0 < c.p && (d2 : Int) * c.q * c.q < c.p * c.p

structure Params where
  pre : String
  backbone : String
  low : Cut
  up : Cut
  sep : Int
  deriving Repr, Inhabited

/-- one line of the contact map: `(resIDA, chainA, resIDB, chainB)` -/
structure Contact where
  residA : Int
  chainA : String
  residB : Int
  chainB : String
  deriving Repr, DecidableEq, Inhabited

structure Cand where
  ta : String
  tb : String
  d2 : Nat
  bbA : Int
  bbB : Int
  deriving Repr, DecidableEq, Inhabited

def Cand.triple (c : Cand) : String × String × Nat := (c.ta, c.tb, c.d2)
def Cand.swapped (c : Cand) : String × String × Nat := (c.tb, c.ta, c.d2)

inductive Verdict where
  | skip
  | exit
  | keyerror
  | cand (c : Cand)
  deriving Repr, DecidableEq, Inhabited

/-- Everything the loop body does with one contact that does not depend on the loop state,
in the order of the code. -/
def classify (P : Params) (rs : List Residue) (E : List (Nat × Nat)) (c : Contact) : Verdict :=
  match findRes rs c.chainA c.residA, findRes rs c.chainB c.residB with
  | some ia, some ib =>
    if (ball E ia P.sep.toNat).contains ib then .skip
    else
      match rs[ia]?, rs[ib]? with
      | some ra, some rb =>
        match firstBB ra P.backbone, firstBB rb P.backbone with
        | some a, some b =>
          let d2 := dist2 a.pos b.pos
          if P.low.below d2 && P.up.above d2 then
            match firstType ra P.pre c.chainA c.residA, firstType rb P.pre c.chainB c.residB with
            | some ta, some tb => .cand { ta := ta, tb := tb, d2 := d2, bbA := a.key, bbB := b.key }
            | _, _ => .keyerror
          else .skip
        | _, _ => .exit
      | _, _ => .skip
  | _, _ => .skip

structure LoopState where
  cm : List (String × String × Nat)
  out : List Cand
  deriving Repr, Inhabited

/-- the symmetric-contact test: second occurrence rule -/
def step (s : LoopState) (c : Cand) : LoopState :=
  if s.cm.contains c.swapped then { s with out := s.out ++ [c] }
  else { s with cm := s.cm ++ [c.triple] }

inductive Outcome where
  | ok (out : List Cand)
  | exit
  | keyerror
  deriving Repr, DecidableEq, Inhabited

def runLoop : List Verdict → LoopState → Outcome
  | [], s => .ok s.out
  | .skip :: r, s => runLoop r s
  | .exit :: _, _ => .exit
  | .keyerror :: _, _ => .keyerror
  | .cand c :: r, s => runLoop r (step s c)

/-- the symmetric contacts selected from a list of candidates (no error case) -/
def emitted (cands : List Cand) : List Cand := (cands.foldl step { cm := [], out := [] }).out

/-- `contact_selector` on a molecule (node table `atoms`, edges `edges`) -/
def selectContacts (P : Params) (atoms : List Atom) (edges : List (Int × Int))
    (contacts : List Contact) : Outcome :=
  let rs := residuesOf atoms
  let E := resEdges rs edges
  runLoop (contacts.map (classify P rs E)) { cm := [], out := [] }

/-- exclusions appended to the molecule, and the `nonbond_params` pairs, both in emission order -/
def exclusionsOf (out : List Cand) : List (Int × Int) := out.map fun c => (c.bbA, c.bbB)
def nonbondOf (out : List Cand) : List (String × String × Nat) := out.map Cand.triple

/-- `GoPipeline.run_system` after `MergeAllMolecules`: sites, then contacts on the enlarged molecule -/
def goPipeline (P : Params) (vsname : String) (atoms : List Atom) (edges : List (Int × Int))
    (contacts : List Contact) : List VSite × Outcome :=
  let vs := addVirtualSites P.pre P.backbone vsname atoms
  (vs, selectContacts P (withSites atoms vs) edges contacts)

/-! ### a reused `ComputeStructuralGoBias`: the lookup table as explicit state

`self.__chain_id_to_resnode` is created empty in `__init__` and is never cleared: it survives
`run_molecule` and `run_system`.  A non-empty table is consulted first and a hit is returned without
looking at the current residue graph; on a miss the current residues are merged into it. -/

abbrev CacheKey := String × Option Int
abbrev Cache := List (CacheKey × Nat)

def Cache.get (c : Cache) (k : CacheKey) : Option Nat := (c.find? (fun e => e.1 == k)).map (·.2)
/-- dict assignment (insertion order is irrelevant for lookups) -/
def Cache.set (c : Cache) (k : CacheKey) (v : Nat) : Cache := (k, v) :: c.filter (fun e => !(e.1 == k))
/-- the `for resnode in self.res_graph.nodes` loop -/
def Cache.merge (c : Cache) (rs : List Residue) : Cache :=
  (rs.zipIdx).foldl (fun c ri => c.set (ri.1.chain, ri.1.old) ri.2) c

/-- `_chain_id_to_resnode(chain, resid)` with the table `cache` left by earlier calls -/
def lookupS (cache : Cache) (rs : List Residue) (chain : String) (resid : Int) : Option Nat × Cache :=
  match (if cache.isEmpty then none else cache.get (chain, some resid)) with
  | some i => (some i, cache)
  | none => let c' := cache.merge rs; (c'.get (chain, some resid), c')

/-- the loop body for given lookup results; a stale residue node that is not in the current residue
graph makes `connected_pairs[resA]` / `res_graph.nodes[resB]` raise KeyError -/
def classifyIdx (P : Params) (rs : List Residue) (E : List (Nat × Nat)) (c : Contact)
    (oa ob : Option Nat) : Verdict :=
  match oa, ob with
  | some ia, some ib =>
    match rs[ia]? with
    | none => .keyerror
    | some ra =>
      if (ball E ia P.sep.toNat).contains ib then .skip
      else
        match firstBB ra P.backbone, rs[ib]? with
        | none, _ => .exit
        | some _, none => .keyerror
        | some a, some rb =>
          match firstBB rb P.backbone with
          | none => .exit
          | some b =>
            let d2 := dist2 a.pos b.pos
            if P.low.below d2 && P.up.above d2 then
              match firstType ra P.pre c.chainA c.residA, firstType rb P.pre c.chainB c.residB with
              | some ta, some tb => .cand { ta := ta, tb := tb, d2 := d2, bbA := a.key, bbB := b.key }
              | _, _ => .keyerror
            else .skip
  | _, _ => .skip

def runLoopS (P : Params) (rs : List Residue) (E : List (Nat × Nat)) :
    List Contact → Cache → LoopState → Outcome × Cache
  | [], cache, s => (.ok s.out, cache)
  | c :: rest, cache, s =>
    let la := lookupS cache rs c.chainA c.residA
    let lb := lookupS la.2 rs c.chainB c.residB
    match classifyIdx P rs E c la.1 lb.1 with
    | .skip => runLoopS P rs E rest lb.2 s
    | .exit => (.exit, lb.2)
    | .keyerror => (.keyerror, lb.2)
    | .cand x => runLoopS P rs E rest lb.2 (step s x)

/-- `run_molecule` of a processor whose table is `cache`; returns the table it leaves behind -/
def selectContactsS (cache : Cache) (P : Params) (atoms : List Atom) (edges : List (Int × Int))
    (contacts : List Contact) : Outcome × Cache :=
  let rs := residuesOf atoms
  runLoopS P rs (resEdges rs edges) contacts cache { cm := [], out := [] }

/-- one molecule + contact map handed to the processor -/
structure Job where
  atoms : List Atom
  edges : List (Int × Int)
  contacts : List Contact
  deriving Inhabited

/-- ONE processor applied to several systems in a row.  `reset = true` is the repaired code
(table cleared at the start of `run_molecule`), `reset = false` the code as it is. -/
def runHistory (reset : Bool) (P : Params) : List Job → Cache → List Outcome
  | [], _ => []
  | j :: rest, cache =>
    let r := selectContactsS (if reset then [] else cache) P j.atoms j.edges j.contacts
    r.1 :: runHistory reset P rest r.2

end C18
