import VermouthModel.C02
import VermouthModel.C13_Reader
/-
C02 ∘ C13 — the repo's OWN `.itp` reader (`vermouth.gmx.itp_read.read_itp`, modelled for
property C13 in `VermouthModel/C13_Reader.lean`, imported read-only) applied to what the
writer model of C02 writes.

C13's model of `_block` / `_parse_block_atom` checks the `[ moleculetype ]` line and the
`[ atoms ]` rows (`int()`, `float()`, duplicates) but keeps only the node key and `atomname`.
`readITPx` is the same pipeline (`classify`, `pragmaPass`, `expandMacros`, `itpRun`, every handler
of `C13.itpHandle`) on a context that additionally RECORDS the tokens of every atom row and the
`nrexcl` token; `VermouthProofs/C02_C13Refine.lean` proves that forgetting the record gives back
`C13.readITP` on every input.
-/
namespace C02.Repo
open C13 (Ctx Entry Idx PMeta IParams ISt Path)

/-- `C13.Ctx` plus what C13's model checks but does not keep -/
structure RCtx where
  base : Ctx := {}
  /-- the tokens of every `[ atoms ]` row, in file order -/
  rows : List (List String) := []
  /-- the second token of the `[ moleculetype ]` line (`int(nrexcl)` in the code) -/
  nrexcl : Option String := none
  deriving Repr, Inhabited

/-- run C13's handler on the base context; record the row / the nrexcl token on success -/
def handleX (idxTab : List (String × List Idx)) (tab : List Entry) (p : Path) (line : String)
    (c : RCtx) : Option RCtx :=
  match C13.itpHandle idxTab tab p line c.base with
  | none => none
  | some b =>
    match C13.findEntry tab p with
    | none => some { c with base := b }
    | some e =>
      if e.method = "_block" then
        some { c with base := b, nrexcl := (C13.splitWs (C13.decodeMeta line).2)[1]? }
      else if e.method = "_block_atoms" then
        some { c with base := b, rows := c.rows ++ [(C13.tokenizeS (C13.decodeMeta line).2).getD []] }
      else some { c with base := b }

def paramsX (idxTab : List (String × List Idx)) (tab : List Entry) : IParams RCtx :=
  { T := tab.map (·.path), handle := handleX idxTab tab,
    atomsEnded := fun c => { c with base := (C13.itpParams idxTab tab).atomsEnded c.base },
    fresh := {}, nameOf := fun c => c.base.name }

/-- `C13.readITP` with the recording context -/
def readITPx (idxTab : List (String × List Idx)) (tab : List Entry) (raw : List String) :
    Option (List (Option String × (Nat × RCtx))) := do
  let lines ← C13.classify raw
  let tagged ← C13.pragmaPass none lines
  let lines' ← C13.expandMacros (tab.map (·.path)) [] [] (tagged.map (·.1))
  let lines'' := (lines'.zip (tagged.map (·.2))).map fun (l, m) =>
    match l with
    | .content t => C13.Line.content (C13.encodeMeta m t)
    | h => h
  let s ← C13.itpRun (paramsX idxTab tab) lines''
  pure s.blocks

def eraseBlocks (bs : List (Option String × (Nat × RCtx))) : List (Option String × (Nat × Ctx)) :=
  bs.map fun b => (b.1, (b.2.1, b.2.2.base))

/-- the lines handed to `read_itp`: `text.split('\n')` -/
def textLines (s : String) : List String := (C02.splitLines s.toList).map String.ofList

/-! ### the view of a block that is compared with the molecule in memory

The stated normalisation, all of it:
* numeric fields stay TEXT (`resid`, `charge_group`, `nrexcl` go through `int()`, `charge`, `mass`
  through `float()` in the code; the model only checks that the conversion succeeds);
* the node keys of a block are the row numbers minus one (`"0"`, `"1"`, …): an interaction atom
  `k` is shown as row number `k + 1`;
* `meta = {condition: tag}` is shown as the guard `[(tag, condition = "ifdef")]`;
* `Block.interactions` is a dict by section name; the model keeps the flat list in file order
  (same relative order inside every section).
`impropers` are read back under `dihedrals`, comments and group comments are not read at all:
`C02.canon` already states the molecule that way. -/

def rowAtom : List String → Option PAtom
  | _ :: ty :: ri :: rn :: an :: cg :: rest => some ⟨ty, ri, rn, an, cg, rest[0]?, rest[1]?⟩
  | _ => none

def keyIdx (k : String) : Option Nat := k.toNat?.map (· + 1)

def guardOfMeta : PMeta → List (String × Bool)
  | none => []
  | some (c, t) => [(t, c == "ifdef")]

def viewInter (it : C13.Inter) : Option PInter :=
  (it.atoms.mapM keyIdx).map fun as => ⟨it.sect, guardOfMeta it.pmeta, as, it.params⟩

def viewBlock (b : RCtx) : Option Parsed := do
  let name ← b.base.name
  let nr ← b.nrexcl
  let atoms ← b.rows.mapM rowAtom
  let inters ← b.base.inters.mapM viewInter
  pure { moltype := some (name, nr), atoms := atoms, inters := inters }

/-- what C13's own context shows: names of the nodes in order, atom names, interactions -/
def viewBase (c : Ctx) : Option (List PInter) := c.inters.mapM viewInter

/-! ### the tables (converted exactly as `Drivers/C13.lean` does) -/

def tabOf (keys : List (List String × String × String)) : List Entry :=
  keys.map fun (p, m, c) => { path := p, method := m, ctype := c }

def idxOf (raw : List (String × List (Nat × Nat × Nat))) : List (String × List Idx) :=
  raw.map fun (s, l) => (s, l.map fun (k, a, b) =>
    if k = 0 then Idx.pos a else if k = 1 then Idx.slice a (some b) else Idx.slice a none)

/-! ### the part of the C02 domain the repo's reader can express -/

/-- no macro reference and no brace (the reader substitutes `$name` and its `_tokenize` counts braces) -/
def plainTok (s : String) : Bool := s.toList.all (fun c => c != '$' && c != '{' && c != '}')

/-- a free pre/post line the reader accepts: nothing left after comment stripping, or a `#define`
pragma (`#include` and every other pragma raise IOError in `parse_pragma`) -/
def freeLineOk (t : String) : Bool :=
  let cs := C13.stripComment t.toList
  cs.isEmpty || C13.startsWithS (String.ofList cs) "#define"

/-- the section name the reader derives from the header line `[ n ]`:
`line.strip('[ ]').casefold()` (ASCII) -/
def hdrName (n : String) : String :=
  String.ofList ((C13.stripChars (fun c => c = '[' || c = ' ' || c = ']')
    ('[' :: ' ' :: n.toList ++ [' ', ']'])).map C13.lowerAscii)

def atomRepoOk (a : Atom) : Bool :=
  plainTok a.atype && plainTok a.resname && plainTok a.atomname
  -- implied by the int()/float() conditions below; stated so that no lemma about number spellings is needed
  && plainTok a.resid && plainTok a.cgnr && plainTok a.charge && plainTok a.mass
  && (C13.pyInt? a.resid).isSome && (C13.pyInt? a.cgnr).isSome
  && (a.charge.isEmpty || C13.pyFloatOk a.charge) && (a.mass.isEmpty || C13.pyFloatOk a.mass)

def tagOk (o : Option String) : Bool := o.all (fun s => s.toList.all (fun c => c != '\x03'))

/-- **What `read_itp` genuinely cannot express or accept** (on top of `wellFormed`/`charOk`):
* `nrexcl`, `resid`, `charge_group` must be `int()` literals, `charge`/`mass` `float()` literals;
* a token that reaches `_substitute_macros`/`_tokenize` (molecule name, atom fields, parameters)
  may not contain `$`; atom fields and parameters may not contain `{` `}`;
* the molecule name may not start with `[` (section header) or `#` (pragma);
* free pre/post lines: comments, blank lines and `#define` only (`#include` is an IOError);
* a section that only has pre/post lines may not be called `moleculetype` or `macros` after
  `strip('[ ]').casefold()` (it would open a new block / a macro section); a section WITH
  interactions keeps its name under that normalisation because it is a name of `atom_idxs`
  (`VermouthProps/C02_Repo.lean`: `tables_ok`, by `decide` on the extracted table);
* model artefact (not the code): a guard tag may not contain the control character U+0003 and the
  molecule name may not start with U+0001 (`C13.encodeMeta` uses them as separators). -/
def repoOkLocal (m : Mol) : Bool :=
  (C13.pyInt? m.nrexcl).isSome
  && m.nrexcl.toList.all (fun c => c != '$')      -- implied by the line above; stated to spare a lemma
  && m.moltype.toList.all (fun c => c != '$')
  && (match m.moltype.toList.head? with
      | some c => c != '[' && c != '#' && c != '\x01'
      | none => false)
  && m.atoms.all atomRepoOk
  && m.inters.all (fun p => p.2.all (fun i => i.params.all plainTok && tagOk i.ifdef && tagOk i.ifndef))
  && m.pre.all (fun p => p.2.all freeLineOk) && m.post.all (fun p => p.2.all freeLineOk)

def repoOk (T : List Path) (m : Mol) : Bool :=
  repoOkLocal m
  && (remainingNames m).all (fun n => !T.contains [hdrName n] && hdrName n != "macros")

end C02.Repo
