import VermouthModel.Proto
/-
C10 — model of `vermouth.processors.make_bonds.make_bonds` (bond guessing) and of the
split into molecules on the residue graph (`graph_utils.partition_graph` +
`networkx.connected_components`).

The model starts after `nx.set_node_attributes(molecule, mol_idx, 'mol_idx')` and
`nx.disjoint_union_all`: atoms are a list (node key = position in the list), every atom
carries the index of the input molecule it came from, pre-existing edges are pairs of
node keys.

Units: positions are integers in 1e-4 nm, radii integers in 1e-3 nm (table extracted from
the repository into `Generated/C10Radii.lean`), the fudge factor is the rational `p/q`.
`dist <= 0.5*(r1+r2)*fudge` is the integer inequality `4 q² d² ≤ 100 p² (r1+r2)²`.
Nothing here is a float.
-/
namespace C10

structure Atom where
  mol : Nat
  chain : Option String
  resid : Option Int
  resname : Option String
  icode : Option String
  name : Option String      -- `none` = the node has no 'atomname' attribute (or it is `None`, see `nameNone`)
  element : Option String
  x : Int
  y : Int
  z : Int
  nameNone : Bool := false  -- the node HAS an 'atomname' attribute and its value is `None` (then `name = none`)
  hasPos : Bool := true     -- the node has a 'position' attribute (x, y, z are meaningless otherwise)
  deriving Repr, DecidableEq, Inhabited

/-- the identifying tuple `(mol_idx, chain, resid, resname, insertion_code)` -/
abbrev ResKey := Nat × Option String × Option Int × Option String × Option String

def Atom.key (a : Atom) : ResKey := (a.mol, a.chain, a.resid, a.resname, a.icode)

def ResKey.resname (k : ResKey) : Option String := k.2.2.2.1

/-- reference block: atom name of block node `i`, edges between block node indices -/
structure Block where
  names : List String
  edges : List (Nat × Nat)
  deriving Repr, DecidableEq, Inhabited

/-- `force_field.blocks` as (name, block) items -/
abbrev FF := List (String × Block)

structure Sys where
  atoms : List Atom
  pre : List (Nat × Nat)            -- edges already present in the input molecules
  ff : FF
  radii : List (String × Nat)       -- VDW_RADII in 1e-3 nm
  allowName : Bool
  allowDist : Bool
  p : Nat                           -- fudge = p / q
  q : Nat

abbrev Edge := Nat × Nat

def atomAt (atoms : List Atom) (i : Nat) : Atom := atoms.getD i default
def keyAt (atoms : List Atom) (i : Nat) : ResKey := (atomAt atoms i).key

/-! ### residues (`collect_residues`, `_res_serial`) -/

/-- one iteration of the `defaultdict` loop: a new key goes to the end -/
def insertKey (acc : List ResKey) (k : ResKey) : List ResKey :=
  if acc.contains k then acc else acc ++ [k]

/-- keys of `residue_groups` in insertion (= first occurrence) order -/
def resKeys (atoms : List Atom) : List ResKey := (atoms.map Atom.key).foldl insertKey []

/-- `_res_serial` of atom `i` = `enumerate` index of its group -/
def serial (atoms : List Atom) (i : Nat) : Nat := (resKeys atoms).idxOf (keyAt atoms i)

/-- node keys of the group with key `k` -/
def members (atoms : List Atom) (k : ResKey) : List Nat :=
  (List.range atoms.length).filter fun i => keyAt atoms i == k

/-! ### edges from the reference block by atom name (`_bonds_from_names`) -/

def has (E : List Edge) (u v : Nat) : Bool := E.contains (u, v) || E.contains (v, u)

/-- all pairs `(i, j)` with `i < j < n`, lexicographic -/
def allPairs (n : Nat) : List Edge :=
  (List.range n).flatMap fun i => ((List.range n).filter fun j => i < j).map fun j => (i, j)

/-- `force_field.blocks.get(resname)`; `if not block` also rejects a block without nodes -/
def lookupBlock (ff : FF) : Option String → Option Block
  | none => none
  | some rn =>
    match ff.find? (fun e => e.1 == rn) with
    | some e => if e.2.names.isEmpty then none else some e.2
    | none => none

/-- some atom name occurs on two atoms of the group.  `mol_name_to_idx` is filled for the nodes with
`'atomname' in node`: a missing attribute is skipped, the value `None` is a key like any other. -/
def hasDupName (atoms : List Atom) (ms : List Nat) : Bool :=
  ms.any fun i => ms.any fun j =>
    i != j && (((atomAt atoms i).name.isSome && (atomAt atoms i).name == (atomAt atoms j).name)
               || ((atomAt atoms i).nameNone && (atomAt atoms j).nameNone))

/-- `mol_name_to_idx[name]` -/
def lookupName (atoms : List Atom) (ms : List Nat) (nm : String) : Option Nat :=
  ms.find? fun i => (atomAt atoms i).name == some nm

/-- a pair of block nodes translated to node keys when both names are present -/
def mapPair (atoms : List Atom) (ms : List Nat) (b : Block) (e : Edge) : Option Edge :=
  match b.names[e.1]?, b.names[e.2]? with
  | some n1, some n2 =>
    match lookupName atoms ms n1, lookupName atoms ms n2 with
    | some u, some v => some (u, v)
    | _, _ => none
  | _, _ => none

/-- `nx.non_edges(block)` -/
def blockNonEdges (b : Block) : List Edge :=
  (allPairs b.names.length).filter fun e => !(has b.edges e.1 e.2)

/-- `_bonds_from_names` for the group with key `k`: `none` = KeyError (unknown or empty block,
duplicated atom name), else (edges added, non-edges returned). -/
def namePass (atoms : List Atom) (ff : FF) (k : ResKey) : Option (List Edge × List Edge) :=
  match lookupBlock ff k.resname with
  | none => none
  | some b =>
    if hasDupName atoms (members atoms k) then none
    else some (b.edges.filterMap (mapPair atoms (members atoms k) b),
               (blockNonEdges b).filterMap (mapPair atoms (members atoms k) b))

/-! ### distance criterion (`_bonds_from_distance`) -/

def radiusOf (tbl : List (String × Nat)) : Option String → Option Nat
  | none => none
  | some e => (tbl.find? (fun r => r.1 == e)).map (·.2)

def sq (a : Int) : Nat := a.natAbs * a.natAbs

/-- squared distance in (1e-4 nm)² -/
def dist2 (a b : Atom) : Nat := sq (a.x - b.x) + sq (a.y - b.y) + sq (a.z - b.z)

def isH (a : Atom) : Bool := a.element == some "H"

/-- `d ≤ 0.5 * (ra + rb) * p / q` with `d² = d2` (1e-4 nm)² and radii in 1e-3 nm -/
def within (p q ra rb d2 : Nat) : Bool :=
  decide (4 * (q * q) * d2 ≤ 100 * (p * p) * ((ra + rb) * (ra + rb)))

/-- the per-pair tests of the loop body, except `graph.has_edge` -/
def crit (S : Sys) (NE : List Edge) (u v : Nat) : Bool :=
  match radiusOf S.radii (atomAt S.atoms u).element, radiusOf S.radii (atomAt S.atoms v).element with
  | some ra, some rb =>
    !(has NE u v)
    && !(isH (atomAt S.atoms u) && isH (atomAt S.atoms v))
    && !(serial S.atoms u != serial S.atoms v && (isH (atomAt S.atoms u) || isH (atomAt S.atoms v)))
    && within S.p S.q ra rb (dist2 (atomAt S.atoms u) (atomAt S.atoms v))
  | _, _ => false

/-- nodes handed to the KD-tree -/
def eligible (S : Sys) (inN : Nat → Bool) (i : Nat) : Bool :=
  inN i && (radiusOf S.radii (atomAt S.atoms i).element).isSome

/-- `max(VDW_RADII[element])` over the eligible nodes (0 when there are none) -/
def maxRadius (S : Sys) (inN : Nat → Bool) : Nat :=
  ((List.range S.atoms.length).filter (eligible S inN)).foldl
    (fun m i => max m ((radiusOf S.radii (atomAt S.atoms i).element).getD 0)) 0

/-- the KD-tree query: `dist ≤ max_radius * fudge` -/
def inCut (S : Sys) (inN : Nat → Bool) (u v : Nat) : Bool :=
  within S.p S.q (maxRadius S inN) (maxRadius S inN) (dist2 (atomAt S.atoms u) (atomAt S.atoms v))

/-- edges added by one call of `_bonds_from_distance(graph, nodes, non_edges, fudge)`;
`bonded` = `graph.has_edge` at the time of the call -/
def distPass (S : Sys) (inN : Nat → Bool) (NE : List Edge) (bonded : Nat → Nat → Bool) : List Edge :=
  (allPairs S.atoms.length).filter fun e =>
    eligible S inN e.1 && eligible S inN e.2 && inCut S inN e.1 e.2
      && crit S NE e.1 e.2 && !(bonded e.1 e.2)

/-! ### the loop over residues and the final pass (`make_bonds`) -/

structure St where
  nameE : List Edge     -- edges added by name
  fbE : List Edge       -- edges added by the per-residue distance fall-back
  NE : List Edge        -- accumulated non-edges
  deriving Repr

def bondedIn (S : Sys) (st : St) (u v : Nat) : Bool :=
  has S.pre u v || has st.nameE u v || has st.fbE u v

def stepRes (S : Sys) (st : St) (k : ResKey) : St :=
  if S.allowName then
    match namePass S.atoms S.ff k with
    | some r => { st with nameE := st.nameE ++ r.1, NE := st.NE ++ r.2 }
    | none =>
      if S.allowDist then
        { st with fbE := st.fbE ++ distPass S (fun i => keyAt S.atoms i == k) [] (bondedIn S st) }
      else st
  else st

def loopRes (S : Sys) : St := (resKeys S.atoms).foldl (stepRes S) ⟨[], [], []⟩

def finalPass (S : Sys) (st : St) : List Edge :=
  if S.allowDist then distPass S (fun _ => true) st.NE (bondedIn S st) else []

/-! ### split into molecules

`partition_graph` + `connected_components` + union of the residues' atoms is modelled at the
level of its specification: start from the residue groups and, for every edge, merge the
groups that contain its end points.  (`split_partition`, `edges_inside`, `residue_whole`,
`split_connected` together characterise the result as the connected components of the
residue graph.) -/

def touches (u v : Nat) (p : List Nat) : Bool := p.contains u || p.contains v

def merge (ps : List (List Nat)) (u v : Nat) : List (List Nat) :=
  match ps.filter (touches u v) with
  | [] => ps
  | hit => hit.flatten :: ps.filter (fun p => !(touches u v p))

def split (groups : List (List Nat)) (E : List Edge) : List (List Nat) :=
  E.foldl (fun ps e => merge ps e.1 e.2) groups

structure Result where
  nameE : List Edge
  distE : List Edge
  NE : List Edge
  mols : List (List Nat)
  deriving Repr

def allEdges (S : Sys) (nameE distE : List Edge) : List Edge := S.pre ++ nameE ++ distE

def run (S : Sys) : Result :=
  let st := loopRes S
  let distE := st.fbE ++ finalPass S st
  { nameE := st.nameE, distE := distE, NE := st.NE,
    mols := split ((resKeys S.atoms).map (members S.atoms)) (allEdges S st.nameE distE) }

/-- final graph: is there an edge `u - v` -/
def Result.bonded (S : Sys) (R : Result) (u v : Nat) : Bool :=
  has S.pre u v || has R.nameE u v || has R.distE u v

/-- does the edge carry a `distance` attribute -/
def Result.hasDistance (R : Result) (u v : Nat) : Bool := has R.nameE u v || has R.distE u v

/-! ### the input: molecules that may have been through `make_bonds` before

`make_bonds` starts with `nx.set_node_attributes(molecule, mol_idx, 'mol_idx')` for every
input molecule (position in `system.molecules`) and `nx.disjoint_union_all`.  Nodes of an
input molecule may still carry the private attributes `mol_idx` and `_res_serial` of an
earlier run (the returned molecules keep them); both are overwritten before they are read. -/

structure InAtom where
  staleMol : Option Nat        -- 'mol_idx' left by an earlier run
  staleSerial : Option Nat     -- '_res_serial' left by an earlier run
  chain : Option String
  resid : Option Int
  resname : Option String
  icode : Option String
  name : Option String
  element : Option String
  x : Int
  y : Int
  z : Int
  nameNone : Bool := false
  hasPos : Bool := true
  deriving Repr, DecidableEq, Inhabited

structure InMol where
  atoms : List InAtom
  edges : List Edge            -- on positions in `atoms`
  deriving Repr, DecidableEq, Inhabited

/-- `set_node_attributes(molecule, mol_idx, 'mol_idx')`: the index of the input molecule
replaces whatever was there; `_res_serial` is assigned afresh by the loop over residues. -/
def InAtom.label (i : Nat) (a : InAtom) : Atom :=
  { mol := i, chain := a.chain, resid := a.resid, resname := a.resname, icode := a.icode,
    name := a.name, element := a.element, x := a.x, y := a.y, z := a.z,
    nameNone := a.nameNone, hasPos := a.hasPos }

/-- `disjoint_union_all`: molecule number `i`, first new node key `off` -/
def unionFrom : Nat → Nat → List InMol → List Atom × List Edge
  | _, _, [] => ([], [])
  | i, off, m :: ms =>
    let r := unionFrom (i + 1) (off + m.atoms.length) ms
    (m.atoms.map (InAtom.label i) ++ r.1, m.edges.map (fun e => (e.1 + off, e.2 + off)) ++ r.2)

def sysOf (ms : List InMol) (ff : FF) (radii : List (String × Nat)) (allowName allowDist : Bool)
    (p q : Nat) : Sys :=
  { atoms := (unionFrom 0 0 ms).1, pre := (unionFrom 0 0 ms).2, ff := ff, radii := radii,
    allowName := allowName, allowDist := allowDist, p := p, q := q }

/-- forget what earlier runs left on the nodes -/
def InAtom.erase (a : InAtom) : InAtom := { a with staleMol := none, staleSerial := none }
def InMol.erase (m : InMol) : InMol := { m with atoms := m.atoms.map InAtom.erase }

end C10
