/-
Line protocol shared by all drivers.

request  := token (' ' token)*
token    := int | '-' | 'x' hex* | '[' | ']'
A request line is parsed into a list of `Tok` trees.  Responses are built
with the `enc*` helpers below and are compared *as strings* with what the
Python harness derives from the real code, so every encoder is canonical.
-/
namespace Proto

inductive Tok where
  | int (i : Int)
  | none
  | str (s : String)
  | list (l : List Tok)
  deriving Repr, Inhabited, BEq

def hexVal (c : Char) : Option Nat :=
  if '0' ≤ c ∧ c ≤ '9' then some (c.toNat - '0'.toNat)
  else if 'a' ≤ c ∧ c ≤ 'f' then some (c.toNat - 'a'.toNat + 10)
  else none

def hexDecodeBytes : List Char → Option (List UInt8)
  | [] => some []
  | [_] => Option.none
  | a :: b :: rest => do
      let x ← hexVal a
      let y ← hexVal b
      let r ← hexDecodeBytes rest
      pure (UInt8.ofNat (x * 16 + y) :: r)

def hexDecode (cs : List Char) : Option String := do
  let bs ← hexDecodeBytes cs
  String.fromUTF8? (ByteArray.mk bs.toArray)

def hexDigit (n : Nat) : Char :=
  if n < 10 then Char.ofNat ('0'.toNat + n) else Char.ofNat ('a'.toNat + n - 10)

def hexEncode (s : String) : String :=
  String.ofList (s.toUTF8.toList.flatMap fun b => [hexDigit (b.toNat / 16), hexDigit (b.toNat % 16)])

/-- raw tokens -/
inductive Raw where
  | atom (t : Tok)
  | lb
  | rb
  deriving Inhabited

def parseIntChars (cs : List Char) : Option Int :=
  match cs with
  | '-' :: ds => if ds.isEmpty then Option.none else (String.ofList ds).toNat?.map fun n => - (Int.ofNat n)
  | ds => (String.ofList ds).toNat?.map Int.ofNat

def rawOf (w : String) : Option Raw :=
  match w.toList with
  | ['['] => some Raw.lb
  | [']'] => some Raw.rb
  | ['-'] => some (Raw.atom Tok.none)
  | 'x' :: cs => (hexDecode cs).map fun s => Raw.atom (Tok.str s)
  | cs => (parseIntChars cs).map fun i => Raw.atom (Tok.int i)

/-- Parse raw tokens with an explicit stack of open lists (innermost first,
each in reverse order). -/
def build : List Raw → List (List Tok) → Option (List Tok)
  | [], [top] => some top.reverse
  | [], _ => Option.none
  | Raw.atom t :: rest, top :: stack => build rest ((t :: top) :: stack)
  | Raw.lb :: rest, stack => build rest ([] :: stack)
  | Raw.rb :: rest, top :: next :: stack => build rest ((Tok.list top.reverse :: next) :: stack)
  | _, _ => Option.none

def splitSpaces (s : String) : List String :=
  (s.splitOn " ").filter fun w => w ≠ ""

def parseLine (line : String) : Option (List Tok) := do
  let ws := splitSpaces line
  let raws ← ws.mapM rawOf
  build raws [[]]

/- encoders -/
def encInt (i : Int) : String := toString i
def encNat (n : Nat) : String := toString n
def encStr (s : String) : String := "x" ++ hexEncode s
def encList (l : List String) : String :=
  if l.isEmpty then "[ ]" else "[ " ++ " ".intercalate l ++ " ]"
def encOptInt : Option Int → String
  | some i => encInt i
  | Option.none => "-"
def encOptStr : Option String → String
  | some s => encStr s
  | Option.none => "-"
def encBool (b : Bool) : String := if b then "1" else "0"

/- accessors used by drivers -/
def Tok.int? : Tok → Option Int
  | Tok.int i => some i
  | _ => Option.none
def Tok.nat? : Tok → Option Nat
  | Tok.int i => if i < 0 then Option.none else some i.toNat
  | _ => Option.none
def Tok.str? : Tok → Option String
  | Tok.str s => some s
  | _ => Option.none
def Tok.list? : Tok → Option (List Tok)
  | Tok.list l => some l
  | _ => Option.none
def Tok.optInt? : Tok → Option (Option Int)
  | Tok.int i => some (some i)
  | Tok.none => some Option.none
  | _ => Option.none
def Tok.optStr? : Tok → Option (Option String)
  | Tok.str s => some (some s)
  | Tok.none => some Option.none
  | _ => Option.none

def ints? (t : Tok) : Option (List Int) := do
  let l ← t.list?
  l.mapM Tok.int?
def nats? (t : Tok) : Option (List Nat) := do
  let l ← t.list?
  l.mapM Tok.nat?
def strs? (t : Tok) : Option (List String) := do
  let l ← t.list?
  l.mapM Tok.str?

/-- Generic driver loop: one response line per request line. -/
partial def loop (h : IO.FS.Stream) (out : IO.FS.Stream) (f : σ → List Tok → σ × String) (st : σ) : IO Unit := do
  let line ← h.getLine
  if line.isEmpty then
    out.flush
    return ()
  let l := String.ofList ((line.toList.reverse.dropWhile fun c => c = '\n' ∨ c = '\r').reverse)
  match parseLine l with
  | some toks =>
      let (st', r) := f st toks
      out.putStrLn r
      loop h out f st'
  | Option.none =>
      out.putStrLn "bad-line"
      loop h out f st

def runDriver (f : σ → List Tok → σ × String) (init : σ) : IO Unit := do
  let i ← IO.getStdin
  let o ← IO.getStdout
  loop i o f init

end Proto
