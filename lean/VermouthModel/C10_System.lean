import VermouthModel.C10_Search
/-
C10 — `MakeBonds.run_system` as a whole: the early return, the one exception the code can raise
on atoms that lack an attribute, the ORDER in which molecules and their atoms are returned, and
the value of the `distance` edge attribute.

    def run_system(self, system):
        if not system.molecules:
            return                                   -- `Outcome.unchanged`
        mols = make_bonds(system, allow_name=..., allow_dist=..., fudge=...)
        system.molecules = mols

There is NO early return on the modes: with `allow_name = allow_dist = False` the system is still
re-split along the residue graph (`runSystem` goes through `runX` for all four combinations).

Attributes an atom may lack (`dict.get` → `None`, same as an explicit `None`): chain, resid,
resname, insertion_code (part of the residue key), element (no radius: never handed to the
KD-tree), atomname (`'atomname' in node` is False: skipped by `_bonds_from_names`; an attribute
that is there with value `None` is a key of `mol_name_to_idx`, two of them are a duplicated
name).  `position` is the only attribute whose absence raises: `_bonds_from_distance` builds
`positions` from `graph.nodes[node]['position']` for every node it hands to the KD-tree, so with
distance mode on a KeyError leaves `make_bonds` iff some atom with a known radius has no position
(the per-residue fall-back looks at a subset of the atoms the final pass looks at).
`_bonds_from_names` uses `.get('position', nan)`: the bond is made and carries `distance = nan`.
-/
namespace C10

/-! ### outcome of `run_system` -/

inductive Outcome where
  | unchanged                       -- `not system.molecules`: nothing is touched
  | keyErrorPosition                -- KeyError('position') out of `_bonds_from_distance`
  | ok (S : Sys) (R : Result)

/-- some atom that would be handed to the KD-tree has no position -/
def needsMissingPosition (S : Sys) : Bool :=
  S.allowDist && (List.range S.atoms.length).any fun i =>
    (radiusOf S.radii (atomAt S.atoms i).element).isSome && !(atomAt S.atoms i).hasPos

def runSystem (sp : SearchSpec) (ms : List InMol) (ff : FF) (radii : List (String × Nat))
    (allowName allowDist : Bool) (p q : Nat) : Outcome :=
  if ms.isEmpty then Outcome.unchanged
  else
    let S := sysOf ms ff radii allowName allowDist p q
    if needsMissingPosition S then Outcome.keyErrorPosition else Outcome.ok S (runX sp S)

/-! ### order of the returned molecules and of the atoms inside them

`partition_graph` sorts the residue groups by their smallest node key and numbers them in that
order; `nx.connected_components` walks the residue graph in node order and yields the component of
every node not seen before.  So molecules come out in the order of their smallest node key.

Inside a molecule: the union graph is itself a `Molecule` (`disjoint_union_all` builds an object of
the class of its first argument), so `system.subgraph(node_idxs)` is `Molecule.subgraph`, which
adds the nodes in the iteration order of `node_idxs` - a CPython `set` of ints.  That order is a
function of the hash table (for 17 atoms with keys 16..32 it starts with 32), not of anything
vermouth specifies; the model lists the atoms of a molecule in ascending node key and the harness
compares the atoms of each molecule as a set (and counts how often the real order is not
ascending). -/

/-- the molecule that contains atom `i` -/
def molOf (mols : List (List Nat)) (i : Nat) : List Nat := (mols.find? (·.contains i)).getD []

/-- no smaller atom is in `m` -/
def isFirstOf (m : List Nat) (i : Nat) : Bool := (List.range i).all fun j => !(m.contains j)

/-- molecules in the order they are returned, each with its atoms in ascending node key -/
def orderedMols (n : Nat) (mols : List (List Nat)) : List (List Nat) :=
  (List.range n).filterMap fun i =>
    let m := molOf mols i
    if m.contains i && isFirstOf m i then some ((List.range n).filter m.contains) else none

/-! ### the `distance` attribute of an edge -/

inductive DAttr where
  | absent                 -- the edge has no 'distance'
  | nan                    -- a position was missing
  | sq (d2 : Nat)          -- the float whose square is `d2` (1e-4 nm)², up to rounding
  deriving Repr, DecidableEq, Inhabited

/-- what `np.sqrt(np.sum((pos1 - pos2)**2))` / the KD-tree give for the pair -/
def geomAttr (S : Sys) (u v : Nat) : DAttr :=
  if (atomAt S.atoms u).hasPos && (atomAt S.atoms v).hasPos then
    DAttr.sq (dist2 (atomAt S.atoms u) (atomAt S.atoms v))
  else DAttr.nan

/-- `pre u v` : the attribute the edge had on input.  `add_edge(..., distance=dist)` of the name
pass overwrites it; the distance pass only touches pairs without an edge. -/
def distanceAttr (S : Sys) (R : Result) (pre : Nat → Nat → DAttr) (u v : Nat) : DAttr :=
  if has R.nameE u v || has R.distE u v then geomAttr S u v else pre u v

end C10
