import VermouthModel.C04
/-!
# C19 (last clause) — the reference residue built from the requests

Model of `_get_reference_residue` and `_patch_modification` of
`vermouth/processors/repair_graph.py` (with the fix for F-C19-2: a mutated residue's reference
atoms all carry the new residue name), on top of the C04 model of `repair_residue` /
`repair_graph` GIVEN the reference (`VermouthModel/C04.lean`: `repairResidue`, `flagExtra`).

Encoding (that of C04): a block / modification is a `C04.Block`; block atoms are keyed by their
index in node order (`nx.convert_node_labels_to_integers`), `name` = atomname, `ptm` = `PTM_atom`.
In a modification `ptm = some true` marks the atoms the modification ADDS, every other atom is an
anchor.  Attribute values are `repr` strings (`'GLY'`, `['N-ter']`).

Not transcribed: the ISMAGS search that overlays the anchor on the block.  Atom names are unique
in blocks and modifications, and the search uses `node_match = equal atomname`, so the overlay is
"anchor ↦ the block atom of the same name"; the model takes that, fails (`doesNotFit`, the code's
ValueError) when an anchor has no namesake, and does not check that the anchor's own bonds exist
in the block.  The order in which the added atoms are numbered follows the modification's node
order (the code iterates a `set`; only the numbering of the new atoms could differ, which the
comparison in the harness ignores).  The `modifications` attribute (list of Modification objects
used by CanonicalizeModifications) does not cross the boundary.
-/
namespace C19.Repair
open C04

structure FF where
  blocks : List (String × C04.Block)
  mods   : List (String × C04.Block)
  deriving Repr, Inhabited

inductive RefErr where
  | mutateTwice                          -- ValueError 'Can only mutate residue ... once'
  | unknownBlock (n : String)            -- KeyError from force_field.reference_graphs
  | unknownModification (n : String)     -- KeyError from force_field.modifications
  | doesNotFit (n : String)              -- ValueError 'Cannot apply modification to block'
  deriving Repr, DecidableEq, Inhabited

/-- atoms a modification adds (`PTM_atom` true); the others are its anchor -/
def isNew (a : C04.Atom) : Bool := a.ptm == some true

def newAtoms (md : C04.Block) : List C04.Atom := md.nodes.filter isNew
def anchors (md : C04.Block) : List C04.Atom := md.nodes.filter fun a => !isNew a

def findByName (b : C04.Block) (n : String) : Option C04.Atom := b.nodes.find? fun a => a.name == n

/-- anchor atom ↦ block atom of the same name -/
def anchorMap (b md : C04.Block) : Option (List (Int × Int)) :=
  (anchors md).mapM fun a => (findByName b a.name).map fun t => (a.key, t.key)

/-- the added atoms, renumbered `len(block), len(block)+1, …` (`nx.disjoint_union`) -/
def renumber (n : Nat) : List C04.Atom → List C04.Atom
  | [] => []
  | a :: rest => { a with key := (n : Int) } :: renumber (n + 1) rest

def newMap (n : Nat) : List C04.Atom → List (Int × Int)
  | [] => []
  | a :: rest => (a.key, (n : Int)) :: newMap (n + 1) rest

def isNewKey (md : C04.Block) (k : Int) : Bool := (newAtoms md).any fun a => a.key == k

/-- edges the patched block gains: those inside the added part (kept by `disjoint_union`) and
those between anchor and added part (`edges_between`); bonds inside the anchor are not copied -/
def patchEdges (md : C04.Block) (toB : List (Int × Int)) : List (Int × Int) :=
  md.edges.filterMap fun e =>
    if isNewKey md e.1 || isNewKey md e.2 then
      match toB.lookup e.1, toB.lookup e.2 with
      | some u, some v => some (u, v)
      | _, _ => none
    else none

/-- `_patch_modification` -/
def patchModification (b md : C04.Block) : Option C04.Block :=
  match anchorMap b md with
  | none => none
  | some am =>
    let n := b.nodes.length
    some { nodes := b.nodes ++ renumber n (newAtoms md),
           edges := b.edges ++ patchEdges md (am ++ newMap n (newAtoms md)) }

/-- `repr` of a plain string / of a list of plain strings -/
def pyStr (s : String) : String := "'" ++ s ++ "'"
def pyList (l : List String) : String := "[" ++ ", ".intercalate (l.map pyStr) ++ "]"

def setAll (b : C04.Block) (k v : String) : C04.Block :=
  { b with nodes := b.nodes.map fun a => { a with attrs := setAttr a.attrs k v } }

/-- the loop `for mod_name in modifications` -/
def applyMods (ff : FF) : List String → C04.Block → Except RefErr C04.Block
  | [], b => .ok b
  | n :: rest, b =>
    if n = "none" then applyMods ff rest b
    else match ff.mods.lookup n with
      | none => .error (.unknownModification n)
      | some md =>
        match patchModification b md with
        | none => .error (.doesNotFit n)
        | some b' => applyMods ff rest b'

/-- `dict.fromkeys(modifications)` (fix d4639ea, finding F-C19-5): first occurrences, in order -/
def dedupAux (seen : List String) : List String → List String
  | [] => []
  | x :: xs => if seen.contains x then dedupAux seen xs else x :: dedupAux (x :: seen) xs

def dedupReq (l : List String) : List String := dedupAux [] l

/-- the residue name whose block is used: the requested mutation, else the residue's own name -/
def targetName (resname : String) : Option (List String) → Except RefErr String
  | none => .ok resname
  | some [] => .ok resname               -- not produced by AnnotateMutMod (the code would raise IndexError)
  | some (t :: rest) => if rest.all (· == t) then .ok t else .error .mutateTwice

/-- `_get_reference_residue`; `renameAll` = the fix for F-C19-2 (false: the behaviour before it).
A modification requested twice is applied once (`dict.fromkeys`); the `modification` attribute
written on the atoms is the full request list. -/
def getReferenceGen (renameAll : Bool) (ff : FF) (resname : String) (mutation modification : Option (List String)) :
    Except RefErr C04.Block :=
  match targetName resname mutation with
  | .error e => .error e
  | .ok name =>
    match ff.blocks.lookup name with
    | none => .error (.unknownBlock name)
    | some b0 =>
      match applyMods ff (dedupReq (modification.getD [])) b0 with
      | .error e => .error e
      | .ok b1 =>
        let b2 := match modification with
          | some ms => setAll b1 "modification" (pyList ms)
          | none => b1
        match mutation with
        | some (_ :: _) =>
          let b3 := setAll b2 "mutation" (pyStr name)
          .ok (if renameAll then setAll b3 "resname" (pyStr name) else b3)
        | _ => .ok b2

def getReference := getReferenceGen true

/-- the behaviour before fix d4639ea (finding F-C19-5): every entry of the request list is patched
in, equal ones again and again -/
def getReferenceNoDedup (ff : FF) (resname : String) (mutation modification : Option (List String)) :
    Except RefErr C04.Block :=
  match targetName resname mutation with
  | .error e => .error e
  | .ok name =>
    match ff.blocks.lookup name with
    | none => .error (.unknownBlock name)
    | some b0 =>
      match applyMods ff (modification.getD []) b0 with
      | .error e => .error e
      | .ok b1 =>
        let b2 := match modification with
          | some ms => setAll b1 "modification" (pyList ms)
          | none => b1
        match mutation with
        | some (_ :: _) => .ok (setAll (setAll b2 "mutation" (pyStr name)) "resname" (pyStr name))
        | _ => .ok b2

/-- the node of the reference graph for a residue whose atoms `found` were matched by `M` -/
def residueOf (ref : C04.Block) (found : List Int) (M : Iso.Map) (common : Attrs) : C04.Residue :=
  { block := ref, found := found, mtch := M, common := common }

/-- atoms of the residue after the repair: what was found and survived, plus what was rebuilt -/
def residueAtoms (R : C04.Residue) (o : C04.Outcome) : List C04.Atom :=
  o.mol.nodes.filter fun a => R.found.contains a.key || (ran o.mtch).contains a.key

end C19.Repair
