/-
# Iso — finite graphs, the reference matcher, symmetry classes, maximum common induced subgraphs

SHARED library (DESIGN 4.1), used by C06 directly and by C05/C14/C04/C01 for
link / mapping / PTM matching.  Core Lean only (drivers link natively).  The
theorems about everything below are in `VermouthProofs/Iso.lean`.

This is a *reference* (a specification made executable), NOT a transcription of
ISMAGS or VF2: a plain backtracking enumerator in pattern-node order that
prunes as soon as a newly assigned pair conflicts with an earlier one.

## API

Data
* `Graph`            : `nodes : List (key × colour)`, `edges : List (u × v × colour)`; keys and
                       colours are `Int`, any numbering.  An edge entry is read in both directions.
                       Simple graphs (self loops are ignored by every statement).
* `Graph.keys g`, `Graph.ncol g u : Option Int`, `Graph.ecol g u v : Option Int`
                       (`none` = no such node / not adjacent; `ecol` is symmetric by construction).
* `Map`              : `List (patternNode × targetNode)`, listed in pattern-node order.
                       `Map.toFun m` is the function it denotes (identity off its domain).
* `NodePred`         : `patternNode → targetNode → Bool`.  `colourPred g sg` = "same node colour".

Matching (pattern `sg` into target `g`; induced; edge colours must agree)
* `IsIndIsoOn g sg pred S f`  declarative spec on the pattern nodes `S`: `f` maps `S` into `g.keys`,
                       `pred u (f u)`, distinct nodes to distinct nodes, and
                       `g.ecol (f u) (f v) = sg.ecol u v` for distinct `u v ∈ S` (so non-edges go to non-edges).
* `IsIndIsoP g sg pred f := IsIndIsoOn g sg pred sg.keys f`;  `IsIndIso g sg f` = the same with `colourPred`.
* `allIsosP g sg pred : List Map`, `allIsos g sg`   every induced subgraph isomorphism, once
                       (theorems `allIsosP_sound/complete/nodup`, `allIsos_sound/complete/nodup`).
* lower level, for callers with their own edge condition: `Problem` (pattern nodes, target
  nodes, `npred`, `epred`), `extend`, `allMaps`, spec `IsMatch` (`mem_extend_iff`, `mem_allMaps_iff`).

Symmetry
* `auts sg := allIsos sg sg`;  `compose keys m a` = `m ∘ a` as a `Map` (also for partial `m`);
* `AutEquiv sg m m'` : `∃ a ∈ auts sg, m' = compose sg.keys m a`;  `autEquivB` decides it;
* `oneRepPerClass sg out full : Bool`   the checker "exactly one representative per class"
                       (`oneRepPerClass_iff`; that `AutEquiv` is an equivalence: `autEquiv_equivalence`);
* `coversUpToAut sg out full : Bool`    `out ⊆ full` and every member of `full` is equivalent to a member of `out`;
* `classReps sg full`  greedy list of class representatives (for counting classes).

Maximum common induced subgraph (partial maps = `Map`s whose domain is a sublist of the pattern nodes)
* `mcisSizeP P`, `allMCISP P` on a `Problem`;  `mcisSize g sg`, `allMCIS g sg` with colours;
  spec `IsCommon P m`  (`allMCIS_sound`, `allMCIS_max`, `allMCIS_complete`).

Theorems (all in `VermouthProofs/Iso.lean`, namespace `Iso`, core Lean only, no hypotheses other
than `Nodup` of node keys):
* `mem_extend_iff`, `mem_allMaps_iff`  : `m ∈ extend P ps [] ↔ IsMatch P ps m`;  `extend_nodup`, `allMaps_nodup`;
* `mem_isosOn_iff`   : on a node list `S`: `m ∈ isosOn (graphProblem g sg pred) S ↔ dom m = S ∧ IsIndIsoOn g sg pred S m.toFun`;
* `mem_allIsosP_iff`, `allIsosP_sound`, `allIsosP_complete`, `allIsosP_nodup` (colour versions restated in `VermouthProps/C06.lean`);
* `ecol_comm`, `ecol_isSome_iff`, `ncol_isSome_iff`  : reading of the encoding;
* `oneRepPerClass_iff`, `coversUpToAut_iff`, `autEquivB_iff`  : the checkers against `AutEquiv`;
* `autEquiv_equivalence` (reflexive / symmetric / transitive; `isAut_id`, `isAut_comp`, `isAut_inv`),
  `classReps_accepted` (the greedy representatives pass the checker);
* `mem_allMCISP_iff`, `allMCISP_sound`, `allMCISP_max`, `allMCISP_complete`, `allMCISP_ne_nil`, `allMCISP_nodup`.

Cost: exponential; meant for patterns of ≤ ~10 nodes.  Callers should list the
pattern nodes in an order in which every node is adjacent to an earlier one
(the theorems hold for any order; pruning is much better for such an order).
-/
namespace Iso

structure Graph where
  nodes : List (Int × Int)
  edges : List (Int × Int × Int)
  deriving Repr, DecidableEq, Inhabited

def Graph.keys (g : Graph) : List Int := g.nodes.map Prod.fst

def Graph.ncol (g : Graph) (u : Int) : Option Int := g.nodes.lookup u

/-- does the edge entry `e` join `u` and `v` (in either direction)? -/
def joins (u v : Int) (e : Int × Int × Int) : Bool :=
  (e.1 == u && e.2.1 == v) || (e.1 == v && e.2.1 == u)

def Graph.ecol (g : Graph) (u v : Int) : Option Int :=
  (g.edges.find? (joins u v)).map (fun e => e.2.2)

abbrev Map := List (Int × Int)

def Map.toFun (m : Map) (u : Int) : Int := (m.lookup u).getD u

abbrev NodePred := Int → Int → Bool

/-! ### the generic enumerator -/

structure Problem where
  pnodes : List Int
  tnodes : List Int
  /-- may pattern node `p` be mapped on target node `t`? -/
  npred : Int → Int → Bool
  /-- `epred p q s t`: may the pattern pair `(p, q)` be mapped on the target pair `(s, t)`? -/
  epred : Int → Int → Int → Int → Bool

/-- the new pair `(p, t)` is acceptable against everything assigned before -/
def okNew (P : Problem) (acc : Map) (p t : Int) : Bool :=
  P.npred p t && acc.all (fun qs => qs.2 != t && P.epred qs.1 p qs.2 t)

/-- All ways to map the pattern nodes `ps` (in this order) given the pairs `acc` assigned before;
only the new pairs are returned. -/
def extend (P : Problem) : List Int → Map → List Map
  | [], _ => [[]]
  | p :: ps, acc =>
    (P.tnodes.filter (okNew P acc p)).flatMap fun t =>
      (extend P ps ((p, t) :: acc)).map ((p, t) :: ·)

def allMaps (P : Problem) : List Map := extend P P.pnodes []

/-- relation required between an earlier pair `a` and a later pair `b` of a map -/
def pairRel (P : Problem) (a b : Int × Int) : Prop :=
  a.2 ≠ b.2 ∧ P.epred a.1 b.1 a.2 b.2 = true

/-- declarative: `m` maps exactly the pattern nodes `ps`, every pair is node-compatible and
every two pairs are compatible -/
structure IsMatch (P : Problem) (ps : List Int) (m : Map) : Prop where
  dom : m.map Prod.fst = ps
  node : ∀ x ∈ m, x.2 ∈ P.tnodes ∧ P.npred x.1 x.2 = true
  pair : m.Pairwise (pairRel P)

/-! ### graphs -/

def colourPred (g sg : Graph) : NodePred := fun p t => g.ncol t == sg.ncol p

def graphProblem (g sg : Graph) (pred : NodePred) : Problem :=
  { pnodes := sg.keys, tnodes := g.keys, npred := pred,
    epred := fun p q s t => g.ecol s t == sg.ecol p q }

structure IsIndIsoOn (g sg : Graph) (pred : NodePred) (S : List Int) (f : Int → Int) : Prop where
  node : ∀ u ∈ S, f u ∈ g.keys ∧ pred u (f u) = true
  inj : ∀ u ∈ S, ∀ v ∈ S, u ≠ v → f u ≠ f v
  edge : ∀ u ∈ S, ∀ v ∈ S, u ≠ v → g.ecol (f u) (f v) = sg.ecol u v

def IsIndIsoP (g sg : Graph) (pred : NodePred) (f : Int → Int) : Prop :=
  IsIndIsoOn g sg pred sg.keys f

def IsIndIso (g sg : Graph) (f : Int → Int) : Prop := IsIndIsoP g sg (colourPred g sg) f

def allIsosP (g sg : Graph) (pred : NodePred) : List Map := allMaps (graphProblem g sg pred)

def allIsos (g sg : Graph) : List Map := allIsosP g sg (colourPred g sg)

/-! ### symmetry classes -/

def auts (sg : Graph) : List Map := allIsos sg sg

/-- `m ∘ a` on the nodes `keys` (pairs whose image is undefined are dropped, so this also
serves partial maps `m`) -/
def compose (keys : List Int) (m a : Map) : Map :=
  keys.filterMap fun u => (a.lookup u).bind fun au => (m.lookup au).map fun t => (u, t)

def AutEquiv (sg : Graph) (m m' : Map) : Prop := ∃ a ∈ auts sg, m' = compose sg.keys m a

def autEquivWith (A : List Map) (keys : List Int) (m m' : Map) : Bool :=
  A.any fun a => compose keys m a == m'

def autEquivB (sg : Graph) (m m' : Map) : Bool := autEquivWith (auts sg) sg.keys m m'

def pairwiseB (r : α → α → Bool) : List α → Bool
  | [] => true
  | a :: l => l.all (r a) && pairwiseB r l

/-- `out` has exactly one representative of every symmetry class of `full` -/
def oneRepPerClass (sg : Graph) (out full : List Map) : Bool :=
  let A := auts sg
  let eq := autEquivWith A sg.keys
  out.all (fun m => full.contains m)
    && pairwiseB (fun m m' => m != m' && !(eq m m') && !(eq m' m)) out
    && full.all (fun f => out.any (fun m => eq m f))

def coversUpToAut (sg : Graph) (out full : List Map) : Bool :=
  let A := auts sg
  out.all (fun m => full.contains m)
    && full.all (fun f => out.any (fun m => autEquivWith A sg.keys m f))

def classRepsWith (A : List Map) (keys : List Int) : List Map → List Map → List Map
  | [], reps => reps.reverse
  | f :: rest, reps =>
    if reps.any (fun r => autEquivWith A keys r f) then classRepsWith A keys rest reps
    else classRepsWith A keys rest (f :: reps)

def classReps (sg : Graph) (full : List Map) : List Map := classRepsWith (auts sg) sg.keys full []

/-! ### maximum common induced subgraphs -/

def subsOfSize : Nat → List α → List (List α)
  | 0, _ => [[]]
  | _ + 1, [] => []
  | k + 1, a :: l => (subsOfSize k l).map (a :: ·) ++ subsOfSize (k + 1) l

def isosOn (P : Problem) (S : List Int) : List Map := extend P S []

def hasCommon (P : Problem) (k : Nat) : Bool :=
  (subsOfSize k P.pnodes).any fun S => !(isosOn P S).isEmpty

/-- the largest `k ≤ n` with `f k`, or 0 -/
def searchDown (f : Nat → Bool) : Nat → Nat
  | 0 => 0
  | k + 1 => if f (k + 1) then k + 1 else searchDown f k

def mcisSizeP (P : Problem) : Nat := searchDown (hasCommon P) P.pnodes.length

def allMCISP (P : Problem) : List Map := (subsOfSize (mcisSizeP P) P.pnodes).flatMap (isosOn P)

/-- `m` is a common induced subgraph: a match of a sublist of the pattern nodes -/
def IsCommon (P : Problem) (m : Map) : Prop :=
  (m.map Prod.fst).Sublist P.pnodes ∧ IsMatch P (m.map Prod.fst) m

def mcisSize (g sg : Graph) : Nat := mcisSizeP (graphProblem g sg (colourPred g sg))

def allMCIS (g sg : Graph) : List Map := allMCISP (graphProblem g sg (colourPred g sg))

end Iso
