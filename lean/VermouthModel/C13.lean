import VermouthModel.Proto
/-
C13 — model of the force-field / topology / mapping readers of vermouth
(`parser_utils.py`, `ffinput.py`, `gmx/itp_read.py`, `map_input.py`).

Layers (each is an executable transcription of the code that exists):

1. section dispatcher: `SectionLineParser.parse_header` (used by the `.mapping`
   reader), `FFDirector.parse_header/finalize_section/header_actions` and the
   `ITPDirector` analogue, generic in the per-line handlers;
2. `_tokenize` (brace counting);
3. `_split_node_key`, `_get_order_and_prefix_from_*`, `_treat_atom_prefix`;
4. `_some_atoms_left`, `_get_atoms`, the arity check of `_base_parser`;
5. `_compute_weights` of the backward-style `.map` reader (exact fractions);
6. `_substitute_macros`.

The whole-file reader assembled from these is in `C13_Reader.lean`.
-/
namespace C13

abbrev Path := List String

/-! ## 1. Section dispatcher -/

/-- A file after comment stripping: section headers (name already stripped of
`[ ]` and case-folded) and content lines. -/
inductive Line where
  | header (name : String)
  | content (text : String)
  deriving Repr, DecidableEq, Inhabited

/-- `while tuple(section) not in METH_DICT and len(section) > 1: section.pop(-2)`,
on the reversed prefix: `reduceRev T last revInit` is the reversed resulting path
of `revInit.reverse ++ [last]`. -/
def reduceRev (T : List Path) (last : String) : List String → List String
  | [] => [last]
  | r :: rest =>
    if T.contains ((last :: r :: rest).reverse) then last :: r :: rest
    else reduceRev T last rest

def reducePath (T : List Path) (sec : Path) (name : String) : Path :=
  (reduceRev T name sec.reverse).reverse

/-- the section path after a header, as computed by `FFDirector.parse_header` and
`ITPDirector.parse_header` (a known top-level name restarts the path). -/
def nextSec (T : List Path) (sec : Path) (name : String) : Path :=
  if T.contains [name] then [name] else reducePath T sec name

/-- the names popped by the loop (`ended`), in popping order -/
def endedRev (T : List Path) (last : String) : List String → List String
  | [] => []
  | r :: rest =>
    if T.contains ((last :: r :: rest).reverse) then []
    else r :: endedRev T last rest

inductive Kind where
  | block | link | modification | global
  deriving Repr, DecidableEq, Inhabited

/-- Everything the dispatcher is generic in: dispatch table (keys of `METH_DICT`),
the context a section path writes to (`context_type` keyword of the registered
method / the attribute the method uses), the per-line handlers (`none` = the
handler raised), fresh contexts and the name under which a context is registered. -/
structure Params (C G : Type) where
  T : List Path
  route : Path → Kind
  handle : Kind → Path → String → C → Option C
  /-- handler of context-free sections (`macros`, `variables`, `citations`); the
  Bool is `has_context()` -/
  handleG : Path → String → Bool → G → Option G
  fresh : Kind → C
  nameOf : C → Option String

structure St (C G : Type) where
  sec : Path := []
  blk : Option (Nat × C) := none
  lnk : Option (Nat × C) := none
  /-- `_link_pending`: the current link has not been registered yet -/
  pending : Bool := false
  mod : Option (Nat × C) := none
  blocks : List (Option String × (Nat × C)) := []
  links : List (Nat × C) := []
  mods : List (Option String × (Nat × C)) := []
  g : G

/-- `d[k] = v` on an insertion-ordered association list -/
def dictSet {K V : Type} [DecidableEq K] (d : List (K × V)) (k : K) (v : V) : List (K × V) :=
  match d with
  | [] => [(k, v)]
  | (k', v') :: rest => if k' = k then (k', v) :: rest else (k', v') :: dictSet rest k v

def dictOfList {K V : Type} [DecidableEq K] (l : List (K × V)) : List (K × V) :=
  l.foldl (fun d kv => dictSet d kv.1 kv.2) []

variable {C G : Type}

/-- `FFDirector.finalize_section(previous_section, _)` as repaired by the commits for
F-C13-1 and F-C13-2: the link context is registered iff it has not been registered yet. -/
def ffFinalize (P : Params C G) (s : St C G) (_prev : Path) : St C G :=
  let blocks := match s.blk with
    | some b => dictSet s.blocks (P.nameOf b.2) b
    | none => s.blocks
  let emit := s.lnk.isSome && s.pending
  let links := match s.lnk with
    | some l => if s.pending then s.links ++ [l] else s.links
    | none => s.links
  let mods := match s.mod with
    | some m => dictSet s.mods (P.nameOf m.2) m
    | none => s.mods
  { s with blocks := blocks, links := links, mods := mods, pending := if emit then false else s.pending }

/-- the first repair (F-C13-1 only): registration keyed on the name of the section that ended;
loses a link followed by a header outside the dispatch table (F-C13-2). Kept for the witness. -/
def ffFinalizeV1 (P : Params C G) (s : St C G) (prev : Path) : St C G :=
  let blocks := match s.blk with
    | some b => dictSet s.blocks (P.nameOf b.2) b
    | none => s.blocks
  let links := match s.lnk with
    | some l => if prev.take 1 = ["link"] then s.links ++ [l] else s.links
    | none => s.links
  let mods := match s.mod with
    | some m => dictSet s.mods (P.nameOf m.2) m
    | none => s.mods
  { s with blocks := blocks, links := links, mods := mods }

/-- the dispatcher before the repair of F-C13-1 (kept for the negation witness) -/
def ffFinalizeOld (P : Params C G) (s : St C G) (_prev : Path) : St C G :=
  let blocks := match s.blk with
    | some b => dictSet s.blocks (P.nameOf b.2) b
    | none => s.blocks
  let links := match s.lnk with
    | some l => s.links ++ [l]
    | none => s.links
  let mods := match s.mod with
    | some m => dictSet s.mods (P.nameOf m.2) m
    | none => s.mods
  { s with blocks := blocks, links := links, mods := mods }

/-- `header_actions.get(tuple(self.section))` -/
def ffAction (P : Params C G) (s : St C G) (i : Nat) : St C G :=
  if s.sec = ["moleculetype"] then { s with blk := some (i, P.fresh .block) }
  else if s.sec = ["link"] then { s with lnk := some (i, P.fresh .link), pending := true }
  else if s.sec = ["modification"] then { s with mod := some (i, P.fresh .modification) }
  else s

/-- `FFDirector.parse_header`; `i` = index of the header line -/
def ffHeaderWith (fin : Params C G → St C G → Path → St C G)
    (P : Params C G) (s : St C G) (i : Nat) (name : String) : St C G :=
  if P.T.contains [name] then
    let s1 := if s.sec = [] then s else fin P s s.sec
    ffAction P { s1 with sec := [name] } i
  else
    ffAction P { s with sec := reducePath P.T s.sec name } i

def hasContext (s : St C G) : Bool := s.blk.isSome || s.lnk.isSome || s.mod.isSome

/-- `SectionLineParser.parse_section` with the context selection of the registered method.
Macro substitution (`_substitute_macros(line, self.macros)`, which depends only on the
`[ macros ]` lines seen so far) is factored out into the pre-pass `expandMacros` below:
the dispatcher receives lines that are already substituted. -/
def ffContent (P : Params C G) (s : St C G) (t : String) : Option (St C G) :=
  if !P.T.contains s.sec then none
  else match P.route s.sec with
    | .global => (P.handleG s.sec t (hasContext s) s.g).map fun g' => { s with g := g' }
    | .block => match s.blk with
      | none => none
      | some (i, c) => (P.handle .block s.sec t c).map fun c' => { s with blk := some (i, c') }
    | .link => match s.lnk with
      | none => none
      | some (i, c) => (P.handle .link s.sec t c).map fun c' => { s with lnk := some (i, c') }
    | .modification => match s.mod with
      | none => none
      | some (i, c) => (P.handle .modification s.sec t c).map fun c' => { s with mod := some (i, c') }

def ffStepWith (fin : Params C G → St C G → Path → St C G)
    (P : Params C G) (s : St C G) (i : Nat) : Line → Option (St C G)
  | .header n => some (ffHeaderWith fin P s i n)
  | .content t => ffContent P s t

/-- run from line index `i` -/
def ffRunFromWith (fin : Params C G → St C G → Path → St C G)
    (P : Params C G) : St C G → Nat → List Line → Option (St C G)
  | s, _, [] => some (fin P s s.sec)     -- `finalize`: finalize_section(prev, prev)
  | s, i, l :: rest =>
    match ffStepWith fin P s i l with
    | none => none
    | some s' => ffRunFromWith fin P s' (i + 1) rest

def ffRun (P : Params C G) (g0 : G) (lines : List Line) : Option (St C G) :=
  ffRunFromWith ffFinalize P { g := g0 } 0 lines

def ffRunOld (P : Params C G) (g0 : G) (lines : List Line) : Option (St C G) :=
  ffRunFromWith ffFinalizeOld P { g := g0 } 0 lines

def ffRunV1 (P : Params C G) (g0 : G) (lines : List Line) : Option (St C G) :=
  ffRunFromWith ffFinalizeV1 P { g := g0 } 0 lines

/-! ### ITPDirector: one kind of context (blocks); `finalize_section` runs at every header -/

structure ISt (C : Type) where
  sec : Path := []
  blk : Option (Nat × C) := none
  blocks : List (Option String × (Nat × C)) := []

/-- the ITP handlers: `atomsEnded` is the hook run by `finalize_section` when `atoms`
is among the ended sections (`current_atom_names = list(current_block.nodes)`). -/
structure IParams (C : Type) where
  T : List Path
  handle : Path → String → C → Option C
  atomsEnded : C → C
  fresh : C
  nameOf : C → Option String

def itpFinalize (P : IParams C) (s : ISt C) (ended : List String) : ISt C :=
  let blk := if ended.contains "atoms" then s.blk.map (fun b => (b.1, P.atomsEnded b.2)) else s.blk
  let blocks := match blk with
    | some b => dictSet s.blocks (P.nameOf b.2) b
    | none => s.blocks
  { s with blk := blk, blocks := blocks }

def itpHeader (P : IParams C) (s : ISt C) (i : Nat) (name : String) : ISt C :=
  let ended := if P.T.contains [name] then [] else endedRev P.T name s.sec.reverse
  let sec' := nextSec P.T s.sec name
  let s1 := if s.sec = [] then s else itpFinalize P s ended
  let s2 := { s1 with sec := sec' }
  if sec' = ["moleculetype"] then { s2 with blk := some (i, P.fresh) } else s2

def itpContent (P : IParams C) (s : ISt C) (t : String) : Option (ISt C) :=
  if !P.T.contains s.sec then none
  else match s.blk with
    | none => none
    | some (i, c) => (P.handle s.sec t c).map fun c' => { s with blk := some (i, c') }

def itpRunFrom (P : IParams C) : ISt C → Nat → List Line → Option (ISt C)
  | s, _, [] => some (itpFinalize P s s.sec)
  | s, i, .header n :: rest => itpRunFrom P (itpHeader P s i n) (i + 1) rest
  | s, i, .content t :: rest =>
    match itpContent P s t with
    | none => none
    | some s' => itpRunFrom P s' (i + 1) rest

def itpRun (P : IParams C) (lines : List Line) : Option (ISt C) := itpRunFrom P {} 0 lines

/-! ### base `SectionLineParser.parse_header` as used by `MappingDirector`:
a mapping is emitted when `block` or `modification` is among the ended sections. -/

structure MSt (C : Type) where
  sec : Path := []
  cur : Nat × C
  out : List (Nat × C) := []

structure MParams (C : Type) where
  T : List Path
  handle : Path → String → C → Option C
  fresh : C

def mapFinalize (P : MParams C) (s : MSt C) (ended : List String) (i : Nat) : MSt C :=
  if ended.any (fun e => e = "block" || e = "modification") then
    { s with out := s.out ++ [s.cur], cur := (i, P.fresh) }
  else s

def mapHeader (P : MParams C) (s : MSt C) (i : Nat) (name : String) : MSt C :=
  let ended := endedRev P.T name s.sec.reverse
  let sec' := reducePath P.T s.sec name
  let s1 := if s.sec = [] then s else mapFinalize P s ended i
  { s1 with sec := sec' }

def mapContent (P : MParams C) (s : MSt C) (t : String) : Option (MSt C) :=
  if !P.T.contains s.sec then none
  else (P.handle s.sec t s.cur.2).map fun c' => { s with cur := (s.cur.1, c') }

def mapRunFrom (P : MParams C) : MSt C → Nat → List Line → Option (MSt C)
  | s, i, [] => some (mapFinalize P s s.sec i)
  | s, i, .header n :: rest => mapRunFrom P (mapHeader P s i n) (i + 1) rest
  | s, i, .content t :: rest =>
    match mapContent P s t with
    | none => none
    | some s' => mapRunFrom P s' (i + 1) rest

def mapRun (P : MParams C) (lines : List Line) : Option (MSt C) :=
  mapRunFrom P { cur := (0, P.fresh) } 0 lines

/-! ## 2. `_tokenize` -/

def isSep (c : Char) : Bool := c = ' ' || c = '\t' || c = '\n'

/-- scanner state: finished tokens (reversed), current token (reversed) if inside one,
bracket depth of the current token -/
structure TokSt where
  done : List (List Char) := []
  cur : Option (List Char) := none
  br : Int := 0
  deriving Repr, DecidableEq

def closeTok (s : TokSt) : TokSt :=
  match s.cur with
  | some t => { done := t.reverse :: s.done, cur := none, br := 0 }
  | none => s

def tokStep (s : TokSt) (c : Char) : TokSt :=
  match s.cur with
  | none =>
    if isSep c then s
    else if c = '{' then { s with cur := some [c], br := 1 }
    else if c = '}' then { s with cur := some [c], br := -1 }
    else { s with cur := some [c], br := 0 }
  | some t =>
    if c = '{' then
      if s.br = 0 then { done := t.reverse :: s.done, cur := some [c], br := 1 }
      else { s with cur := some (c :: t), br := s.br + 1 }
    else if c = '}' then
      if s.br - 1 = 0 then closeTok { s with cur := some (c :: t) }
      else { s with cur := some (c :: t), br := s.br - 1 }
    else if isSep c then
      if s.br = 0 then closeTok s else { s with cur := some (c :: t) }
    else { s with cur := some (c :: t) }

/-- `none` = IOError (a bracket is missing) -/
def tokFinish (s : TokSt) : Option (List (List Char)) :=
  match s.cur with
  | none => some s.done.reverse
  | some _ => if s.br = 0 then some (closeTok s).done.reverse else none

def tokenize (cs : List Char) : Option (List (List Char)) :=
  tokFinish (cs.foldl tokStep {})

def tokenizeS (s : String) : Option (List String) :=
  (tokenize s.toList).map (·.map String.ofList)

/-! ## 3. atom prefix / order -/

/-- the JSON values that can reach the normaliser -/
inductive JVal where
  | int (i : Int)
  | str (s : String)
  | bool (b : Bool)
  | null
  | other (repr : String)     -- floats, arrays, objects: compared by canonical text
  | choice (values : List String)   -- `Choice(value.split('|'))`
  | notP (arg : String)       -- `NotDefinedOrNot(argument)`, argument as canonical JSON text
  deriving Repr, DecidableEq, Inhabited

abbrev Attrs := List (String × JVal)

def Attrs.get (a : Attrs) (k : String) : Option JVal :=
  match a with
  | [] => none
  | (k', v) :: rest => if k' = k then some v else Attrs.get rest k

/-- `d[k] = v` -/
def Attrs.set (a : Attrs) (k : String) (v : JVal) : Attrs := dictSet a k v

def isPrefixChar (c : Char) : Bool := c = '+' || c = '-' || c = '>' || c = '<' || c = '*'

/-- `_split_node_key`: `none` = IOError -/
def splitNodeKey (key : List Char) : Option (List Char × List Char) :=
  let pre := key.takeWhile isPrefixChar
  let base := key.dropWhile isPrefixChar
  if base.isEmpty then none
  else if pre.eraseDups.length > 1 then none
  else some (pre, base)

def replicateChar (n : Nat) (c : Char) : List Char := List.replicate n c

/-- `_get_order_and_prefix_from_attributes`: outer `none` = IOError;
result = (prefix_from_attributes, order_from_attributes) -/
def orderFromAttrs (a : Attrs) : Option (List Char × Option JVal) :=
  match a.get "order" with
  | none => some ([], none)
  | some .null => some ([], none)
  | some (.int i) =>
    some (replicateChar i.natAbs (if i > 0 then '+' else '-'), some (.int i))
  | some (.str s) =>
    let cs := s.toList
    match cs with
    | [] => none
    | c :: _ =>
      if cs.eraseDups.length = 1 && (c = '>' || c = '<' || c = '*') then some (cs, some (.str s))
      else none
  | some _ => none

/-- `_get_order_and_prefix_from_prefix` (`none` prefix = no prefix) -/
def orderFromPrefix (pre : List Char) : Option (List Char) × JVal :=
  match pre with
  | [] => (none, .int 0)
  | c :: _ =>
    if c = '+' then (some pre, .int pre.length)
    else if c = '-' then (some pre, .int (-(pre.length : Int)))
    else (some pre, .str (String.ofList pre))

/-- `_treat_atom_prefix(reference, attributes)`: `none` = IOError;
result = (prefixed reference, attributes with `order` and `atomname` set) -/
def treatAtomPrefix (ref : List Char) (a : Attrs) : Option (List Char × Attrs) :=
  match splitNodeKey ref with
  | none => none
  | some (pre, base) =>
    match orderFromAttrs a with
    | none => none
    | some (preA, ordA) =>
      let (preP, ordP) := orderFromPrefix pre
      if ordA.isSome && preP.isSome && ordA != some ordP then none
      else
        let a1 := if ordA.isNone then a.set "order" ordP else a
        let a2 := if (a1.get "atomname").isNone then a1.set "atomname" (.str (String.ofList base)) else a1
        let key := if preP.isNone then preA ++ base else ref
        some (key, a2)

/-! ## 4. atoms of an interaction line -/

def startsWithBrace (t : String) : Bool := t.toList.head? = some '{'

/-- `_get_atoms(tokens, natoms)` as a loop over the token list: returns the atoms
(reference, optional attribute token) and the remaining tokens; `none` = IOError
(attributes without an atom reference). `fuel` bounds the number of iterations by
the number of tokens. -/
def getAtomsAux (natoms : Option Nat) : Nat → List String → List (String × Option String) →
    Option (List (String × Option String) × List String)
  | 0, toks, acc => some (acc.reverse, toks)
  | fuel + 1, toks, acc =>
    match toks with
    | [] => some (acc.reverse, [])
    | t :: rest =>
      if t = "--" then some (acc.reverse, rest)
      else if (match natoms with | some n => decide (acc.length ≥ n) | none => false) then
        some (acc.reverse, t :: rest)
      else if startsWithBrace t then none
      else match rest with
        | a :: rest' =>
          if startsWithBrace a then getAtomsAux natoms fuel rest' ((t, some a) :: acc)
          else getAtomsAux natoms fuel rest ((t, none) :: acc)
        | [] => getAtomsAux natoms fuel [] ((t, none) :: acc)

/-- `_get_atoms`: the loop, then (repair of F-C13-7) a `--` that is still among the remaining
tokens of a fixed-arity line means that more atoms than expected precede it: IOError. -/
def getAtoms (natoms : Option Nat) (toks : List String) :
    Option (List (String × Option String) × List String) :=
  match getAtomsAux natoms (toks.length + 1) toks [] with
  | none => none
  | some (atoms, rest) => if natoms.isSome && rest.contains "--" then none else some (atoms, rest)

/-- the atom part of `_base_parser`: delimiter count, `_get_atoms`, arity check -/
def baseAtoms (natoms : Option Nat) (toks : List String) :
    Option (List (String × Option String) × List String) :=
  if toks.count "--" > 1 then none
  else match getAtoms natoms toks with
    | none => none
    | some (atoms, rest) =>
      match natoms with
      | some n => if atoms.length = n then some (atoms, rest) else none
      | none => some (atoms, rest)

/-- the arity looked up in `interactions_natoms` (extracted table) -/
def natomsOf (table : List (String × Nat)) (sect : String) : Option Nat :=
  (table.find? (fun e => e.1 = sect)).map (·.2)

/-! ## 5. `_compute_weights` (backward-style `.map` files) -/

def isNullTarget (t : String) : Bool := t.toList.head? = some '!'
def stripBang (t : String) : String := String.ofList (t.toList.drop 1)

def nonNull (tos : List String) : List String := tos.filter (fun t => !isNullTarget t)
def nullTargets (tos : List String) : List String := (tos.filter isNullTarget).map stripBang

/-- a weight as an exact fraction numerator / denominator (denominator > 0 whenever it is produced) -/
structure Frac where
  num : Nat
  den : Nat
  deriving Repr, DecidableEq

/-- same target with and without `!` on one line -/
def lineConflict (tos : List String) : Bool :=
  (nullTargets tos).any fun t => (nonNull tos).contains t

/-- the entries `weights[to][from]` contributed by one line `from -> tos` -/
def lineWeights (from_ : String) (tos : List String) : List (String × String × Frac) :=
  let nn := nonNull tos
  (nn.eraseDups.map fun t => (t, from_, { num := nn.count t, den := nn.length : Frac })) ++
  ((nullTargets tos).eraseDups.map fun t => (t, from_, { num := 0, den := 1 : Frac }))

/-- `_compute_weights(mapping, name)`; `mapping` is a dict, so its keys are distinct.
`none` = IOError. Result: all `(to, from, weight)` entries. -/
def computeWeights (mapping : List (String × List String)) : Option (List (String × String × Frac)) :=
  if mapping.any (fun e => lineConflict e.2) then none
  else some (mapping.flatMap fun e => lineWeights e.1 e.2)

def lookupWeight (w : List (String × String × Frac)) (to_ from_ : String) : Option Frac :=
  (w.find? (fun e => e.1 = to_ && e.2.1 = from_)).map (·.2.2)

/-! ## 6. `_substitute_macros` -/

def isMacroEnd (c : Char) : Bool :=
  c = ' ' || c = '\t' || c = '\n' || c = '{' || c = '}' || c = '$' || c = '"'

def lookupMacro (macros : List (String × String)) (name : String) : Option String :=
  -- dict: the last definition of a name wins
  (macros.reverse.find? (fun e => e.1 = name)).map (·.2)

/-- Substitution with values that contain no `$` (values are substituted when they are
defined, see `_macros`), so the rescan of the code from `start` finds the next `$` after
the inserted value. `none` = the macro is undefined (KeyError) or `$` is the last
character of the line (the code raises UnboundLocalError / uses a stale index). -/
def substMacrosAux (macros : List (String × String)) : Nat → List Char → Option (List Char)
  | 0, cs => some cs
  | fuel + 1, cs =>
    match cs with
    | [] => some []
    | c :: rest =>
      if c = '$' then
        if rest.isEmpty then none
        else
          let name := rest.takeWhile (fun c => !isMacroEnd c)
          let tail := rest.dropWhile (fun c => !isMacroEnd c)
          match lookupMacro macros (String.ofList name) with
          | none => none
          | some v =>
            if v.toList.contains '$' then none
            else (substMacrosAux macros fuel tail).map fun r => v.toList ++ r
      else (substMacrosAux macros fuel rest).map fun r => c :: r

def substMacros (macros : List (String × String)) (line : String) : Option String :=
  (substMacrosAux macros (line.length + 1) line.toList).map String.ofList

/-- `_macros` / `_parse_macro`: exactly two tokens `name value` -/
def parseMacro (line : String) : Option (String × String) :=
  match tokenizeS line with
  | some [n, v] => some (n, v)
  | _ => none

/-- The macro pre-pass: every content line is substituted with the macros defined by the
`[ macros ]` lines above it (path tracking as in `parse_header`); `none` = undefined macro or
malformed definition. Headers are unchanged. -/
def expandMacros (T : List Path) : Path → List (String × String) → List Line → Option (List Line)
  | _, _, [] => some []
  | sec, ms, .header n :: rest =>
    (expandMacros T (nextSec T sec n) ms rest).map fun r => .header n :: r
  | sec, ms, .content t :: rest =>
    match substMacros ms t with
    | none => none
    | some t' =>
      if sec = ["macros"] then
        match parseMacro t' with
        | none => none
        | some d => (expandMacros T sec (ms ++ [d]) rest).map fun r => .content t' :: r
      else (expandMacros T sec ms rest).map fun r => .content t' :: r

end C13
