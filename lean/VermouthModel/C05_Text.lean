import VermouthModel.C05
import VermouthModel.C05_Run
/-!
# C05 — links as they are WRITTEN in a force-field file (model of what the reader does to a link's conditions)

"Every link of the force field": force fields are files.  Between the text of a `[ link ]` and the
`Link` object `DoLinks` works on sits `vermouth/ffinput.py`.  This file transcribes the part of that
reader that decides WHICH CONDITIONS a link ends up with (the tokenizer, arities, macros, numeric
spellings are property C13's):

* `_parse_link_attribute`   the lines written directly under `[ link ]` are attributes "for all nodes"
                            (`context._apply_to_all_nodes`), `[ molmeta ]` lines molecule-level conditions;
* `_treat_atom_prefix`      (attribute part) the order spelled by the prefix of a reference / the explicit
                            `order` attribute, their consistency, `atomname` defaulting to the base of the key;
* `_parse_link_atom`        `[ atoms ]` line: `dict(ChainMap(line, link-wide))`, a node may be declared once,
                            before anything mentions it (`context.nodes[key] = ...` raises for an existing node);
* `_treat_link_interaction_atoms`  atoms of `[ bonds ]`, `[ !bonds ]`, ... lines: `link-wide.copy().update(line)`,
                            conflict with what the node already holds -> IOError, else `node.update`;
* `_base_parser`            meta of a line = `dict(ChainMap(line meta, #meta of the section type))`;
                            `DeleteInteraction.atom_attrs` = the dictionaries AS WRITTEN (no link-wide
                            attributes, no order / atomname added);
* `_parse_edges`            `[ edges ]` creates bare nodes; `[ non-edges ]`: the partner carries
                            `dict(ChainMap(line, link-wide))`, the anchor is only a key;
* `_parse_patterns`         pattern atoms are kept AS WRITTEN (no link-wide attributes, no prefix treatment);
* `Link.make_edges_from_interactions`  bonds / angles / dihedrals / cmap / constraints with `meta.get('edge', True)`.

The precedence rule at every site is `effectiveAttrs`; `buildLink` folds the lines of a link (in file order)
into the `Link` of `VermouthModel/C05.lean` (`none` = the reader raises).  Node identity (the prefixed key
`+BB`, `>>SC1`, ...) is resolved by the harness to an index: how a key string is split is C13's.
Not generated / not modelled: link-wide `order` / `atomname` / `replace` (they would pass through
`_treat_atom_prefix` at interaction atoms but not at `[ atoms ]` lines), `replace` on an interaction atom,
`dihedrals` (moved to `impropers` when the first parameter is 2), Python's `1 == True` between two values of
one key.
-/
namespace C05

/-! ## dictionaries -/

/-- `d[k] = v` on an association list: value replaced in place, new key appended -/
def dset {α : Type} : List (String × α) → String → α → List (String × α)
  | [], k, v => [(k, v)]
  | (k', v') :: rest, k, v => if k' == k then (k', v) :: rest else (k', v') :: dset rest k v

/-- `d = wide.copy(); d.update(line)`; as a dictionary this is also `dict(ChainMap(line, wide))` -/
def dmerge {α : Type} (wide line : List (String × α)) : List (String × α) :=
  line.foldl (fun acc kv => dset acc kv.1 kv.2) wide

/-! ## where an attribute dictionary written on a line ends up -/

inductive Site where
  /-- `[ atoms ]` line (`_parse_link_atom`) -/
  | atomLine
  /-- atom of an interaction line, also in a `!` section (`_treat_link_interaction_atoms`) -/
  | interAtom
  /-- second atom of a `[ non-edges ]` line (`_parse_edges`) -/
  | nonEdgePartner
  /-- atom of a `[ patterns ]` line (`_parse_patterns`) -/
  | patternAtom
  /-- `atom_attrs` of a `DeleteInteraction` (`_base_parser`) -/
  | delAtom
  deriving DecidableEq, Repr, Inhabited

/-- does the site see the attributes written under `[ link ]`? -/
def Site.inherits : Site → Bool
  | .atomLine | .interAtom | .nonEdgePartner => true
  | .patternAtom | .delAtom => false

/-- THE precedence rule: what is written on the line wins over what is written for the whole link;
pattern atoms and removal templates do not see the link-wide attributes at all -/
def effectiveAttrs (s : Site) (wide line : TAttrs) : TAttrs :=
  if s.inherits then dmerge wide line else line

/-! ## one mention of a link atom -/

structure Mention where
  /-- identity of the node (index of the prefixed key among the declared atoms; negative: none) -/
  key : Int
  /-- the order spelled by the prefix of the reference (`+` -> 1, `--` -> -2, `>>` -> ">>"); `none`: no prefix -/
  prefixOrder : Option TVal
  /-- what follows the prefix -/
  base : String
  /-- the dictionary written after the reference (without `replace`) -/
  written : TAttrs
  replace : Option Attrs := none
  deriving Repr, Inhabited

/-- an explicit `order` attribute `_get_order_and_prefix_from_attributes` accepts: an integer that is not a
boolean, or a homogeneous run of `>`, `<` or `*` -/
def validExplicitOrder : TVal → Bool
  | .plain (.int _) => true
  | .plain (.str s) =>
    match s.toList with
    | [] => false
    | c :: rest => rest.all (· == c) && (c == '>' || c == '<' || c == '*')
  | _ => false

/-- `attributes.get('order') is not None` -/
def explicitOrder (written : TAttrs) : Option TVal :=
  match written.lookup "order" with
  | none => none
  | some (.plain .none) => none
  | some v => some v

/-- prefix and explicit order are consistent and the explicit order is one -/
def orderOk (m : Mention) : Bool :=
  match explicitOrder m.written, m.prefixOrder with
  | some o, some p => validExplicitOrder o && o == p
  | some o, none => validExplicitOrder o
  | none, _ => true

/-- `if order_from_attributes is None: return_attributes['order'] = order_from_prefix` -/
def withOrder (m : Mention) : TAttrs :=
  match explicitOrder m.written with
  | some _ => m.written
  | none => dset m.written "order" (m.prefixOrder.getD (.plain (.int 0)))

/-- `if 'atomname' not in return_attributes: return_attributes['atomname'] = base` -/
def withAtomname (base : String) (a : TAttrs) : TAttrs :=
  if (a.lookup "atomname").isSome then a else a ++ [("atomname", .plain (.str base))]

/-- `_treat_atom_prefix`, attribute part: `none` = IOError (invalid explicit order, or prefix and
explicit order disagree) -/
def treatAttrs (m : Mention) : Option TAttrs :=
  if orderOk m then some (withAtomname m.base (withOrder m)) else none

/-! ## the lines of a link, in file order -/

inductive DItem where
  /-- `[ atoms ]` line -/
  | atom (m : Mention)
  /-- `#meta {...}` line inside a section of interaction type `ty` (`!ty` shares it) -/
  | secMeta (ty : String) (a : Attrs)
  /-- interaction line (`del`: in a `!` section) -/
  | inter (ty : String) (del : Bool) (atoms : List Mention) (params : List Param) (lineMeta : Attrs)
  | edge (a b : Mention)
  | nonEdge (anchor partner : Mention)
  /-- pattern line: (key, dictionary as written) -/
  | pattern (atoms : List (Int × TAttrs))
  | molmeta (k : String) (v : TVal)
  /-- `[ features ]`, `[ citation ]`: no effect on where the link applies -/
  | other
  deriving Repr, Inhabited

structure BState where
  nodes : List LNode := []
  edges : List (Int × Int) := []
  secMeta : List (String × Attrs) := []
  inters : List (String × Inter) := []
  removed : List (String × LDel) := []
  nonEdges : List (Int × TAttrs) := []
  patterns : List (List (Int × TAttrs)) := []
  molmeta : TAttrs := []
  deriving Repr, Inhabited

/-- `value != context_atom[key]` for a key both dictionaries hold -/
def conflicts (old new : TAttrs) : Bool :=
  new.any fun kv => match old.lookup kv.1 with
    | some v => v != kv.2
    | none => false

/-- `[ atoms ]` line: the node must not exist yet -/
def declareNode (wide : TAttrs) (nodes : List LNode) (m : Mention) : Option (List LNode) :=
  match treatAttrs m with
  | none => none
  | some line =>
    if nodes.any (·.key == m.key) then none
    else some (nodes ++ [{ key := m.key, attrs := effectiveAttrs .atomLine wide line, replace := m.replace }])

/-- atom of an interaction line: create the node, or check for conflicts and update it -/
def touchNode (wide : TAttrs) (nodes : List LNode) (m : Mention) : Option (List LNode) :=
  match treatAttrs m with
  | none => none
  | some line =>
    let eff := effectiveAttrs .interAtom wide line
    match nodes.find? (·.key == m.key) with
    | none => some (nodes ++ [{ key := m.key, attrs := eff, replace := none }])
    | some n =>
      if conflicts n.attrs eff then none
      else some (nodes.map fun x => if x.key == m.key then { x with attrs := dmerge x.attrs eff } else x)

def touchNodes (wide : TAttrs) : List LNode → List Mention → Option (List LNode)
  | nodes, [] => some nodes
  | nodes, m :: rest =>
    match touchNode wide nodes m with
    | none => none
    | some nodes' => touchNodes wide nodes' rest

/-- atom of an `[ edges ]` line: a bare node if there is none (the reference is still validated) -/
def bareNode (nodes : List LNode) (m : Mention) : Option (List LNode) :=
  match treatAttrs m with
  | none => none
  | some _ =>
    if nodes.any (·.key == m.key) then some nodes
    else some (nodes ++ [{ key := m.key, attrs := [], replace := none }])

def plainAttrs (a : Attrs) : TAttrs := a.map fun kv => (kv.1, TVal.plain kv.2)

/-- one line -/
def buildStep (wide : TAttrs) (s : BState) : DItem → Option BState
  | .atom m => (declareNode wide s.nodes m).map fun ns => { s with nodes := ns }
  | .secMeta ty a =>
    some { s with secMeta := dset s.secMeta ty (dmerge ((s.secMeta.lookup ty).getD []) a) }
  | .inter ty del atoms params lineMeta =>
    match touchNodes wide s.nodes atoms with
    | none => none
    | some ns =>
      let md := dmerge ((s.secMeta.lookup ty).getD []) lineMeta
      let keys := atoms.map (·.key)
      if del then
        let d : LDel := { atoms := keys, params := params,
                          atomAttrs := some (atoms.map fun m => effectiveAttrs .delAtom wide m.written),
                          md := plainAttrs md }
        some { s with nodes := ns, removed := s.removed ++ [(ty, d)] }
      else
        let i : Inter := { atoms := keys, params := params, md := md }
        some { s with nodes := ns, inters := s.inters ++ [(ty, i)] }
  | .edge a b =>
    match bareNode s.nodes a with
    | none => none
    | some ns =>
      match bareNode ns b with
      | none => none
      | some ns' => some { s with nodes := ns', edges := s.edges ++ [(a.key, b.key)] }
  | .nonEdge anchor partner =>
    match treatAttrs anchor, treatAttrs partner with
    | some _, some line =>
      some { s with nonEdges := s.nonEdges ++ [(anchor.key, effectiveAttrs .nonEdgePartner wide line)] }
    | _, _ => none
  | .pattern atoms =>
    some { s with patterns := s.patterns ++ [atoms.map fun ka => (ka.1, effectiveAttrs .patternAtom wide ka.2)] }
  | .molmeta k v => some { s with molmeta := dset s.molmeta k v }
  | .other => some s

def buildFrom (wide : TAttrs) : BState → List DItem → Option BState
  | s, [] => some s
  | s, it :: rest =>
    match buildStep wide s it with
    | none => none
    | some s' => buildFrom wide s' rest

/-- interaction types `make_edges_from_interactions` turns into edges -/
def edgeTypes : List String := ["bonds", "angles", "dihedrals", "cmap", "constraints"]

/-- `interaction.meta.get('edge', True)` -/
def makesEdges (md : Attrs) : Bool :=
  match md.lookup "edge" with
  | none => true
  | some v => v.truthy

def impliedEdges (inters : List (String × Inter)) : List (Int × Int) :=
  inters.flatMap fun e =>
    if edgeTypes.contains e.1 && makesEdges e.2.md then e.2.atoms.zip e.2.atoms.tail else []

/-- an undirected edge list without repetitions (`add_edge` on a graph) -/
def addEdges : List (Int × Int) → List (Int × Int) → List (Int × Int)
  | acc, [] => acc
  | acc, e :: rest =>
    if acc.any (fun x => (x.1 == e.1 && x.2 == e.2) || (x.1 == e.2 && x.2 == e.1)) then addEdges acc rest
    else addEdges (acc ++ [e]) rest

/-- `interactions` is a dictionary type -> list: types in order of first appearance -/
def groupByType {α : Type} (l : List (String × α)) : List (String × α) :=
  (l.map (·.1)).eraseDups.flatMap fun ty => l.filter (·.1 == ty)

/-- the `Link` a `[ link ]` of the file is loaded as; `none` = the reader raises -/
def buildLink (wide : TAttrs) (items : List DItem) (cites : List String := []) : Option Link :=
  (buildFrom wide {} items).map fun s =>
    { nodes := s.nodes,
      edges := addEdges [] (s.edges ++ impliedEdges s.inters),
      molmeta := s.molmeta, nonEdges := s.nonEdges, patterns := s.patterns,
      removed := groupByType s.removed, inters := groupByType s.inters, cites := cites }

end C05
