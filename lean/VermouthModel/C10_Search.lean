import VermouthModel.C10
/-
C10 — the candidate search of `_bonds_from_distance` as the code does it.

The code does not look at all pairs: it hands the atoms with a known radius to a KD-tree and asks
for the pairs within ONE global cut-off (`tree.sparse_distance_matrix(tree, max_dist)`), then tests
each pair it got against the per-pair threshold.  Both arithmetic expressions are taken from the
source on every run (harness/c10.py walks the AST of `_bonds_from_distance`, substitutes the
assignments and writes `Generated/C10Search.lean : searchSpec`); this file gives them a meaning.

`Expr` : the arithmetic of the source.  Leaves: a decimal literal `n/d`, `maxR` (the
`max(VDW_RADII[...] for idx in idx_to_nodenum.values())` of the call), `fudge`, `r1`/`r2`
(`VDW_RADII[element1]`, `VDW_RADII[element2]`), `ifAny a b` (`if idx_to_nodenum: a else: b`),
`unknown` (anything the extractor does not recognise; it evaluates to 0, i.e. "nothing is found").

`eval` computes an exact non-negative rational `(numerator, denominator)` in units of 1e-3 nm with
fudge = p/q.  A distance `d` (d² = `d2` in (1e-4 nm)²) satisfies `d ≤ n/den` iff
`den² · d2 ≤ 100 · n²`.
-/
namespace C10

inductive Expr where
  | lit (n d : Nat)
  | maxR
  | fudge
  | r1
  | r2
  | add (a b : Expr)
  | mul (a b : Expr)
  | ifAny (a b : Expr)
  | unknown (what : String)
  deriving Repr, DecidableEq, Inhabited

/-- the values of the leaves for one call / one pair -/
structure Env where
  M : Nat          -- largest radius among the atoms handed to the KD-tree (1e-3 nm)
  p : Nat          -- fudge = p / q
  q : Nat
  ra : Nat         -- VDW_RADII[element1]
  rb : Nat         -- VDW_RADII[element2]
  any : Bool       -- `bool(idx_to_nodenum)`: some atom was handed to the KD-tree
  deriving Repr, DecidableEq

abbrev Q := Nat × Nat

def Expr.eval (env : Env) : Expr → Q
  | .lit n d => (n, d)
  | .maxR => (env.M, 1)
  | .fudge => (env.p, env.q)
  | .r1 => (env.ra, 1)
  | .r2 => (env.rb, 1)
  | .add a b => ((a.eval env).1 * (b.eval env).2 + (b.eval env).1 * (a.eval env).2, (a.eval env).2 * (b.eval env).2)
  | .mul a b => ((a.eval env).1 * (b.eval env).1, (a.eval env).2 * (b.eval env).2)
  | .ifAny a b => if env.any then a.eval env else b.eval env
  | .unknown _ => (0, 1)

/-- `d ≤ v` for `d² = d2` (1e-4 nm)² and `v` in 1e-3 nm -/
def leDist (d2 : Nat) (v : Q) : Bool := decide (v.2 * v.2 * d2 ≤ 100 * (v.1 * v.1))
/-- `d < v` -/
def ltDist (d2 : Nat) (v : Q) : Bool := decide (v.2 * v.2 * d2 < 100 * (v.1 * v.1))

/-- what is extracted from the source -/
structure SearchSpec where
  cut : Expr          -- second argument of `tree.sparse_distance_matrix(tree, ·)`, assignments substituted
  pair : Expr         -- right-hand side of the comparison `dist <= ...` in the loop over the pairs
  strict : Bool       -- the comparison is `<` (true) or `<=` (false)
  deriving Repr, DecidableEq, Inhabited

/-- some atom is handed to the KD-tree -/
def anyEligible (S : Sys) (inN : Nat → Bool) : Bool := (List.range S.atoms.length).any (eligible S inN)

def envOf (S : Sys) (inN : Nat → Bool) (u v : Nat) : Env :=
  { M := maxRadius S inN, p := S.p, q := S.q,
    ra := (radiusOf S.radii (atomAt S.atoms u).element).getD 0,
    rb := (radiusOf S.radii (atomAt S.atoms v).element).getD 0,
    any := anyEligible S inN }

/-- the KD-tree returns the pair: its distance is within the global cut-off (scipy: `<=`) -/
def cutOK (sp : SearchSpec) (S : Sys) (inN : Nat → Bool) (u v : Nat) : Bool :=
  leDist (dist2 (atomAt S.atoms u) (atomAt S.atoms v)) (sp.cut.eval (envOf S inN u v))

/-- the per-pair distance test of the loop body -/
def pairOK (sp : SearchSpec) (S : Sys) (inN : Nat → Bool) (u v : Nat) : Bool :=
  (if sp.strict then ltDist else leDist)
    (dist2 (atomAt S.atoms u) (atomAt S.atoms v)) (sp.pair.eval (envOf S inN u v))

/-- `crit` with the extracted per-pair test -/
def critX (sp : SearchSpec) (S : Sys) (inN : Nat → Bool) (NE : List Edge) (u v : Nat) : Bool :=
  match radiusOf S.radii (atomAt S.atoms u).element, radiusOf S.radii (atomAt S.atoms v).element with
  | some _, some _ =>
    !(has NE u v)
    && !(isH (atomAt S.atoms u) && isH (atomAt S.atoms v))
    && !(serial S.atoms u != serial S.atoms v && (isH (atomAt S.atoms u) || isH (atomAt S.atoms v)))
    && pairOK sp S inN u v
  | _, _ => false

/-- `_bonds_from_distance` with the extracted cut-off and the extracted per-pair test -/
def distPassX (sp : SearchSpec) (S : Sys) (inN : Nat → Bool) (NE : List Edge) (bonded : Nat → Nat → Bool) :
    List Edge :=
  (allPairs S.atoms.length).filter fun e =>
    eligible S inN e.1 && eligible S inN e.2 && cutOK sp S inN e.1 e.2
      && critX sp S inN NE e.1 e.2 && !(bonded e.1 e.2)

def stepResX (sp : SearchSpec) (S : Sys) (st : St) (k : ResKey) : St :=
  if S.allowName then
    match namePass S.atoms S.ff k with
    | some r => { st with nameE := st.nameE ++ r.1, NE := st.NE ++ r.2 }
    | none =>
      if S.allowDist then
        { st with fbE := st.fbE ++ distPassX sp S (fun i => keyAt S.atoms i == k) [] (bondedIn S st) }
      else st
  else st

def loopResX (sp : SearchSpec) (S : Sys) : St := (resKeys S.atoms).foldl (stepResX sp S) ⟨[], [], []⟩

def finalPassX (sp : SearchSpec) (S : Sys) (st : St) : List Edge :=
  if S.allowDist then distPassX sp S (fun _ => true) st.NE (bondedIn S st) else []

/-- `make_bonds` with the search as extracted from the source -/
def runX (sp : SearchSpec) (S : Sys) : Result :=
  let st := loopResX sp S
  let distE := st.fbE ++ finalPassX sp S st
  { nameE := st.nameE, distE := distE, NE := st.NE,
    mols := split ((resKeys S.atoms).map (members S.atoms)) (allEdges S st.nameE distE) }

/-! ### normal form: `fudge^k · (a·M + b·r1 + c·r2 + z) / den`

Enough for every expression that is linear in the radii; anything else has no normal form and the
completeness theorem is then not available (the check reports the theorem as broken). -/

structure Form where
  k : Nat
  den : Nat
  a : Nat
  b : Nat
  c : Nat
  z : Nat
  deriving Repr, DecidableEq, Inhabited

def Form.val (f : Form) (env : Env) : Q :=
  ((f.a * env.M + f.b * env.ra + f.c * env.rb + f.z) * env.p ^ f.k, f.den * env.q ^ f.k)

/-- no radius in it: `fudge^k · z / den` -/
def Form.scalar (f : Form) : Bool := f.a == 0 && f.b == 0 && f.c == 0

/-- normal form under "some atom is handed to the KD-tree" (`ifAny a b` is `a`) -/
def Expr.norm : Expr → Option Form
  | .lit n d => if d = 0 then none else some ⟨0, d, 0, 0, 0, n⟩
  | .maxR => some ⟨0, 1, 1, 0, 0, 0⟩
  | .fudge => some ⟨1, 1, 0, 0, 0, 1⟩
  | .r1 => some ⟨0, 1, 0, 1, 0, 0⟩
  | .r2 => some ⟨0, 1, 0, 0, 1, 0⟩
  | .add x y =>
    match x.norm, y.norm with
    | some f, some g =>
      if f.k = g.k then
        some ⟨f.k, f.den * g.den, f.a * g.den + g.a * f.den, f.b * g.den + g.b * f.den,
              f.c * g.den + g.c * f.den, f.z * g.den + g.z * f.den⟩
      else none
    | _, _ => none
  | .mul x y =>
    match x.norm, y.norm with
    | some f, some g =>
      if f.scalar then some ⟨f.k + g.k, f.den * g.den, f.z * g.a, f.z * g.b, f.z * g.c, f.z * g.z⟩
      else if g.scalar then some ⟨f.k + g.k, f.den * g.den, g.z * f.a, g.z * f.b, g.z * f.c, g.z * f.z⟩
      else none
    | _, _ => none
  | .ifAny x _ => x.norm
  | .unknown _ => none

/-- decidable sufficient condition for "the per-pair threshold never exceeds the global cut-off,
whatever the fudge factor and the radii (r1, r2 ≤ M)": same power of fudge, and coefficient-wise
`(a' + b' + c')/den' ≤ a/den`, `z'/den' ≤ z/den`. -/
def dominates (sp : SearchSpec) : Bool :=
  match sp.cut.norm, sp.pair.norm with
  | some fc, some fp =>
    fc.k == fp.k
      && decide ((fp.a + fp.b + fp.c) * fc.den ≤ fc.a * fp.den)
      && decide (fp.z * fc.den ≤ fc.z * fp.den)
  | _, _ => false

/-- the per-pair test is the one of the hand-written model: `dist <= fudge · (r1 + r2) / 2` -/
def pairIsHalfSum (sp : SearchSpec) : Bool :=
  !sp.strict &&
  match sp.pair.norm with
  | some f => f.k == 1 && f.a == 0 && f.z == 0 && f.b == f.c && 2 * f.b == f.den
  | none => false

end C10
