import VermouthModel.C06_Ismags
/-
# C06_Cosets — specification of the COSETS `analyze_symmetry` must return (a CHECKER, not a transcription)

`ISMAGS.analyze_symmetry` returns `(permutations, cosets)`; `cosets` is a dict `node -> set of nodes`:
"every key-value pair describes which values can be interchanged without changing nodes less than
key".  In the words of the ISMAGS paper: `cosets[i]` is the orbit of `i` under the automorphisms of
the pattern that fix every node with a smaller key (the stabiliser chain in key order); a node
without an entry has the trivial orbit `{i}`.

`constraintsValidB` (`C06_Ismags.lean`) states the same one step later, on the output of
`_make_constraints`.  `cosetsExactB` states it on the dict itself - an entry that is wrong is
refused even when the node does not occur in any constraint - and it comes with the counting
consequence (orbit-stabiliser along the chain): the product of the coset sizes is `|Aut(pattern)|`
(`cosetProduct`, theorem `cosetsExact_product` in `VermouthProps/C06_Cosets.lean`).

The driver evaluates `cosetsExactB`, `cosetsDictB`, `cosetProduct` and `(auts sg).length` on the cosets
of every real symmetry=True call (op `tcosets`).
-/
namespace C06I
open Iso

/-- the images of `i` under the automorphisms in `A` that fix every pattern node smaller than `i`
(with repetitions: one entry per automorphism) -/
def stabOrbit (sg : Graph) (A : List Map) (i : Int) : List Int :=
  (A.filter fun a => fixesBelow sg a i).map fun a => a.toFun i

/-- every entry `(k, ts)` of the dict has `k` a pattern node and `ts` EXACTLY the orbit of `k` in the
stabiliser of the smaller nodes; every pattern node without an entry has the trivial orbit.
Decided by enumerating the verified reference `auts sg`. -/
def cosetsExactB (sg : Graph) (cosets : List (Int × List Int)) : Bool :=
  let A := auts sg
  (cosets.all fun e => sg.keys.contains e.1 && sameSet e.2 (stabOrbit sg A e.1))
  && sg.keys.all fun i => (cosets.any fun e => e.1 == i) || (stabOrbit sg A i).all fun t => t == i

def nodupB : List Int → Bool
  | [] => true
  | a :: l => !l.contains a && nodupB l

/-- the association list is a `dict` of `set`s: keys distinct, no value lists an element twice -/
def cosetsDictB (cosets : List (Int × List Int)) : Bool :=
  nodupB (cosets.map Prod.fst) && cosets.all fun e => nodupB e.2

/-- `prod(len(v) for v in cosets.values())` -/
def cosetProduct (cosets : List (Int × List Int)) : Nat := (cosets.map fun e => e.2.length).foldr (· * ·) 1

end C06I
