import VermouthModel.C01_Mod
import VermouthModel.C09
/-
C09 — the composition martinize2 runs: `DoMapping` (model: `VermouthModel/C01*.lean`, imported
read-only) followed by `DoAverageBead` (model: `VermouthModel/C09.lean`).

Until this file the bead-position model took `'graph'` and `'mapping_weights'` of a particle as
GIVEN inputs.  Here they are PRODUCED: by the attribute loop of `do_mapping` from the table
`out_to_mol` that `apply_block_mapping` / `apply_mod_mapping` fill (C01's `St.outToMol`, state of
`C01.runAll`).

Transcription (do_mapping.py, `for out_idx in out_to_mol:`):
* `mol_idxs = out_to_mol[out_idx].keys()`; `graph = molecule.subgraph(mol_idxs)`: `Molecule.subgraph`
  copies the nodes in the order of `mol_idxs` (molecule.py) — `subgraphOf`;
* `mapping_weights = out_to_mol[out_idx]` (the very dictionary);
* a particle without entry in `out_to_mol` gets neither attribute;
* the input molecule's coordinates and numeric attributes (`geom`, in node order) are the `C09.Atom`s
  of the bead-position model: key, `position`, attributes such as `mass`;
* the particles are the nodes of the output graph in node order (`St.out.nodes`); the removal of
  particles whose atomname is None (C01_Attr) and the edges added between placements do not touch
  positions and are not repeated here.
Then `DoAverageBead.run_molecule` (`runMoleculeQ`) on those particles; the output molecule's force
field is the target force field, `ffVar` is ITS `center_weight` variable.
-/
namespace C09
open C01 (St Dict2 Placement ModPlacement MapSpec ModSpec)

/-- `molecule.subgraph(keys)`: the atoms with these keys, in the order of `keys` -/
def subgraphOf (geom : List (Atom Rat)) (keys : List Int) : List (Atom Rat) :=
  keys.filterMap (fun k => geom.find? (fun a => a.key == k))

/-- `'graph'` and `'mapping_weights'` as the attribute loop of `do_mapping` writes them on particle `k` -/
def beadOfParticle (geom : List (Atom Rat)) (outToMol : Dict2) (k : Int) : Bead Rat :=
  match outToMol.lookup k with
  | none => ⟨none, none⟩
  | some ws => ⟨some (subgraphOf geom (ws.map Prod.fst)), some ws⟩

/-- the particle molecule handed to `DoAverageBead` -/
def particleBeads (geom : List (Atom Rat)) (st : St) : List (Bead Rat) :=
  st.out.nodes.map (fun n => beadOfParticle geom st.outToMol n.1)

/-- the position `do_average_bead` (centre-weight attribute `cw`) gives particle `k`:
`none` = untouched (no 'graph'), `some none` = NaN -/
def particlePos (geom : List (Atom Rat)) (cw : Option String) (st : St) (k : Int) :
    Option (Option (V3 Rat)) :=
  (beadOfParticle geom st.outToMol k).graph.map
    (fun g => beadPosQ cw g (beadOfParticle geom st.outToMol k).weights)

/-- the state of `do_mapping` after the `while block_matches or mod_matches` loop
(`C01.assembleAll` is `finish` of this state, see `VermouthProps.C09_Pipeline.mapState_assembleAll`) -/
def mapState (ps : List Placement) (qs : List ModPlacement) : Except C12.Outcome St :=
  if ps.any (fun p => p.atoms.isEmpty) || qs.any (fun q => q.atoms.isEmpty) then .error .valueerror else
  let st := C01.runAll ((C01.order ps).length + (C01.orderM qs).length) (C01.order ps) (C01.orderM qs) {}
  match st.err with
  | some e => .error e
  | none => .ok st

inductive PipeOutcome where
  /-- `do_mapping` raised -/
  | mapError (e : C12.Outcome)
  /-- `do_mapping` succeeded: keys of the particles and what `DoAverageBead.run_molecule` did -/
  | averaged (keys : List Int) (o : Outcome Rat)
  deriving Repr, DecidableEq

/-- `DoMapping.run_molecule` then `DoAverageBead(ignoreMissing, self).run_molecule` -/
def pipeline (geom : List (Atom Rat)) (self : WeightArg) (ffVar : Option String) (ignoreMissing : Bool)
    (ps : List Placement) (qs : List ModPlacement) : PipeOutcome :=
  match mapState ps qs with
  | .error e => .mapError e
  | .ok st => .averaged st.out.keys (runMoleculeQ self ffVar ignoreMissing (particleBeads geom st))

/-- from the mapping definitions and the raw matches (`C01.doMappingAll`) -/
def pipelineAll (geom : List (Atom Rat)) (self : WeightArg) (ffVar : Option String) (ignoreMissing : Bool)
    (maps : List MapSpec) (raw : List (Nat × List (Int × Int)))
    (mods : List ModSpec) (rawMods : List (Nat × List (Int × Int))) : PipeOutcome :=
  match raw.mapM (fun im => (maps[im.1]?).bind (fun M => C01.graphMap M im.2)),
        rawMods.mapM (fun im => (mods[im.1]?).bind (fun M => C01.graphMapMod M im.2)) with
  | some ps, some qs => pipeline geom self ffVar ignoreMissing ps qs
  | _, _ => .mapError .keyerror

/-- `Processor.run_system` is a plain loop: an exception of one molecule propagates, the molecules
after it are not processed -/
def untilError : List (Outcome Rat) → List (Outcome Rat)
  | [] => []
  | .ok l :: r => .ok l :: untilError r
  | e :: _ => [e]

/-- one `run_system`: the molecules of a system in turn, each with the `center_weight` variable of
ITS force field, through one `DoAverageBead` object (`runHistoryQ`), up to the first exception -/
def runSystemQ (p : Proc) (mols : List (Option String × List (Bead Rat))) : List (Outcome Rat) :=
  untilError (runHistoryQ p mols)

/-- `2^e` for an integer exponent -/
def pow2 (e : Int) : Rat := if 0 ≤ e then ((2 ^ e.toNat : Nat) : Rat) else 1 / ((2 ^ (-e).toNat : Nat) : Rat)

/-- quantisation to `2^-e` (round half up), `quant` = `quantAt 30` -/
def quantAt (e : Int) (q : Rat) : Int := (q * pow2 e + 1 / 2).floor

end C09
