import VermouthModel.C05
/-!
# C05 — the whole run of `DoLinks.run_molecule` as a list of events, effector mechanics,
# order-independent verdict of the pairwise order test, the table API

Extension of `VermouthModel/C05.lean`:

* **A. events.**  `run_molecule` is a fold over links and placements; `runLog` records, link by link,
  the molecule as it is when the link starts and the placements consumed; `runEvents` flattens the run
  into the sequence of elementary operations the code performs (`dict.update` of a node,
  `_nodes_to_remove.append`, `remove_matching_interaction`, `add_or_replace_interaction`,
  `remove_nodes_from`), `run` replays such a sequence and `trace` pairs every event with the state it
  is executed on.  `VermouthProofs/C05_Run.lean` proves `applyLinks = run ∘ runEvents`.
* **B. log entries** (`link.log_entries`, lines 325-328 of do_links.py).
* **C. effector mechanics** (`LinkParameterEffector.__init__ / __eq__ / __call__ / _apply`): which
  atoms are read (link-node names through the placement, in the effector's order), the error
  outcomes, the `format_spec` as an opaque tag, and the EXACT squared distance of `ParamDistance` for
  positions on an integer lattice.  Angles / dihedrals stay symbolic (numeric oracle in the harness).
* **D. run with error kinds** (`applyLinksX`): the first exception in processing order.
* **E. pairwise order test, independent of dictionary order where it can be** (`pairwiseVerdict`).
* **F. the interaction-table API** called directly (`add_interaction`, `add_or_replace_interaction`,
  `remove_interaction`, `remove_matching_interaction`, `get_interaction`).
-/
namespace C05
open Iso

/-! ## A. the run as a list of events -/

/-- one elementary operation of `run_molecule` (templates and interactions already mapped on the
molecule by `_build_link_interaction_from`) -/
inductive Ev where
  /-- `molecule.nodes[k].update(new)` -/
  | setAttrs (k : Int) (new : Attrs)
  /-- `_nodes_to_remove.append(k)` -/
  | mark (k : Int)
  /-- `molecule.remove_matching_interaction(ty, d)` with the ValueError swallowed -/
  | rem (ty : String) (d : LDel)
  /-- `molecule.add_or_replace_interaction(ty, *x, cites)` -/
  | add (x : String × Inter) (cites : List String)
  /-- `molecule.remove_nodes_from(_nodes_to_remove)` (at the end of every link) -/
  | drop
  deriving Repr, Inhabited

def evStep (s : Mol × List Int) : Ev → Mol × List Int
  | .setAttrs k new => (s.1.setAttrs k new, s.2)
  | .mark k => (s.1, s.2 ++ [k])
  | .rem ty d => ({ s.1 with inters := removeMatching s.1.attrsOf s.1.inters ty d }, s.2)
  | .add x c => ({ s.1 with inters := addOrReplace s.1.inters x, cites := unionSet s.1.cites c }, s.2)
  | .drop => (s.1.dropNodes s.2, s.2)

/-- replay a sequence of events -/
def run (s : Mol × List Int) (evs : List Ev) : Mol × List Int := evs.foldl evStep s

/-- the `replace` loop of one placement -/
def replaceEvents (mp : Map) : List LNode → List Ev
  | [] => []
  | n :: rest =>
    match n.replace with
    | none => replaceEvents mp rest
    | some r =>
      if removesNode r then Ev.mark (Map.toFun mp n.key) :: replaceEvents mp rest
      else Ev.setAttrs (Map.toFun mp n.key) r :: replaceEvents mp rest

/-- everything `run_molecule` does for one placement, in the code's order -/
def placementEvents (l : Link) (mp : Map) : List Ev :=
  replaceEvents mp l.nodes
    ++ l.removed.map (fun d => Ev.rem d.1 (buildDel mp d.2))
    ++ l.inters.map (fun a => Ev.add (a.1, buildInter mp a.2) l.cites)

def linkEvents (l : Link) (ps : List Map) : List Ev := ps.flatMap (placementEvents l) ++ [Ev.drop]

/-- one entry of the run log: the molecule as it is when the link starts, the link, and the
placements consumed (in the order they are consumed) -/
structure LinkStep where
  before : Mol
  link : Link
  ps : List Map
  deriving Repr, Inhabited

/-- the run log of `applyLinksFrom` -/
def runLog : Mol × List Int → List Link → List (List Map) → List LinkStep
  | _, [], _ => []
  | s, l :: ls, gs =>
    let ps := orderAs (gs.headD []) (matchLink s.1 l)
    ⟨s.1, l, ps⟩ :: runLog (applyLinkWith l s ps) ls gs.tail

def logEvents (log : List LinkStep) : List Ev := log.flatMap fun st => linkEvents st.link st.ps

/-- every elementary operation of `DoLinks.run_molecule`, in processing order -/
def runEvents (m : Mol) (links : List Link) (given : List (List Map)) : List Ev :=
  logEvents (runLog (m, []) links given)

/-- every event together with the state it is executed on -/
def trace : Mol × List Int → List Ev → List ((Mol × List Int) × Ev)
  | _, [] => []
  | s, ev :: rest => (s, ev) :: trace (evStep s ev) rest

abbrev IKey := String × List Int × Val

/-- the event writes the identity `k` -/
def Ev.writes (k : IKey) : Ev → Bool
  | .add y _ => keyOf y == k
  | _ => false

/-- the event is a removal whose template matches the entry (`k`, `v`) on the state it runs on -/
def removesAt (k : IKey) (v : Inter) (e : (Mol × List Int) × Ev) : Bool :=
  match e.2 with
  | .rem ty d => ty == k.1 && interMatch e.1.1.attrsOf v d
  | _ => false

/-- the event is a `remove_nodes_from` whose list holds an atom of `v` -/
def deletesAt (v : Inter) (e : (Mol × List Int) × Ev) : Bool :=
  match e.2 with
  | .drop => v.atoms.any fun a => e.1.2.contains a
  | _ => false

/-- a later step that replaces, removes or deletes the entry (`k`, `v`) -/
def interferes (k : IKey) (v : Inter) (e : (Mol × List Int) × Ev) : Bool :=
  e.2.writes k || removesAt k v e || deletesAt v e

/-- all attribute replacements of node `k`, concatenated in processing order -/
def attrWrites (k : Int) : List Ev → Attrs
  | [] => []
  | .setAttrs k' new :: rest => if k' == k then new ++ attrWrites k rest else attrWrites k rest
  | _ :: rest => attrWrites k rest

/-! ## B. log entries -/

inductive LogItem where
  /-- a format argument the link already carried (opaque) -/
  | tag (s : String)
  /-- the placement (`match`) -/
  | place (mp : Map)
  deriving DecidableEq, Repr, Inhabited

/-- `molecule.log_entries`: (level, entry) -> format arguments, keys in first-insertion order -/
abbrev Logs := List ((Int × String) × List LogItem)

/-- `d[level][entry] += items` on the nested defaultdict -/
def logAdd : Logs → Int × String → List LogItem → Logs
  | [], k, items => [(k, items)]
  | (k', its) :: rest, k, items =>
    if k' == k then (k', its ++ items) :: rest else (k', its) :: logAdd rest k items

/-- `link.log_entries` flattened: (level, entry, format arguments) -/
abbrev LinkLogs := List (Int × String × List String)

def placementLogs (ll : LinkLogs) (lg : Logs) (mp : Map) : Logs :=
  ll.foldl (fun lg e => logAdd lg (e.1, e.2.1) (e.2.2.map LogItem.tag ++ [LogItem.place mp])) lg

/-- the log entries after the run: `lls` gives the `log_entries` of every link, by position -/
def runLogs : List LinkStep → List LinkLogs → Logs → Logs
  | [], _, lg => lg
  | st :: rest, lls, lg => runLogs rest lls.tail (st.ps.foldl (placementLogs (lls.headD [])) lg)

/-! ## C. effector mechanics -/

/-- `molecule.nodes[a].get('position')` as far as the model needs it -/
inductive Pos where
  /-- the node has no `position` key -/
  | missing
  /-- a point of the integer lattice (unit fixed by the harness) -/
  | lattice (x y z : Int)
  /-- some other position: the value is left to the numeric oracle -/
  | opaque
  deriving DecidableEq, Repr, Inhabited

/-- node key -> position; `none` = no such node -/
abbrev PosFn := Int → Option Pos

inductive EffErr where
  | keyError
  | notImplemented
  deriving DecidableEq, Repr, Inhabited

/-- `n_keys_asked` of the effector class called `name` (`none`: the base class, or any class that
does not set it) -/
def nKeysAsked (name : String) : Option Nat :=
  if name == "dist" then some 2
  else if name == "angle" then some 3
  else if name == "dihedral" then some 4
  else if name == "dihphase" then some 4
  else none

/-- `LinkParameterEffector.__init__(keys, format_spec)`; `none` = ValueError (wrong number of keys) -/
def effNew (name : String) (keys : List Int) (fmt : Option String) : Option Param :=
  match nKeysAsked name with
  | some n => if keys.length != n then none else some (.eff name keys fmt)
  | none => some (.eff name keys fmt)

/-- `LinkParameterEffector.__eq__` (also against something that is not an effector) -/
def effEq (a b : Param) : Bool :=
  match a, b with
  | .eff n1 k1 f1, .eff n2 k2 f2 => n1 == n2 && k1 == k2 && f1 == f2
  | _, _ => false

/-- an evaluated parameter -/
inductive EVal where
  | lit (s : String)
  /-- `ParamDistance` on two lattice points: the exact squared distance (lattice units squared) -/
  | dist2 (d2 : Int) (fmt : Option String)
  /-- `_apply` of class `name` on the positions of `atoms` (molecule nodes, in this order), then
  `format_spec` `fmt`: numeric value left to the harness -/
  | sym (name : String) (atoms : List Int) (fmt : Option String)
  deriving DecidableEq, Repr, Inhabited

def sqI (i : Int) : Int := i * i

/-- `molecule.nodes[a]['position']`; `none` = KeyError -/
def posOf (pos : PosFn) (a : Int) : Option Pos :=
  match pos a with
  | none => none
  | some .missing => none
  | some p => some p

/-- `self._apply(molecule, atoms)` followed by the `format_spec` rendering -/
def evalAtoms (pos : PosFn) (name : String) (atoms : List Int) (fmt : Option String) : Except EffErr EVal :=
  if (nKeysAsked name).isNone then .error .notImplemented
  else
    match atoms.mapM (posOf pos) with
    | none => .error .keyError
    | some ps =>
      if name == "dist" then
        match ps with
        | [.lattice x1 y1 z1, .lattice x2 y2 z2] =>
          .ok (.dist2 (sqI (x2 - x1) + sqI (y2 - y1) + sqI (z2 - z1)) fmt)
        | _ => .ok (.sym name atoms fmt)
      else .ok (.sym name atoms fmt)

/-- `effector(molecule, match)`: `keys = [match[key] for key in self.keys]` (KeyError if a name is
not in the placement), then `_apply` -/
def effCall (pos : PosFn) (mp : Map) (name : String) (keys : List Int) (fmt : Option String) :
    Except EffErr EVal :=
  match keys.mapM (fun k => mp.lookup k) with
  | none => .error .keyError
  | some atoms => evalAtoms pos name atoms fmt

/-- a parameter of the interaction table (effector keys already mapped on the molecule) evaluated
on the positions -/
def evalParam (pos : PosFn) : Param → Except EffErr EVal
  | .lit s => .ok (.lit s)
  | .eff name atoms fmt => evalAtoms pos name atoms fmt

/-- the exception (if any) of `param(molecule, match)` -/
def paramErr (pos : PosFn) (mp : Map) : Param → Option EffErr
  | .lit _ => none
  | .eff n ks f =>
    match effCall pos mp n ks f with
    | .error e => some e
    | .ok _ => none

/-- the exception (if any) of `_build_link_interaction_from`: the atoms first, then the parameters
in order -/
def buildErr (pos : PosFn) (mp : Map) (atoms : List Int) (params : List Param) : Option EffErr :=
  if atoms.any (fun a => (mp.lookup a).isNone) then some .keyError
  else params.findSome? (paramErr pos mp)

/-- the first exception while one placement is applied: removal templates, then interactions -/
def placementErr (pos : PosFn) (l : Link) (mp : Map) : Option EffErr :=
  match l.removed.findSome? (fun d => buildErr pos mp d.2.atoms d.2.params) with
  | some e => some e
  | none => l.inters.findSome? (fun a => buildErr pos mp a.2.atoms a.2.params)

/-! ## E. the pairwise order test without the dictionary order -/

inductive Verdict where
  | yes | no | raises
  /-- raises or rejects, depending on the order of the `order_match` dictionary -/
  | either
  deriving DecidableEq, Repr, Inhabited

def pairResults (tbl : List (Order × Int)) : List (Option Bool) :=
  (pairs2 tbl).map fun p => matchOrder p.1.1 p.1.2 p.2.1 p.2.2

/-- what `for pair in combinations(..): if not match_order(..): break` does on a list of results:
the first result that is not `True` decides -/
def firstDecides : List (Option Bool) → Option Bool
  | [] => some true
  | some true :: rest => firstDecides rest
  | x :: _ => x

/-- the exact sequential semantics for ONE dictionary order `tbl` -/
def pairwiseSeq (tbl : List (Order × Int)) : Option Bool := firstDecides (pairResults tbl)

/-- the outcome as far as it does not depend on the dictionary order -/
def pairwiseVerdict (tbl : List (Order × Int)) : Verdict :=
  let rs := pairResults tbl
  if rs.all (· == some true) then .yes
  else if !(rs.any (·.isNone)) then .no
  else if !(rs.any (· == some false)) then .raises
  else .either

/-- the loop body of `match_link` for one raw match, four-valued -/
def placementVerdict (m : Mol) (l : Link) (mp : Map) : Verdict :=
  match validNonEdges m l mp l.nonEdges with
  | none => .raises
  | some false => .no
  | some true =>
    match anyPattern m mp l.patterns with
    | none => .raises
    | some ap =>
      if !l.patterns.isEmpty && !ap then .no
      else match orderTable m l mp with
        | none => .no
        | some tbl => pairwiseVerdict tbl

inductive MatchOutcome where
  | raises
  | yields (ps : List Map)
  /-- raises, or yields `ps`, depending on the dictionary order -/
  | either (ps : List Map)
  deriving Repr, Inhabited

/-- `list(match_link(molecule, link))` without assuming a dictionary order -/
def matchLinkV (m : Mol) (l : Link) : MatchOutcome :=
  if attributesMatch m.md l.molmeta [] then
    let raws := rawMatches m l
    let vs := raws.map (placementVerdict m l)
    let ps := raws.filter fun mp => placementVerdict m l mp == .yes
    if vs.contains .raises then .raises
    else if vs.contains .either then .either ps
    else .yields ps
  else .yields []

/-! ## D. the run with error kinds -/

inductive RunErr where
  /-- `match_link` raised -/
  | matching
  | eff (e : EffErr)
  deriving DecidableEq, Repr, Inhabited

structure RunResult where
  /-- some link's `match_link` may or may not have raised (dictionary order) -/
  maybe : Bool
  out : Except RunErr (Mol × List Int)

def applyLinksFromX (pos : PosFn) : Bool → Mol × List Int → List Link → List (List Map) → RunResult
  | mb, s, [], _ => ⟨mb, .ok s⟩
  | mb, s, l :: ls, gs =>
    match matchLinkV s.1 l with
    | .raises => ⟨mb, .error .matching⟩
    | .yields ps =>
      let ps' := orderAs (gs.headD []) ps
      match ps'.findSome? (placementErr pos l) with
      | some e => ⟨mb, .error (.eff e)⟩
      | none => applyLinksFromX pos mb (applyLinkWith l s ps') ls gs.tail
    | .either ps =>
      let ps' := orderAs (gs.headD []) ps
      match ps'.findSome? (placementErr pos l) with
      | some e => ⟨true, .error (.eff e)⟩
      | none => applyLinksFromX pos true (applyLinkWith l s ps') ls gs.tail

/-- `DoLinks.run_molecule` with the kind of the first exception -/
def applyLinksX (pos : PosFn) (m : Mol) (links : List Link) (given : List (List Map)) : RunResult :=
  applyLinksFromX pos false (m, []) links given

/-! ## F. the interaction-table API called directly -/

/-- `add_interaction`; `none` = KeyError (an atom is not in the molecule); `md = none`: `meta=None` -/
def addInteraction (m : Mol) (ty : String) (atoms : List Int) (params : List Param)
    (md : Option Attrs) : Option Mol :=
  if atoms.all (fun a => m.keys.contains a) then
    some { m with inters := m.inters ++ [(ty, { atoms := atoms, params := params, md := md.getD [] })] }
  else none

/-- `add_or_replace_interaction`: an existing identity is replaced WITHOUT looking at the atoms, a
new one goes through `add_interaction`; the citations are added afterwards -/
def addOrReplaceInteraction (m : Mol) (ty : String) (atoms : List Int) (params : List Param)
    (md : Option Attrs) (cites : Option (List String)) : Option Mol :=
  let x : String × Inter := (ty, { atoms := atoms, params := params, md := md.getD [] })
  let r : Option Mol :=
    if m.inters.any (fun e => keyOf e == keyOf x) then some { m with inters := addOrReplace m.inters x }
    else addInteraction m ty atoms params (some (md.getD []))
  r.map fun m' => { m' with cites := unionSet m'.cites (cites.getD []) }

def eraseFirstKey : Table → IKey → Table
  | [], _ => []
  | e :: rest, k => if keyOf e == k then rest else e :: eraseFirstKey rest k

/-- `remove_interaction(type_, atoms, version)`; `none` = KeyError -/
def removeInteraction (m : Mol) (ty : String) (atoms : List Int) (ver : Val) : Option Mol :=
  if m.inters.any (fun e => keyOf e == (ty, atoms, ver)) then
    some { m with inters := eraseFirstKey m.inters (ty, atoms, ver) }
  else none

/-- `remove_matching_interaction(type_, template)`; `none` = ValueError (nothing matches) -/
def removeMatchingE (m : Mol) (ty : String) (d : LDel) : Option Mol :=
  if m.inters.any (fun e => e.1 == ty && interMatch m.attrsOf e.2 d) then
    some { m with inters := removeMatching m.attrsOf m.inters ty d }
  else none

/-- `get_interaction(type_)` -/
def getInteraction (m : Mol) (ty : String) : List Inter :=
  (m.inters.filter fun e => e.1 == ty).map (·.2)

end C05
