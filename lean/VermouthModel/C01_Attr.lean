import VermouthModel.C01_Mod
/-
C01 — the attribute side of `do_mapping`: everything the particle dictionaries carry besides
key / atomname / resid / charge_group, for ANY configuration `attribute_keep`, `attribute_must`,
`attribute_stash`.

The particle table of `C01.lean` / `C01_Mod.lean` (`St.out`, nodes with `C12.Attrs`) decides keys,
offsets and overlays.  Here every particle additionally carries its full attribute dictionary
(`AttrD`, an association list in insertion order; values are `None`, integers or strings), kept in
a side table `StX.xattrs` that is updated next to every step of the base run (`applyBlockX`,
`applyModX`; `runAllX_st` in the proofs: the base component of the extended run IS the base run).

Transcribed:
* `merge_molecule` on the dictionaries (copy of the block node, `resid` / `charge_group` shifted);
  the `force_field` test of `merge_molecule` (`BlockX.ffOk`); log entries and citations carried
  from blocks and modifications;
* `apply_mod_mapping`: attributes of new particles, `node.update(replace)` on overlaid particles,
  the `modifications` list of every touched particle, `applied_interactions` and the top-level
  `modified_interactions.update(...)`;
* the final attribute loop of `do_mapping` (`attrs_from_node` with its `replace` handling,
  reference branch, constituent branch with the grouped value lists, `vals[0]`, the dead
  `else: ... = None` branches, `are_all_equal`, the "garbage" warning with its attribute list) as
  a fold over `out_to_mol` in insertion order;
* `to_remove` (atomname is None, looked at after the particle's attributes were written, only for
  particles that have an `out_to_mol` entry) and `remove_nodes_from` at the very end (nodes, their
  edges, every interaction that mentions them; warnings are computed before);
* the "Interaction set by multiple modification mappings" warning.
-/
namespace C01
open C12 (Mol Attrs Inter Outcome)

/-- an attribute value: `None`, an integer or a string (anything else is sent as its `repr`) -/
inductive Val where
  | none
  | int (i : Int)
  | str (s : String)
  deriving Repr, DecidableEq, Inhabited

/-- a node dictionary, in insertion order -/
abbrev AttrD := List (String × Val)

def dget (d : AttrD) (k : String) : Option Val :=
  match d with
  | [] => none
  | (k', v) :: r => if k' = k then some v else dget r k

def hasKey (d : AttrD) (k : String) : Bool := (dget d k).isSome

/-- `d[k] = v` -/
def dsetA (d : AttrD) (k : String) (v : Val) : AttrD :=
  match d with
  | [] => [(k, v)]
  | (k', v') :: r => if k' = k then (k', v) :: r else (k', v') :: dsetA r k v

/-- `d.update(new)` -/
def dupdate (d new : AttrD) : AttrD := new.foldl (fun d kv => dsetA d kv.1 kv.2) d

/-- `d.get(k, dflt)` read as an integer -/
def intOf (d : AttrD) (k : String) (dflt : Int) : Int :=
  match dget d k with
  | some (.int i) => i
  | _ => dflt

/-- `attribute_keep`, `attribute_must`, `attribute_stash` -/
structure Cfg where
  keep : List String
  must : List String
  stash : List String
  deriving Repr, DecidableEq, Inhabited

/-- `attribute_keep+attribute_must+attribute_stash` -/
def Cfg.all (c : Cfg) : List String := c.keep ++ c.must ++ c.stash

/-- an atom of the input molecule with its whole dictionary; `replace` is kept apart -/
structure AtomX where
  key : Int
  attrs : AttrD
  replace : Option AttrD := none
  isH : Bool := false
  deriving Repr, DecidableEq, Inhabited

structure MolX where
  atoms : List AtomX
  edges : List (Int × Int)
  cites : List String := []
  deriving Repr, Inhabited

def MolX.atom? (m : MolX) (k : Int) : Option AtomX := m.atoms.find? (fun a => a.key == k)

/-- the view the base model needs: keys, bonds, which atoms are hydrogens -/
def MolX.base (m : MolX) : MolIn :=
  { atoms := m.atoms.map (fun a => { key := a.key, resid := intOf a.attrs "resid" 0, resname := "", chain := "",
                                     isH := a.isH }),
    edges := m.edges }

/-! ### `attrs_from_node` -/

/-- `if 'replace' in node: node = node.copy(); node.update(node['replace'])`, then the attributes
listed in `attrs`, in the order of the dictionary -/
def attrsFromNode (c : Cfg) (a : AtomX) : AttrD :=
  let d := match a.replace with
    | some r => dupdate a.attrs r
    | none => a.attrs
  d.filter (fun kv => c.all.contains kv.1)

/-! ### the attribute loop for one particle -/

def stashKey (s : String) : String := "_old_" ++ s

/-- the body both branches share:
`if attr in attribute_keep or attr not in node: node[attr] = val`,
`if attr in attribute_stash: node["_old_"+attr] = val` -/
def writeAttr (c : Cfg) (node : AttrD) (k : String) (v : Val) : AttrD :=
  let n1 := if c.keep.contains k || !(hasKey node k) then dsetA node k v else node
  if c.stash.contains k then dsetA n1 (stashKey k) v else n1

/-- reference branch: the attributes of the reference atom, in order -/
def refLoop (c : Cfg) (node : AttrD) (new : AttrD) : AttrD :=
  new.foldl (fun nd kv => writeAttr c nd kv.1 kv.2) node

/-- `attrs[attr].append(val)` on a `defaultdict(list)` -/
def groupAdd (g : List (String × List Val)) (k : String) (v : Val) : List (String × List Val) :=
  match g with
  | [] => [(k, [v])]
  | (k', vs) :: r => if k' = k then (k', vs ++ [v]) :: r else (k', vs) :: groupAdd r k v

/-- the grouped values of the constituent atoms, attributes in order of first appearance -/
def collect (c : Cfg) (atoms : List AtomX) : List (String × List Val) :=
  atoms.foldl (fun g a => (attrsFromNode c a).foldl (fun g kv => groupAdd g kv.1 kv.2) g) []

/-- `vals[0] if vals else None` (the `else` is dead code: a group is created by its first value,
`collect_nonempty`) -/
def headVal : List Val → Val
  | [] => .none
  | v :: _ => v

def consLoop (c : Cfg) (node : AttrD) (g : List (String × List Val)) : AttrD :=
  g.foldl (fun nd kv => writeAttr c nd kv.1 (headVal kv.2)) node

/-- `attrs_not_sane` -/
def notSane (g : List (String × List Val)) : List String :=
  (g.filter (fun kv => !allEq kv.2)).map Prod.fst

/-- one iteration of `for out_idx in out_to_mol`: the new dictionary of the particle and the
attribute list of its "garbage" warning (`[]` = no warning) -/
def attrLoopOne (c : Cfg) (m : MolX) (refs : List (Int × Int)) (k : Int) (ws : List (Int × Rat))
    (node : AttrD) : AttrD × List String :=
  match (refs.lookup k).bind m.atom? with
  | some r => (refLoop c node (attrsFromNode c r), [])
  | none =>
    let g := collect c ((ws.map Prod.fst).filterMap m.atom?)
    (consLoop c node g, notSane g)

/-- side table: particle key ↦ dictionary -/
abbrev XT := List (Int × AttrD)

def xget (x : XT) (k : Int) : Option AttrD :=
  match x with
  | [] => none
  | (k', d) :: r => if k' = k then some d else xget r k

def xset (x : XT) (k : Int) (d : AttrD) : XT :=
  match x with
  | [] => [(k, d)]
  | (k', d') :: r => if k' = k then (k', d) :: r else (k', d') :: xset r k d

structure LoopAcc where
  x : XT
  /-- one entry per "garbage" warning, in the order they are raised -/
  warns : List (Int × List String) := []
  toRemove : List Int := []
  deriving Repr, Inhabited

/-- `graph_out.nodes[out_idx].get('atomname', '') is None` -/
def nameIsNone (d : AttrD) : Bool := dget d "atomname" == some Val.none

def attrLoopStep (c : Cfg) (m : MolX) (refs : List (Int × Int)) (acc : LoopAcc) (kw : Int × List (Int × Rat)) :
    LoopAcc :=
  let r := attrLoopOne c m refs kw.1 kw.2 ((xget acc.x kw.1).getD [])
  { x := xset acc.x kw.1 r.1,
    warns := if r.2.isEmpty then acc.warns else acc.warns ++ [(kw.1, r.2)],
    toRemove := if nameIsNone r.1 then acc.toRemove ++ [kw.1] else acc.toRemove }

/-- `for out_idx in out_to_mol: ...` -/
def attrLoop (c : Cfg) (m : MolX) (refs : List (Int × Int)) (otm : Dict2) (x : XT) : LoopAcc :=
  otm.foldl (attrLoopStep c m refs) { x := x }

/-! ### the extended run -/

structure BlockX where
  nodes : List (Int × AttrD)
  edges : List (Int × Int) := []
  inters : List (String × Inter) := []
  nrexcl : Option Int := none
  /-- `block.force_field` is the target force field -/
  ffOk : Bool := true
  /-- `log_entries`: level, entry, the formatting maps it already has (name ↦ block node) -/
  logs : List (String × String × List (List (String × Int))) := []
  cites : List String := []
  /-- the node keys as they are written in a `correspondence` formatting map -/
  keyNames : List String := []
  deriving Repr, Inhabited

def nameOfD (d : AttrD) : Option String := match dget d "atomname" with | some (.str s) => some s | _ => none
def optIntOfD (d : AttrD) (k : String) : Option Int := match dget d k with | some (.int i) => some i | _ => none

/-- the particle-table attributes of a dictionary -/
def coreOfD (d : AttrD) : Attrs := { name := nameOfD d, resid := optIntOfD d "resid", cg := optIntOfD d "charge_group" }

def BlockX.base (b : BlockX) : Mol :=
  { nodes := b.nodes.map (fun n => (n.1, coreOfD n.2)), edges := b.edges, inters := b.inters, nrexcl := b.nrexcl,
    cites := b.cites }

structure PlacementX where
  molToBlock : Dict2
  block : BlockX
  refs : List (Int × Int)
  deriving Repr, Inhabited

def PlacementX.base (p : PlacementX) : Placement :=
  { molToBlock := p.molToBlock, block := p.block.base, refs := p.refs }

structure ModNodeX where
  key : Int
  attrs : AttrD
  isNew : Bool
  /-- `modification.nodes[idx].get('replace', {})` -/
  replace : AttrD := []
  deriving Repr, Inhabited

def replOfD (r : AttrD) : Repl :=
  { name := (dget r "atomname").map (fun v => match v with | .str s => some s | _ => none),
    resid := (dget r "resid").map (fun v => match v with | .int i => some i | _ => none),
    cg := (dget r "charge_group").map (fun v => match v with | .int i => some i | _ => none) }

def ModNodeX.base (n : ModNodeX) : ModNode :=
  { key := n.key, attrs := coreOfD n.attrs, isNew := n.isNew, repl := replOfD n.replace }

structure ModPlacementX where
  /-- which modification object (index of its mapping) -/
  modId : Nat
  molToMod : Dict2
  nodes : List ModNodeX
  edges : List (Int × Int) := []
  inters : List (String × Inter) := []
  refs : List (Int × Int) := []
  /-- `modification.log_entries`: level, entry -/
  logs : List (String × String) := []
  cites : List String := []
  deriving Repr, Inhabited

def ModPlacementX.base (q : ModPlacementX) : ModPlacement :=
  { molToMod := q.molToMod, nodes := q.nodes.map ModNodeX.base, edges := q.edges, inters := q.inters, refs := q.refs }

/-- `log_entries[level][entry]`: the list of formatting maps, in insertion order of the keys -/
abbrev LogT := List ((String × String) × List (List (String × Int)))

def logAdd (t : LogT) (k : String × String) (maps : List (List (String × Int))) : LogT :=
  match t with
  | [] => [(k, maps)]
  | (k', ms) :: r => if k' = k then (k', ms ++ maps) :: r else (k', ms) :: logAdd r k maps

/-- `modified_interactions`: type ↦ atoms ↦ number of modifications appended -/
abbrev ModInterT := List (String × List (List Int × Nat))

def countAdd (t : List (List Int × Nat)) (atoms : List Int) : List (List Int × Nat) :=
  match t with
  | [] => [(atoms, 1)]
  | (a, n) :: r => if a = atoms then (a, n + 1) :: r else (a, n) :: countAdd r atoms

def appliedAdd (t : ModInterT) (ty : String) (atoms : List Int) : ModInterT :=
  match t with
  | [] => [(ty, [(atoms, 1)])]
  | (ty', inner) :: r => if ty' = ty then (ty', countAdd inner atoms) :: r else (ty', inner) :: appliedAdd r ty atoms

/-- `d[ty] = inner` -/
def typeSet (t : ModInterT) (ty : String) (inner : List (List Int × Nat)) : ModInterT :=
  match t with
  | [] => [(ty, inner)]
  | (ty', i') :: r => if ty' = ty then (ty', inner) :: r else (ty', i') :: typeSet r ty inner

structure StX where
  st : St := {}
  xattrs : XT := []
  /-- the `modifications` list of the particles that have one -/
  mods : List (Int × List Nat) := []
  modInters : ModInterT := []
  logs : LogT := []
  cites : List String := []
  deriving Repr, Inhabited

/-- `new_atom['resid'] = new_atom.get('resid', 1) + residue_offset`, same for the charge group -/
def shiftD (d : AttrD) (roff coff : Int) : AttrD :=
  dsetA (dsetA d "resid" (.int (intOf d "resid" 1 + roff))) "charge_group" (.int (intOf d "charge_group" 1 + coff))

def enumD (start : Int) : List (Int × AttrD) → List (Int × AttrD)
  | [] => []
  | (_, d) :: rest => (start, d) :: enumD (start + 1) rest

def renameMap (bkeys : List Int) (offset : Int) (fm : List (String × Int)) : List (String × Int) :=
  fm.filterMap (fun nk => (C12.corrOf bkeys offset nk.2).map (fun o => (nk.1, o)))

/-- the `correspondence` dictionary of `merge_molecule` as a formatting map (block node ↦ new key) -/
def corrMap (names : List String) (n : Nat) (offset : Int) : List (String × Int) :=
  (List.range n).map (fun (i : Nat) => (names.getD i (toString i), offset + 1 + (i : Int)))

def applyBlockX (sx : StX) (p : PlacementX) : StX :=
  if sx.st.err.isSome then sx else
  -- `if self.force_field != molecule.force_field: raise ValueError`
  if !p.block.ffOk then { sx with st := { sx.st with err := some .valueerror } } else
  let st' := applyBlock sx.st p.base
  if st'.err.isSome then { sx with st := st' } else
  match sx.st.out.mergeOffs with
  | none => { sx with st := st' }
  | some (offset, roff, coff) =>
    let bkeys := p.block.nodes.map Prod.fst
    { sx with
      st := st',
      xattrs := sx.xattrs ++ enumD (offset + 1) (p.block.nodes.map (fun n => (n.1, shiftD n.2 roff coff))),
      logs := p.block.logs.foldl (fun t e =>
        logAdd t (e.1, e.2.1) (e.2.2.map (renameMap bkeys offset) ++ [corrMap p.block.keyNames p.block.nodes.length offset])) sx.logs,
      cites := C12.unionSet sx.cites p.block.cites }

/-- `mods[k]`: `node['modifications'] = node.get('modifications', [])`, then append when absent -/
def modsAdd (t : List (Int × List Nat)) (k : Int) (id : Nat) : List (Int × List Nat) :=
  match t with
  | [] => [(k, [id])]
  | (k', l) :: r => if k' = k then (k', if l.contains id then l else l ++ [id]) :: r else (k', l) :: modsAdd r k id

/-- `mod_atom_name_to_out` -/
def nameMap (nodes : List ModNodeX) (m2o : List (Int × Int)) : List (String × Int) :=
  nodes.foldl (fun d n =>
    match m2o.lookup n.key with
    | some o =>
      let nm := (nameOfD n.attrs).getD "-"
      if d.any (fun x => x.1 == nm) then d.map (fun x => if x.1 == nm then (x.1, o) else x) else d ++ [(nm, o)]
    | none => d) []

/-- one iteration of the node loop of `apply_mod_mapping` on the dictionaries and the
`modifications` lists: a new particle gets the attributes of the modification node, an existing one
`node.update(replace)`; both get the modification appended to their `modifications` list -/
def modNodeStep (m2o : List (Int × Int)) (modId : Nat) (xm : XT × List (Int × List Nat)) (n : ModNodeX) :
    XT × List (Int × List Nat) :=
  match m2o.lookup n.key with
  | none => xm
  | some k =>
    let x1 := if n.isNew then xset xm.1 k n.attrs else xset xm.1 k (dupdate ((xget xm.1 k).getD []) n.replace)
    (x1, modsAdd xm.2 k modId)

/-- `applied_interactions` of one `apply_mod_mapping` call -/
def appliedOf (m2o : List (Int × Int)) (inters : List (String × Inter)) : ModInterT :=
  inters.foldl (fun t ti =>
    match ti.2.atoms.mapM (fun a => m2o.lookup a) with
    | some atoms => appliedAdd t ti.1 atoms
    | none => t) []

/-- `modified_interactions.update(applied_interactions)`: per interaction TYPE the earlier record is
replaced, not merged -/
def modInterUpdate (t applied : ModInterT) : ModInterT := applied.foldl (fun t e => typeSet t e.1 e.2) t

def applyModX (sx : StX) (q : ModPlacementX) : StX :=
  if sx.st.err.isSome then sx else
  let st' := applyMod sx.st q.base
  if st'.err.isSome then { sx with st := st' } else
  match placeModNodes sx.st q.base q.base.nodes sx.st.out [] with
  | none => { sx with st := st' }
  | some (_, m2o) =>
    let xm := q.nodes.foldl (modNodeStep m2o q.modId) (sx.xattrs, sx.mods)
    { st := st', xattrs := xm.1, mods := xm.2,
      modInters := modInterUpdate sx.modInters (appliedOf m2o q.inters),
      logs := q.logs.foldl (fun t e => logAdd t e [nameMap q.nodes m2o]) sx.logs,
      cites := C12.unionSet sx.cites q.cites }

/-- the `while block_matches or mod_matches` loop on the extended state (same schedule as `runAll`) -/
def runAllX : Nat → List PlacementX → List ModPlacementX → StX → StX
  | 0, _, _, sx => sx
  | _ + 1, [], [], sx => sx
  | n + 1, [], q :: qs, sx => runAllX n [] qs (applyModX sx q)
  | n + 1, p :: ps, [], sx => runAllX n ps [] (applyBlockX sx p)
  | n + 1, p :: ps, q :: qs, sx =>
    if modKey q.base < minKey p.base then runAllX n (p :: ps) qs (applyModX sx q)
    else runAllX n ps (q :: qs) (applyBlockX sx p)

/-! ### ordering on the extended placements (same keys as the base) -/

def insertDescX (x : PlacementX) : List PlacementX → List PlacementX
  | [] => [x]
  | y :: ys => if minKey y.base ≤ minKey x.base then x :: y :: ys else y :: insertDescX x ys

def sortDescX : List PlacementX → List PlacementX
  | [] => []
  | x :: xs => insertDescX x (sortDescX xs)

def orderX (ps : List PlacementX) : List PlacementX := (sortDescX ps).reverse

def insertDescMX (x : ModPlacementX) : List ModPlacementX → List ModPlacementX
  | [] => [x]
  | y :: ys => if modKey y.base ≤ modKey x.base then x :: y :: ys else y :: insertDescMX x ys

def sortDescMX : List ModPlacementX → List ModPlacementX
  | [] => []
  | x :: xs => insertDescMX x (sortDescMX xs)

def orderMX (qs : List ModPlacementX) : List ModPlacementX := (sortDescMX qs).reverse

/-! ### after the loop -/

structure ParticleX where
  key : Int
  attrs : AttrD
  /-- `graph` / `mapping_weights` (absent for a particle without `out_to_mol` entry) -/
  atoms : List Int
  weights : List (Int × Rat)
  mods : List Nat
  deriving Repr, Inhabited

structure ResultX where
  particles : List ParticleX
  edges : List (Int × Int)
  inters : List (String × Inter)
  warn : Warnings
  /-- the attribute lists of the "garbage" warnings, in the order raised -/
  garbage : List (Int × List String)
  /-- number of "Interaction set by multiple modification mappings" warnings -/
  multiMod : Nat
  removed : List Int
  logs : LogT
  cites : List String
  deriving Repr, Inhabited

def multiModCount (t : ModInterT) : Nat :=
  (t.flatMap (fun e => e.2.filter (fun an => an.2 != 1))).length

/-- everything after the placement loop: attribute loop, edges between placements, sanity
warnings (all on the graph BEFORE the removal), then `remove_nodes_from(to_remove)` -/
def finishX (c : Cfg) (m : MolX) (sx : StX) : ResultX :=
  let base := finish m.base sx.st
  let acc := attrLoop c m sx.st.refs sx.st.outToMol sx.xattrs
  let g := (withInterEdges m.base sx.st).dropNodes acc.toRemove
  { particles := g.nodes.map (fun n =>
      let ws := (sx.st.outToMol.lookup n.1).getD []
      { key := n.1, attrs := (xget acc.x n.1).getD [], atoms := ws.map Prod.fst, weights := ws,
        mods := (sx.mods.lookup n.1).getD [] }),
    edges := g.edges,
    inters := g.inters,
    warn := { base.warn with garbage := acc.warns.length },
    garbage := acc.warns,
    multiMod := multiModCount sx.modInters,
    removed := acc.toRemove,
    logs := sx.logs,
    cites := sx.cites }

/-- `do_mapping` with its three attribute tuples -/
def assembleX (c : Cfg) (m : MolX) (ps : List PlacementX) (qs : List ModPlacementX) : Except Outcome ResultX :=
  if ps.any (fun p => p.base.atoms.isEmpty) || qs.any (fun q => q.base.atoms.isEmpty) then .error .valueerror else
  let sx := runAllX ((orderX ps).length + (orderMX qs).length) (orderX ps) (orderMX qs) { cites := m.cites }
  match sx.st.err with
  | some e => .error e
  | none => .ok (finishX c m sx)

/-! ### from mapping specifications and raw matches -/

structure MapSpecX where
  blockTo : BlockX
  weights : Dict2
  refs : List (Int × Int)
  deriving Repr, Inhabited

def graphMapX (M : MapSpecX) (mt : List (Int × Int)) : Option PlacementX := do
  let mtb ← mt.mapM (fun gf => (M.weights.lookup gf.2).map (fun ws => (gf.1, ws)))
  let refs ← M.refs.mapM (fun orf => (mt.find? (fun gf => gf.2 == orf.2)).map (fun gf => (orf.1, gf.1)))
  pure { molToBlock := mtb, block := M.blockTo, refs := refs }

structure ModSpecX where
  nodes : List ModNodeX
  edges : List (Int × Int)
  inters : List (String × Inter)
  weights : Dict2
  refs : List (Int × Int)
  logs : List (String × String) := []
  cites : List String := []
  deriving Repr, Inhabited

def graphMapModX (i : Nat) (M : ModSpecX) (mt : List (Int × Int)) : Option ModPlacementX := do
  let mtm ← mt.mapM (fun gf => (M.weights.lookup gf.2).map (fun ws => (gf.1, ws)))
  let refs ← M.refs.mapM (fun orf => (mt.find? (fun gf => gf.2 == orf.2)).map (fun gf => (orf.1, gf.1)))
  pure { modId := i, molToMod := mtm, nodes := M.nodes, edges := M.edges, inters := M.inters, refs := refs,
         logs := M.logs, cites := M.cites }

def doMappingX (c : Cfg) (m : MolX) (maps : List MapSpecX) (raw : List (Nat × List (Int × Int)))
    (mods : List ModSpecX) (rawMods : List (Nat × List (Int × Int))) : Except Outcome ResultX :=
  match raw.mapM (fun im => (maps[im.1]?).bind (fun M => graphMapX M im.2)),
        rawMods.mapM (fun im => (mods[im.1]?).bind (fun M => graphMapModX im.1 M im.2)) with
  | some ps, some qs => assembleX c m ps qs
  | _, _ => .error .keyerror

end C01
