import VermouthModel.C19_Repair
/-!
# C04 — model of `make_reference` AROUND the matcher, of `_get_reference_residue` /
`_patch_modification` with their guards, and of the whole pipeline for one molecule

Transcription of `vermouth/processors/repair_graph.py`:

* `make_reference`, body of the loop over the residues (`makeRef`): `add_element_attr` on reference
  and residue (an `element` is guessed from the first ASCII letter of the atom name; errors kept),
  `get_default(node, 'atomname', '￿')`, the two `sorted(...)` calls with key
  `(name not in names of the OTHER graph, name)` (Python's sort is stable, tuples compare
  `False < True` then strings by code point), `{old: new for new, old in enumerate(...)}`, the inverse
  dictionaries, `nx.relabel_nodes(..., copy=True)` (node ORDER is kept, only the labels change; a label
  outside the mapping is kept: `mapping.get(n, n)`), the node predicate
  `categorical_node_match('element', None)` (`nodeMatch`: equal `element`, nothing else — atom names
  are NOT compared), `next(match_iter)` = the FIRST answer of the matcher, `StopIteration` = the residue
  is skipped, and the "unsort" comprehension `{old_ref[ref]: old_res[res] for ref, res in match.items()}`.
* the matcher itself (ISMAGS `largest_common_subgraph`) is NOT transcribed: `answers` is the list of
  mappings `{reference label: residue label}` in the order the matcher yields them (C06 transcribes ISMAGS);
  the symmetry cache shared by the residues of one molecule is an implementation detail of the matcher
  and does not exist in the model (the harness checks that it is transparent).
* `_patch_modification` (`patchMod`): on top of the model shared with C19
  (`C19.Repair.patchModification`: anchors overlaid on their namesakes, added atoms numbered
  `len(block)…`, bonds with an added end copied) the guard "the anchor must FIT": ISMAGS with
  `node_match = equal atomname` looks for an INDUCED embedding of the anchor, so two anchors may not
  share a namesake and two anchors are bonded iff their namesakes are (`anchorFits`), else
  `ValueError('Cannot apply modification to block')`; and the `modifications` attribute
  (`node_mods + [modification]` on the image of every atom of the modification).
* `_get_reference_residue` (`getRef`): block chosen by the requested mutation else by the residue name,
  the guard `are_all_equal(mutation)` ('Can only mutate residue … once'), `mutation[0]` on an empty list
  (IndexError), KeyError for an unknown block / modification, the modifications applied in request order,
  each distinct one once (`dict.fromkeys`, fix d4639ea)
  (`'none'` skipped), `modification` / `mutation` / `resname` written on every atom.
* `make_reference` + `repair_graph` for one molecule (`pipeline`): every residue gets its reference and
  its match FIRST (an exception ends everything), residues without an answer are left out of the
  reference graph together with their edges (fix 4abf057), then `C04.repairGraph`.

Order dependence on a Python `set`: `_patch_modification` numbers the added atoms in the iteration
order of `set(modification) - anchor_idxs`; modification nodes are keyed by atom-name STRINGS, so that
order changes with PYTHONHASHSEED.  `Molecule.subgraph` copies the nodes in that same order, so the
zip with `range(len(block), …)` is consistent; what does depend on the order is the numbering of the
added atoms in the reference, hence the order in which missing modification atoms are rebuilt and the
keys they get.  In the model the order is that of the modification's node list: the harness lists the
added atoms in the order observed in the real patched block.

Encoding: that of `C04` (block atoms keyed by their index, `name` = atomname, `elem` = integer code of
the element string, attribute values as `repr` strings).  `RAtom` is an atom as `make_reference` reads it:
`atomname` absent / `None` / a string, `element` absent or present.
-/
namespace C04.Ref
open Iso C04 C19.Repair

instance {ε α : Type} [DecidableEq ε] [DecidableEq α] : DecidableEq (Except ε α)
  | .ok a, .ok b => if h : a = b then isTrue (by rw [h]) else isFalse (fun e => h (by cases e; rfl))
  | .error a, .error b => if h : a = b then isTrue (by rw [h]) else isFalse (fun e => h (by cases e; rfl))
  | .ok _, .error _ => isFalse (fun e => by cases e)
  | .error _, .ok _ => isFalse (fun e => by cases e)

/-! ## `make_reference` around the matcher -/

inductive AName where
  | absent                 -- no 'atomname' key
  | pyNone                 -- atomname = None
  | str (s : String)
  deriving Repr, DecidableEq, Inhabited

structure RAtom where
  key : Int
  name : AName
  elem : Option Int
  deriving Repr, DecidableEq, Inhabited

inductive MkErr where
  | noName (k : Int)       -- ValueError 'Cannot guess the element …: the node has no atom name.'
  | noAlpha (k : Int)      -- ValueError '… the atom name has no alphabetic charater.'
  | nameIsNone (k : Int)   -- TypeError: first_alpha(None)
  | badAnswer              -- KeyError in the unsort comprehension (an answer pointing outside the graphs)
  deriving Repr, DecidableEq, Inhabited

/-- `'￿'` -/
def noNameKey : String := String.singleton (Char.ofNat 0xFFFF)

/-- `get_default(node, 'atomname', '￿')` -/
def getDefault : AName → String
  | .str s => s
  | _ => noNameKey

/-- `first_alpha` -/
def firstAlpha (s : String) : Option Char := s.toList.find? Char.isAlpha

/-- one step of `add_element_attr` -/
def addElement (a : RAtom) : Except MkErr RAtom :=
  match a.elem with
  | some _ => .ok a
  | none =>
    match a.name with
    | .absent => .error (.noName a.key)
    | .pyNone => .error (.nameIsNone a.key)
    | .str n =>
      match firstAlpha n with
      | none => .error (.noAlpha a.key)
      | some c => .ok { a with elem := some (c.toNat : Int) }

/-- `add_element_attr`: stops at the first atom without a guessable element -/
def addElements : List RAtom → Except MkErr (List RAtom)
  | [] => .ok []
  | a :: rest =>
    match addElement a with
    | .error e => .error e
    | .ok a' =>
      match addElements rest with
      | .error e => .error e
      | .ok rest' => .ok (a' :: rest')

def namesOf (atoms : List RAtom) : List String := atoms.map fun a => getDefault a.name

/-- the sort key `(name not in other_names.values(), name)` -/
def sortKey (other : List String) (a : RAtom) : Bool × String :=
  (!(other.contains (getDefault a.name)), getDefault a.name)

/-- `x <= y` on the key tuples: `False < True`, then the strings by code point -/
def keyLe (x y : Bool × String) : Bool :=
  if x.1 == y.1 then !(decide (y.2 < x.2)) else !x.1

/-- insert `x` before the first element that is not smaller -/
def insertBy (le : α → α → Bool) (x : α) : List α → List α
  | [] => [x]
  | y :: ys => if le x y then x :: y :: ys else y :: insertBy le x ys

/-- a STABLE sort (insertion sort from the right: an element is put before the first element that is
not smaller, hence before every equal element that followed it in the input).  The result of a
stable sort is determined by the input and the order, so this is `sorted(...)`. -/
def stableSort (le : α → α → Bool) : List α → List α
  | [] => []
  | x :: xs => insertBy le x (stableSort le xs)

/-- `sorted(graph, key=…)` (stable) -/
def sortAtoms (atoms : List RAtom) (other : List String) : List RAtom :=
  stableSort (fun a b => keyLe (sortKey other a) (sortKey other b)) atoms

/-- `{old: new for new, old in enumerate(sorted(...))}` as an association list in dictionary order -/
def newLabels (atoms : List RAtom) (other : List String) : Map :=
  (sortAtoms atoms other).zipIdx.map fun p => (p.1.key, (p.2 : Int))

/-- `{v: k for k, v in new_names.items()}` -/
def invert (mp : Map) : Map := mp.map fun p => (p.2, p.1)

/-- element-coloured graph of a list of atoms (after `add_element_attr`) -/
def graphOf (atoms : List RAtom) (edges : List (Int × Int)) : Graph :=
  { nodes := atoms.map fun a => (a.key, a.elem.getD (-1)), edges := edges.map fun e => (e.1, e.2, 0) }

/-- `nx.relabel_nodes(graph, mapping, copy=True)`: same node order, `mapping.get(n, n)` -/
def relabel (mp : Map) (g : Graph) : Graph :=
  { nodes := g.nodes.map fun p => (Map.toFun mp p.1, p.2),
    edges := g.edges.map fun e => (Map.toFun mp e.1, Map.toFun mp e.2.1, e.2.2) }

/-- `categorical_node_match('element', None)`: `n1.get('element') == n2.get('element')` -/
def nodeMatch (r s : RAtom) : Bool := r.elem == s.elem

/-- `{old_ref_names[ref]: old_res_names[res] for ref, res in match.items()}` -/
def unsort (oldRef oldRes : Map) : Map → Option Map
  | [] => some []
  | p :: rest =>
    match oldRef.lookup p.1, oldRes.lookup p.2, unsort oldRef oldRes rest with
    | some r, some s, some rest' => some ((r, s) :: rest')
    | _, _, _ => none

structure RefOut where
  /-- `new_residue_names`, `new_reference_names` in dictionary order -/
  resNew : Map
  refNew : Map
  /-- the graphs handed to the matcher: `ISMAGS(ref_copy, res_copy, node_match=…)` -/
  resCopy : Graph
  refCopy : Graph
  /-- `none`: the matcher gave no answer, the residue is skipped (`inconsistent-data` error logged) -/
  mtch : Option Map
  deriving Repr, DecidableEq, Inhabited

/-- the body of the loop of `make_reference` for one residue.  `res`/`ref`: atoms of the residue / of
the reference block in node order, `answers`: what `largest_common_subgraph()` yields, in order. -/
def makeRef (res ref : List RAtom) (resE refE : List (Int × Int)) (answers : List Map) : Except MkErr RefOut :=
  match addElements ref with
  | .error e => .error e
  | .ok ref' =>
    match addElements res with
    | .error e => .error e
    | .ok res' =>
      let resNew := newLabels res' (namesOf ref')
      let refNew := newLabels ref' (namesOf res')
      let out : RefOut := { resNew := resNew, refNew := refNew,
                            resCopy := relabel resNew (graphOf res' resE),
                            refCopy := relabel refNew (graphOf ref' refE), mtch := none }
      match answers with
      | [] => .ok out
      | A :: _ =>
        match unsort (invert refNew) (invert resNew) A with
        | none => .error .badAnswer
        | some M => .ok { out with mtch := some M }

/-! ## `_patch_modification` and `_get_reference_residue` with their guards -/

inductive GErr where
  | mutateTwice                          -- ValueError 'Can only mutate residue … once'
  | emptyMutation                        -- IndexError: `mutation[0]` of an empty list
  | unknownBlock (n : String)            -- KeyError from force_field.reference_graphs
  | unknownModification (n : String)     -- KeyError from force_field.modifications
  | doesNotFit (n : String)              -- ValueError 'Cannot apply modification to block'
  deriving Repr, DecidableEq, Inhabited

/-- the overlay found by name is an INDUCED embedding of the anchor: injective, and two anchors are
bonded iff their namesakes are -/
def anchorFits (b md : Block) (am : List (Int × Int)) : Bool :=
  decide (am.map Prod.snd).Nodup
    && am.all fun p => am.all fun q =>
         p.1 == q.1 || (hasEdge md.edges p.1 q.1 == hasEdge b.edges p.2 q.2)

def modTag (n : String) : String := "<Modification " ++ n ++ ">"

/-- the entries of the `repr`-like string of a list -/
def listItems (s : String) : List String :=
  let body := String.ofList ((s.toList.drop 1).dropLast)
  if body.isEmpty then [] else body.splitOn ", "

/-- `node_mods = node.get('modifications', []); if modification not in node_mods: node['modifications'] = node_mods + [modification]` -/
def addModTag (n : String) (a : Atom) : Atom :=
  let cur := listItems ((a.attrs.lookup "modifications").getD "[]")
  if cur.contains (modTag n) then a
  else { a with attrs := setAttr a.attrs "modifications" ("[" ++ ", ".intercalate (cur ++ [modTag n]) ++ "]") }

/-- keys (in the patched block) of the images of the atoms of the modification -/
def touched (b md : Block) (am : List (Int × Int)) : List Int :=
  am.map Prod.snd ++ (newMap b.nodes.length (newAtoms md)).map Prod.snd

/-- `_patch_modification(block, modification)`; `n` is the name of the modification -/
def patchMod (b : Block) (n : String) (md : Block) : Option Block :=
  match anchorMap b md with
  | none => none
  | some am =>
    if anchorFits b md am then
      (patchModification b md).map fun b' =>
        { b' with nodes := b'.nodes.map fun a => if (touched b md am).contains a.key then addModTag n a else a }
    else none

/-- the loop `for mod_name in modifications` -/
def applyMods (ff : FF) : List String → Block → Except GErr Block
  | [], b => .ok b
  | n :: rest, b =>
    if n = "none" then applyMods ff rest b
    else match ff.mods.lookup n with
      | none => .error (.unknownModification n)
      | some md =>
        match patchMod b n md with
        | none => .error (.doesNotFit n)
        | some b' => applyMods ff rest b'

/-- the residue name whose block is used -/
def targetOf (resname : String) : Option (List String) → Except GErr String
  | none => .ok resname
  | some [] => .error .emptyMutation
  | some (t :: rest) => if rest.all (· == t) then .ok t else .error .mutateTwice

/-- `_get_reference_residue` -/
def getRef (ff : FF) (resname : String) (mutation modification : Option (List String)) : Except GErr Block :=
  match targetOf resname mutation with
  | .error e => .error e
  | .ok name =>
    match ff.blocks.lookup name with
    | none => .error (.unknownBlock name)
    | some b0 =>
      match applyMods ff (dedupReq (modification.getD [])) b0 with
      | .error e => .error e
      | .ok b1 =>
        let b2 := match modification with
          | some ms => setAll b1 "modification" (pyList ms)
          | none => b1
        match mutation with
        | some _ => .ok (setAll (setAll b2 "mutation" (pyStr name)) "resname" (pyStr name))
        | none => .ok b2

/-! ## the whole pipeline for one molecule -/

/-- what `make_residue_graph` hands to `make_reference` for one residue, plus the matcher's answers -/
structure ResReq where
  /-- keys of the residue's atoms in node order -/
  found : List Int
  resname : String
  mutation : Option (List String)
  modification : Option (List String)
  /-- residue-level attributes (common to all atoms of the residue) -/
  common : Attrs
  answers : List Map
  deriving Repr, Inhabited

inductive PErr where
  | ref (i : Nat) (e : GErr)
  | mk (i : Nat) (e : MkErr)
  deriving Repr, DecidableEq, Inhabited

/-- the integer code of the string `None`: stands for "no `element` attribute" in the encoding of a molecule
(`int.from_bytes(b'None', 'big')`); a missing atom name is written as `'￿'`, the string `make_reference`
itself substitutes -/
def noneCode : Int := 1315925605

def toRAtom (a : Atom) : RAtom :=
  { key := a.key, name := .str a.name, elem := if a.elem == noneCode then none else some a.elem }

/-- `add_element_attr(reference)` writes the guessed element into the reference block itself -/
def guessElem (a : Atom) : Atom :=
  match addElement (toRAtom a) with
  | .ok r => { a with elem := r.elem.getD a.elem }
  | .error _ => a

/-- the residue as `make_reference` reads it: a `Molecule.subgraph` copy whose nodes are listed in the order of
`found` — `collect_residues` gathers the node keys of a residue in a Python `set`, so this is CPython's
iteration order of a set of integers (an input of the model) -/
def resAtoms (m : Mol) (found : List Int) : List Atom := found.filterMap fun k => m.nodes.find? fun a => a.key == k
def resEdges (m : Mol) (found : List Int) : List (Int × Int) :=
  m.edges.filter fun e => found.contains e.1 && found.contains e.2

/-- `residues.nodes[residx]['resname'] = mutation[0]` -/
def commonOf (q : ResReq) : Attrs :=
  match q.mutation with
  | some (t :: _) => setAttr q.common "resname" (pyStr t)
  | _ => q.common

/-- one iteration of the loop of `make_reference`: `none` = residue skipped -/
def refNode (ff : FF) (m : Mol) (i : Nat) (q : ResReq) : Except PErr (Option Residue) :=
  match getRef ff q.resname q.mutation q.modification with
  | .error e => .error (.ref i e)
  | .ok blk =>
    match makeRef ((resAtoms m q.found).map toRAtom) (blk.nodes.map toRAtom) (resEdges m q.found) blk.edges q.answers with
    | .error e => .error (.mk i e)
    | .ok out =>
      match out.mtch with
      | none => .ok none
      | some M => .ok (some { block := { blk with nodes := blk.nodes.map guessElem }, found := q.found, mtch := M,
                              common := commonOf q })

/-- `make_reference`: nodes of the reference graph, tagged with the index of their residue -/
def refNodes (ff : FF) (m : Mol) : Nat → List ResReq → Except PErr (List (Nat × Residue))
  | _, [] => .ok []
  | i, q :: rest =>
    match refNode ff m i q with
    | .error e => .error e
    | .ok r =>
      match refNodes ff m (i + 1) rest with
      | .error e => .error e
      | .ok rs => .ok (match r with | some R => (i, R) :: rs | none => rs)

structure PipeOut where
  mol : Mol
  /-- indices of the residues that are nodes of the reference graph -/
  kept : List Nat
  /-- residue-graph edges copied into the reference graph -/
  refEdges : List (Nat × Nat)
  mtchs : List Map
  log : List Event
  deriving Repr, DecidableEq, Inhabited

/-- `RepairGraph.run_molecule`: `make_reference` then `repair_graph`; `redges` = edges of the residue graph -/
def pipeline (ff : FF) (m : Mol) (qs : List ResReq) (redges : List (Nat × Nat)) : Except PErr PipeOut :=
  match refNodes ff m 0 qs with
  | .error e => .error e
  | .ok rs =>
    let kept := rs.map Prod.fst
    let (out, ms, log) := repairGraph m (rs.map Prod.snd)
    .ok { mol := out, kept := kept,
          refEdges := redges.filter fun e => kept.contains e.1 && kept.contains e.2,
          mtchs := ms, log := log }

end C04.Ref
