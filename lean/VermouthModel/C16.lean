import Std.Data.HashMap
/-
C16 — character-level model of the fixed-column structure-file writers and
readers of vermouth:

* `vermouth.truncating_formatter.TruncFormatter` (format-spec mini language
  with the extra `t` flag) restricted to the spec shapes that occur in the
  writers (`s`, `d`, `f` types, explicit or default alignment, fill, width,
  precision);
* `vermouth.pdb.pdb.write_pdb_string` (ATOM / TER / CONECT / END records) and
  `PDBParser` (`_atom`, `ter`/`end`, `conect`, `do_conect`);
* `vermouth.gmx.gro.write_gro` / `read_gro` (no velocities on the writer side).

Format strings and reader column tables are NOT written here: they live in
`Generated/C16Layout.lean`, which the harness re-extracts from the repository
source on every run.  Everything here is generic in the layout.

Floats never enter: a value printed with `{:W.Pf}` crosses as the integer
`k = value * 10^P` (the harness generates coordinates on that grid, where
CPython's rendering is the exact decimal expansion of `k / 10^P`).
Strings are `List Char`.
-/
namespace C16

/-! ### text primitives -/

/-- ASCII white space as removed by `str.strip()` (the harness only sends printable ASCII). -/
def isWs (c : Char) : Bool :=
  c = ' ' || c = '\t' || c = '\n' || c = '\r' || c = '\x0b' || c = '\x0c'

def stripL (s : List Char) : List Char := s.dropWhile isWs
def stripR (s : List Char) : List Char := (s.reverse.dropWhile isWs).reverse
def strip (s : List Char) : List Char := stripR (stripL s)

/-- python `s[a:b]` for `0 ≤ a`, `0 ≤ b` (clipped at the end of the string) -/
def slice (s : List Char) (a b : Nat) : List Char := (s.drop a).take (b - a)

def digitChar (n : Nat) : Char := Char.ofNat (48 + n)
def isDigit (c : Char) : Bool := 48 ≤ c.toNat && c.toNat ≤ 57
def digitVal (c : Char) : Nat := c.toNat - 48

/-- decimal digits of a natural number, most significant first (`str(n)`) -/
def natDigits (n : Nat) : List Char :=
  if n < 10 then [digitChar n] else natDigits (n / 10) ++ [digitChar (n % 10)]
termination_by n
decreasing_by omega

/-- `str(i)` / `format(i, 'd')` -/
def intRepr (i : Int) : List Char :=
  if i < 0 then '-' :: natDigits i.natAbs else natDigits i.natAbs

def digitsVal (cs : List Char) : Nat := cs.foldl (fun acc c => acc * 10 + digitVal c) 0

/-- `zfill`: left-pad a digit string with zeros to `p` characters -/
def padZeros (p : Nat) (cs : List Char) : List Char := List.replicate (p - cs.length) '0' ++ cs

/-- `format(k / 10^p, '.{p}f')` for an on-grid value: sign, integer part, point, `p` decimals.
(`p = 0` prints no point, as python does.) -/
def fixRepr (p : Nat) (k : Int) : List Char :=
  let a := k.natAbs
  let body := natDigits (a / 10 ^ p) ++ (if p = 0 then [] else '.' :: padZeros p (natDigits (a % 10 ^ p)))
  if k < 0 then '-' :: body else body

/-- python `int(text)` for the shapes that can occur in a fixed-column field:
optional sign, then one or more ASCII digits.  Anything else: `none` (ValueError). -/
def parseInt (cs : List Char) : Option Int :=
  match cs with
  | '-' :: ds => if ds ≠ [] ∧ ds.all isDigit then some (-(digitsVal ds : Int)) else none
  | '+' :: ds => if ds ≠ [] ∧ ds.all isDigit then some (digitsVal ds : Int) else none
  | ds => if ds ≠ [] ∧ ds.all isDigit then some (digitsVal ds : Int) else none

/-- python `float(text)` restricted to plain decimals `[sign] digits [. digits]`; the result is the
exact value `m / 10^d` as the pair `(m, d)`.  Exponents, `inf`, `nan`, `_`: `none`. -/
def parseDecBody (sgn : Int) (body : List Char) : Option (Int × Nat) :=
  let ip := body.takeWhile isDigit
  let rest := body.dropWhile isDigit
  match rest with
  | [] => if ip = [] then none else some (sgn * (digitsVal ip : Int), 0)
  | '.' :: fr =>
      if fr.all isDigit ∧ (ip ≠ [] ∨ fr ≠ []) then
        some (sgn * ((digitsVal ip * 10 ^ fr.length + digitsVal fr : Nat) : Int), fr.length)
      else none
  | _ => none

def parseDec (cs : List Char) : Option (Int × Nat) :=
  match cs with
  | '-' :: r => parseDecBody (-1) r
  | '+' :: r => parseDecBody 1 r
  | r => parseDecBody 1 r

/-- bring an exact decimal to `p` decimals (`none` if it has more than `p`) -/
def toScale (p : Nat) (v : Int × Nat) : Option Int :=
  if v.2 ≤ p then some (v.1 * (10 ^ (p - v.2) : Nat)) else none

/-! ### format specifications (TruncFormatter) -/

inductive Align where
  | left | right | dflt
  deriving DecidableEq, Repr

inductive Ty where
  | s | d | f
  deriving DecidableEq, Repr

structure Spec where
  fill : Char
  align : Align
  width : Nat
  prec : Nat
  ty : Ty
  trunc : Bool
  deriving DecidableEq, Repr

/-- names of the values the writers pass to the formatter and of the reader columns -/
inductive FName where
  | atomid | atomname | altloc | resname | chain | resid | insertion_code
  | x | y | z | occupancy | temp_factor | element | charge
  | vx | vy | vz
  deriving DecidableEq, Repr

inductive Seg where
  | lit (s : List Char)
  | fld (name : FName) (spec : Spec)
  deriving DecidableEq, Repr

inductive Val where
  | int (i : Int)
  | str (s : List Char)
  /-- a real number on the grid of the field's precision: value × 10^prec -/
  | fix (k : Int)
  /-- `float('nan')` (the coordinates `write_pdb_string(nan_missing_pos=True)` gives an atom without position) -/
  | nan
  deriving DecidableEq, Repr

abbrev Env := FName → Val

/-- alignment in force: explicit, else `<` for strings and `>` for numbers -/
def Spec.leftAligned (sp : Spec) : Bool :=
  match sp.align with
  | .left => true
  | .right => false
  | .dflt => sp.ty = .s

/-- `format(value, spec-without-t)` before padding.  A value whose kind does not match the
type letter makes python raise; the harness never does that and the model prints nothing. -/
def fieldBody (sp : Spec) (v : Val) : List Char :=
  match sp.ty, v with
  | .d, .int i => intRepr i
  | .s, .str s => s
  | .f, .fix k => fixRepr sp.prec k
  | .f, .int i => fixRepr sp.prec (i * (10 ^ sp.prec : Nat))
  | .f, .nan => ['n', 'a', 'n']
  | _, _ => []

/-- python's own padding to the minimum width -/
def padded (sp : Spec) (b : List Char) : List Char :=
  if sp.leftAligned then b ++ List.replicate (sp.width - b.length) sp.fill
  else List.replicate (sp.width - b.length) sp.fill ++ b

/-- `TruncFormatter.format_field`: pad, then with the `t` flag cut down to the width, keeping
the left end of left-aligned fields and the right end of right-aligned ones. -/
def renderField (sp : Spec) (v : Val) : List Char :=
  let r := padded sp (fieldBody sp v)
  if sp.trunc && sp.width != 0 && decide (sp.width < r.length) then
    (if sp.leftAligned then r.take sp.width else r.drop (r.length - sp.width))
  else r

def segText (env : Env) : Seg → List Char
  | .lit s => s
  | .fld n sp => renderField sp (env n)

/-- `formatter.format(format_string, *values)` -/
def render (fmt : List Seg) (env : Env) : List Char := fmt.flatMap (segText env)

def segWidth : Seg → Nat
  | .lit s => s.length
  | .fld _ sp => sp.width

def fmtWidth (fmt : List Seg) : Nat := (fmt.map segWidth).sum

/-- every field has the `t` flag and a non-zero width -/
def allTrunc (fmt : List Seg) : Bool :=
  fmt.all fun
    | .lit _ => true
    | .fld _ sp => sp.trunc && sp.width != 0

/-! ### reader column tables -/

inductive RTy where
  | int | str | float
  deriving DecidableEq, Repr

structure RField where
  name : Option FName
  ty : RTy
  width : Nat
  deriving DecidableEq, Repr

structure RSlice where
  name : FName
  ty : RTy
  start : Nat
  stop : Nat
  deriving DecidableEq, Repr

/-- the loop `start = 0; for name, type_, width in fields: if name: slices.append(...); start += width` -/
def mkSlices (start : Nat) : List RField → List RSlice
  | [] => []
  | f :: fs =>
    match f.name with
    | some n => ⟨n, f.ty, start, start + f.width⟩ :: mkSlices (start + f.width) fs
    | none => mkSlices (start + f.width) fs

inductive RVal where
  | int (i : Int)
  | str (s : List Char)
  | dec (m : Int) (d : Nat)
  /-- `float('nan')` -/
  | nan
  deriving DecidableEq, Repr

inductive Err where
  | valueerror | keyerror | indexerror | nameerror | unmodelled | runtimeerror
  deriving DecidableEq, Repr

def Err.toString : Err → String
  | .valueerror => "valueerror" | .keyerror => "keyerror" | .indexerror => "indexerror"
  | .nameerror => "nameerror" | .unmodelled => "unmodelled" | .runtimeerror => "runtimeerror"

def toLower (c : Char) : Char := if 65 ≤ c.toNat ∧ c.toNat ≤ 90 then Char.ofNat (c.toNat + 32) else c

/-- the spellings of not-a-number `float()` accepts: optional sign, `nan` in any case -/
def isNanText (v : List Char) : Bool :=
  let w := match v with
    | '-' :: r => r
    | '+' :: r => r
    | r => r
  w.map toLower = ['n', 'a', 'n']

/-- `type_(value)` -/
def convert (ty : RTy) (v : List Char) : Except Err RVal :=
  match ty with
  | .str => .ok (.str v)
  | .int => match parseInt v with | some i => .ok (.int i) | none => .error .valueerror
  | .float =>
    match parseDec v with
    | some (m, d) => .ok (.dec m d)
    | none => if isNanText v then .ok .nan else .error .valueerror

def defaultOf : RTy → RVal
  | .str => .str []
  | .int => .int 0
  | .float => .dec 0 0

/-- PDB flavour: `value = line[slice_].strip(); type_(value) if value else type_()` -/
def readFieldPdb (line : List Char) (sl : RSlice) : Except Err RVal :=
  let v := strip (slice line sl.start sl.stop)
  if v = [] then .ok (defaultOf sl.ty) else convert sl.ty v

/-- GRO flavour: `type_(line[slice_].strip())` (an empty number is a ValueError) -/
def readFieldGro (line : List Char) (sl : RSlice) : Except Err RVal :=
  convert sl.ty (strip (slice line sl.start sl.stop))

abbrev Props := List (FName × RVal)

def readFields (rd : List Char → RSlice → Except Err RVal) (line : List Char) :
    List RSlice → Except Err Props
  | [] => .ok []
  | sl :: rest => do
      let v ← rd line sl
      let r ← readFields rd line rest
      pure ((sl.name, v) :: r)

def Props.get (p : Props) (n : FName) : Option RVal := (p.find? (fun e => e.1 = n)).map (·.2)
def Props.str (p : Props) (n : FName) : List Char :=
  match p.get n with | some (.str s) => s | _ => []
def Props.int (p : Props) (n : FName) : Int :=
  match p.get n with | some (.int i) => i | _ => 0
def Props.dec (p : Props) (n : FName) : Int × Nat :=
  match p.get n with | some (.dec m d) => (m, d) | _ => (0, 0)
def Props.isNan (p : Props) (n : FName) : Bool :=
  match p.get n with | some .nan => true | _ => false

def isAsciiLetter (c : Char) : Bool := (65 ≤ c.toNat && c.toNat ≤ 90) || (97 ≤ c.toNat && c.toNat ≤ 122)

/-- `vermouth.utils.first_alpha` -/
def firstAlpha (s : List Char) : Except Err Char :=
  match s.find? isAsciiLetter with
  | some c => .ok c
  | none => .error .valueerror

/-! ### systems -/

/-- A node as the writers see it (`none` = attribute absent or `None`).  Coordinates are
integers in 10⁻³ Å for PDB and 10⁻³ nm for GRO; occupancy/temperature factor in 10⁻². -/
structure Atom where
  key : Int
  atomid : Option Int
  atomname : Option (List Char)
  altloc : Option (List Char)
  resname : Option (List Char)
  chain : Option (List Char)
  resid : Option Int
  icode : Option (List Char)
  x : Int
  y : Int
  z : Int
  occ : Option Int
  temp : Option Int
  element : Option (List Char)
  deriving DecidableEq, Repr

/-- A molecule: nodes in insertion order, undirected edges (each once) between node keys. -/
structure Mol where
  atoms : List Atom
  edges : List (Int × Int)
  deriving Repr

/-- `sorted(nodes, key=atomid or inf)`: stable -/
def atomidLe (a b : Atom) : Bool :=
  match a.atomid, b.atomid with
  | some x, some y => decide (x ≤ y)
  | some _, none => true
  | none, some _ => false
  | none, none => true

def sortedNodes (m : Mol) : List Atom := m.atoms.mergeSort atomidLe

/-! ### PDB writer -/

/-- the layout a PDB writer/reader pair depends on (filled from `Generated.C16Layout`) -/
structure PdbLayout where
  atomFmt : List Seg
  terFmt : List Seg
  conectPrefix : List Char
  conectNum : Spec
  conectChunk : Nat
  endLine : List Char
  readerFields : List RField
  conectStart : Nat
  conectWidth : Nat

def atomEnv (serial : Nat) (a : Atom) : Env := fun n =>
  match n with
  | .atomid => .int serial
  | .atomname => .str (a.atomname.getD [])
  | .altloc => .str (a.altloc.getD [])
  | .resname => .str (a.resname.getD [])
  | .chain => .str (a.chain.getD [])
  | .resid => .int (a.resid.getD 1)
  | .insertion_code => .str (a.icode.getD [])
  | .x => .fix a.x
  | .y => .fix a.y
  | .z => .fix a.z
  | .occupancy => .fix (a.occ.getD 100)
  | .temp_factor => .fix (a.temp.getD 0)
  | .element => .str (a.element.getD [])
  | .charge => .str []
  | _ => .str []

def atomLine (L : PdbLayout) (serial : Nat) (a : Atom) : List Char := render L.atomFmt (atomEnv serial a)
def terLine (L : PdbLayout) (serial : Nat) (a : Atom) : List Char := render L.terFmt (atomEnv serial a)

/-- ATOM lines of one molecule, serials `start, start+1, …` in `sorted_nodes` order -/
def molAtomLines (L : PdbLayout) (start : Nat) (atoms : List Atom) : List (List Char) :=
  match atoms with
  | [] => []
  | a :: rest => atomLine L start a :: molAtomLines L (start + 1) rest

/-- ATOM and TER records of all molecules.  `prev` is the atom whose residue data python's
loop variables still hold (an empty first molecule is a NameError). -/
def writeMols (L : PdbLayout) (start : Nat) (prev : Option Atom) : List Mol → Except Err (List (List Char))
  | [] => .ok []
  | m :: ms =>
    let sn := sortedNodes m
    let last := match sn.getLast? with | some a => some a | none => prev
    match last with
    | none => .error .nameerror
    | some la => do
        let rest ← writeMols L (start + sn.length + 1) (some la) ms
        pure (molAtomLines L start sn ++ [terLine L (start + sn.length) la] ++ rest)

/-- first serial of every molecule -/
def molStarts (start : Nat) : List Mol → List Nat
  | [] => []
  | m :: ms => start :: molStarts (start + m.atoms.length + 1) ms

/-- `nodeidx2atomid[(mol_idx, key)]` for one molecule: a dictionary key ↦ serial -/
def serialTable (start : Nat) (sn : List Atom) : Std.HashMap Int Nat :=
  (sn.foldl (fun (acc : Std.HashMap Int Nat × Nat) a => (acc.1.insert a.key acc.2, acc.2 + 1))
    (Std.HashMap.emptyWithCapacity sn.length, start)).1

/-- adjacency `molecule[key]` from the edge list -/
def adjacency (edges : List (Int × Int)) : Std.HashMap Int (List Int) :=
  edges.foldl (fun acc e =>
      let acc := acc.insert e.1 (e.2 :: (acc.get? e.1).getD [])
      acc.insert e.2 (e.1 :: (acc.get? e.2).getD []))
    (Std.HashMap.emptyWithCapacity edges.length)

/-- neighbours of `k` with a larger key -/
def upperNbrs (adj : Std.HashMap Int (List Int)) (k : Int) : List Int :=
  ((adj.get? k).getD []).filter fun n => k < n

/-- `while todo: current, todo = todo[:n], todo[n:]` -/
def chunks (n : Nat) (l : List Nat) : List (List Nat) :=
  if h : l = [] ∨ n = 0 then [] else l.take n :: chunks n (l.drop n)
termination_by l.length
decreasing_by
  have : l.length ≠ 0 := by
    intro h0; exact h (Or.inl (List.eq_nil_of_length_eq_zero h0))
  simp only [List.length_drop]; omega

def natLe (a b : Nat) : Bool := decide (a ≤ b)

/-- `'CONECT' + number_fmt * (len(current) + 1)` filled with the owner and its partners -/
def conectLine (L : PdbLayout) (ids : List Nat) : List Char :=
  L.conectPrefix ++ ids.flatMap (fun (i : Nat) => renderField L.conectNum (.int (i : Int)))

/-- `nodeidx2atomid[(mol_idx, n_idx)] for n_idx in ...` (a missing key is a KeyError) -/
def lookupAll (tbl : Std.HashMap Int Nat) : List Int → Except Err (List Nat)
  | [] => .ok []
  | k :: ks =>
    match tbl.get? k with
    | none => .error .keyerror
    | some s =>
      match lookupAll tbl ks with
      | .ok r => .ok (s :: r)
      | .error e => .error e

/-- the CONECT records owned by one node: its serial followed by at most `chunk` partner serials,
partners = neighbours with a larger key, sorted by serial -/
def atomConectRecords (chunk : Nat) (tbl : Std.HashMap Int Nat) (adj : Std.HashMap Int (List Int)) (a : Atom) :
    Except Err (List (List Nat)) :=
  match tbl.get? a.key with
  | none => .error .keyerror
  | some own =>
    match lookupAll tbl (upperNbrs adj a.key) with
    | .error e => .error e
    | .ok ids => .ok ((chunks chunk (ids.mergeSort natLe)).map (own :: ·))

/-- `for node_idx in molecule:` (node insertion order) -/
def atomsConectRecords (chunk : Nat) (tbl : Std.HashMap Int Nat) (adj : Std.HashMap Int (List Int)) :
    List Atom → Except Err (List (List Nat))
  | [] => .ok []
  | a :: r =>
    match atomConectRecords chunk tbl adj a with
    | .error e => .error e
    | .ok x =>
      match atomsConectRecords chunk tbl adj r with
      | .error e => .error e
      | .ok y => .ok (x ++ y)

def molConectRecords (L : PdbLayout) (start : Nat) (m : Mol) : Except Err (List (List Nat)) :=
  atomsConectRecords L.conectChunk (serialTable start (sortedNodes m)) (adjacency m.edges) m.atoms

/-- CONECT records (as serial lists) of all molecules; `start` = first serial of the molecule -/
def conectRecords (L : PdbLayout) (start : Nat) : List Mol → Except Err (List (List Nat))
  | [] => .ok []
  | m :: ms =>
    match molConectRecords L start m with
    | .error e => .error e
    | .ok a =>
      match conectRecords L (start + (sortedNodes m).length + 1) ms with
      | .error e => .error e
      | .ok r => .ok (a ++ r)

def conectLines (L : PdbLayout) (start : Nat) (sys : List Mol) : Except Err (List (List Char)) :=
  match conectRecords L start sys with
  | .ok rs => .ok (rs.map (conectLine L))
  | .error e => .error e

/-- `write_pdb_string(system, conect)`: the list of lines (joined with '\n' by the code) -/
def writePdb (L : PdbLayout) (conect : Bool) (sys : List Mol) : Except Err (List (List Char)) := do
  let recs ← writeMols L 1 none sys
  let con ← if conect then conectLines L 1 sys else pure []
  pure (recs ++ con ++ [L.endLine])

/-! ### PDB reader -/

structure PAtom where
  atomid : Int
  atomname : List Char
  altloc : List Char
  resname : List Char
  chain : List Char
  resid : Int
  icode : List Char
  x : Int × Nat
  y : Int × Nat
  z : Int × Nat
  occ : Int × Nat
  temp : Int × Nat
  element : List Char
  deriving DecidableEq, Repr

inductive AtomResult where
  | keep (a : PAtom)
  | skip
  deriving DecidableEq, Repr

/-- `PDBParser._atom` after the column slicing -/
def pdbAtomOfProps (exclude : List (List Char)) (ignh : Bool) (p : Props) : Except Err AtomResult := do
  if p.str .charge ≠ [] then throw Err.unmodelled
  -- not-a-number coordinates and charges are handled by the full reader (`C16_Full.lean`)
  if p.isNan .x ∨ p.isNan .y ∨ p.isNan .z ∨ p.isNan .occupancy ∨ p.isNan .temp_factor then throw Err.unmodelled
  let name := p.str .atomname
  let element ← if p.str .element = [] then (do let c ← firstAlpha name; pure [c]) else pure (p.str .element)
  let alt := p.str .altloc
  if alt ≠ [] ∧ alt ≠ ['A'] then return .skip
  if exclude.contains (p.str .resname) ∨ (ignh ∧ element = ['H']) then return .skip
  pure (.keep {
    atomid := p.int .atomid, atomname := name, altloc := alt, resname := p.str .resname,
    chain := p.str .chain, resid := p.int .resid, icode := p.str .insertion_code,
    x := p.dec .x, y := p.dec .y, z := p.dec .z, occ := p.dec .occupancy, temp := p.dec .temp_factor,
    element := element })

def parseAtomLine (L : PdbLayout) (exclude : List (List Char)) (ignh : Bool) (line : List Char) :
    Except Err AtomResult := do
  let p ← readFields readFieldPdb line (mkSlices 0 L.readerFields)
  pdbAtomOfProps exclude ignh p

/-- `split_comments(line, '#')[0]`: text before the first '#', stripped -/
def decomment (line : List Char) : List Char := strip (line.takeWhile (· ≠ '#'))

inductive Rec where
  | atom | finish | conect | skip | unknown
  deriving DecidableEq, Repr

/-- `PDBParser.dispatch` on the records the model knows; MODEL and CRYST1 are not modelled -/
def classify (line : List Char) : Rec :=
  let r := (strip (line.take 6)).map toLower
  if r = "atom".toList ∨ r = "hetatm".toList then .atom
  else if r = "ter".toList ∨ r = "end".toList ∨ r = "endmdl".toList then .finish
  else if r = "conect".toList then .conect
  else if r = "remark".toList ∨ r = "title".toList ∨ r = "header".toList ∨ r = "anisou".toList
       ∨ r = "master".toList then .skip
  else .unknown

structure PState where
  active : List PAtom        -- reversed
  mols : List (List PAtom)   -- reversed
  conects : List (List Char) -- reversed

def PState.finish (st : PState) : PState :=
  if st.active = [] then st else { st with active := [], mols := st.active.reverse :: st.mols }

def pdbStep (L : PdbLayout) (exclude : List (List Char)) (ignh : Bool) (st : PState) (raw : List Char) :
    Except Err PState :=
  let line := decomment raw
  if line = [] then .ok st else
  match classify line with
  | .atom => do
      match ← parseAtomLine L exclude ignh line with
      | .keep a => pure { st with active := a :: st.active }
      | .skip => pure st
  | .finish => .ok st.finish
  | .conect => .ok { st with conects := line :: st.conects }
  | .skip => .ok st
  | .unknown => .error .keyerror

def pdbFold (L : PdbLayout) (exclude : List (List Char)) (ignh : Bool) :
    PState → List (List Char) → Except Err PState
  | st, [] => .ok st
  | st, l :: ls => do
      let st' ← pdbStep L exclude ignh st l
      pdbFold L exclude ignh st' ls

/-- the loop `for num in range(start, n, width): int(line[num:num + width])` (fuel ≥ number of steps) -/
def conectGo (w : Nat) (line : List Char) (n : Nat) : Nat → Nat → Except Err (List Int)
  | 0, _ => .ok []
  | fuel + 1, pos =>
    if pos < n then
      match parseInt (strip (slice line pos (pos + w))) with
      | some i =>
        match conectGo w line n fuel (pos + w) with
        | .ok r => .ok (i :: r)
        | .error e => .error e
      | none => .error .valueerror
    else .ok []

/-- serial numbers of one CONECT line: `int(line[n:n+width]) for n in range(start, len(line.rstrip()), width)` -/
def conectIds (L : PdbLayout) (line : List Char) : Except Err (List Int) :=
  if L.conectWidth = 0 then .error .valueerror
  else conectGo L.conectWidth line (stripR line).length (stripR line).length L.conectStart

/-- `{atomid: idx}` dictionary of a molecule: the LAST atom with a given serial wins -/
def idTable (mol : List PAtom) : Std.HashMap Int Nat :=
  (mol.foldl (fun (acc : Std.HashMap Int Nat × Nat) a => (acc.1.insert a.atomid acc.2, acc.2 + 1))
    (Std.HashMap.emptyWithCapacity mol.length, 0)).1

/-- first molecule that knows serial `id`, with the node index -/
def findMol (tables : List (Std.HashMap Int Nat)) (id : Int) : Option (Nat × Nat) :=
  let rec go (mi : Nat) (l : List (Std.HashMap Int Nat)) : Option (Nat × Nat) :=
    match l with
    | [] => none
    | m :: r => match m.get? id with
      | some i => some (mi, i)
      | none => go (mi + 1) r
  go 0 tables

/-- `_do_single_conect` as long as both atoms are in the same molecule; a CONECT between two
molecules (which the writer never emits: it makes the reader merge them) is not modelled. -/
def singleConect (mols : List (Std.HashMap Int Nat)) (ids : List Int) : Except Err (List (Nat × Nat × Nat)) :=
  match ids with
  | [] => .error .indexerror
  | id0 :: others =>
    match findMol mols id0 with
    | none => .ok []
    | some (m0, i0) =>
      others.foldr (fun id acc => do
          let rest ← acc
          match findMol mols id with
          | none => pure rest
          | some (m1, i1) => if m1 = m0 then pure ((m0, i0, i1) :: rest) else throw Err.unmodelled)
        (.ok [])

def doConect (L : PdbLayout) (mols : List (Std.HashMap Int Nat)) : List (List Char) → Except Err (List (Nat × Nat × Nat))
  | [] => .ok []
  | l :: ls => do
      let ids ← conectIds L l
      let e ← singleConect mols ids
      let r ← doConect L mols ls
      pure (e ++ r)

structure PdbResult where
  mols : List (List PAtom)
  /-- bonds as (molecule index, node index, node index), in the order they are added -/
  bonds : List (Nat × Nat × Nat)

/-- `read_pdb` on the lines of a file -/
def readPdb (L : PdbLayout) (exclude : List (List Char)) (ignh : Bool) (lines : List (List Char)) :
    Except Err PdbResult := do
  let st ← pdbFold L exclude ignh ⟨[], [], []⟩ lines
  let st := st.finish
  let mols := st.mols.reverse
  let bonds ← doConect L (mols.map idTable) st.conects.reverse
  pure ⟨mols, bonds⟩

/-! ### GRO -/

structure GroLayout where
  atomFmt : List Seg
  fieldNames : List FName
  fieldTypes : List RTy
  fieldWidths : List Nat
  /-- what `read_gro` appends when the first line has six points -/
  velNames : List FName
  velTypes : List RTy
  dotFrom : Nat
  /-- `has_vel = first_line[countFrom:].count('.') == 6` (0: the whole line, as before the repair of F-C16-4) -/
  countFrom : Nat

def groLine (G : GroLayout) (serial : Nat) (a : Atom) : List Char := render G.atomFmt (atomEnv serial a)

def groAtomLines (G : GroLayout) (start : Nat) : List Atom → List (List Char)
  | [] => []
  | a :: rest => groLine G start a :: groAtomLines G (start + 1) rest

def groMolLines (G : GroLayout) (start : Nat) : List Mol → List (List Char)
  | [] => []
  | m :: ms => groAtomLines G start (sortedNodes m) ++ groMolLines G (start + m.atoms.length) ms

/-- atom lines of `write_gro` (title, count and box lines are added by the driver) -/
def writeGro (G : GroLayout) (sys : List Mol) : List (List Char) := groMolLines G 1 sys

/-- `write_gro(..., precision=p)`: the format string for that precision comes from the extracted table -/
def writeGroPrec (G : GroLayout) (fmts : List (Nat × List Seg)) (p : Nat) (sys : List Mol) :
    Except Err (List (List Char)) :=
  match fmts.lookup p with
  | some fmt => .ok (writeGro { G with atomFmt := fmt } sys)
  | none => .error .unmodelled

/-- `str.find(c, from)`; python returns -1 when absent -/
def findFrom (s : List Char) (c : Char) (start : Nat) : Option Nat :=
  let rec go (i : Nat) (l : List Char) : Option Nat :=
    match l with
    | [] => none
    | x :: r => if x = c then some i else go (i + 1) r
  go start (s.drop start)

/-- slices built by `read_gro`: `if width > 0: slices.append(slice(start, start+width)); start += abs(width)` -/
def groSliceBounds (start : Nat) : List Nat → List (Nat × Nat)
  | [] => []
  | w :: ws => if w > 0 then (start, start + w) :: groSliceBounds (start + w) ws else groSliceBounds start ws

structure GroFormat where
  slices : List RSlice
  hasVel : Bool

/-- the format detection on the first atom line.  Velocities are assumed iff the part of the line
from column `countFrom` on (after the four identifier fields) holds exactly six points.  `find` returning -1 is carried as python does
(`-1 + 1 = 0`, differences of −1/positions); widths that come out ≤ 0 yield no slice. -/
def groDetect (G : GroLayout) (first : List Char) : GroFormat :=
  let hasVel := ((first.drop G.countFrom).filter (· = '.')).length = 6
  let fd : Int := match findFrom first '.' G.dotFrom with | some i => i | none => -1
  let sd : Int := match findFrom first '.' (fd + 1).toNat with | some i => i | none => -1
  let prec : Int := sd - fd
  -- negative widths advance by |w| without producing a slice; the model only supports prec ≥ 0 there
  let w : Nat := prec.toNat
  let widths := G.fieldWidths ++ [w, w, w] ++ (if hasVel then [w, w, w] else [])
  let names := G.fieldNames ++ (if hasVel then G.velNames else [])
  let types := G.fieldTypes ++ (if hasVel then G.velTypes else [])
  let bounds := groSliceBounds 0 widths
  let sl := (names.zip (types.zip bounds)).map fun (n, t, b) => (⟨n, t, b.1, b.2⟩ : RSlice)
  ⟨sl, hasVel⟩

structure GAtom where
  resid : Int
  resname : List Char
  atomname : List Char
  atomid : Int
  x : Int × Nat
  y : Int × Nat
  z : Int × Nat
  element : Char
  deriving DecidableEq, Repr

inductive GroLineResult where
  | keep (a : GAtom)
  | skip
  | stop
  deriving Repr

def groParseLine (exclude : List (List Char)) (ignh : Bool) (fmt : GroFormat) (numAtoms idx : Nat)
    (line : List Char) : Except Err GroLineResult :=
  match readFields readFieldGro line fmt.slices with
  | .error e => if idx = numAtoms then .ok .stop else .error e
  | .ok p => do
      let name := p.str .atomname
      let el ← firstAlpha name
      if exclude.contains (p.str .resname) ∨ (ignh ∧ el = 'H') then return .skip
      pure (.keep { resid := p.int .resid, resname := p.str .resname, atomname := name,
                    atomid := p.int .atomid, x := p.dec .x, y := p.dec .y, z := p.dec .z, element := el })

def groLoop (exclude : List (List Char)) (ignh : Bool) (fmt : GroFormat) (numAtoms : Nat) :
    Nat → List (List Char) → Except Err (List GAtom)
  | _, [] => .ok []
  | idx, l :: ls => do
      match ← groParseLine exclude ignh fmt numAtoms idx l with
      | .stop => pure []
      | .skip => groLoop exclude ignh fmt numAtoms (idx + 1) ls
      | .keep a => do
          let r ← groLoop exclude ignh fmt numAtoms (idx + 1) ls
          pure (a :: r)

/-- `read_gro` on the lines of a file (title, count, atoms…, box); the box itself is not modelled -/
def readGro (G : GroLayout) (exclude : List (List Char)) (ignh : Bool) (lines : List (List Char)) :
    Except Err (List GAtom) :=
  match lines with
  | _title :: count :: first :: rest =>
    match parseInt (strip count) with
    | none => .error .valueerror
    | some n =>
      if n < 0 then .error .unmodelled else
      groLoop exclude ignh (groDetect G first) n.toNat 0 (first :: rest)
  | _ => .error .unmodelled   -- StopIteration

end C16
