import VermouthModel.C01
/-
C01 — modification mappings: `modification_matches` (which modification mappings are applied)
and `apply_mod_mapping`, merged with the block placements as in the `while` loop of `do_mapping`.

As for blocks the matcher is not transcribed: the matches `Mapping.map(molecule,
node_match=ptm_resname_match)` yields for the selected modification mappings are an input, in the
order produced.  Modelled: `cover` and the selection of the needed mappings from the groups of
modification names; the two sort keys and the merge of the two queues; creation of new particles
(`PTM_atom` nodes: key `max + 1`, attributes of the modification node, cached highest key
invalidated) versus overlay on an existing particle (found among the particles the mapped atoms
already contribute to, by atom name); weights (`d[a][b] = w`, later assignment wins), edges,
interactions (`add_or_replace_interaction`), references, the `replace` dictionary of an overlaid
node as far as it touches atomname / resid / charge_group (they decide later overlays and the
offsets of later merges).  The other attributes, the `modifications` lists, the "interaction set
by multiple modification mappings" warning and the removal of particles whose atomname is None are
in `C01_Attr.lean`.  Not modelled: citations.  When several candidate particles carry the wanted atom
name the code takes the first of a Python set; the model takes the lowest key (inputs are
generated with a unique candidate).
-/
namespace C01
open C12 (Mol Attrs Inter Outcome)

/-! ### `cover` and the selection of modification mappings -/

/-- `left_to_cover.remove(item)` for every item of the option -/
def removeEach (tc opt : List String) : List String := opt.foldl (fun l x => l.erase x) tc

def coverGo (rec : List String → List (List String) → Option (List (List String))) (tc : List String) :
    List (List String) → Option (List (List String))
  | [] => none
  | o :: rest =>
    if o.all (fun x => tc.contains x) then
      match rec (removeEach tc o) (o :: rest) with
      | some found => some (o :: found)
      | none => coverGo rec tc rest
    else coverGo rec tc rest

/-- `cover(to_cover, options)`; the fuel bounds the recursion depth (an empty option would recurse
forever in the code) -/
def cover : Nat → List String → List (List String) → Option (List (List String))
  | 0, tc, _ => if tc.isEmpty then some [] else none
  | n + 1, tc, opts => if tc.isEmpty then some [] else coverGo (cover n) tc opts

/-- stable sort by decreasing length: `sorted(known, key=len, reverse=True)` -/
def insertLen (x : List String) : List (List String) → List (List String)
  | [] => [x]
  | y :: ys => if y.length ≤ x.length then x :: y :: ys else y :: insertLen x ys

def sortLen : List (List String) → List (List String)
  | [] => []
  | x :: xs => insertLen x (sortLen xs)

/-- for every group of modification names: the covering, or `none` (warning "Can't find
modification mappings", type unmapped-atom) -/
def coverGroups (known : List (List String)) (groups : List (List String)) : List (Option (List (List String))) :=
  groups.map (fun g => cover (g.length + 1) g (sortLen known))

def neededMods (known : List (List String)) (groups : List (List String)) : List (List String) :=
  ((coverGroups known groups).filterMap id).flatten.eraseDups

def uncoveredGroups (known : List (List String)) (groups : List (List String)) : Nat :=
  ((coverGroups known groups).filter Option.isNone).length

/-! ### `apply_mod_mapping` -/

/-- the part of a `replace` dictionary that touches the attributes the particle table carries
(`atomname`, `resid`, `charge_group`): `none` = key not in the dictionary, `some v` = set to `v`
(`some none` = set to `None`, e.g. `"replace": {"atomname": null}`) -/
structure Repl where
  name : Option (Option String) := none
  resid : Option (Option Int) := none
  cg : Option (Option Int) := none
  deriving Repr, DecidableEq, Inhabited

/-- `node.update(replace)` on the particle-table attributes -/
def Repl.apply (r : Repl) (a : Attrs) : Attrs :=
  { a with name := r.name.getD a.name, resid := r.resid.getD a.resid, cg := r.cg.getD a.cg }

/-- `graph_out.nodes[k].update(...)`: attributes of node `k` changed in place (order and keys kept) -/
def updNode (nodes : List (Int × Attrs)) (k : Int) (f : Attrs → Attrs) : List (Int × Attrs) :=
  nodes.map (fun p => if p.1 = k then (p.1, f p.2) else p)

structure ModNode where
  key : Int
  attrs : Attrs
  /-- `PTM_atom` is true: the particle does not exist yet -/
  isNew : Bool
  /-- `modification.nodes[idx].get('replace', {})`, applied to the particle the node is laid over -/
  repl : Repl := {}
  deriving Repr, DecidableEq, Inhabited

structure ModPlacement where
  molToMod : Dict2
  nodes : List ModNode
  edges : List (Int × Int)
  inters : List (String × Inter)
  refs : List (Int × Int)
  deriving Repr, DecidableEq, Inhabited

def ModPlacement.atoms (p : ModPlacement) : List Int := p.molToMod.map Prod.fst

/-- atoms mapped on modification node `b` (the keys of `mod_to_mol[b]`) -/
def ModPlacement.atomsOf (p : ModPlacement) (b : Int) : List Int :=
  (p.molToMod.filter (fun aw => aw.2.any (fun bw => bw.1 == b))).map Prod.fst

def minInt : List Int → Int
  | [] => 0
  | k :: ks => ks.foldl min k

def maxInt : List Int → Int
  | [] => 0
  | k :: ks => ks.foldl max k

/-- the sort key of a modification match: highest atom key when some touched node exists already,
else the lowest -/
def modKey (p : ModPlacement) : Int :=
  let touched := (p.molToMod.flatMap (fun aw => aw.2.map Prod.fst))
  if p.nodes.any (fun n => touched.contains n.key && !n.isNew) then maxInt p.atoms else minInt p.atoms

def insertDescM (x : ModPlacement) : List ModPlacement → List ModPlacement
  | [] => [x]
  | y :: ys => if modKey y ≤ modKey x then x :: y :: ys else y :: insertDescM x ys

def sortDescM : List ModPlacement → List ModPlacement
  | [] => []
  | x :: xs => insertDescM x (sortDescM xs)

def orderM (ps : List ModPlacement) : List ModPlacement := (sortDescM ps).reverse

/-- the particle a modification node that must exist already is laid over: among the particles the
atoms mapped on it contribute to, one with the same atom name -/
def overlayTarget (st : St) (p : ModPlacement) (n : ModNode) : Option Int :=
  let cands := (p.atomsOf n.key).flatMap (fun a => ((st.molToOut.lookup a).getD []).map Prod.fst)
  let ok := cands.filter (fun o => ((C12.lookupAttrs st.out.nodes o).map (·.name)) == some n.attrs.name)
  match ok with
  | [] => none
  | k :: ks => some (ks.foldl min k)

/-- the first loop of `apply_mod_mapping`: `mod_to_out` and the output molecule; `none` = exception
(KeyError: no atom mapped on a node that must exist; ValueError: no particle with that name) -/
def placeModNodes (st : St) (p : ModPlacement) : List ModNode → Mol → List (Int × Int) → Option (Mol × List (Int × Int))
  | [], out, m2o => some (out, m2o)
  | n :: ns, out, m2o =>
    if n.isNew then
      let k : Int := if out.nodes.isEmpty then 0 else (C12.maxKey out.keys).getD 0 + 1
      placeModNodes st p ns (out.addNode k n.attrs) (m2o ++ [(n.key, k)])
    else
      if (p.atomsOf n.key).isEmpty then none else
      match overlayTarget { st with out := out } p n with
      | none => none
      | some k => placeModNodes st p ns { out with nodes := updNode out.nodes k n.repl.apply } (m2o ++ [(n.key, k)])

def modEntries (m2o : List (Int × Int)) (mtm : Dict2) : Option (List (Int × Int × Rat)) :=
  (mtm.flatMap (fun aw => aw.2.map (fun bw => (aw.1, bw.1, bw.2)))).mapM
    (fun e => (m2o.lookup e.2.1).map (fun o => (e.1, o, e.2.2)))

def applyMod (st : St) (p : ModPlacement) : St :=
  if st.err.isSome then st else
  match placeModNodes st p p.nodes st.out [] with
  | none => { st with err := some .valueerror }
  | some (out1, m2o) =>
    match modEntries m2o p.molToMod,
          p.edges.mapM (fun e => do pure ((← m2o.lookup e.1), (← m2o.lookup e.2))),
          p.inters.mapM (fun ti => do pure (ti.1, { ti.2 with atoms := (← ti.2.atoms.mapM (fun a => m2o.lookup a)) })),
          p.refs.mapM (fun r => (m2o.lookup r.1).map (fun o => (o, r.2))) with
    | some es, some edges, some inters, some newRefs =>
      let out2 := edges.foldl (fun o e => o.addEdge e.1 e.2) out1
      let out3 := inters.foldl (fun o ti => (o.addOrReplace ti.1 ti.2.atoms ti.2.params ti.2.version []).1) out2
      { st with out := out3,
                molToOut := addEntries st.molToOut es,
                outToMol := addEntriesRev st.outToMol es,
                refs := newRefs.foldl (fun rs r => (rs.filter (fun x => x.1 != r.1)) ++ [r]) st.refs,
                placed := st.placed ++ [p.atoms] }
    | _, _, _, _ => { st with err := some .keyerror }

/-! ### the `while block_matches or mod_matches` loop -/

/-- both queues in processing order; a modification goes first when there is no block left or its key
is strictly lower than the key of the next block.  The first argument bounds the number of
iterations (the loop pops one match per iteration: the total number of matches suffices). -/
def runAll : Nat → List Placement → List ModPlacement → St → St
  | 0, _, _, st => st
  | _ + 1, [], [], st => st
  | n + 1, [], q :: qs, st => runAll n [] qs (applyMod st q)
  | n + 1, p :: ps, [], st => runAll n ps [] (applyBlock st p)
  | n + 1, p :: ps, q :: qs, st =>
    if modKey q < minKey p then runAll n (p :: ps) qs (applyMod st q) else runAll n ps (q :: qs) (applyBlock st p)

/-- `do_mapping` with block and modification matches -/
def assembleAll (m : MolIn) (ps : List Placement) (qs : List ModPlacement) : Except Outcome Result :=
  if ps.any (fun p => p.atoms.isEmpty) || qs.any (fun q => q.atoms.isEmpty) then .error .valueerror else
  let st := runAll ((order ps).length + (orderM qs).length) (order ps) (orderM qs) {}
  match st.err with
  | some e => .error e
  | none => .ok (finish m st)

/-- `_graph_map` for a modification mapping -/
structure ModSpec where
  nodes : List ModNode
  edges : List (Int × Int)
  inters : List (String × Inter)
  weights : Dict2
  refs : List (Int × Int)
  deriving Repr, Inhabited

def graphMapMod (M : ModSpec) (mt : List (Int × Int)) : Option ModPlacement := do
  let mtm ← mt.mapM (fun gf => (M.weights.lookup gf.2).map (fun ws => (gf.1, ws)))
  let refs ← M.refs.mapM (fun orf => (mt.find? (fun gf => gf.2 == orf.2)).map (fun gf => (orf.1, gf.1)))
  pure { molToMod := mtm, nodes := M.nodes, edges := M.edges, inters := M.inters, refs := refs }

def doMappingAll (m : MolIn) (maps : List MapSpec) (raw : List (Nat × List (Int × Int)))
    (mods : List ModSpec) (rawMods : List (Nat × List (Int × Int))) : Except Outcome Result :=
  match raw.mapM (fun im => (maps[im.1]?).bind (fun M => graphMap M im.2)),
        rawMods.mapM (fun im => (mods[im.1]?).bind (fun M => graphMapMod M im.2)) with
  | some ps, some qs => assembleAll m ps qs
  | _, _ => .error .keyerror

end C01
