import VermouthModel.C16
/-
C16 — the parts of the PDB / GRO writers and readers that `VermouthModel/C16.lean` leaves out,
transcribed on top of it (nothing of the main model changes; `readPdbX` / `readGroX` agree with
`readPdb` / `readGro` on the files the main model understands):

writers
* `write_pdb_string(system, conect, omit_charges, nan_missing_pos)`: atoms without a position
  (KeyError, or `nan` coordinates with `nan_missing_pos`), charges (`omit_charges=False`:
  `'{:+2d}'.format(int(charge))[::-1]` cut to two columns);
* `write_gro(system, file, precision, title, box)`: the whole file — title line, atom count
  (through `TruncFormatter` with the empty spec), atom lines with velocities when the FIRST node of
  every molecule has one (`has_vel`), the box line `' '.join(str(v) for v in box)`.

readers
* `PDBParser`: the complete dispatch table (all `_skip` records, extracted from the class body),
  `MODEL` (number in columns 10–14; unreadable → ignored; `_skipahead` for every other model and
  NOT reset by `ENDMDL`), `CRYST1` (column table extracted; `a`, `b`, `c` → `box` of every molecule
  finished afterwards), `nan` coordinates, the charge column (`2-` / `1+` → number),
  and `_do_single_conect` in full: a CONECT between atoms of two molecules removes both from the
  list, appends their `disjoint_union` (box lost) and — as the code stands — adds the bond between
  node `atomidx0` and node `atomidx` of the MERGED molecule WITHOUT shifting `atomidx` by the size
  of the first molecule (F-C16-3);
* `read_gro`: velocities (six points on the first atom line) and the box (`float` of the blank-
  separated items of the LAST line the loop saw).
-/
namespace C16

/-! ### systems with the extra attributes -/

/-- a node with the attributes the main model leaves out -/
structure AtomX where
  atom : Atom
  /-- `'position' in node` -/
  hasPos : Bool := true
  /-- `node['velocity']` in 10⁻⁴ nm/ps (`none`: no such attribute) -/
  vel : Option (Int × Int × Int) := none
  /-- `int(node.get('charge', 0))` -/
  charge : Int := 0
  deriving DecidableEq, Repr

structure MolX where
  atoms : List AtomX
  edges : List (Int × Int)
  deriving Repr

def MolX.toMol (m : MolX) : Mol := { atoms := m.atoms.map (·.atom), edges := m.edges }

def sortedNodesX (m : MolX) : List AtomX := m.atoms.mergeSort fun a b => atomidLe a.atom b.atom

/-- `'{:+2d}'.format(int(charge))[::-1]` -/
def chargeText (c : Int) : List Char :=
  ((if c < 0 then '-' else '+') :: natDigits c.natAbs).reverse

def atomEnvX (omitCharges : Bool) (serial : Nat) (ax : AtomX) : Env := fun n =>
  match n with
  | .x | .y | .z => if ax.hasPos then atomEnv serial ax.atom n else .nan
  | .charge => .str (if omitCharges then [] else if ax.charge = 0 then [] else chargeText ax.charge)
  | .vx => .fix ((ax.vel.getD (0, 0, 0)).1)
  | .vy => .fix ((ax.vel.getD (0, 0, 0)).2.1)
  | .vz => .fix ((ax.vel.getD (0, 0, 0)).2.2)
  | _ => atomEnv serial ax.atom n

/-! ### PDB writer, all keyword arguments -/

def molAtomLinesX (L : PdbLayout) (omitCh : Bool) (start : Nat) : List AtomX → List (List Char)
  | [] => []
  | a :: rest => render L.atomFmt (atomEnvX omitCh start a) :: molAtomLinesX L omitCh (start + 1) rest

/-- ATOM and TER records.  An atom without position is a KeyError unless `nan_missing_pos`; an empty
first molecule a NameError (the TER line uses the loop variables of the last atom). -/
def writeMolsX (L : PdbLayout) (omitCh nanMissing : Bool) (start : Nat) (prev : Option AtomX) :
    List MolX → Except Err (List (List Char))
  | [] => .ok []
  | m :: ms =>
    let sn := sortedNodesX m
    if nanMissing = false ∧ sn.any (fun a => !a.hasPos) then .error .keyerror
    else
      let last := match sn.getLast? with | some a => some a | none => prev
      match last with
      | none => .error .nameerror
      | some la =>
        match writeMolsX L omitCh nanMissing (start + sn.length + 1) (some la) ms with
        | .error e => .error e
        | .ok rest =>
          .ok (molAtomLinesX L omitCh start sn ++ [render L.terFmt (atomEnvX omitCh (start + sn.length) la)] ++ rest)

/-- `write_pdb_string(system, conect, omit_charges, nan_missing_pos)` -/
def writePdbX (L : PdbLayout) (conect omitCh nanMissing : Bool) (sys : List MolX) : Except Err (List (List Char)) := do
  let recs ← writeMolsX L omitCh nanMissing 1 none sys
  let con ← if conect then conectLines L 1 (sys.map MolX.toMol) else pure []
  pure (recs ++ con ++ [L.endLine])

/-! ### GRO writer, the whole file -/

/-- `str(value)` of a box item: an `int`, or a `float` given as `k / 10^p` (valid where python prints
positionally: `1e-4 ≤ |x| < 1e16` or `x = 0`; the harness stays inside) -/
inductive BoxVal where
  | int (i : Int)
  | dec (k : Int) (p : Nat)
  deriving DecidableEq, Repr

def stripZerosR (s : List Char) : List Char := (s.reverse.dropWhile (· = '0')).reverse

/-- `repr(k / 10^p)`: shortest decimal, at least one digit after the point -/
def reprDec (k : Int) (p : Nat) : List Char :=
  let a := k.natAbs
  let fr := stripZerosR (padZeros p (natDigits (a % 10 ^ p)))
  (if k < 0 then ['-'] else []) ++ natDigits (a / 10 ^ p) ++ '.' :: (if fr = [] then ['0'] else fr)

def boxText : BoxVal → List Char
  | .int i => intRepr i
  | .dec k p => reprDec k p

def joinSp : List (List Char) → List Char
  | [] => []
  | [a] => a
  | a :: r => a ++ ' ' :: joinSp r

/-- `has_vel = all('velocity' in next(iter(mol.nodes.values())) for mol in system.molecules)`: only the
FIRST node (insertion order) of each molecule is looked at; `all` stops at the first `False`; a
molecule without nodes makes `next` raise StopIteration inside the generator → RuntimeError -/
def groHasVel : List MolX → Except Err Bool
  | [] => .ok true
  | m :: ms =>
    match m.atoms.head? with
    | none => .error .runtimeerror
    | some a => if a.vel.isSome then groHasVel ms else .ok false

def groAtomLinesX (fmt velFmt : List Seg) (hasVel : Bool) (start : Nat) : List AtomX → Except Err (List (List Char))
  | [] => .ok []
  | a :: rest =>
    if a.hasPos = false then .error .keyerror                       -- node['position']
    else if hasVel = true ∧ a.vel.isNone then .error .keyerror      -- node['velocity']
    else
      match groAtomLinesX fmt velFmt hasVel (start + 1) rest with
      | .error e => .error e
      | .ok r =>
        .ok ((render fmt (atomEnvX true start a) ++ (if hasVel then render velFmt (atomEnvX true start a) else [])) :: r)

def groMolLinesX (fmt velFmt : List Seg) (hasVel : Bool) (start : Nat) : List MolX → Except Err (List (List Char))
  | [] => .ok []
  | m :: ms =>
    match groAtomLinesX fmt velFmt hasVel start (sortedNodesX m) with
    | .error e => .error e
    | .ok a =>
      match groMolLinesX fmt velFmt hasVel (start + m.atoms.length) ms with
      | .error e => .error e
      | .ok r => .ok (a ++ r)

/-- `write_gro(system, file, precision, title, box)`: the lines of the file.  `fmts` / `velFmts`: the
format strings for each `precision` (extracted table). -/
def writeGroX (fmts velFmts : List (Nat × List Seg)) (precision : Nat) (title : List Char) (box : List BoxVal)
    (sys : List MolX) : Except Err (List (List Char)) :=
  match fmts.lookup precision, velFmts.lookup precision with
  | some fmt, some velFmt =>
    match groHasVel sys with
    | .error e => .error e
    | .ok hv =>
      match groMolLinesX fmt velFmt hv 1 sys with
      | .error e => .error e
      | .ok atoms =>
        .ok (title :: natDigits ((sys.map fun m => m.atoms.length).sum) :: (atoms ++ [joinSp (box.map boxText)]))
  | _, _ => .error .unmodelled

/-! ### GRO reader with velocities and box -/

abbrev Dec := Int × Nat

structure GAtomX where
  atom : GAtom
  vel : Option (Dec × Dec × Dec)
  deriving Repr

/-- `str.split()`: maximal runs of non-blank characters -/
def splitWs (s : List Char) : List (List Char) :=
  let rec go (cur : List Char) (acc : List (List Char)) : List Char → List (List Char)
    | [] => (if cur = [] then acc else cur.reverse :: acc).reverse
    | c :: r => if isWs c then go [] (if cur = [] then acc else cur.reverse :: acc) r else go (c :: cur) acc r
  go [] [] s

def groVelOf (fmt : GroFormat) (line : List Char) : Option (Dec × Dec × Dec) :=
  if fmt.hasVel then
    match readFields readFieldGro line fmt.slices with
    | .ok p => some (p.dec .vx, p.dec .vy, p.dec .vz)
    | .error _ => none
  else none

/-- the atom loop, which also remembers the last line it was given (python's loop variable `line`) -/
def groLoopX (exclude : List (List Char)) (ignh : Bool) (fmt : GroFormat) (numAtoms : Nat) :
    Nat → List Char → List (List Char) → Except Err (List GAtomX × List Char)
  | _, last, [] => .ok ([], last)
  | idx, _, l :: ls =>
    match groParseLine exclude ignh fmt numAtoms idx l with
    | .error e => .error e
    | .ok .stop => .ok ([], l)
    | .ok .skip => groLoopX exclude ignh fmt numAtoms (idx + 1) l ls
    | .ok (.keep a) =>
      -- a first line with fewer than two points after column 25 gives a width ≤ 0: no coordinate columns
      -- at all, and `properties.pop('x')` is a KeyError
      if !(fmt.slices.any fun sl => sl.name = .x) then .error .keyerror else
      match groLoopX exclude ignh fmt numAtoms (idx + 1) l ls with
      | .error e => .error e
      | .ok (r, last) => .ok (⟨a, groVelOf fmt l⟩ :: r, last)

def parseToks : List (List Char) → Except Err (List Dec)
  | [] => .ok []
  | t :: ts =>
    match parseDec t with
    | none => .error .valueerror
    | some v =>
      match parseToks ts with
      | .error e => .error e
      | .ok vs => .ok (v :: vs)

/-- `np.array(line.strip().split(), dtype=float)` -/
def parseBox (line : List Char) : Except Err (List Dec) := parseToks (splitWs line)

/-- `read_gro`: atoms (with velocities when the first atom line has six points) and box -/
def readGroX (G : GroLayout) (exclude : List (List Char)) (ignh : Bool) (lines : List (List Char)) :
    Except Err (List GAtomX × List Dec) :=
  match lines with
  | _title :: count :: first :: rest =>
    match parseInt (strip count) with
    | none => .error .valueerror
    | some n =>
      if n < 0 then .error .unmodelled else
      match groLoopX exclude ignh (groDetect G first) n.toNat 0 first (first :: rest) with
      | .error e => .error e
      | .ok (atoms, last) =>
        match parseBox last with
        | .error e => .error e
        | .ok box => .ok (atoms, box)
  | _ => .error .unmodelled   -- StopIteration

/-! ### PDB reader: the complete record table, MODEL, CRYST1, nan, charges -/

structure PAtomX where
  atom : PAtom
  /-- which of x, y, z were read as `nan` -/
  nan : Bool × Bool × Bool
  charge : Dec
  deriving DecidableEq, Repr

/-- the charge column: `float(charge)`, on ValueError `float(charge[::-1])` -/
def parseCharge (c : List Char) : Except Err Dec :=
  if c = [] then .ok (0, 0)
  else match parseDec c with
    | some v => .ok v
    | none => match parseDec c.reverse with
      | some v => .ok v
      | none => .error .valueerror

/-- `PDBParser._atom` after the column slicing, complete -/
def pdbAtomOfPropsX (exclude : List (List Char)) (ignh : Bool) (p : Props) : Except Err (Option PAtomX) := do
  let charge ← parseCharge (p.str .charge)
  let name := p.str .atomname
  let element ← if p.str .element = [] then (do let c ← firstAlpha name; pure [c]) else pure (p.str .element)
  let alt := p.str .altloc
  if alt ≠ [] ∧ alt ≠ ['A'] then return none
  if exclude.contains (p.str .resname) ∨ (ignh ∧ element = ['H']) then return none
  pure (some {
    atom := { atomid := p.int .atomid, atomname := name, altloc := alt, resname := p.str .resname,
              chain := p.str .chain, resid := p.int .resid, icode := p.str .insertion_code,
              x := p.dec .x, y := p.dec .y, z := p.dec .z, occ := p.dec .occupancy, temp := p.dec .temp_factor,
              element := element },
    nan := (p.isNan .x, p.isNan .y, p.isNan .z), charge := charge })

def parseAtomLineX (L : PdbLayout) (exclude : List (List Char)) (ignh : Bool) (line : List Char) :
    Except Err (Option PAtomX) := do
  let p ← readFields readFieldPdb line (mkSlices 0 L.readerFields)
  pdbAtomOfPropsX exclude ignh p

/-- a column of `PDBParser.cryst1` (its names are not atom attributes) -/
structure CField where
  name : List Char
  ty : RTy
  width : Nat
  deriving DecidableEq, Repr

structure PdbLayoutX where
  base : PdbLayout
  /-- record names bound to `_skip` in the class body -/
  skipRecords : List (List Char)
  /-- the `fields` table of `cryst1` (`name = []`: unnamed filler) -/
  crystFields : List CField
  /-- `line[a:b]` of `model` -/
  modelStart : Nat
  modelStop : Nat

inductive RecX where
  | atom | finish | conect | model | cryst1 | skip | unknown
  deriving DecidableEq, Repr

/-- `PDBParser.dispatch`: `getattr(self, line[:6].strip().lower(), self._unknown_line)`.  Names that
happen to be other attributes of the parser object (`parse`, `exclude`, …) are not modelled. -/
def classifyX (X : PdbLayoutX) (line : List Char) : RecX :=
  let r := (strip (line.take 6)).map toLower
  if r = "atom".toList ∨ r = "hetatm".toList then .atom
  else if r = "ter".toList ∨ r = "end".toList ∨ r = "endmdl".toList then .finish
  else if r = "conect".toList then .conect
  else if r = "model".toList then .model
  else if r = "cryst1".toList then .cryst1
  else if X.skipRecords.contains r then .skip
  else .unknown

abbrev Cryst := List (List Char × RVal)

def Cryst.set (c : Cryst) (n : List Char) (v : RVal) : Cryst :=
  if c.any (·.1 = n) then c.map (fun e => if e.1 = n then (n, v) else e) else c ++ [(n, v)]

def Cryst.dec? (c : Cryst) (n : List Char) : Option Dec :=
  match c.find? (·.1 = n) with
  | some (_, .dec m d) => some (m, d)
  | _ => none

/-- `cryst1`: every named, non-blank column is converted and stored (later records overwrite) -/
def crystStep (fields : List CField) (line : List Char) (start : Nat) (c : Cryst) : Except Err Cryst :=
  match fields with
  | [] => .ok c
  | f :: fs =>
    if f.name = [] then crystStep fs line (start + f.width) c
    else
      let v := strip (slice line start (start + f.width))
      if v = [] then crystStep fs line (start + f.width) c
      else match convert f.ty v with
        | .error e => .error e
        | .ok rv => crystStep fs line (start + f.width) (c.set f.name rv)

/-- `[a/10, b/10, c/10]` once `a`, `b`, `c` are all known -/
def Cryst.box (c : Cryst) : Option (Dec × Dec × Dec) :=
  match c.dec? ['a'], c.dec? ['b'], c.dec? ['c'] with
  | some a, some b, some cc => some ((a.1, a.2 + 1), (b.1, b.2 + 1), (cc.1, cc.2 + 1))
  | _, _, _ => none

/-- a molecule as the reader holds it: atoms, bonds (node indices, in the order added), box -/
structure MolR where
  atoms : List PAtomX
  edges : List (Nat × Nat)
  box : Option (Dec × Dec × Dec)
  deriving Repr

structure PStateX where
  active : List PAtomX       -- reversed
  mols : List MolR           -- reversed
  conects : List (List Char) -- reversed
  skip : Bool
  cryst : Cryst

def PStateX.finish (st : PStateX) : PStateX :=
  if st.active = [] then st
  else { st with active := [], mols := ⟨st.active.reverse, [], st.cryst.box⟩ :: st.mols }

def pdbStepX (X : PdbLayoutX) (exclude : List (List Char)) (ignh : Bool) (modelidx : Int) (st : PStateX)
    (raw : List Char) : Except Err PStateX :=
  let line := decomment raw
  if line = [] then .ok st else
  match classifyX X line with
  | .atom =>
    if st.skip then .ok st
    else match parseAtomLineX X.base exclude ignh line with
      | .error e => .error e
      | .ok (some a) => .ok { st with active := a :: st.active }
      | .ok none => .ok st
  | .finish => .ok st.finish
  | .conect => .ok { st with conects := line :: st.conects }
  | .model =>
    match parseInt (strip (slice line X.modelStart X.modelStop)) with
    | none => .ok st                                     -- ValueError: return
    | some n => .ok { st with skip := decide (n ≠ modelidx) }
  | .cryst1 =>
    match crystStep X.crystFields line 0 st.cryst with
    | .error e => .error e
    | .ok c => .ok { st with cryst := c }
  | .skip => .ok st
  | .unknown => .error .keyerror

def pdbFoldX (X : PdbLayoutX) (exclude : List (List Char)) (ignh : Bool) (modelidx : Int) :
    PStateX → List (List Char) → Except Err PStateX
  | st, [] => .ok st
  | st, l :: ls =>
    match pdbStepX X exclude ignh modelidx st l with
    | .error e => .error e
    | .ok st' => pdbFoldX X exclude ignh modelidx st' ls

/-! ### CONECT, including records that join two molecules -/

def idTableX (mol : List PAtomX) : Std.HashMap Int Nat := idTable (mol.map (·.atom))

def eraseTwo {α : Type} (l : List α) (i j : Nat) : List α :=
  (l.eraseIdx (max i j)).eraseIdx (min i j)

structure CState where
  mols : List MolR
  tables : List (Std.HashMap Int Nat)

def PAtomX.hasNan (a : PAtomX) : Bool := a.nan.1 || a.nan.2.1 || a.nan.2.2

/-- `distance(mol.nodes[atomidx0]['position'], mol2.nodes[atomidx]['position'])` is scipy's `euclidean`,
which refuses not-a-number coordinates (ValueError): a file written with `nan_missing_pos` and CONECT
records on the position-less atom cannot be read back ("invalid for most uses", as the docstring says) -/
def distanceOk (atoms : List PAtomX) (i j : Nat) : Bool :=
  match atoms[i]?, atoms[j]? with
  | some a, some b => !(a.hasNan || b.hasNan)
  | _, _ => true

/-- one partner of a CONECT record.  `cur`: position of `mol` in the list, `i0`: `atomidx0`. -/
def conectPartner (st : CState × Nat) (i0 : Nat) (id : Int) : Except Err (CState × Nat) :=
  let (s, cur) := st
  match findMol s.tables id with
  | none => .ok st                                     -- a skipped atom
  | some (m1, i1) =>
    if m1 = cur then
      match s.mols[cur]? with
      | none => .ok st
      | some A =>
        if distanceOk A.atoms i0 i1 then
          .ok (⟨s.mols.modify cur (fun m => { m with edges := m.edges ++ [(i0, i1)] }), s.tables⟩, cur)
        else .error .valueerror
    else
      match s.mols[cur]?, s.mols[m1]? with
      | some A, some B =>
        -- nx.disjoint_union(mol, mol2): nodes of `mol` first; the bond uses `atomidx` as it was
        let merged : MolR :=
          { atoms := A.atoms ++ B.atoms,
            edges := A.edges ++ B.edges.map (fun e => (e.1 + A.atoms.length, e.2 + A.atoms.length)) ++ [(i0, i1)],
            box := none }
        let mols' := eraseTwo s.mols cur m1 ++ [merged]
        let tables' := eraseTwo s.tables cur m1 ++ [idTableX merged.atoms]
        if distanceOk merged.atoms i0 i1 then .ok (⟨mols', tables'⟩, mols'.length - 1)
        else .error .valueerror
      | _, _ => .ok st

def conectPartners (st : CState × Nat) (i0 : Nat) : List Int → Except Err (CState × Nat)
  | [] => .ok st
  | id :: ids =>
    match conectPartner st i0 id with
    | .error e => .error e
    | .ok st' => conectPartners st' i0 ids

/-- `_do_single_conect` -/
def singleConectX (s : CState) (ids : List Int) : Except Err CState :=
  match ids with
  | [] => .error .indexerror
  | id0 :: others =>
    match findMol s.tables id0 with
    | none => .ok s
    | some (m0, i0) =>
      match conectPartners (s, m0) i0 others with
      | .error e => .error e
      | .ok st => .ok st.1

def doConectX (L : PdbLayout) (s : CState) : List (List Char) → Except Err CState
  | [] => .ok s
  | l :: ls =>
    match conectIds L l with
    | .error e => .error e
    | .ok ids =>
      match singleConectX s ids with
      | .error e => .error e
      | .ok s' => doConectX L s' ls

/-- `read_pdb(file, exclude, ignh, modelidx)` -/
def readPdbX (X : PdbLayoutX) (exclude : List (List Char)) (ignh : Bool) (modelidx : Int)
    (lines : List (List Char)) : Except Err (List MolR) :=
  match pdbFoldX X exclude ignh modelidx ⟨[], [], [], false, []⟩ lines with
  | .error e => .error e
  | .ok st =>
    let st := st.finish
    let mols := st.mols.reverse
    match doConectX X.base ⟨mols, mols.map fun m => idTableX m.atoms⟩ st.conects.reverse with
    | .error e => .error e
    | .ok s => .ok s.mols

end C16
