import VermouthModel.C18
import VermouthModel.C08
/-
C18 — model of `vermouth.rcsu.contact_map.read_go_map`: how the contact list handed to the Go
pipeline is read from an rCSU contact-map file.

    for line in file:                      # universal newlines: \n, \r, \r\n
        tokens = line.strip().split()      # whitespace separated
        if len(tokens) == 0: continue
        if tokens[0] == "R" and len(tokens) == 18:
            if tokens[11] == "1" or (tokens[11] == "0" and tokens[14] == "1"):
                contacts.append((int(tokens[5]), tokens[4], int(tokens[9]), tokens[8]))
    if len(contacts) == 0: raise IOError
-/
namespace C18

/-- ASCII characters `str.split()` treats as separators (the harness only sends ASCII) -/
def isWs (c : Char) : Bool :=
  c = ' ' || c = '\t' || c = '\n' || c = '\r' || c = '\x0b' || c = '\x0c' ||
  c = '\x1c' || c = '\x1d' || c = '\x1e' || c = '\x1f'

/-- `str.split()`: maximal runs of non-separator characters; `cur` is the run being read (reversed) -/
def splitWsAux : List Char → List Char → List (List Char)
  | [], cur => if cur.isEmpty then [] else [cur.reverse]
  | c :: rest, cur =>
    if isWs c then (if cur.isEmpty then splitWsAux rest [] else cur.reverse :: splitWsAux rest [])
    else splitWsAux rest (c :: cur)

def splitWs (s : List Char) : List (List Char) := splitWsAux s []

/-- file iteration with universal newlines (a `\r\n` gives an extra empty line, which is skipped anyway) -/
def splitLinesAux : List Char → List Char → List (List Char)
  | [], cur => if cur.isEmpty then [] else [cur.reverse]
  | c :: rest, cur =>
    if c = '\n' || c = '\r' then cur.reverse :: splitLinesAux rest []
    else splitLinesAux rest (c :: cur)

def splitLines (s : List Char) : List (List Char) := splitLinesAux s []

inductive LineResult where
  | ignored                      -- blank, comment, short or unselected line
  | contact (c : Contact)
  | valueError                   -- int() failed on a residue field
  deriving Repr, DecidableEq, Inhabited

def flagsOk (f11 f14 : List Char) : Bool := f11 = ['1'] || (f11 = ['0'] && f14 = ['1'])

def parseTokens (t : List (List Char)) : LineResult :=
  match t with
  | [r, _, _, _, ca, ra, _, _, cb, rb, _, f11, _, _, f14, _, _, _] =>
    if r = ['R'] then
      if flagsOk f11 f14 then
        match C08.pyInt ra with
        | none => .valueError
        | some a =>
          match C08.pyInt rb with
          | none => .valueError
          | some b => .contact { residA := a, chainA := String.ofList ca, residB := b, chainB := String.ofList cb }
      else .ignored
    else .ignored
  | _ => .ignored

def parseLine (line : List Char) : LineResult := parseTokens (splitWs line)

inductive MapResult where
  | ok (contacts : List Contact)
  | valueError
  | ioError                      -- "Your contact map is empty"
  deriving Repr, DecidableEq, Inhabited

def collect : List LineResult → List Contact → MapResult
  | [], acc => if acc.isEmpty then .ioError else .ok acc.reverse
  | .ignored :: r, acc => collect r acc
  | .contact c :: r, acc => collect r (c :: acc)
  | .valueError :: _, _ => .valueError

def readGoMap (text : List Char) : MapResult := collect ((splitLines text).map parseLine) []

end C18
