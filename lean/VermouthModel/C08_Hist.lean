import VermouthModel.C08
/-
C08 — the counting handler as a state machine (history model).

`CountingHandler.counts` is a dictionary level -> (dictionary type -> count), both in insertion
order; `handle(record)` does `counts[level][type] += 1`; `number_of_counts_by(level, type)` and
`ignore_warnings_and_count` only READ it.  A history interleaves logging with queries on ONE handler;
the property must hold for every query of every history (a total that is remembered across calls and
not refreshed by a later record would break it).
-/
namespace C08

abbrev Counts := List (Nat × List (String × Nat))

def bumpType (d : List (String × Nat)) (ty : String) : List (String × Nat) :=
  match d with
  | [] => [(ty, 1)]
  | (t, c) :: rest => if t = ty then (t, c + 1) :: rest else (t, c) :: bumpType rest ty

/-- `counts[level][type] += 1` -/
def bump (cs : Counts) (lvl : Nat) (ty : String) : Counts :=
  match cs with
  | [] => [(lvl, [(ty, 1)])]
  | (l, d) :: rest => if l = lvl then (l, bumpType d ty) :: rest else (l, d) :: bump rest lvl ty

/-- the dump order of the nested dictionaries -/
def flattenCounts (cs : Counts) : List Entry :=
  cs.flatMap (fun ld => ld.2.map (fun tc => { level := ld.1, type := tc.1, count := tc.2 }))

/-- does a (level, type) cell contribute to `number_of_counts_by(level, type)`:
`lvl < level` cells are skipped, a given type must be equal -/
def selects (level : Option Nat) (ty : Option String) (l : Nat) (t : String) : Bool :=
  (match level with | none => true | some lv => decide (lv ≤ l)) &&
  (match ty with | none => true | some x => decide (t = x))

/-- `number_of_counts_by(level=..., type=...)`: the double loop over the nested dictionaries -/
def countsBy (cs : Counts) (level : Option Nat) (ty : Option String) : Nat :=
  (cs.map (fun ld => (ld.2.map (fun tc => if selects level ty ld.1 tc.1 then tc.2 else 0)).sum)).sum

inductive HOp where
  | log (level : Nat) (type : String)
  | countBy (level : Option Nat) (type : Option String)
  | leftover (specs : List (List Spec)) (level : Nat)
  deriving Repr

/-- one operation on the handler: new state and the answer of a query -/
def hstep (cs : Counts) : HOp → Counts × Option Int
  | .log l t => (bump cs l t, none)
  | .countBy l t => (cs, some (countsBy cs l t : Int))
  | .leftover specs level => (cs, some (leftover (flattenCounts cs) specs level))

def hrun (cs : Counts) : List HOp → List (Option Int)
  | [] => []
  | op :: ops => (hstep cs op).2 :: hrun (hstep cs op).1 ops

/-- the records logged by a history, in order -/
def logged : List HOp → List (Nat × String)
  | [] => []
  | .log l t :: ops => (l, t) :: logged ops
  | _ :: ops => logged ops

/-- a fresh handler that has received the given records -/
def fresh (recs : List (Nat × String)) : Counts :=
  recs.foldl (fun cs r => bump cs r.1 r.2) []

end C08
