import VermouthModel.C10_System
/-
C10 — the command line layer: `bin/martinize2 -bonds-from {name,distance,none,both} -bonds-fudge F`
→ `MakeBonds(allow_name, allow_dist, fudge)`.

What the source says is re-extracted on every run into `Generated/C10Cli.lean : cliTable`
(harness/c10_extract.py, AST only): the `add_argument` calls of the two options, every
`var = <expr> in (<strings>)` assignment of the function that calls `pdb_to_universal`, the keywords
of that call, and the keywords of the `MakeBonds(...)` call inside `pdb_to_universal`.  The
functions here RESOLVE the plumbing (keyword of MakeBonds → parameter of pdb_to_universal →
variable of the caller → membership test on `args.<dest>`); the table theorems in
`VermouthProps/C10_Cli.lean` then state the resulting mapping.
-/
namespace C10

structure CliTable where
  dest : Option String                                  -- dest of -bonds-from
  choices : List String
  default : Option String
  assigns : List (String × String × List String)        -- var, tested expression, tuple
  entryKw : List (String × String)                      -- pdb_to_universal(kw=expr, ...)
  procKw : List (String × String)                       -- MakeBonds(kw=expr, ...)
  fudgeDest : Option String
  fudgeType : Option String
  fudgeDefault : Option (Nat × Nat)
  deriving Repr, DecidableEq, Inhabited

def kwLookup (l : List (String × String)) (k : String) : Option String := (l.find? (·.1 == k)).map (·.2)

/-- the tuple of option values for which the MakeBonds keyword `kw` is True -/
def resolveSet (t : CliTable) (kw : String) : Option (List String) := do
  let dest ← t.dest
  let param ← kwLookup t.procKw kw
  let var ← kwLookup t.entryKw param
  let a ← t.assigns.find? (·.1 == var)
  if a.2.1 == "args." ++ dest then some a.2.2 else none

/-- `(allow_name, allow_dist)` for `-bonds-from v` (`none` = option not given).  `none` as result:
argparse rejects the value (`error: argument -bonds-from: invalid choice`), or the plumbing is not
of the expected shape. -/
def cliModes (t : CliTable) (opt : Option String) : Option (Bool × Bool) := do
  let ns ← resolveSet t "allow_name"
  let ds ← resolveSet t "allow_dist"
  let v ← match opt with
    | some v => if t.choices.contains v then some v else none
    | none => t.default
  some (ns.contains v, ds.contains v)

/-- value of a string of decimal digits -/
def digitsVal (cs : List Char) : Option Nat :=
  if cs.all Char.isDigit then some (cs.foldl (fun a c => 10 * a + (c.toNat - '0'.toNat)) 0) else none

/-- `float(s)` for plain decimals `ddd`, `ddd.ddd`, `ddd.`, `.ddd`, as the exact ratio it denotes
(the float is the correctly rounded value of that ratio, and so is the float division p/q the
harness hands to MakeBonds).  Signs, exponents, `inf`, `nan`, `_`, white space: not modelled. -/
def parseDecimalChars (cs : List Char) : Option (Nat × Nat) :=
  match cs.dropWhile (· != '.') with
  | [] => if cs.isEmpty then none else (digitsVal cs).map (·, 1)
  | _ :: b =>
    if (cs.takeWhile (· != '.')).isEmpty && b.isEmpty then none
    else
      match digitsVal (cs.takeWhile (· != '.')), digitsVal b with
      | some x, some y => some (x * 10 ^ b.length + y, 10 ^ b.length)
      | _, _ => none

def parseDecimal (s : String) : Option (Nat × Nat) := parseDecimalChars s.toList

/-- the fudge factor handed to MakeBonds for `-bonds-fudge s` (`none` = option not given) -/
def cliFudge (t : CliTable) (opt : Option String) : Option (Nat × Nat) := do
  let dest ← t.fudgeDest
  let param ← kwLookup t.procKw "fudge"
  let e ← kwLookup t.entryKw param
  if e == "args." ++ dest && t.fudgeType == some "float" then
    match opt with
    | some s => parseDecimal s
    | none => t.fudgeDefault
  else none

end C10
