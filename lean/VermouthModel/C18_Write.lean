import VermouthModel.C18
/-
C18 — model of what is WRITTEN for the Go model (vermouth/gmx/topology.py):

* `writeNonbond`   : `write_nonbond_params(system, path, C6C12)`
* `writeAtomtypes` : `write_atomtypes(system, path, C6C12)`
* `goParamFiles`   : the part of `write_gmx_topology` that decides which of the two files is
                     written, where, and in which order (`itp_paths`)
* `gkeyOf`, `sortByKey`, `groupRuns` : `_group_by_conditionals` (`sorted(key=_interaction_sorting_key)`
                     + `itertools.groupby`)

The code is transcribed AS IT IS:
* `sigma_epsilon_to_C6_C12` computes `C6 = 4*sigma*epsilon**6`, `C12 = 4*sigma*epsilon**12`
  (sigma and epsilon exchanged with respect to the Lennard-Jones formula; known finding F-C18-4);
* a conditional block is opened with `#ifdef X` / `#ifndef X` and never closed: no `#endif` line is
  ever written (known finding F-C18-5);
* the two writers test the comment differently (`'comment' in meta` vs. `meta.get('comment')`);
* every data line ends with a blank before the (possibly empty) comment.

Numbers: a Python number that is written with a fixed-point format (`{x:3.8F}`, `{x:9.4f}`) crosses
the boundary as the EXACT rational value of the float (`fractions.Fraction(x)`), as numerator and
denominator; the model renders it (`fmtFixed`, correctly rounded, ties to even - what CPython's
`float.__format__` does).  `-0.0`, `nan`, `inf` are not sent.  Numbers written with `str()` (mass and
charge of an atom type) cross as the string Python writes.
No `Rat` here: numerator/denominator pairs keep every example decidable by the kernel.
-/
namespace C18

/-- an exact rational `num/den`, `den > 0`, not normalised -/
structure Q where
  num : Int
  den : Nat
  deriving Repr, DecidableEq, Inhabited

def Q.mul (a b : Q) : Q := ⟨a.num * b.num, a.den * b.den⟩
def Q.pow (a : Q) (n : Nat) : Q := ⟨a.num ^ n, a.den ^ n⟩
def Q.ofInt (i : Int) : Q := ⟨i, 1⟩

/-! ### decimal rendering -/

def digitChar (d : Nat) : Char := Char.ofNat (48 + d % 10)

def decAux : Nat → Nat → List Char → List Char
  | 0, _, acc => acc
  | fuel + 1, n, acc =>
    if n < 10 then digitChar n :: acc else decAux fuel (n / 10) (digitChar (n % 10) :: acc)

/-- `str(n)` for a natural number -/
def decNat (n : Nat) : List Char := decAux (n + 1) n []

/-- `str(i)` / `'%d' % i` for an integer -/
def decInt (i : Int) : List Char := if i < 0 then '-' :: decNat i.natAbs else decNat i.natAbs

def padLeft (w : Nat) (c : Char) (s : List Char) : List Char := List.replicate (w - s.length) c ++ s
def padRight (w : Nat) (c : Char) (s : List Char) : List Char := s ++ List.replicate (w - s.length) c

/-- `round(n / d)` to the nearest integer, ties to even (`d > 0`) -/
def divRoundHalfEven (n d : Nat) : Nat :=
  let q := n / d
  let r := n % d
  if 2 * r < d then q else if d < 2 * r then q + 1 else if q % 2 = 0 then q else q + 1

/-- `format(x, '.{prec}f')` for the float whose exact value is `x` (`prec ≥ 1`).  A negative value that
rounds to zero keeps its sign, as in Python (`'-0.00000000'`). -/
def fmtFixed (prec : Nat) (x : Q) : List Char :=
  let n := divRoundHalfEven (x.num.natAbs * 10 ^ prec) x.den
  let ip := n / 10 ^ prec
  let fp := n % 10 ^ prec
  (if x.num < 0 then ['-'] else []) ++ decNat ip ++ '.' :: padLeft prec '0' (decNat fp)

/-! ### the parameter tables -/

/-- a number handed to a `{x:3.8F}` field: a real number, or something `format` rejects (`None`) -/
inductive Num where
  | q (x : Q)
  | bad
  deriving Repr, DecidableEq, Inhabited

inductive WErr where
  | valueError      -- `_interaction_sorting_key`: both ifdef and ifndef; no molecule in the system
  | indexError      -- `nb_params.atoms[0]` of an empty tuple
  | typeError       -- arithmetic / format on `None`; `itp_paths` that is not a mapping
  | keyError        -- node or node attribute missing; `itp_paths` without the directive
  deriving Repr, DecidableEq, Inhabited

/-- the `meta` dict of an entry, restricted to the keys the writers look at -/
structure Meta where
  ifdef : Option String := none
  ifndef : Option String := none
  group : Option String := none
  /-- `none`: no 'comment' key.  A `str` comment is the list of its characters (what `" ".join` sees). -/
  comment : Option (List String) := none
  deriving Repr, DecidableEq, Inhabited

/-- `NonbondParam(atoms, sigma, epsilon, meta)` -/
structure NbParam where
  atoms : List String
  sigma : Num
  eps : Num
  mt : Meta
  deriving Repr, DecidableEq, Inhabited

/-- `Atomtype(molecule, node, sigma, epsilon, meta)` with `molecule.nodes[node]` resolved: the `str()` of
the node's atype, mass and charge (`none`: the node or the attribute does not exist: KeyError) -/
structure AtType where
  atype : Option String
  mass : Option String
  charge : Option String
  sigma : Num
  eps : Num
  mt : Meta
  deriving Repr, DecidableEq, Inhabited

/-! ### `_group_by_conditionals` -/

/-- `(conditional, group)`: `conditional` is `()` or `(name, True)` (ifdef) / `(name, False)` (ifndef) -/
structure GKey where
  cond : Option (String × Bool)
  group : String
  deriving Repr, DecidableEq, Inhabited

/-- `_interaction_sorting_key` -/
def gkeyOf (m : Meta) : Except WErr GKey :=
  match m.ifdef, m.ifndef with
  | some _, some _ => .error .valueError
  | some d, none => .ok ⟨some (d, true), m.group.getD ""⟩
  | none, some d => .ok ⟨some (d, false), m.group.getD ""⟩
  | none, none => .ok ⟨none, m.group.getD ""⟩

/-- Python `<=` on `str`: lexicographic by code point -/
def lexLe : List Char → List Char → Bool
  | [], _ => true
  | _ :: _, [] => false
  | a :: as, b :: bs => if a.toNat < b.toNat then true else if b.toNat < a.toNat then false else lexLe as bs

def strLe (a b : String) : Bool := lexLe a.toList b.toList

/-- Python `<=` on the tuples `()` / `(name, flag)` -/
def condLe : Option (String × Bool) → Option (String × Bool) → Bool
  | none, _ => true
  | some _, none => false
  | some (a, fa), some (b, fb) =>
    if a = b then (!fa || fb) else strLe a b

def GKey.le (a b : GKey) : Bool :=
  if a.cond = b.cond then strLe a.group b.group else condLe a.cond b.cond

/-- insert `x` (which stood before all of `l`) in front of the first element that is not smaller -/
def insertByKey {α : Type} (x : GKey × α) : List (GKey × α) → List (GKey × α)
  | [] => [x]
  | y :: ys => if x.1.le y.1 then x :: y :: ys else y :: insertByKey x ys

/-- `sorted(interactions, key=...)`: a stable sort by the key (as an insertion sort; any stable sort
gives the same list) -/
def sortByKey {α : Type} : List (GKey × α) → List (GKey × α)
  | [] => []
  | x :: xs => insertByKey x (sortByKey xs)

/-- `itertools.groupby` on the sorted list: maximal runs of equal keys -/
def groupRuns {α : Type} : List (GKey × α) → List (GKey × List α)
  | [] => []
  | (k, a) :: rest =>
    match groupRuns rest with
    | (k', as) :: more => if k = k' then (k, a :: as) :: more else (k, [a]) :: (k', as) :: more
    | [] => [(k, [a])]

/-! ### layout of a file: what is written, before any number is rendered -/

inductive Item (α : Type) where
  | directive (name : String)
  | cond (ifdef : Bool) (name : String)      -- `#ifdef name` / `#ifndef name`
  | group (g : String)                       -- `; g`
  | entry (a : α)
  deriving Repr, DecidableEq, Inhabited

def Item.entry? {α : Type} : Item α → Option α
  | .entry a => some a
  | _ => none

def blockItems {α : Type} (b : GKey × List α) : List (Item α) :=
  (match b.1.cond with
   | some (name, flag) => [Item.cond flag name]
   | none => [])
  ++ (if b.1.group = "" then [] else [Item.group b.1.group])
  ++ b.2.map Item.entry

/-- the key of every entry, in table order; the first failing key function stops everything -/
def keyed {α : Type} (mt : α → Meta) : List α → Except WErr (List (GKey × α))
  | [] => .ok []
  | e :: es =>
    match gkeyOf (mt e) with
    | .error x => .error x
    | .ok k =>
      match keyed mt es with
      | .error x => .error x
      | .ok r => .ok ((k, e) :: r)

/-- the items of one parameter file, in the order they are written; the sort key of every entry is
computed before anything else (`sorted` calls the key function on the whole list first) -/
def layout {α : Type} (directive : String) (mt : α → Meta) (es : List α) : Except WErr (List (Item α)) :=
  match keyed mt es with
  | .error e => .error e
  | .ok keyed => .ok (Item.directive directive :: (groupRuns (sortByKey keyed)).flatMap blockItems)

/-! ### rendering -/

/-- `sigma_epsilon_to_C6_C12(sigma, epsilon)` AS IT IS: `4*sigma*epsilon**6`, `4*sigma*epsilon**12` -/
def c6c12 (sigma eps : Q) : Q × Q :=
  ((Q.ofInt 4).mul (sigma.mul (eps.pow 6)), (Q.ofInt 4).mul (sigma.mul (eps.pow 12)))

/-- the two numbers of a data line -/
def nbNumbers (c6 : Bool) (sigma eps : Num) : Except WErr (Q × Q) :=
  match sigma, eps with
  | .q s, .q e => .ok (if c6 then c6c12 s e else (s, e))
  | _, _ => .error .typeError

/-- `" ".join(words)` -/
def joinWords : List String → List Char
  | [] => []
  | [w] => w.toList
  | w :: more => w.toList ++ ' ' :: joinWords more

def F8 (x : Q) : List Char := fmtFixed 8 x

/-- `a1, a2 = nb_params.atoms` for two atoms; "self interaction": any other length takes `atoms[0]` twice;
`none`: IndexError of an empty tuple -/
def nbPair (p : NbParam) : Option (String × String) :=
  match p.atoms with
  | [a, b] => some (a, b)
  | a :: _ => some (a, a)
  | [] => none

/-- `if nb_params.meta.get('comment'): ";" + " ".join(...)` -/
def nbComment (m : Meta) : List Char :=
  match m.comment with
  | some (w :: ws) => ';' :: joinWords (w :: ws)
  | _ => []

/-- `if 'comment' in atomtype.meta: ";" + " ".join(...)` -/
def atComment (m : Meta) : List Char :=
  match m.comment with
  | some ws => ';' :: joinWords ws
  | none => []

/-- `f"{a1} {a2} 1 {nb1:3.8F} {nb2:3.8F} {comments}"` (without the newline) -/
def nbLine (c6 : Bool) (p : NbParam) : Except WErr (List Char) :=
  match nbPair p with
  | none => .error .indexError
  | some (a1, a2) =>
    match nbNumbers c6 p.sigma p.eps with
    | .error e => .error e
    | .ok (n1, n2) =>
      .ok (a1.toList ++ ' ' :: a2.toList ++ " 1 ".toList ++ F8 n1 ++ ' ' :: F8 n2 ++ ' ' :: nbComment p.mt)

/-- `f"{atype} {mass} {charge} A {nb1:3.8F} {nb2:3.8F} {comments}"` -/
def atLine (c6 : Bool) (t : AtType) : Except WErr (List Char) :=
  match t.atype, t.charge, t.mass with
  | some atype, some charge, some mass =>
    match nbNumbers c6 t.sigma t.eps with
    | .error e => .error e
    | .ok (n1, n2) =>
      .ok (atype.toList ++ ' ' :: mass.toList ++ ' ' :: charge.toList ++ " A ".toList
            ++ F8 n1 ++ ' ' :: F8 n2 ++ ' ' :: atComment t.mt)
  | _, _, _ => .error .keyError

def Item.text {α : Type} (data : α → Except WErr (List Char)) : Item α → Except WErr (List Char)
  | .directive name => .ok ("[ ".toList ++ name.toList ++ " ]".toList)
  | .cond true name => .ok ("#ifdef ".toList ++ name.toList)
  | .cond false name => .ok ("#ifndef ".toList ++ name.toList)
  | .group g => .ok ("; ".toList ++ g.toList)
  | .entry a => data a

/-- what reaches the file: the lines written before the first exception, and that exception -/
structure Written where
  lines : List (List Char)
  err : Option WErr
  deriving Repr, DecidableEq, Inhabited

def renderItems {α : Type} (data : α → Except WErr (List Char)) : List (Item α) → Written
  | [] => ⟨[], none⟩
  | it :: rest =>
    match it.text data with
    | .error e => ⟨[], some e⟩
    | .ok l => let w := renderItems data rest; ⟨l :: w.lines, w.err⟩

def writeFile {α : Type} (directive : String) (mt : α → Meta) (data : α → Except WErr (List Char))
    (es : List α) : Written :=
  match layout directive mt es with
  | .error e => ⟨["[ ".toList ++ directive.toList ++ " ]".toList], some e⟩   -- the directive is written first
  | .ok items => renderItems data items

/-- `write_nonbond_params` -/
def writeNonbond (c6 : Bool) (ps : List NbParam) : Written :=
  writeFile "nonbond_params" (·.mt) (nbLine c6) ps

/-- `write_atomtypes` -/
def writeAtomtypes (c6 : Bool) (ts : List AtType) : Written :=
  writeFile "atomtypes" (·.mt) (atLine c6) ts

/-- the file content: every line is followed by `\n` -/
def Written.text (w : Written) : List Char := w.lines.flatMap (· ++ ['\n'])

/-! ### `write_gmx_topology`: which parameter files, where, in which order -/

/-- `itp_paths`: a mapping directive → path, or something that is not a mapping (martinize2 passes `[]`
when no Go model is requested) -/
inductive ItpPaths where
  | dict (l : List (String × String))
  | notDict
  deriving Repr, DecidableEq, Inhabited

def ItpPaths.get (p : ItpPaths) (k : String) : Except WErr String :=
  match p with
  | .notDict => .error .typeError
  | .dict l => match l.find? (fun e => e.1 == k) with
    | some e => .ok e.2
    | none => .error .keyError

/-- Files written for the parameter tables of the system (`none` = the key is not in
`system.gmx_topology_params`), in order, and the exception that stops the function (then no molecule
ITP and no `.top` is written).  The `.top` itself never includes these files: they are pulled in by
`martini.itp` under `#ifdef GO_VIRT`, which is why martinize2 passes `defines=("GO_VIRT",)`. -/
def goParamFiles (c6 : Bool) (nMolecules : Nat) (ats : Option (List AtType)) (nbs : Option (List NbParam))
    (paths : ItpPaths) : List (String × Written) × Option WErr :=
  if nMolecules = 0 then ([], some .valueError) else
  let step1 : List (String × Written) × Option WErr :=
    match ats with
    | none => ([], none)
    | some ts =>
      match paths.get "atomtypes" with
      | .error e => ([], some e)
      | .ok p => let w := writeAtomtypes c6 ts; ([(p, w)], w.err)
  match step1.2 with
  | some e => (step1.1, some e)
  | none =>
    match nbs with
    | none => (step1.1, none)
    | some ps =>
      match paths.get "nonbond_params" with
      | .error e => (step1.1, some e)
      | .ok p => let w := writeNonbond c6 ps; (step1.1 ++ [(p, w)], w.err)

/-! ### what the Go pipeline puts into the tables -/

/-- `Atomtype(node=vs, molecule, sigma=0.0, epsilon=0.0, meta={})`, one per created site; mass is the
float `0.0`, charge the int `0` -/
def atomtypesOf (vs : List VSite) : List AtType :=
  vs.map fun v => { atype := some v.atype, mass := some "0.0", charge := some "0",
                    sigma := .q ⟨0, 1⟩, eps := .q ⟨0, 1⟩, mt := {} }

/-- `NonbondParam(atoms=(atype_a, atype_b), sigma, epsilon=go_eps, meta={"comment": ["go bond <dist>"]})`;
`sigma`, `eps` and the rendered distance come from the real run (floats never enter the model) -/
def nonbondEntry (c : Cand) (sigma eps : Q) (distRepr : String) : NbParam :=
  { atoms := [c.ta, c.tb], sigma := .q sigma, eps := .q eps,
    mt := { comment := some ["go bond " ++ distRepr] } }

end C18

namespace C18

/-! ### the numbers of a Go potential

The property: `sigma = d / 2^(1/6)` for the backbone distance `d`, i.e. `sigma ≥ 0 ∧ sigma^6 * 2 = d^6`,
and `d^6 = (d²)³` where `d²` is the squared lattice distance the model knows exactly.  The relation has
no rational solution for `d ≠ 0`, and the code computes `sigma` in doubles; what is checked on every
emitted pair is the relation on the EXACT value of the double, up to a relative tolerance `tol` on the
sixth powers: `|2 sigma^6 - (d²)³| ≤ tol (d²)³`. -/
def sigmaOk (tol sigma : Q) (d2 : Nat) : Bool :=
  decide (0 ≤ sigma.num) &&
    decide ((2 * sigma.num ^ 6 - (d2 : Int) ^ 3 * (sigma.den : Int) ^ 6).natAbs * tol.den
              ≤ tol.num.toNat * (d2 ^ 3 * sigma.den ^ 6))

/-- equality of two rationals given as fractions (`epsilon` is the requested depth exactly) -/
def Q.same (a b : Q) : Bool := decide (a.num * b.den = b.num * a.den)

end C18
