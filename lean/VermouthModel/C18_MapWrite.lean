import VermouthModel.C18_Map
import VermouthModel.C18_Write
/-
C18 — model of `vermouth.rcsu.contact_map._write_contacts`: the file written by `-go-write-file`
when the contact map is calculated by martinize2 itself, and of the rule of `_get_contacts` that
selects the contacts handed to `ComputeStructuralGoBias`.

    msg = (f"R {int(count):6d} "
           f"{int(contact[0]):5d}  {resnameA:3s} {chainA:1s} {int(residA):4d}    "
           f"{int(contact[1]):5d}  {resnameB:3s} {chainB:1s} {int(residB):4d}    "
           f"{dCA*10:9.4f}     "
           f"{int(contact[4]):1d} {1 if contact[5] != 0 else 0} "
           f"{1 if contact[6] != 0 else 0} {1 if contact[7] else 0}"
           f"{int(contact[7]): 6d}  {int(contact[5]): 6d}\n")

A line is kept as a list of pieces (runs of blanks and tokens) so that the column structure is
explicit; `Piece.flat` is the text.  The code AS IT IS writes 17 columns; `read_go_map` (and the rCSU
server format) wants 18.  `extra` are further columns appended to each line: `[]` is the code, one
more column is what a repaired writer / the server writes.
-/
namespace C18

inductive Piece where
  | ws (n : Nat)                 -- n blanks
  | tok (t : List Char)
  deriving Repr, DecidableEq, Inhabited

def Piece.text : Piece → List Char
  | .ws n => List.replicate n ' '
  | .tok t => t

def Piece.flat (ps : List Piece) : List Char := ps.flatMap Piece.text

def Piece.tok? : Piece → Option (List Char)
  | .tok t => some t
  | .ws _ => none

/-- `{i:wd}`: right-aligned in `w` columns -/
def fmtD (w : Nat) (i : Int) : List Piece := [.ws (w - (decInt i).length), .tok (decInt i)]
/-- `{i: wd}`: blank in place of the plus sign, right-aligned in `w` columns -/
def fmtDsp (w : Nat) (i : Int) : List Piece :=
  if i < 0 then fmtD w i else [.ws (w - ((decInt i).length + 1) + 1), .tok (decInt i)]
/-- `{s:ws}`: left-aligned in `w` columns -/
def fmtS (w : Nat) (s : String) : List Piece := [.tok s.toList, .ws (w - s.toList.length)]
/-- `{x:w.4f}` -/
def fmtF4 (w : Nat) (x : Q) : List Piece := [.ws (w - (fmtFixed 4 x).length), .tok (fmtFixed 4 x)]

/-- one entry of `all_contacts` with the residue attributes it points to -/
structure MapRow where
  i1 : Int
  i2 : Int
  resnameA : String
  chainA : String
  residA : Int
  resnameB : String
  chainB : String
  residB : Int
  dca : Q              -- exact value of `euclidean(ca_a, ca_b) * 10`
  over : Int           -- contact[4]
  cont : Int           -- contact[5]
  stab : Int           -- contact[6]
  rcsu : Bool          -- contact[7]
  deriving Repr, DecidableEq, Inhabited

def flag (b : Bool) : List Char := if b then ['1'] else ['0']

def rowPieces (extra : List (List Char)) (count : Nat) (r : MapRow) : List Piece :=
  [.tok ['R'], .ws 1] ++ fmtD 6 count ++ [.ws 1]
  ++ fmtD 5 r.i1 ++ [.ws 2] ++ fmtS 3 r.resnameA ++ [.ws 1] ++ fmtS 1 r.chainA ++ [.ws 1] ++ fmtD 4 r.residA ++ [.ws 4]
  ++ fmtD 5 r.i2 ++ [.ws 2] ++ fmtS 3 r.resnameB ++ [.ws 1] ++ fmtS 1 r.chainB ++ [.ws 1] ++ fmtD 4 r.residB ++ [.ws 4]
  ++ fmtF4 9 r.dca ++ [.ws 5]
  ++ fmtD 1 r.over ++ [.ws 1, .tok (flag (r.cont != 0)), .ws 1, .tok (flag (r.stab != 0)), .ws 1, .tok (flag r.rcsu)]
  ++ fmtDsp 6 (if r.rcsu then 1 else 0) ++ [.ws 2] ++ fmtDsp 6 r.cont
  ++ extra.flatMap (fun t => [.ws 4, .tok t])

def rowLine (extra : List (List Char)) (count : Nat) (r : MapRow) : List Char := Piece.flat (rowPieces extra count r)

/-- the constant part of the header, after the version line and the blank line that follows it -/
def mapHeader : List (List Char) :=
  ["Residue-Residue Contacts", "", "ID       - atom identification", "I1,I2    - serial residue id",
   "AA       - 3-letter code of aminoacid", "C        - chain", "I(PDB)   - residue number in PDB file",
   "DCA      - distance between CA", "CMs      - OV , CSU , oCSU , rCSU",
   "           (CSU does not take into account chemical properties of atoms)",
   "rCSU     - net contact from rCSU", "Count    - number of contacts between residues", "",
   "      ID    I1  AA  C I(PDB)     I2  AA  C I(PDB)        DCA       CMs    rCSU   Count ",
   "======================================================================================="].map String.toList

def rowLines (extra : List (List Char)) : Nat → List MapRow → List (List Char)
  | _, [] => []
  | n, r :: rest => rowLine extra (n + 1) r :: rowLines extra (n + 1) rest

/-- the lines of the written file (each is followed by `\n`) -/
def mapFileLines (extra : List (List Char)) (version : String) (rows : List MapRow) : List (List Char) :=
  ("Go contact map calculated with vermouth ".toList ++ version.toList) :: [] :: mapHeader ++ rowLines extra 0 rows

def mapFileText (extra : List (List Char)) (version : String) (rows : List MapRow) : List Char :=
  (mapFileLines extra version rows).flatMap (· ++ ['\n'])

/-- `_get_contacts`: the entry of `all_contacts` is also put on the list handed to the Go pipeline -/
def MapRow.selected (r : MapRow) : Bool := r.over = 1 || (r.over = 0 && r.rcsu)

def MapRow.contact (r : MapRow) : Contact :=
  { residA := r.residA, chainA := r.chainA, residB := r.residB, chainB := r.chainB }

/-- the contact list `do_contacts` returns next to the written file -/
def selectedContacts (rows : List MapRow) : List Contact := (rows.filter MapRow.selected).map MapRow.contact

end C18
