import VermouthModel.C19
/-!
# C19 — the command line: from the options to the two request lists of `AnnotateMutMod`

Transcription of `bin/martinize2` (this tree has NO per-force-field defaults: the default termini
are the literals `C-ter` / `N-ter`, the neutral ones `COOH-ter` / `NH2-ter`):

* argparse: `-mutate s` appends `s.split(":")` to `args.mutations`; `-modify s` appends
  `s.split(":")`, `-nter s` appends `["nter", s]`, `-cter s` appends `["cter", s]` — all three to the
  ONE list `args.modifications`, in command-line order; `-nt` sets a flag.  (The model starts from
  the sequence of recognised options; argparse's own tokenisation — abbreviations, values that start
  with `-` — is not modelled.)
* the assembly block before "Reading the input structure": with `-nt` the two neutral requests are
  appended, whatever was given; otherwise `resspecs, mods = zip(*args.modifications)` (a `ValueError`
  unless the shortest given entry has exactly two parts; nothing is unpacked when the list is empty)
  and `C-ter` / `N-ter` are appended unless some `resspec` CONTAINS the text `cter` / `nter`
  (`"cter" in resspec`: a substring test, so `A-cter`, `ncter` and `cterm` also count).
* `pdb_to_universal(modifications=args.modifications, mutations=args.mutations)` hands both lists to
  `AnnotateMutMod(modifications, mutations)`, whose constructor unpacks every entry into
  `(resspec, val)` (`ValueError` unless it has exactly two parts) and parses `resspec`.
-/
namespace C19

inductive Opt where
  | mutate (s : Str)
  | modify (s : Str)
  | nterO (s : Str)
  | cterO (s : Str)
  | nt
  deriving Repr, DecidableEq, Inhabited

/-- Python `s.split(c)` for a one-character separator: never empty, `"".split(":") = [""]` -/
def splitOn (c : Char) : Str → List Str
  | [] => [[]]
  | x :: xs =>
    if x = c then [] :: splitOn c xs
    else match splitOn c xs with
      | [] => [[x]]
      | h :: t => (x :: h) :: t

/-- `args.mutations` -/
def argMutations : List Opt → List (List Str)
  | [] => []
  | .mutate s :: rest => splitOn ':' s :: argMutations rest
  | _ :: rest => argMutations rest

/-- `args.modifications` as argparse leaves it: three options, one destination -/
def argModifications : List Opt → List (List Str)
  | [] => []
  | .modify s :: rest => splitOn ':' s :: argModifications rest
  | .nterO s :: rest => [nter, s] :: argModifications rest
  | .cterO s :: rest => [cter, s] :: argModifications rest
  | _ :: rest => argModifications rest

/-- `args.neutral_termini` -/
def argNeutral (opts : List Opt) : Bool := opts.contains .nt

def cooh : Str := "COOH-ter".toList
def nh2 : Str := "NH2-ter".toList
def cterDefault : Str := "C-ter".toList
def nterDefault : Str := "N-ter".toList

/-- number of tuples `zip(*l)` yields for a non-empty `l`: the length of its shortest entry -/
def zipWidth : List (List Str) → Nat
  | [] => 0
  | [x] => x.length
  | x :: rest => min x.length (zipWidth rest)

/-- first tuple of `zip(*l)` when there is one: the first part of every entry -/
def firstParts (l : List (List Str)) : List Str := l.filterMap List.head?

/-- the requests the assembly block appends when `-nt` is absent, given `resspecs` -/
def defaultsFor (resspecs : List Str) : List (List Str) :=
  (if resspecs.any (isInfixOf cter) then [] else [[cter, cterDefault]]) ++
  (if resspecs.any (isInfixOf nter) then [] else [[nter, nterDefault]])

/-- the assembly block of `entry()`; `none` = the `ValueError` of `resspecs, mods = zip(*…)` -/
def assembleModifications (neutral : Bool) (given : List (List Str)) : Option (List (List Str)) :=
  if neutral then some (given ++ [[cter, cooh], [nter, nh2]])
  else if given.isEmpty then some (given ++ defaultsFor [])
  else if zipWidth given = 2 then some (given ++ defaultsFor (firstParts given))
  else none

/-- the unpacking `for resspec, val in modifications` of `AnnotateMutMod.__init__` -/
def toPairs : List (List Str) → Option (List (Str × Str))
  | [] => some []
  | [a, b] :: rest => (toPairs rest).map fun l => (a, b) :: l
  | _ :: _ => none

/-- `AnnotateMutMod.__init__` on lists of lists: unpack and parse, modifications first -/
def constructProc (mods muts : List (List Str)) : Option (List Request × List Request) :=
  match toPairs mods with
  | none => none
  | some pm =>
    match parseRequests pm with
    | none => none
    | some rm =>
      match toPairs muts with
      | none => none
      | some pt =>
        match parseRequests pt with
        | none => none
        | some rt => some (rm, rt)

inductive CliResult where
  | assemblyError                                       -- ValueError before the input is read
  | lists (mods muts : List (List Str))                 -- what `AnnotateMutMod(...)` is called with
  deriving Repr, DecidableEq, Inhabited

/-- from the options to the call `AnnotateMutMod(modifications, mutations)` -/
def cliLists (opts : List Opt) : CliResult :=
  match assembleModifications (argNeutral opts) (argModifications opts) with
  | none => .assemblyError
  | some mods => .lists mods (argMutations opts)

/-- the requests the processor ends up with; `none` = the run ends with `ValueError` -/
def cliRequests (opts : List Opt) : Option (List Request × List Request) :=
  match cliLists opts with
  | .assemblyError => none
  | .lists mods muts => constructProc mods muts

end C19
