import VermouthModel.Proto
/-
C11 — the verified COMPARATOR used by the paired-run exploration, and a small
exact isometry model.

Why a comparator and not a pipeline model: C11 is about the composed pipeline
as executed by CPython (DESIGN 5.11).  What Lean contributes is
(a) the stage invariance theorems of C08/C09/C10/C15/C18, instantiated with the
    integer rigid motions defined here, and
(b) `canonTop`, the canonical form under which two written topologies are
    compared, with the theorems that it identifies exactly the topologies that
    differ by a *presentation change* (VermouthProps/C11.lean).

The topology that is canonicalised is what an ITP file states:

* `Atom`  : `key` is the atom index written in the file (presentation),
            `(resid, name)` is the chemical identity of the particle inside its
            molecule type, `fields` are the remaining chemistry columns kept by
            the harness: particle type, residue name, charge, and mass when
            present.  The charge-group column is NOT a field (vermouth writes
            the running atom number there; it is presentation).
* `Inter` : one interaction line: section name (`bonds`, `angles`, ...), the atom
            indices it refers to, and every remaining token (function type,
            parameters; the harness also puts the `#ifdef` context and the
            comment-group label there, so that moving a line between guarded
            blocks is a difference).

Strings are lists of code points (`Tok = List Nat`), so that the total order used
for sorting is a plain lexicographic order defined here and proved total,
transitive and antisymmetric without any library support.

Presentation changes that `canonTop` is invariant under (and nothing else, see
`canonTop_injective_mod_presentation`):
  1. the order of the atom lines,
  2. a consistent (injective) renumbering of the atom indices,
  3. the order of the interaction lines (within and across repeated sections),
  4. listing the atoms of an interaction in reverse when the section is one of
     the `sym` sections.  The harness passes bonds, constraints, pairs, angles and
     dihedrals: for those GROMACS function types the energy is invariant under
     complete reversal (i-j = j-i, i-j-k = k-j-i, i-j-k-l = l-k-j-i).  Everything
     else (exclusions, virtual sites, position restraints, cmap, settles) is
     compared with its atom order.
-/
namespace C11

/-! ## total orders built from combinators -/

/-- lexicographic extension of `le` to lists (shorter prefix first) -/
def lexLe [DecidableEq α] (le : α → α → Bool) : List α → List α → Bool
  | [], _ => true
  | _ :: _, [] => false
  | a :: as, b :: bs => if a = b then lexLe le as bs else le a b

/-- lexicographic order on pairs -/
def prodLe [DecidableEq α] (le1 : α → α → Bool) (le2 : β → β → Bool) (p q : α × β) : Bool :=
  if p.1 = q.1 then le2 p.2 q.2 else le1 p.1 q.1

/-- a string as its list of code points -/
abbrev Tok := List Nat

def natLe (a b : Nat) : Bool := decide (a ≤ b)
def intLe (a b : Int) : Bool := decide (a ≤ b)
def tokLe : Tok → Tok → Bool := lexLe natLe

/-- chemical identity of a particle inside a molecule type: (residue number, atom name) -/
abbrev Ident := Int × Tok
def identLe : Ident → Ident → Bool := prodLe intLe tokLe

/-! ## topologies -/

structure Atom where
  key : Int
  resid : Int
  name : Tok
  fields : List Tok
  deriving DecidableEq, Repr, Inhabited

structure Inter where
  sect : Tok
  atoms : List Int
  params : List Tok
  deriving DecidableEq, Repr, Inhabited

structure Top where
  atoms : List Atom
  inters : List Inter
  deriving DecidableEq, Repr, Inhabited

/-- canonical record of an atom line -/
abbrev ARec := Ident × List Tok
/-- canonical record of an interaction line: section, identities of its atoms (a dangling index
is the empty list, a resolved one the singleton of its identity), remaining tokens -/
abbrev IRec := Tok × (List (List Ident) × List Tok)

def aRecLe : ARec → ARec → Bool := prodLe identLe (lexLe tokLe)
def idsLe : List (List Ident) → List (List Ident) → Bool := lexLe (lexLe identLe)
def iRecLe : IRec → IRec → Bool := prodLe tokLe (prodLe idsLe (lexLe tokLe))

/-- identity of the atom line carrying index `k` (first such line), `[]` if there is none -/
def ident (atoms : List Atom) (k : Int) : List Ident :=
  match atoms.find? (fun a => a.key == k) with
  | some a => [(a.resid, a.name)]
  | none => []

/-- for a reversible interaction: the smaller of the identity list and its reverse -/
def orient (sym : Bool) (ids : List (List Ident)) : List (List Ident) :=
  if sym then (if idsLe ids ids.reverse then ids else ids.reverse) else ids

def atomRec (a : Atom) : ARec := ((a.resid, a.name), a.fields)

def interRec (sym : Tok → Bool) (atoms : List Atom) (i : Inter) : IRec :=
  (i.sect, (orient (sym i.sect) (i.atoms.map (ident atoms)), i.params))

structure Canon where
  atoms : List ARec
  inters : List IRec
  deriving Repr, Inhabited

/-- **the canonical form of a topology** -/
def canonTop (sym : Tok → Bool) (T : Top) : Canon :=
  { atoms := (T.atoms.map atomRec).mergeSort aRecLe
    inters := (T.inters.map (interRec sym T.atoms)).mergeSort iRecLe }

/-! ## presentation changes (used by the theorems; executable so that examples can be `decide`d) -/

def Atom.rekey (ρ : Int → Int) (a : Atom) : Atom := { a with key := ρ a.key }
def Inter.rekey (ρ : Int → Int) (i : Inter) : Inter := { i with atoms := i.atoms.map ρ }
def Inter.flip (i : Inter) : Inter := { i with atoms := i.atoms.reverse }

/-! ## exact rigid motions on the integer lattice -/

/-- a lattice point (same representation as `C15.V3`) -/
abbrev V3 := Int × Int × Int

def V3.add (p q : V3) : V3 := (p.1 + q.1, p.2.1 + q.2.1, p.2.2 + q.2.2)
def V3.sub (p q : V3) : V3 := (p.1 - q.1, p.2.1 - q.2.1, p.2.2 - q.2.2)
def V3.dot (p q : V3) : Int := p.1 * q.1 + p.2.1 * q.2.1 + p.2.2 * q.2.2

/-- squared Euclidean distance -/
def sqdist (p q : V3) : Int :=
  (p.1 - q.1) * (p.1 - q.1) + (p.2.1 - q.2.1) * (p.2.1 - q.2.1) + (p.2.2 - q.2.2) * (p.2.2 - q.2.2)

/-- a 3×3 integer matrix given by its rows -/
structure Mat3 where
  r1 : V3
  r2 : V3
  r3 : V3
  deriving DecidableEq, Repr, Inhabited

def Mat3.apply (A : Mat3) (p : V3) : V3 := (A.r1.dot p, A.r2.dot p, A.r3.dot p)

def Mat3.col1 (A : Mat3) : V3 := (A.r1.1, A.r2.1, A.r3.1)
def Mat3.col2 (A : Mat3) : V3 := (A.r1.2.1, A.r2.2.1, A.r3.2.1)
def Mat3.col3 (A : Mat3) : V3 := (A.r1.2.2, A.r2.2.2, A.r3.2.2)

/-- `AᵀA = I`: the columns are orthonormal (six equations) -/
def Mat3.IsOrtho (A : Mat3) : Prop :=
  A.col1.dot A.col1 = 1 ∧ A.col2.dot A.col2 = 1 ∧ A.col3.dot A.col3 = 1 ∧
  A.col1.dot A.col2 = 0 ∧ A.col1.dot A.col3 = 0 ∧ A.col2.dot A.col3 = 0

instance (A : Mat3) : Decidable A.IsOrtho := by unfold Mat3.IsOrtho; infer_instance

def Mat3.det (A : Mat3) : Int :=
  A.r1.1 * (A.r2.2.1 * A.r3.2.2 - A.r2.2.2 * A.r3.2.1)
  - A.r1.2.1 * (A.r2.1 * A.r3.2.2 - A.r2.2.2 * A.r3.1)
  + A.r1.2.2 * (A.r2.1 * A.r3.2.1 - A.r2.2.1 * A.r3.1)

/-- the rigid motion `p ↦ A p + t` -/
def move (A : Mat3) (t : V3) (p : V3) : V3 := (A.apply p).add t

def unitRow (i : Nat) (s : Int) : V3 :=
  match i with
  | 0 => (s, 0, 0)
  | 1 => (0, s, 0)
  | _ => (0, 0, s)

/-- the six permutations of {0,1,2} -/
def perm3 : Nat → Nat × Nat × Nat
  | 0 => (0, 1, 2)
  | 1 => (0, 2, 1)
  | 2 => (1, 0, 2)
  | 3 => (1, 2, 0)
  | 4 => (2, 0, 1)
  | _ => (2, 1, 0)

def sgn (b : Bool) : Int := if b then -1 else 1

/-- the 48 signed permutation matrices (all integer orthogonal matrices): row `i` is
`± e_{σ i}` -/
def signedPerm (σ : Nat) (s1 s2 s3 : Bool) : Mat3 :=
  let p := perm3 σ
  { r1 := unitRow p.1 (sgn s1), r2 := unitRow p.2.1 (sgn s2), r3 := unitRow p.2.2 (sgn s3) }

def allSignedPerms : List Mat3 :=
  (List.range 6).flatMap fun σ =>
    [false, true].flatMap fun a => [false, true].flatMap fun b => [false, true].map fun c =>
      signedPerm σ a b c

/-- the 24 proper rotations by multiples of 90 degrees -/
def rotations90 : List Mat3 := allSignedPerms.filter fun A => A.det == 1

end C11
