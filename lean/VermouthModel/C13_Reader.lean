import VermouthModel.C13
import Lean.Data.Json
/-
C13 — whole-file readers assembled from the components of `C13.lean`:
`readFF` (model of `vermouth.ffinput.read_ff` at the level: declarations emitted, their
names, nodes with attributes, interactions and removed interactions with atoms and
parameters) and `readITP` (model of `vermouth.gmx.itp_read.read_itp` without pragmas).
Attribute dictionaries are parsed with `Lean.Json`; the per-section handlers are chosen
by the *method name* registered for the section path in the extracted dispatch table.
-/
namespace C13
open Lean (Json)

/-! ### lines -/

def isWs (c : Char) : Bool :=
  c = ' ' || c = '\t' || c = '\n' || c = '\r' || c = '\x0b' || c = '\x0c'

def stripChars (p : Char → Bool) (cs : List Char) : List Char :=
  ((cs.dropWhile p).reverse.dropWhile p).reverse

/-- `split_comments(line, ';')[0]` (already stripped) -/
def stripComment (cs : List Char) : List Char :=
  stripChars isWs (cs.takeWhile (fun c => c ≠ ';'))

def lowerAscii (c : Char) : Char :=
  if 'A' ≤ c ∧ c ≤ 'Z' then Char.ofNat (c.toNat + 32) else c

/-- classify the raw lines of a file: `none` = misformatted section header -/
def classify : List String → Option (List Line)
  | [] => some []
  | l :: rest =>
    let cs := stripComment l.toList
    if cs.isEmpty then classify rest
    else if cs.head? = some '[' then
      if cs.getLast? = some ']' then
        let name := (stripChars (fun c => c = '[' || c = ' ' || c = ']') cs).map lowerAscii
        (classify rest).map fun r => Line.header (String.ofList name) :: r
      else none
    else (classify rest).map fun r => Line.content (String.ofList cs) :: r

/-- `str.split()` -/
def splitWs (s : String) : List String :=
  let r := s.toList.foldl (fun (acc : List (List Char) × List Char) c =>
    if isWs c then (if acc.2.isEmpty then acc.1 else acc.2.reverse :: acc.1, []) else (acc.1, c :: acc.2)) ([], [])
  ((if r.2.isEmpty then r.1 else r.2.reverse :: r.1).reverse).map String.ofList

def isDigit (c : Char) : Bool := '0' ≤ c && c ≤ '9'
def allDigits (s : String) : Bool := !s.isEmpty && s.toList.all isDigit

/-- the white space `int()` skips around an ASCII literal: blank, `\t\n\v\f\r` (C `isspace`; the
separators `\x1c`-`\x1f`, which `str.strip()` removes, are NOT skipped in an ASCII string) -/
def isPyWs (c : Char) : Bool := isWs c

def digitVal (c : Char) : Nat := c.toNat - '0'.toNat

/-- after the first digit of a base-10 `int()` literal: digits, and single underscores each followed by
a digit -/
def intBodyRest : List Char → Bool
  | [] => true
  | '_' :: d :: r => isDigit d && intBodyRest r
  | '_' :: [] => false
  | c :: r => isDigit c && intBodyRest r

/-- the digit part of `int(str)`: starts with a digit, ends with a digit, underscores only singly between
digits (`1_000`; not `_1`, `1_`, `1__0`) -/
def intBodyOk : List Char → Bool
  | [] => false
  | c :: r => isDigit c && intBodyRest (c :: r)

def digitsValue (ds : List Char) : Nat := ds.foldl (fun n c => 10 * n + digitVal c) 0

/-- `int(str)` in base 10 as CPython parses it, restricted to ASCII: surrounding white space is
stripped, then an optional single sign `+` / `-` immediately followed by the digit part (no blank
after the sign, leading zeros allowed, single underscores between digits).  Non-ASCII decimal digits
and white space, which CPython also accepts, are outside the model (`none`). -/
def pyInt? (s : String) : Option Int :=
  let cs := stripChars isPyWs s.toList
  let (neg, body) := match cs with
    | '-' :: r => (true, r)
    | '+' :: r => (false, r)
    | r => (false, r)
  if intBodyOk body then
    let n : Int := digitsValue (body.filter (· ≠ '_'))
    some (if neg then -n else n)
  else none

/-- `float(str)` accepted spellings (sign, digits, one optional point, optional exponent) -/
def pyFloatOk (s : String) : Bool :=
  let cs := match s.toList with | '-' :: r => r | '+' :: r => r | r => r
  let mant := cs.takeWhile (fun c => c ≠ 'e' && c ≠ 'E')
  let exp := cs.dropWhile (fun c => c ≠ 'e' && c ≠ 'E')
  let mantOk := (mant.filter isDigit).length ≥ 1 && mant.all (fun c => isDigit c || c = '.') && (mant.filter (· = '.')).length ≤ 1
  let expOk := match exp with
    | [] => true
    | _ :: e =>
      let e' := match e with | '-' :: r => r | '+' :: r => r | r => r
      !e'.isEmpty && e'.all isDigit
  mantOk && expOk

/-! ### JSON attributes -/

def toJVal : Json → JVal
  | .null => .null
  | .bool b => .bool b
  | .str s => .str s
  | .num n => if n.exponent = 0 then .int n.mantissa else .other (Json.num n).compress
  | j => .other j.compress

def parseJVal (tok : String) : Option JVal :=
  match Json.parse tok with
  | .ok j => some (toJVal j)
  | .error _ => none

/-- a string value containing `|` becomes `Choice(value.split('|'))` -/
def attrValue : Json → JVal
  | .str s => if s.toList.contains '|' then .choice (s.splitOn "|") else .str s
  | j => toJVal j

/-- `_parse_atom_attributes(token)` / `json.loads` of a dictionary token -/
def parseAttrs (tok : String) : Option Attrs :=
  if !startsWithBrace tok then none
  else match Json.parse tok with
    | .ok (.obj kv) => some (kv.toList.map fun (k, v) => (k, attrValue v))
    | _ => none

/-- keys of `VALUE_PREDICATES` (checked against the extracted table by `Tables.predicates_match`) -/
def valuePredicates : List String := ["not"]

/-- `PARAMETER_EFFECTORS` with `n_keys_asked` (checked against the extracted table) -/
def paramEffectors : List (String × Option Nat) :=
  [("angle", some 3), ("dihedral", some 4), ("dihphase", some 4), ("dist", some 2)]

/-- `_is_param_effector(token)` -/
def isEffectorTok (t : String) : Bool :=
  let cs := t.toList
  cs.contains '(' && cs.head? != some '(' && cs.getLast? = some ')'

/-- `_parse_interaction_parameters` on one token: a parameter effector must name a known effector,
have at most one `|` (format) and the number of keys its class asks for; the token itself is kept
verbatim (floats and effectors are never evaluated by the reader). -/
def paramOk (t : String) : Bool :=
  if !isEffectorTok t then true
  else
    let cs := t.toList
    let name := String.ofList (cs.takeWhile (· ≠ '('))
    let inner := String.ofList ((cs.dropWhile (· ≠ '(')).drop 1).dropLast
    match paramEffectors.find? (fun e => e.1 = name) with
    | none => false
    | some (_, nkeys) =>
      let parts := inner.splitOn "|"
      let keyStr := if inner.toList.contains '|' then parts.head! else inner
      (!inner.toList.contains '|' || parts.length = 2) &&
      (match nkeys with
       | some n => (keyStr.splitOn ",").length = n
       | none => true)

/-- the value of a link attribute line (`_parse_link_attribute`) -/
def linkAttrValue (v : String) : Option JVal :=
  let cs := v.toList
  if cs.contains '|' then
    match Json.parse v with
    | .ok (.str s) => some (.choice (s.splitOn "|"))
    | _ => none
  else if cs.contains '(' && cs.getLast? = some ')' && cs.head? != some '(' then
    let func := String.ofList (cs.takeWhile (· ≠ '('))
    let arg := String.ofList ((cs.dropWhile (· ≠ '(')).drop 1).dropLast
    match Json.parse arg with
    | .ok j => if valuePredicates.contains func then some (.notP j.compress) else none
    | .error _ => none
  else parseJVal v


/-- `dict(a); .update(b)` : b over a -/
def attrsUpdate (a b : Attrs) : Attrs := b.foldl (fun acc kv => acc.set kv.1 kv.2) a

/-! ### contexts -/

structure Inter where
  sect : String
  atoms : List String
  params : List String
  /-- ITP: the `#ifdef`/`#ifndef` condition and tag in force (`{condition: tag}`) -/
  pmeta : Option (String × String) := none
  /-- FF: `meta` = the line's own trailing dictionary over the section-wide `#meta` attributes -/
  imeta : Attrs := []
  deriving Repr, DecidableEq, Inhabited

structure Ctx where
  name : Option String := none
  nodes : List (String × Attrs) := []
  inters : List Inter := []
  removed : List Inter := []
  allNodes : Attrs := []
  /-- `_apply_to_all_interactions[section]`, filled by `#meta` lines -/
  allInter : List (String × Attrs) := []
  /-- ITP: `current_atom_names` -/
  snapshot : List String := []
  /-- `block.nrexcl = int(nrexcl)` -/
  nrexcl : Option Int := none
  /-- `link.non_edges`: (key of the first atom, attributes of the second atom) per `[ non-edges ]` line -/
  nonEdges : List (String × Attrs) := []
  /-- `link.patterns`: per `[ patterns ]` line its atoms (reference as written, attributes) -/
  patterns : List (List (String × Attrs)) := []
  /-- `link.features` (a set; kept without duplicates) -/
  features : List String := []
  deriving Repr, Inhabited

def Ctx.hasNode (c : Ctx) (k : String) : Bool := c.nodes.any (fun n => n.1 = k)
def Ctx.nodeAttrs (c : Ctx) (k : String) : Option Attrs := (c.nodes.find? (fun n => n.1 = k)).map (·.2)
def Ctx.setNode (c : Ctx) (k : String) (a : Attrs) : Ctx := { c with nodes := dictSet c.nodes k a }

/-- the method registered for a section path and its `context_type` -/
structure Entry where
  path : Path
  method : String
  ctype : String
  deriving Repr, Inhabited

def findEntry (tab : List Entry) (p : Path) : Option Entry := tab.find? (fun e => e.path = p)

def routeOf (tab : List Entry) (p : Path) : Kind :=
  match findEntry tab p with
  | none => .global
  | some e =>
    if e.ctype = "block" then .block
    else if e.ctype = "link" || e.ctype = "molmeta" then .link
    else if e.ctype = "modification" then .modification
    else if e.method = "_macros" || e.method = "_variables" || e.method = "_pase_ff_citations" then .global
    else match p.head? with
      | some "moleculetype" => .block
      | some "link" => .link
      | some "modification" => .modification
      | _ => .global

/-! ### line handlers -/

/-- atoms with parsed attribute dictionaries (`_get_atoms`) -/
def atomsWithAttrs (natoms : Option Nat) (check : Bool) (toks : List String) :
    Option (List (String × Attrs) × List String) := do
  let (atoms, rest) ← if check then baseAtoms natoms toks else getAtoms natoms toks
  let atoms' ← atoms.mapM fun (r, a) => match a with
    | none => some (r, ([] : Attrs))
    | some tok => (parseAttrs tok).map fun pa => (r, pa)
  pure (atoms', rest)

/-- `json.loads` of a dictionary token, values as they are (no `Choice`) -/
def parseMetaDict (tok : String) : Option Attrs :=
  match Json.parse tok with
  | .ok (.obj kv) => some (kv.toList.map fun (k, v) => (k, toJVal v))
  | _ => none

/-- the tail of `_base_parser`: optional trailing meta dictionary, parameters -/
def paramsOf (rest : List String) : Option (List String × Attrs) :=
  let ps : Option (List String × Attrs) := match rest.getLast? with
    | some l =>
      if startsWithBrace l then (parseMetaDict l).map fun m => (rest.dropLast, m)
      else some (rest, [])
    | none => some ([], [])
  match ps with
  | some (l, m) => if l.all paramOk then some (l, m) else none
  | none => none

/-- `_treat_block_interaction_atoms` (python list indexing: index 0 is the last atom) -/
def blockRef (c : Ctx) (ref : String) : Option String :=
  if allDigits ref then
    match ref.toNat? with
    | none => none
    | some n =>
      let names := c.nodes.map (·.1)
      if n = 0 then names.getLast? else names[n - 1]?
  else if !c.hasNode ref then none
  else match ref.toList.head? with
    | some ch => if ch = '+' || ch = '-' || ch = '<' || ch = '>' then none else some ref
    | none => none

/-- `_treat_link_interaction_atoms` -/
def linkAtoms (c : Ctx) : List (String × Attrs) → Option (Ctx × List String)
  | [] => some (c, [])
  | (ref, attrs) :: rest => do
    let attrs1 := attrsUpdate c.allNodes attrs
    let (key, attrs2) ← treatAtomPrefix ref.toList attrs1
    let k := String.ofList key
    let c' ← match c.nodeAttrs k with
      | some old =>
        if attrs2.any (fun kv => match old.get kv.1 with | some v => v != kv.2 | none => false) then none
        else some (c.setNode k (attrsUpdate old attrs2))
      | none => some (c.setNode k attrs2)
    let (c'', ks) ← linkAtoms c' rest
    pure (c'', k :: ks)

def isMeta (toks : List String) : Bool := toks.head? = some "#meta"

/-- `_parse_meta` -/
def metaOf (toks : List String) : Option Attrs :=
  match toks with
  | [_, d] => parseMetaDict d
  | _ => none

def sectionMeta (c : Ctx) (sect : String) : Attrs :=
  ((c.allInter.find? (fun e => e.1 = sect)).map (·.2)).getD []

def stripBangS (s : String) : String × Bool :=
  match s.toList with
  | '!' :: r => (String.ofList r, true)
  | _ => (s, false)

/-- `_dih_interactions`: dihedrals whose first parameter is '2' are moved to the end of `impropers` -/
def dihMove (c : Ctx) : Ctx :=
  let moved := c.inters.filter (fun it => it.sect = "dihedrals" && it.params.head? = some "2")
  let kept := c.inters.filter (fun it => !(it.sect = "dihedrals" && it.params.head? = some "2"))
  { c with inters := kept ++ moved.map (fun it => { it with sect := "impropers" }) }

/-- the common part of `_interactions` / `_dih_interactions`: a `#meta` line or `_base_parser` -/
def interactionCore (natomsTab : List (String × Nat)) (kind : Kind) (sectRaw : String)
    (line : String) (c : Ctx) : Option Ctx := do
  let toks ← tokenizeS line
  let (sect, delete) := stripBangS sectRaw
  if isMeta toks then
    -- `context._apply_to_all_interactions[section].update(attributes)`
    match metaOf toks with
    | none => none
    | some m => some { c with allInter := dictSet c.allInter sect (attrsUpdate (sectionMeta c sect) m) }
  else do
    if kind != .link && delete then none
    let (atoms, rest) ← atomsWithAttrs (natomsOf natomsTab sect) true toks
    let (c', refs) ← match kind with
      | .block => do
        let refs ← atoms.mapM fun a => blockRef c a.1
        pure (c, refs)
      | _ => linkAtoms c atoms
    let (params, lineMeta) ← paramsOf rest
    -- `dict(ChainMap(meta, apply_to_all_interactions))`: the line's own value wins
    let it : Inter := { sect := sect, atoms := refs, params := params,
                        imeta := attrsUpdate (sectionMeta c sect) lineMeta }
    if delete then pure { c' with removed := c'.removed ++ [it] }
    else pure { c' with inters := c'.inters ++ [it] }

/-- `_interactions` / `_dih_interactions` on a block or link/modification context -/
def interactionLine (natomsTab : List (String × Nat)) (kind : Kind) (dih : Bool) (sectRaw : String)
    (line : String) (c : Ctx) : Option Ctx :=
  (interactionCore natomsTab kind sectRaw line c).map fun c1 => if dih then dihMove c1 else c1

/-- `_parse_link_atom` -/
def linkAtomLine (defaults : Attrs) (line : String) (c : Ctx) : Option Ctx := do
  let toks ← tokenizeS line
  match toks with
  | [ref, atok] =>
    let attrs ← parseAttrs atok
    let (key, attrs1) ← treatAtomPrefix ref.toList attrs
    let k := String.ofList key
    let attrs2 := attrsUpdate c.allNodes attrs1
    let old := (c.nodeAttrs k).getD []
    if attrs2.any (fun kv => match old.get kv.1 with | some v => v != kv.2 | none => false) then none
    -- `context.nodes[prefixed_reference] = full_attributes` raises TypeError (NodeView does not
    -- support item assignment): an atom that already exists cannot be redefined in `[ atoms ]`
    else if c.hasNode k then none
    else pure (c.setNode k (attrsUpdate (attrsUpdate defaults old) attrs2))
  | _ => none

/-- the entry a `[ non-edges ]` line appends to `link.non_edges`: the key of the first atom and
`dict(ChainMap(attributes of the second atom, link._apply_to_all_nodes))` - the link-wide attributes,
overridden by what the line itself says about the atom -/
def nonEdgeOf (c : Ctx) (k0 : String) (secondAttrs : Attrs) : String × Attrs :=
  (k0, attrsUpdate c.allNodes secondAttrs)

/-- `_parse_edges` -/
def edgeLine (kind : Kind) (negate : Bool) (line : String) (c : Ctx) : Option Ctx := do
  let toks ← tokenizeS line
  if negate && kind != .link then none
  let (atoms, _) ← atomsWithAttrs (some 2) false toks
  let keys ← atoms.mapM fun (r, a) => (treatAtomPrefix r.toList a).map fun x => String.ofList x.1
  match keys with
  | [k0, k1] =>
    if negate then
      -- `non_edges.append([key of the first atom, dict(ChainMap(attributes of the second, _apply_to_all_nodes))])`
      match atoms with
      | [_, (r1, a1)] =>
        (treatAtomPrefix r1.toList a1).map fun x =>
          { c with nonEdges := c.nonEdges ++ [nonEdgeOf c k0 x.2] }
      | _ => none
    else if (kind = .modification || kind = .block) && !(c.hasNode k0 && c.hasNode k1) then none
    else
      let c1 := if c.hasNode k0 then c else c.setNode k0 []
      pure (if c1.hasNode k1 then c1 else c1.setNode k1 [])
  | _ => none

/-- `_parse_block_atom` -/
def blockAtomLine (line : String) (c : Ctx) : Option Ctx := do
  let toks ← tokenizeS line
  let (toks1, attrs) ← match toks.getLast? with
    | some l => if startsWithBrace l then (parseAttrs l).map fun a => (toks.dropLast, a) else some (toks, ([] : Attrs))
    | none => none
  match toks1 with
  | _ :: atype :: resid :: resname :: name :: cg :: extra =>
    if c.hasNode name then none
    let r ← pyInt? resid
    let g ← pyInt? cg
    if !((extra.take 2).all pyFloatOk) then none
    let key := match attrs.get "atomname" with | some (.str s) => s | _ => name
    -- `dict(ChainMap(attributes, atom))`: the attribute dictionary of the line wins
    pure (c.setNode key (attrsUpdate [("atomname", .str name), ("atype", .str atype), ("resname", .str resname),
      ("resid", .int r), ("charge_group", .int g)] attrs))
  | _ => none

/-- `_link` / `_parse_link_attribute` for section `link` -/
def linkAttrLine (molmeta : Bool) (line : String) (c : Ctx) : Option Ctx := do
  let toks ← tokenizeS line
  match toks with
  | [k, v] =>
    let jv ← linkAttrValue v
    if molmeta then pure c else pure { c with allNodes := c.allNodes.set k jv }
  | _ => none

def nameLine2 (line : String) (c : Ctx) : Option Ctx :=
  match splitWs line with
  | [n, x] => (pyInt? x).map fun i => { c with name := some n, nrexcl := some i }
  | _ => none

def ffHandle (natomsTab : List (String × Nat)) (tab : List Entry) (kind : Kind) (p : Path) (line : String)
    (c : Ctx) : Option Ctx :=
  match findEntry tab p with
  | none => none
  | some e =>
    let last := p.getLast?.getD ""
    if e.method = "_block" then nameLine2 line c
    else if e.method = "_block_atoms" then blockAtomLine line c
    else if e.method = "_interactions" then interactionLine natomsTab kind false last line c
    else if e.method = "_dih_interactions" then interactionLine natomsTab kind true last line c
    else if e.method = "_edges" then edgeLine kind (last = "non-edges") line c
    else if e.method = "_link" then linkAttrLine (e.ctype = "molmeta") line c
    else if e.method = "_link_atoms" then linkAtomLine [] line c
    else if e.method = "_modification_atoms" then linkAtomLine [("PTM_atom", .bool false)] line c
    else if e.method = "_modification" then some { c with name := some line }
    else if e.method = "_invalid_out_of_link" then none
    else if e.method = "_link_patterns" then
      (if kind != .link then none else do
        let toks ← tokenizeS line
        let (atoms, _) ← atomsWithAttrs none false toks
        pure { c with patterns := c.patterns ++ [atoms] })
    else if e.method = "_link_features" then
      (if kind != .link then none else (tokenizeS line).map fun toks =>
        { c with features := (c.features ++ toks).eraseDups })
    else some c      -- citation, log entries, block meta: never raise

/-- context-free sections: `_variables` (before any context), `_macros` (done by the
pre-pass), `_pase_ff_citations` -/
def ffHandleG (tab : List Entry) (p : Path) (line : String) (hasCtx : Bool) (_ : Unit) : Option Unit :=
  match findEntry tab p with
  | none => none
  | some e =>
    if e.method = "_variables" then
      if hasCtx then none
      else match tokenizeS line with
        | some [_, _] => some ()
        | _ => none
    else some ()

def ffParams (natomsTab : List (String × Nat)) (tab : List Entry) : Params Ctx Unit :=
  { T := tab.map (·.path), route := routeOf tab, handle := ffHandle natomsTab tab,
    handleG := ffHandleG tab, fresh := fun _ => {}, nameOf := fun c => c.name }

structure Dump where
  blocks : List (Option String × (Nat × Ctx))
  links : List (Nat × Ctx)
  mods : List (Option String × (Nat × Ctx))

/-- model of `read_ff(lines, force_field)` on a fresh force field; `none` = an exception -/
def readFF (natomsTab : List (String × Nat)) (tab : List Entry) (raw : List String) : Option Dump := do
  let lines ← classify raw
  let lines' ← expandMacros (tab.map (·.path)) [] [] lines
  let s ← ffRun (ffParams natomsTab tab) () lines'
  pure { blocks := s.blocks, links := s.links, mods := s.mods }

/-! ### ITP -/

inductive Idx where
  | pos (n : Nat)
  | slice (start : Nat) (stop : Option Nat)
  /-- an entry of `atom_idxs` that is neither an int nor a slice: the `else: raise IOError` branch -/
  | bad
  deriving Repr, Inhabited

/-- `_split_atoms_and_parameters`: positions selected by the index list (`none` = IndexError) -/
def idxPositions (len : Nat) : List Idx → Option (List Nat)
  | [] => some []
  | .pos n :: rest => if n < len then (idxPositions len rest).map (n :: ·) else none
  | .bad :: _ => none
  | .slice a b :: rest =>
    let stop := min (b.getD len) len
    -- a bounded slice must be filled completely (repair of F-C13-10): IOError otherwise
    if (match b with | some b' => decide (stop - a < b' - a) | none => false) then none
    else (idxPositions len rest).map ((List.range stop).drop a ++ ·)

/-! #### pragmas (`ITPDirector.parse_pragma`, `is_pragma`, the check in `finalize`) -/

abbrev PMeta := Option (String × String)

def startsWithS (s pre : String) : Bool := pre.toList.isPrefixOf s.toList

/-- `parse_pragma(line)` on `current_meta`; `none` = IOError / ValueError / KeyError -/
def pragmaStep (m : PMeta) (line : String) : Option PMeta :=
  if line = "#endif" then
    match m with
    | some _ => some none
    | none => none
  else if startsWithS line "#else" then
    match m with
    | none => none
    | some (c, t) =>
      if c = "ifdef" then some (some ("ifndef", t))
      else if c = "ifndef" then some (some ("ifdef", t))
      else none
  else if startsWithS line "#ifdef" || startsWithS line "#ifndef" then
    match m with
    | some _ => none
    | none =>
      match splitWs line with
      | [c, t] => some (some (String.ofList (c.toList.filter (· ≠ '#')), t))
      | _ => none
  else if startsWithS line "#define" then some m
  else none

/-- Pragma pre-pass: pragma lines (content lines starting with `#`, which `dispatch` sends to
`parse_pragma` and never to a section) are consumed; every other line is paired with the
`current_meta` in force when it is read. `none` = a pragma error, or an unclosed `#ifdef` at the
end of the file. Pragmas do not look at sections and sections do not look at pragmas except through
`current_meta`, so this factoring is exact. -/
def pragmaPass : PMeta → List Line → Option (List (Line × PMeta))
  | m, [] => if m.isSome then none else some []
  | m, .header n :: r => (pragmaPass m r).map fun l => (.header n, m) :: l
  | m, .content t :: r =>
    if startsWithS t "#" then
      match pragmaStep m t with
      | none => none
      | some m' => pragmaPass m' r
    else (pragmaPass m r).map fun l => (.content t, m) :: l

/-- the meta in force is handed to the section handlers in front of the line text -/
def encodeMeta (m : PMeta) (t : String) : String :=
  match m with
  | none => t
  | some (c, g) => String.ofList ('\x01' :: c.toList ++ '\x02' :: g.toList ++ '\x03' :: t.toList)

def decodeMeta (t : String) : PMeta × String :=
  match t.toList with
  | '\x01' :: rest =>
    let c := rest.takeWhile (· ≠ '\x02')
    let r1 := (rest.dropWhile (· ≠ '\x02')).drop 1
    let g := r1.takeWhile (· ≠ '\x03')
    let r2 := (r1.dropWhile (· ≠ '\x03')).drop 1
    (some (String.ofList c, String.ofList g), String.ofList r2)
  | _ => (none, t)

def itpRef (c : Ctx) (ref : String) : Option String :=
  if allDigits ref then
    match ref.toNat? with
    | none => none
    | some n => if n < 1 then none else c.snapshot[n - 1]?
  else none     -- a name is never a node of an ITP block (nodes are indices)

def itpInteraction (idxTab : List (String × List Idx)) (sect : String) (line0 : String) (c : Ctx) : Option Ctx := do
  let (pm, line) := decodeMeta line0
  let toks ← tokenizeS line
  let idxs ← (idxTab.find? (fun e => e.1 = sect)).map (·.2)
  let pos ← idxPositions toks.length idxs
  let atoms := pos.filterMap fun i => toks[i]?
  let params := (List.range toks.length).filterMap fun i => if pos.contains i then none else toks[i]?
  let refs ← atoms.mapM (itpRef c)
  pure { c with inters := c.inters ++ [{ sect := sect, atoms := refs, params := params, pmeta := pm }] }

def itpAtomLine (line : String) (c : Ctx) : Option Ctx := do
  let toks ← tokenizeS line
  match toks with
  | idx :: atype :: resid :: resname :: name :: cg :: extra =>
    let i ← pyInt? idx
    if i < 1 then none
    let key := toString (i - 1)
    if c.hasNode key then none
    let r ← pyInt? resid
    let g ← pyInt? cg
    if !((extra.take 2).all pyFloatOk) then none
    pure (c.setNode key [("atomname", .str name), ("atype", .str atype), ("resname", .str resname),
      ("resid", .int r), ("charge_group", .int g), ("index", .int i)])
  | _ => none

def itpHandle (idxTab : List (String × List Idx)) (tab : List Entry) (p : Path) (line : String) (c : Ctx) : Option Ctx :=
  match findEntry tab p with
  | none => none
  | some e =>
    if e.method = "_block" then nameLine2 (decodeMeta line).2 c
    else if e.method = "_block_atoms" then itpAtomLine (decodeMeta line).2 c
    else if e.method = "_interactions" then itpInteraction idxTab (p.getLast?.getD "") line c
    else if e.method = "_macros" then (parseMacro (decodeMeta line).2).map fun _ => c
    else some c

def itpParams (idxTab : List (String × List Idx)) (tab : List Entry) : IParams Ctx :=
  { T := tab.map (·.path), handle := itpHandle idxTab tab,
    atomsEnded := fun c => { c with snapshot := c.nodes.map (·.1) },
    fresh := {}, nameOf := fun c => c.name }

/-- model of `read_itp`; a content line before any
`[ moleculetype ]` (e.g. under `[ macros ]`) has no block to go to and is rejected by the
model only if its section needs one -/
def readITP (idxTab : List (String × List Idx)) (tab : List Entry) (raw : List String) :
    Option (List (Option String × (Nat × Ctx))) := do
  let lines ← classify raw
  let tagged ← pragmaPass none lines
  let lines' ← expandMacros (tab.map (·.path)) [] [] (tagged.map (·.1))
  let lines'' := (lines'.zip (tagged.map (·.2))).map fun (l, m) =>
    match l with
    | .content t => Line.content (encodeMeta m t)
    | h => h
  let s ← itpRun (itpParams idxTab tab) lines''
  pure s.blocks

end C13
