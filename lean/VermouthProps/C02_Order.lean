import VermouthProps.C02_Repo
/-!
# C02 — the left-over sections (sections that only have pre/post lines)

`write_molecule_itp` ends with

    remaining_sections = set(pre_section_lines) | set(post_section_lines)
    remaining_sections -= seen_sections
    for name in remaining_sections: ...

The iteration order of a `set` of `str` depends on the string hash, which CPython randomises per
process (`PYTHONHASHSEED`): with two or more left-over sections the ORDER in which they are written
is observable in the text and is not a function of the molecule.  The model makes the order an
explicit argument (`writeOrd m names`, `names` = the order the set happened to iterate in); the
harness reads the order off the real text, demands that it is a permutation of `remainingNames m`,
and compares the text byte for byte with `render (writeOrd m names)`.

The theorems: the order touches nothing but the tail of the file, and neither reader's result depends
on it.
-/
namespace C02

/-- the default order of the model (first appearance in pre ++ post) is one instance -/
theorem writeOrd_default (m : Mol) : writeOrd m (remainingNames m) = write m := rfl

/-- **Only the tail depends on the order**: for every order `names` the written lines are the same
`body` (header, defines, moleculetype, atoms, every interaction section) followed by the left-over
sections in that order. -/
theorem leftover_order_only_tail (tbl : List (String × Arity)) (m : Mol) (h : wellFormed tbl m = true)
    (names : List String) :
    ∃ body, write m = .ok (body ++ remainingPart m) ∧ writeOrd m names = .ok (body ++ remainingPartOf m names) := by
  have hw := wfFacts_of tbl m h
  exact ⟨_, write_ok tbl m hw, writeOrd_ok tbl m hw names⟩

/-- the left-over part states each of the given names once, in the given order, with its pre and
post lines and nothing else -/
theorem leftover_part_shape (m : Mol) (names : List String) :
    remainingPartOf m names
      = names.flatMap (fun n => Line.sect n :: (linesOf m.pre n ++ linesOf m.post n ++ [Line.blank])) := by
  simp [remainingPartOf]

/-- **The round trip does not depend on the order** (independent reader, character level): whatever
permutation of the left-over names the set iterates in, reading the rendered text back gives
`canon m`. -/
theorem leftover_order_irrelevant (tbl : List (String × Arity)) (m : Mol) (h : wellFormed tbl m = true)
    (hc : charOk m = true) (names : List String) (hp : names.Perm (remainingNames m)) :
    ∃ ls, writeOrd m names = .ok ls ∧ parse tbl (render ls) = .ok (canon m) := by
  have hw := wfFacts_of tbl m h
  have hcf := charFacts_of m hc
  refine ⟨fileLinesOrd m names, writeOrd_ok tbl m hw names, ?_⟩
  have hgood := fileLinesOrd_good tbl m hw hcf names (fun n hn => hp.mem_iff.mp hn)
  rw [parse_render tbl _ (fun l hl => ⟨lineOk_of_good l (hgood l hl), noNl_of_good l (hgood l hl)⟩)]
  obtain ⟨sct, hrun⟩ := run_fileLinesOrd tbl m hw names
  unfold parseTokens
  rw [← run_eq_foldlM, hrun]
  rfl

/-- the same for the table extracted from the repository -/
theorem leftover_order_irrelevant_repo (m : Mol) (h : wellFormed arityTable m = true) (hc : charOk m = true)
    (names : List String) (hp : names.Perm (remainingNames m)) :
    ∃ ls, writeOrd m names = .ok ls ∧ parse arityTable (render ls) = .ok (canon m) :=
  leftover_order_irrelevant arityTable m h hc names hp

/-- **... nor does the repo's own reader see it**: `read_itp` (C13 model, recording context) on the text
written with the left-over sections in any order returns the same single block whose view is `canon m`. -/
theorem repo_reader_roundtrip_any_order (m : Mol) (h : wellFormed arityTable m = true) (hc : charOk m = true)
    (hr : Repo.repoOk (Repo.itpTab.map (·.path)) m = true) (names : List String)
    (hp : names.Perm (remainingNames m)) :
    ∃ ls blk, writeOrd m names = .ok ls
      ∧ Repo.readITPx Repo.itpIdx Repo.itpTab (Repo.textLines (render ls)) = some [(some m.moltype, (0, blk))]
      ∧ Repo.viewBlock blk = some (canon m)
      ∧ blk.base.nodes.map (·.1) = (List.range m.atoms.length).map (fun (k : Nat) => toString k) :=
  Repo.repo_reader_roundtrip_ord Repo.itpTab Repo.itpIdx arityTable Repo.tables_ok m h hc hr names
    (fun n hn => hp.mem_iff.mp hn)

/-! ## non-vacuity: a molecule with two left-over sections, both orders -/

def exTwoLeft : Mol :=
  { exMol with pre := [("settles", ["; s"]), ("atoms", ["; pre"])], post := [("pairs", ["#define P 1"])] }

example : wellFormed arityTable exTwoLeft = true := by decide
example : charOk exTwoLeft = true := by decide
/-- the hypothesis `names.Perm (remainingNames m)` is satisfied by the default order and by its reverse
(the harness observes both orders of two left-over sections on the real code, see the counters
`leftover_order_*` in the evidence) -/
example : ∃ ls, writeOrd exTwoLeft (remainingNames exTwoLeft).reverse = .ok ls
    ∧ parse arityTable (render ls) = .ok (canon exTwoLeft) :=
  leftover_order_irrelevant_repo exTwoLeft (by decide) (by decide) _ (List.reverse_perm _)

end C02
