import VermouthModel.C08_Hist
import VermouthProps.C08
/-!
C08 — histories on ONE counting handler: logging interleaved with queries.

`hrun_eq_fresh`: every query of every history is answered exactly as a FRESH handler would answer it
after receiving the records logged so far (queries are read-only, nothing is remembered between them).
`countsBy_fresh`: `number_of_counts_by` of a handler that received `recs` is the number of those
records at or above the level and of the type asked for.  Together with the theorems of
`VermouthProps/C08.lean` (which hold for every counter) this carries the property to every point of
every history: `history_leftover_ge_errors`.
-/
namespace C08

/-- what the answers of a history must be: each query sees a fresh handler holding the records so far -/
def answersSpec (pre : List (Nat × String)) : List HOp → List (Option Int)
  | [] => []
  | .log l t :: ops => none :: answersSpec (pre ++ [(l, t)]) ops
  | .countBy l t :: ops => some (countsBy (fresh pre) l t : Int) :: answersSpec pre ops
  | .leftover s lv :: ops => some (leftover (flattenCounts (fresh pre)) s lv) :: answersSpec pre ops

theorem fresh_snoc (pre : List (Nat × String)) (l : Nat) (t : String) :
    fresh (pre ++ [(l, t)]) = bump (fresh pre) l t := by
  simp [fresh, List.foldl_append]

/-- Every query of every history equals the answer of a fresh handler with the records logged so far. -/
theorem hrun_eq_fresh (pre : List (Nat × String)) (ops : List HOp) :
    hrun (fresh pre) ops = answersSpec pre ops := by
  induction ops generalizing pre with
  | nil => rfl
  | cons op ops ih =>
    cases op with
    | log l t =>
      simp only [hrun, hstep, answersSpec]
      rw [← fresh_snoc, ih]
    | countBy l t => simp only [hrun, hstep, answersSpec, ih]
    | leftover s lv => simp only [hrun, hstep, answersSpec, ih]

def hnext (cs : Counts) (op : HOp) : Counts := (hstep cs op).1
theorem hnext_log (cs : Counts) (l : Nat) (t : String) : hnext cs (.log l t) = bump cs l t := rfl
theorem hnext_countBy (cs : Counts) (l : Option Nat) (t : Option String) : hnext cs (.countBy l t) = cs := rfl
theorem hnext_leftover (cs : Counts) (s : List (List Spec)) (lv : Nat) : hnext cs (.leftover s lv) = cs := rfl

/-- Queries never change the handler: the state after a history is the fresh handler of its records. -/
theorem hstate_eq_fresh (pre : List (Nat × String)) (ops : List HOp) :
    ops.foldl hnext (fresh pre) = fresh (pre ++ logged ops) := by
  induction ops generalizing pre with
  | nil => simp [logged]
  | cons op ops ih =>
    cases op with
    | log l t =>
      simp only [List.foldl_cons, hnext_log, logged]
      rw [← fresh_snoc, ih]; simp
    | countBy l t => simp only [List.foldl_cons, hnext_countBy, logged, ih]
    | leftover s lv => simp only [List.foldl_cons, hnext_leftover, logged, ih]

/-! ### `number_of_counts_by` counts records -/

def cellSum (level : Option Nat) (ty : Option String) (l : Nat) (d : List (String × Nat)) : Nat :=
  (d.map (fun tc => if selects level ty l tc.1 then tc.2 else 0)).sum

theorem cellSum_cons (level : Option Nat) (ty : Option String) (l : Nat) (t : String) (c : Nat) (rest : List (String × Nat)) :
    cellSum level ty l ((t, c) :: rest) = (if selects level ty l t then c else 0) + cellSum level ty l rest := by
  simp [cellSum]

theorem cellSum_bumpType (level : Option Nat) (ty : Option String) (l : Nat) (d : List (String × Nat)) (t : String) :
    cellSum level ty l (bumpType d t) = cellSum level ty l d + (if selects level ty l t then 1 else 0) := by
  induction d with
  | nil => simp [cellSum, bumpType]
  | cons hd rest ih =>
    obtain ⟨t', c⟩ := hd
    unfold bumpType
    by_cases h : t' = t
    · subst h
      rw [if_pos rfl, cellSum_cons, cellSum_cons]
      split <;> omega
    · rw [if_neg h, cellSum_cons, cellSum_cons, ih]
      omega

theorem countsBy_cons (l : Nat) (d : List (String × Nat)) (rest : Counts) (level : Option Nat) (ty : Option String) :
    countsBy ((l, d) :: rest) level ty = cellSum level ty l d + countsBy rest level ty := by
  simp [countsBy, cellSum]

theorem countsBy_bump (cs : Counts) (lvl : Nat) (t : String) (level : Option Nat) (ty : Option String) :
    countsBy (bump cs lvl t) level ty = countsBy cs level ty + (if selects level ty lvl t then 1 else 0) := by
  induction cs with
  | nil => simp [countsBy, bump]
  | cons hd rest ih =>
    obtain ⟨l, d⟩ := hd
    unfold bump
    by_cases h : l = lvl
    · subst h
      rw [if_pos rfl, countsBy_cons, countsBy_cons, cellSum_bumpType]
      omega
    · rw [if_neg h, countsBy_cons, countsBy_cons, ih]
      omega

/-- how many of the records are at or above `level` (if given) and of type `ty` (if given) -/
def recCount (recs : List (Nat × String)) (level : Option Nat) (ty : Option String) : Nat :=
  (recs.filter (fun r => selects level ty r.1 r.2)).length

theorem countsBy_fresh_aux (cs : Counts) (recs : List (Nat × String)) (level : Option Nat) (ty : Option String) :
    countsBy (recs.foldl (fun cs r => bump cs r.1 r.2) cs) level ty = countsBy cs level ty + recCount recs level ty := by
  induction recs generalizing cs with
  | nil => simp [recCount]
  | cons r rs ih =>
    simp only [List.foldl_cons]
    rw [ih, countsBy_bump]
    simp only [recCount, List.filter_cons]
    split <;> simp <;> omega

/-- `number_of_counts_by(level, type)` of a handler = number of received records at or above the level and of
that type: nothing is lost, nothing counted twice, whatever the order of arrival. -/
theorem countsBy_fresh (recs : List (Nat × String)) (level : Option Nat) (ty : Option String) :
    countsBy (fresh recs) level ty = recCount recs level ty := by
  have := countsBy_fresh_aux [] recs level ty
  simpa [fresh, countsBy] using this

/-! ### the property at every point of every history -/

theorem sumCounts_append (a b : List Entry) : sumCounts (a ++ b) = sumCounts a + sumCounts b := by
  simp [sumCounts]

theorem sumCounts_cell (p : Nat → Bool) (l : Nat) (d : List (String × Nat)) :
    sumCounts ((d.map (fun tc => ({ level := l, type := tc.1, count := tc.2 } : Entry))).filter (fun e => p e.level))
      = ((d.map (fun tc => if p l then tc.2 else 0)).sum : Nat) := by
  induction d with
  | nil => simp [sumCounts]
  | cons x xs ihx =>
    by_cases hp : p l = true
    · simp only [List.map_cons, List.filter_cons, hp, if_true, List.sum_cons] at ihx ⊢
      simp only [sumCounts, List.map_cons, List.sum_cons, cnt] at ihx ⊢
      push_cast
      omega
    · simp only [List.map_cons, List.filter_cons, hp, List.sum_cons] at ihx ⊢
      simpa using ihx

theorem sumCounts_flatten (cs : Counts) (p : Nat → Bool) :
    sumCounts ((flattenCounts cs).filter (fun e => p e.level)) =
      ((cs.map (fun ld => (ld.2.map (fun tc => if p ld.1 then tc.2 else 0)).sum)).sum : Nat) := by
  induction cs with
  | nil => simp [flattenCounts, sumCounts]
  | cons hd rest ih =>
    obtain ⟨l, d⟩ := hd
    have hsplit : flattenCounts ((l, d) :: rest) =
        d.map (fun tc => ({ level := l, type := tc.1, count := tc.2 } : Entry)) ++ flattenCounts rest := by
      simp [flattenCounts]
    rw [hsplit, List.filter_append, sumCounts_append, ih, sumCounts_cell]
    simp only [List.map_cons, List.sum_cons]
    push_cast
    rfl

/-- records above the level, as `nAbove` of the dumped counter -/
theorem nAbove_fresh (recs : List (Nat × String)) (level : Nat) :
    nAbove (flattenCounts (fresh recs)) level = (recCount recs (some (level + 1)) none : Int) := by
  unfold nAbove
  have h1 := sumCounts_flatten (fresh recs) (fun l => decide (level < l))
  rw [h1]
  have h2 := countsBy_fresh recs (some (level + 1)) none
  unfold countsBy selects at h2
  simp only [Bool.and_true] at h2
  have : (fun (ld : Nat × List (String × Nat)) => (ld.2.map (fun tc => if decide (level < ld.1) = true then tc.2 else 0)).sum)
       = (fun (ld : Nat × List (String × Nat)) => (ld.2.map (fun tc => if decide (level + 1 ≤ ld.1) = true then tc.2 else 0)).sum) := by
    funext ld; congr 1
  rw [this, h2]

/-- At every point of every history the leftover count is at least the number of records logged SO FAR above the
level, whatever was queried before: an error logged after an earlier query is still counted, and no allowance
waives it. -/
theorem history_leftover_ge_errors (recs : List (Nat × String)) (specs : List (List Spec)) (level : Nat) :
    (recCount recs (some (level + 1)) none : Int) ≤ leftover (flattenCounts (fresh recs)) specs level := by
  rw [← nAbove_fresh]
  exact leftover_ge_errors _ specs level

example : hrun [] [.log 30 "a", .leftover [] 30, .log 40 "a", .leftover [[(none, some 5)]] 30, .countBy (some 40) none]
    = [none, some 1, none, some 1, some 1] := by decide
example : recCount [(30, "a"), (40, "a"), (40, "b")] (some 31) none = 2 := by decide

end C08
