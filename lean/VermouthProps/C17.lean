import VermouthModel.C17
import VermouthProps.C17Tables
namespace C17
end C17
