import VermouthProofs.C17_Spec
import VermouthProofs.C17_Annot
import VermouthProps.C17Tables
/-!
# C17 — per-residue annotations land on the intended residues and translate correctly

Part 1 (this section): `convert_dssp_to_martini`.  `convertImpl` is the transcription of the code
(flank with dots, then for every entry of the extracted pattern table
`while pattern in s: s = s.replace(pattern, replacement)`, unflank, merge with the class string);
`convertSpec` is the documented rule (classes by the table, every maximal helix run of length `L`
becomes `specRun L`).  All statements are about the tables extracted from the repository
(`C17Tables.ssCg`, `C17Tables.patterns`).
-/
namespace C17
open C17Tables

/-- **The code computes the documented rule**, for every string (no bound on the length, any
characters; both sides are `none` exactly when a class is not in `SS_CG`). -/
theorem convertImpl_eq_spec (s : List Char) :
    convertImpl ssCg patterns s = convertSpec ssCg s := by
  rw [patterns_documented]
  exact convertImpl_doc_eq_spec _ _

/-- every `while pattern in s` loop of the code ends with the pattern gone: the fuel of the model
never runs out, whatever the string -/
theorem convert_loops_terminate : ∀ p ∈ patterns, ∀ w : List Char,
    occurs p.1 (whileReplace p.1 p.2 (w.length + 1) w) = false := by
  intro p hp w
  exact whileReplace_done p.1 p.2 (patterns_nonempty p hp) (patterns_decrease_H p hp) _ _
    (Nat.lt_succ_of_le (countH_le_length w))

/-- the conversion is defined exactly on strings over the keys of `SS_CG` (otherwise `KeyError`) -/
theorem convert_defined_iff (s : List Char) :
    (∃ r, convertImpl ssCg patterns s = some r) ↔ ∀ c ∈ s, ∃ g, lookup ssCg c = some g := by
  rw [convertImpl_eq_spec]
  unfold convertSpec
  constructor
  · rintro ⟨r, hr⟩ c hc
    cases hcg : s.mapM (lookup ssCg) with
    | none => rw [hcg] at hr; cases hr
    | some cg =>
      have hm := (mapM_eq_some_iff _ _ _).mp hcg
      have : lookup ssCg c ∈ s.map (lookup ssCg) := List.mem_map_of_mem hc
      rw [hm, List.mem_map] at this
      obtain ⟨g, _, hg⟩ := this
      exact ⟨g, hg.symm⟩
  · intro h
    have : s.mapM (lookup ssCg) = some (s.map fun c => (lookup ssCg c).getD 'C') := by
      rw [mapM_eq_some_iff, List.map_map]
      apply List.map_congr_left
      intro c hc
      obtain ⟨g, hg⟩ := h c hc
      simp [hg]
    rw [this]
    exact ⟨_, rfl⟩

/-- the conversion preserves the length -/
theorem convert_length (s r : List Char) (h : convertImpl ssCg patterns s = some r) :
    r.length = s.length := by
  rw [convertImpl_eq_spec] at h
  unfold convertSpec at h
  cases hcg : s.mapM (lookup ssCg) with
  | none => rw [hcg] at h; cases h
  | some cg =>
    rw [hcg] at h
    cases h
    have hm := congrArg List.length ((mapM_eq_some_iff _ _ _).mp hcg)
    simp only [List.length_map] at hm
    rw [rewriteRuns_length, hm]; simp

/-- every class that the table does not map to helix is translated by the table, at its own
position, whatever surrounds it -/
theorem convert_nonhelix_by_table (s r : List Char) (h : convertImpl ssCg patterns s = some r)
    (i : Nat) (c g : Char) (hc : s[i]? = some c) (hg : lookup ssCg c = some g) (hne : g ≠ 'H') :
    r[i]? = some g := by
  rw [convertImpl_eq_spec] at h
  unfold convertSpec at h
  cases hcg : s.mapM (lookup ssCg) with
  | none => rw [hcg] at h; cases h
  | some cg =>
    rw [hcg] at h
    cases h
    have hm := (mapM_eq_some_iff _ _ _).mp hcg
    have hi := congrArg (fun l => l[i]?) hm
    simp only [List.getElem?_map, hc, Option.map_some, hg] at hi
    have hcgi : cg[i]? = some g := by
      cases hx : cg[i]? with
      | none => rw [hx] at hi; simp at hi
      | some x => rw [hx] at hi; simp at hi; rw [hi]
    have := rewriteRuns_nonhelix cg 0 i g hcgi hne
    simpa using this

/-- **run rule**: a maximal run of `run.length` helical classes (any mixture of the classes the
table maps to helix), delimited on each side by the end of the string or by a non-helical class,
is rewritten to `specRun run.length` (`3…3` up to 4, `13332`, `113322`, `1113222`, then
`1111 H… 2222`), and the text before and after is converted independently of it. -/
theorem convert_run_rule (pre run post pre' post' : List Char)
    (hpre : convertImpl ssCg patterns pre = some pre') (hpost : convertImpl ssCg patterns post = some post')
    (hrun : ∀ c ∈ run, lookup ssCg c = some 'H')
    (hl : ∀ c, pre.getLast? = some c → lookup ssCg c ≠ some 'H')
    (hr : ∀ c, post.head? = some c → lookup ssCg c ≠ some 'H') :
    convertImpl ssCg patterns (pre ++ run ++ post) = some (pre' ++ specRun run.length ++ post') := by
  rw [convertImpl_eq_spec] at hpre hpost ⊢
  unfold convertSpec at hpre hpost ⊢
  cases h1 : pre.mapM (lookup ssCg) with
  | none => rw [h1] at hpre; cases hpre
  | some cgpre =>
    cases h2 : post.mapM (lookup ssCg) with
    | none => rw [h2] at hpost; cases hpost
    | some cgpost =>
      rw [h1] at hpre; rw [h2] at hpost
      cases hpre; cases hpost
      have m1 := (mapM_eq_some_iff _ _ _).mp h1
      have m2 := (mapM_eq_some_iff _ _ _).mp h2
      have mrun : run.map (lookup ssCg) = (hRun run.length).map some := by
        simp only [hRun, List.map_replicate]
        rw [List.eq_replicate_iff]
        constructor
        · simp
        · intro x hx
          rw [List.mem_map] at hx
          obtain ⟨c, hc, rfl⟩ := hx
          exact hrun c hc
      have mall : (pre ++ run ++ post).mapM (lookup ssCg) = some (cgpre ++ hRun run.length ++ cgpost) := by
        rw [mapM_eq_some_iff]
        simp only [List.map_append, m1, m2, mrun]
      rw [mall]
      simp only [Option.some.injEq]
      apply rewriteRuns_run
      · intro e
        have hlast := congrArg List.getLast? m1
        simp only [List.getLast?_map, e, Option.map_some] at hlast
        cases hp : pre.getLast? with
        | none => rw [hp] at hlast; simp at hlast
        | some c =>
          rw [hp] at hlast
          simp only [Option.map_some, Option.some.injEq] at hlast
          exact hl c hp hlast
      · intro e
        have hhead := congrArg List.head? m2
        simp only [List.head?_map, e, Option.map_some] at hhead
        cases hp : post.head? with
        | none => rw [hp] at hhead; simp at hhead
        | some c =>
          rw [hp] at hhead
          simp only [Option.map_some, Option.some.injEq] at hhead
          exact hr c hp hhead

/-! non-vacuity: the hypotheses of `convert_run_rule` are satisfiable and the statements say
something on concrete strings -/

example : convertImpl ssCg patterns ['C', 'H', 'G', 'I', 'H', 'H', 'H', 'H', 'H', 'H', 'E', 'H', 'T']
    = some ['C', '1', '1', '1', '1', 'H', '2', '2', '2', '2', 'E', '3', 'T'] := by
  rw [convertImpl_eq_spec]; decide

example : convertImpl ssCg patterns ['C', 'E'] = some ['C', 'E']
    ∧ convertImpl ssCg patterns ['T', 'H'] = some ['T', '3']
    ∧ (∀ c ∈ ['G', 'H', 'I', '1', '2'], lookup ssCg c = some 'H')
    ∧ (∀ c, ['C', 'E'].getLast? = some c → lookup ssCg c ≠ some 'H')
    ∧ (∀ c, ['T', 'H'].head? = some c → lookup ssCg c ≠ some 'H') := by
  rw [convertImpl_eq_spec, convertImpl_eq_spec]; decide

example : convertImpl ssCg patterns ['H', 'P'] = none := by
  rw [convertImpl_eq_spec]; decide


/-!
# Part 2 — `AnnotateResidues.run_system` / `annotate_residues_from_sequence`

`residues m` is the order in which `Molecule.iter_residues` yields the residues (by lowest node
key); `annotateSystem` is the transcription of `run_system` (length reconciliation, then the loop
over `zip(selected_molecules, molecule_lengths)` with its running slice bounds, results written
back at the molecule's index = in-place mutation); `annotated m sequence off` gives every atom of
`m` the element `sequence[off + position of its residue in (residues m)]`; `offset sys i` is the
number of residues of the selected molecules before molecule `i`.
-/


/-! residue order -/
theorem residues_mem_iff (m : Mol) (r : Nat) : r ∈ residues m ↔ ∃ a ∈ m, a.res = r :=
  mem_residues m r
theorem residues_nodup (m : Mol) : (residues m).Nodup := nodup_residues m
theorem residues_sorted (m : Mol) : (residues m).Pairwise (fun r s => minKey m r ≤ minKey m s) :=
  sorted_residues m
theorem minKey_le (m : Mol) (a : Atom) (h : a ∈ m) : minKey m a.res ≤ a.key :=
  minKey_le_key m a h
theorem minKey_attained (m : Mol) (r : Nat) (h : r ∈ residues m) : ∃ a ∈ m, a.res = r ∧ a.key = minKey m r :=
  minKey_attained' m r ((mem_residues m r).mp h)

/-! length reconciliation -/
theorem reconcile_length (L seq sequence : List Nat) (h : reconcile L seq = .ok sequence) :
    sequence.length = L.sum :=
  reconcile_length' L seq sequence h
theorem reconcile_exact (L seq : List Nat) (h1 : seq.length = L.sum) (h2 : seq.length ≠ 1)
    (h3 : ¬ (L ≠ [] ∧ allEqual L = true ∧ seq.length = L.headD 0)) :
    reconcile L seq = .ok seq :=
  reconcile_exact' L seq h1 h2 h3
theorem reconcile_one (L : List Nat) (v : Nat) (h : L ≠ []) :
    reconcile L [v] = .ok (List.replicate L.sum v) :=
  reconcile_one' L v h
theorem reconcile_per_molecule (L seq : List Nat) (h1 : L ≠ []) (h2 : allEqual L = true)
    (h3 : seq.length = L.headD 0) :
    reconcile L seq = .ok (repeatSeq seq L.length) ∧
      ∀ j k, j < L.length → k < seq.length → (repeatSeq seq L.length)[j * seq.length + k]? = seq[k]? :=
  reconcile_per_molecule' L seq h1 h2 h3
theorem reconcile_mismatch (L seq : List Nat) (h1 : seq.length ≠ L.sum) (h2 : seq.length ≠ 1)
    (h3 : ¬ (L ≠ [] ∧ allEqual L = true ∧ seq.length = L.headD 0)) :
    reconcile L seq = .error .valueerror :=
  reconcile_mismatch' L seq h1 h2 h3
theorem reconcile_nothing_selected (seq : List Nat) (h : seq ≠ []) : reconcile [] seq = .error .valueerror :=
  reconcile_nothing_selected' seq h

/-! the system -/
theorem length_mismatch_error (sys : Sys) (seq : List Nat) (h : reconcile (selLengths sys) seq = .error .valueerror) :
    annotateSystem sys seq = .error .valueerror :=
  annotateSystem_error sys seq _ h

/-- a sequence accepted by the length reconciliation is applied without any further error -/
theorem annot_ok_of_reconciled (sys : Sys) (seq sequence : List Nat) (h : reconcile (selLengths sys) seq = .ok sequence) :
    ∃ sys', annotateSystem sys seq = .ok sys' :=
  ⟨_, annotateSystem_eq_walk sys seq sequence h⟩

theorem unselected_untouched (sys sys' : Sys) (seq : List Nat) (h : annotateSystem sys seq = .ok sys') :
    sys'.length = sys.length ∧ ∀ (i : Nat) (m : Mol), sys[i]? = some (false, m) → sys'[i]? = some (false, m) := by
  obtain ⟨sequence, hr⟩ := annotateSystem_ok_reconcile sys sys' seq h
  rw [annotateSystem_eq_walk sys seq sequence hr] at h
  injection h with h
  subst h
  exact ⟨walk_length sequence 0 sys, fun i m hi => walk_unselected sequence 0 sys i m hi⟩

theorem annot_alignment (sys sys' : Sys) (seq : List Nat) (h : annotateSystem sys seq = .ok sys') :
    ∃ sequence, reconcile (selLengths sys) seq = .ok sequence ∧
      ∀ (i : Nat) (m : Mol), sys[i]? = some (true, m) →
        sys'[i]? = some (true, annotated m sequence (offset sys i)) ∧
        ∀ a ∈ m, offset sys i + (residues m).idxOf a.res < sequence.length := by
  obtain ⟨sequence, hr⟩ := annotateSystem_ok_reconcile sys sys' seq h
  rw [annotateSystem_eq_walk sys seq sequence hr] at h
  injection h with h
  subst h
  refine ⟨sequence, hr, fun i m hi => ⟨?_, fun a ha => ?_⟩⟩
  · have := walk_selected sequence 0 sys i m hi
    rwa [Nat.zero_add] at this
  · have hb := offset_bound sys i m hi
    have hlen := reconcile_length' _ _ _ hr
    have hmem : a.res ∈ residues m := (mem_residues m a.res).mpr ⟨a, ha, rfl⟩
    have := List.idxOf_lt_length_iff.mpr hmem
    omega

/-- finding F-C17-1, stated on the model of the unrepaired loop: an unselected molecule in front
of a selected one receives the annotation -/
theorem old_loop_touches_unselected :
    annotateSystemOld [(false, [⟨0, 0, none⟩]), (true, [⟨0, 0, none⟩])] [7]
      = .ok [(false, [⟨0, 0, some 7⟩]), (true, [⟨0, 0, none⟩])] := by rfl


/-- `annotate_residues_from_sequence` with a sequence of the right length: every atom of the k-th
residue gets the k-th element -/
theorem annotmol_assigns (m : Mol) (s : List Nat) (hs : s.length = (residues m).length) :
    annotateMol m s = .ok (annotated m s 0) := by
  rw [annotateMol_exact m s hs]
  simp [annotated]

/-- ... and any other length except 1 is an error -/
theorem annotmol_mismatch_error (m : Mol) (s : List Nat) (h1 : s.length ≠ 1)
    (h2 : s.length ≠ (residues m).length) : annotateMol m s = .error .valueerror := by
  simp [annotateMol, h1, h2]

/-- a one-element sequence is given to every atom of the molecule -/
theorem annotmol_one (m : Mol) (v : Nat) :
    annotateMol m [v] = .ok (m.map fun a => { a with val := some v }) := by
  have : annotateMol m [v] = .ok (assign m ((residues m).zip (repeatSeq [v] (residues m).length))) := by
    simp [annotateMol]
  rw [this, repeatSeq_singleton, assign_eq_map]
  congr 1
  apply List.map_congr_left
  intro a ha
  rw [upd_zip _ _ _ (nodup_residues m) (by simp)]
  have hmem : a.res ∈ residues m := (mem_residues m a.res).mpr ⟨a, ha, rfl⟩
  have hlt := List.idxOf_lt_length_iff.mpr hmem
  simp [hmem, hlt]

/-- **The processor is stateless**: when one `AnnotateResidues` object is applied to several
systems / molecules in a row, every application gives what a freshly constructed processor with
the same configured sequence gives on that input alone (`annotateSystem` is a function of the
sequence and the system only), and the configuration is unchanged afterwards. -/
theorem processor_stateless (p : Proc) (ops : List Op) :
    runHistory p ops = ops.map (freshApply p.sequence) := by
  induction ops with
  | nil => rfl
  | cons op ops ih => simp only [runHistory, procStep, List.map_cons, ih]

theorem processor_config_unchanged (p : Proc) (op : Op) : (procStep p op).1 = p := rfl

/-- in particular: a one-element sequence that was repeated over a first system is repeated
afresh over a second system of another size -/
example : runHistory ⟨[7]⟩ [.system [(true, [⟨0, 0, none⟩, ⟨1, 1, none⟩])], .system [(true, [⟨0, 0, none⟩])]]
    = [.system (.ok [(true, [⟨0, 0, some 7⟩, ⟨1, 1, some 7⟩])]), .system (.ok [(true, [⟨0, 0, some 7⟩])])] := by rfl

/-! non-vacuity -/

/-- two unselected molecules around and between two selected ones; keys not in insertion order,
atoms of the residues interleaved; old values present -/
def exampleSys : Sys :=
  [(false, [⟨0, 0, none⟩, ⟨1, 1, some 3⟩]),
   (true, [⟨5, 1, some 7⟩, ⟨3, 0, none⟩, ⟨4, 1, none⟩]),
   (false, []),
   (true, [⟨0, 0, none⟩, ⟨1, 1, none⟩, ⟨2, 0, none⟩, ⟨9, 2, none⟩])]

example : annotateSystem exampleSys [10, 11, 12, 13, 14]
    = .ok [(false, [⟨0, 0, none⟩, ⟨1, 1, some 3⟩]),
           (true, [⟨5, 1, some 11⟩, ⟨3, 0, some 10⟩, ⟨4, 1, some 11⟩]),
           (false, []),
           (true, [⟨0, 0, some 12⟩, ⟨1, 1, some 13⟩, ⟨2, 0, some 12⟩, ⟨9, 2, some 14⟩])] := by rfl

example : reconcile (selLengths exampleSys) [10, 11, 12, 13] = .error .valueerror := by rfl
example : annotateSystem exampleSys [10, 11, 12, 13] = .error .valueerror := by rfl
example : reconcile [2, 2, 2] [8, 9] = .ok [8, 9, 8, 9, 8, 9] := by rfl
example : [2, 2, 2] ≠ [] ∧ allEqual [2, 2, 2] = true ∧ [8, 9].length = [2, 2, 2].headD 0 := by decide
example : ¬ ([2, 3] ≠ [] ∧ allEqual [2, 3] = true ∧ [1, 2, 3, 4, 5].length = [2, 3].headD 0) := by decide
example : residues [⟨7, 2, none⟩, ⟨3, 1, none⟩, ⟨9, 1, none⟩, ⟨5, 3, none⟩, ⟨4, 2, none⟩] = [1, 2, 3] := by rfl

end C17
