import VermouthProofs.C17_Spec
import VermouthProps.C17Tables
/-!
# C17 — per-residue annotations land on the intended residues and translate correctly

Part 1 (this section): `convert_dssp_to_martini`.  `convertImpl` is the transcription of the code
(flank with dots, then for every entry of the extracted pattern table
`while pattern in s: s = s.replace(pattern, replacement)`, unflank, merge with the class string);
`convertSpec` is the documented rule (classes by the table, every maximal helix run of length `L`
becomes `specRun L`).  All statements are about the tables extracted from the repository
(`C17Tables.ssCg`, `C17Tables.patterns`).
-/
namespace C17
open C17Tables

/-- **The code computes the documented rule**, for every string (no bound on the length, any
characters; both sides are `none` exactly when a class is not in `SS_CG`). -/
theorem convertImpl_eq_spec (s : List Char) :
    convertImpl ssCg patterns s = convertSpec ssCg s := by
  rw [patterns_documented]
  exact convertImpl_doc_eq_spec _ _

/-- every `while pattern in s` loop of the code ends with the pattern gone: the fuel of the model
never runs out, whatever the string -/
theorem convert_loops_terminate : ∀ p ∈ patterns, ∀ w : List Char,
    occurs p.1 (whileReplace p.1 p.2 (w.length + 1) w) = false := by
  intro p hp w
  exact whileReplace_done p.1 p.2 (patterns_nonempty p hp) (patterns_decrease_H p hp) _ _
    (Nat.lt_succ_of_le (countH_le_length w))

/-- the conversion is defined exactly on strings over the keys of `SS_CG` (otherwise `KeyError`) -/
theorem convert_defined_iff (s : List Char) :
    (∃ r, convertImpl ssCg patterns s = some r) ↔ ∀ c ∈ s, ∃ g, lookup ssCg c = some g := by
  rw [convertImpl_eq_spec]
  unfold convertSpec
  constructor
  · rintro ⟨r, hr⟩ c hc
    cases hcg : s.mapM (lookup ssCg) with
    | none => rw [hcg] at hr; cases hr
    | some cg =>
      have hm := (mapM_eq_some_iff _ _ _).mp hcg
      have : lookup ssCg c ∈ s.map (lookup ssCg) := List.mem_map_of_mem hc
      rw [hm, List.mem_map] at this
      obtain ⟨g, _, hg⟩ := this
      exact ⟨g, hg.symm⟩
  · intro h
    have : s.mapM (lookup ssCg) = some (s.map fun c => (lookup ssCg c).getD 'C') := by
      rw [mapM_eq_some_iff, List.map_map]
      apply List.map_congr_left
      intro c hc
      obtain ⟨g, hg⟩ := h c hc
      simp [hg]
    rw [this]
    exact ⟨_, rfl⟩

/-- the conversion preserves the length -/
theorem convert_length (s r : List Char) (h : convertImpl ssCg patterns s = some r) :
    r.length = s.length := by
  rw [convertImpl_eq_spec] at h
  unfold convertSpec at h
  cases hcg : s.mapM (lookup ssCg) with
  | none => rw [hcg] at h; cases h
  | some cg =>
    rw [hcg] at h
    cases h
    have hm := congrArg List.length ((mapM_eq_some_iff _ _ _).mp hcg)
    simp only [List.length_map] at hm
    rw [rewriteRuns_length, hm]; simp

/-- every class that the table does not map to helix is translated by the table, at its own
position, whatever surrounds it -/
theorem convert_nonhelix_by_table (s r : List Char) (h : convertImpl ssCg patterns s = some r)
    (i : Nat) (c g : Char) (hc : s[i]? = some c) (hg : lookup ssCg c = some g) (hne : g ≠ 'H') :
    r[i]? = some g := by
  rw [convertImpl_eq_spec] at h
  unfold convertSpec at h
  cases hcg : s.mapM (lookup ssCg) with
  | none => rw [hcg] at h; cases h
  | some cg =>
    rw [hcg] at h
    cases h
    have hm := (mapM_eq_some_iff _ _ _).mp hcg
    have hi := congrArg (fun l => l[i]?) hm
    simp only [List.getElem?_map, hc, Option.map_some, hg] at hi
    have hcgi : cg[i]? = some g := by
      cases hx : cg[i]? with
      | none => rw [hx] at hi; simp at hi
      | some x => rw [hx] at hi; simp at hi; rw [hi]
    have := rewriteRuns_nonhelix cg 0 i g hcgi hne
    simpa using this

/-- **run rule**: a maximal run of `run.length` helical classes (any mixture of the classes the
table maps to helix), delimited on each side by the end of the string or by a non-helical class,
is rewritten to `specRun run.length` (`3…3` up to 4, `13332`, `113322`, `1113222`, then
`1111 H… 2222`), and the text before and after is converted independently of it. -/
theorem convert_run_rule (pre run post pre' post' : List Char)
    (hpre : convertImpl ssCg patterns pre = some pre') (hpost : convertImpl ssCg patterns post = some post')
    (hrun : ∀ c ∈ run, lookup ssCg c = some 'H')
    (hl : ∀ c, pre.getLast? = some c → lookup ssCg c ≠ some 'H')
    (hr : ∀ c, post.head? = some c → lookup ssCg c ≠ some 'H') :
    convertImpl ssCg patterns (pre ++ run ++ post) = some (pre' ++ specRun run.length ++ post') := by
  rw [convertImpl_eq_spec] at hpre hpost ⊢
  unfold convertSpec at hpre hpost ⊢
  cases h1 : pre.mapM (lookup ssCg) with
  | none => rw [h1] at hpre; cases hpre
  | some cgpre =>
    cases h2 : post.mapM (lookup ssCg) with
    | none => rw [h2] at hpost; cases hpost
    | some cgpost =>
      rw [h1] at hpre; rw [h2] at hpost
      cases hpre; cases hpost
      have m1 := (mapM_eq_some_iff _ _ _).mp h1
      have m2 := (mapM_eq_some_iff _ _ _).mp h2
      have mrun : run.map (lookup ssCg) = (hRun run.length).map some := by
        simp only [hRun, List.map_replicate]
        rw [List.eq_replicate_iff]
        constructor
        · simp
        · intro x hx
          rw [List.mem_map] at hx
          obtain ⟨c, hc, rfl⟩ := hx
          exact hrun c hc
      have mall : (pre ++ run ++ post).mapM (lookup ssCg) = some (cgpre ++ hRun run.length ++ cgpost) := by
        rw [mapM_eq_some_iff]
        simp only [List.map_append, m1, m2, mrun]
      rw [mall]
      simp only [Option.some.injEq]
      apply rewriteRuns_run
      · intro e
        have hlast := congrArg List.getLast? m1
        simp only [List.getLast?_map, e, Option.map_some] at hlast
        cases hp : pre.getLast? with
        | none => rw [hp] at hlast; simp at hlast
        | some c =>
          rw [hp] at hlast
          simp only [Option.map_some, Option.some.injEq] at hlast
          exact hl c hp hlast
      · intro e
        have hhead := congrArg List.head? m2
        simp only [List.head?_map, e, Option.map_some] at hhead
        cases hp : post.head? with
        | none => rw [hp] at hhead; simp at hhead
        | some c =>
          rw [hp] at hhead
          simp only [Option.map_some, Option.some.injEq] at hhead
          exact hr c hp hhead

/-! non-vacuity: the hypotheses of `convert_run_rule` are satisfiable and the statements say
something on concrete strings -/

example : convertImpl ssCg patterns ['C', 'H', 'G', 'I', 'H', 'H', 'H', 'H', 'H', 'H', 'E', 'H', 'T']
    = some ['C', '1', '1', '1', '1', 'H', '2', '2', '2', '2', 'E', '3', 'T'] := by
  rw [convertImpl_eq_spec]; decide

example : convertImpl ssCg patterns ['C', 'E'] = some ['C', 'E']
    ∧ convertImpl ssCg patterns ['T', 'H'] = some ['T', '3']
    ∧ (∀ c ∈ ['G', 'H', 'I', '1', '2'], lookup ssCg c = some 'H')
    ∧ (∀ c, ['C', 'E'].getLast? = some c → lookup ssCg c ≠ some 'H')
    ∧ (∀ c, ['T', 'H'].head? = some c → lookup ssCg c ≠ some 'H') := by
  rw [convertImpl_eq_spec, convertImpl_eq_spec]; decide

example : convertImpl ssCg patterns ['H', 'P'] = none := by
  rw [convertImpl_eq_spec]; decide

end C17
