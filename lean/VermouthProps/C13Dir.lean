import VermouthProofs.C13_DirProofs
import Generated.C13Tables
/-!
# C13 — loading a force field from a directory: top-level property theorems

Model: `VermouthModel/C13_Dir.lean` (`ForceField.__init__` / `read_from` / `_read_from_file` /
`iter_force_field_files`); proofs: `VermouthProofs/C13_DirProofs.lean`.

`listing` is the directory as the operating system enumerates it (the code does not sort), `parsers`
the table `FORCE_FIELD_PARSERS`; `readOrder` is the order in which the files are read;
`ffEntries` the entries read by `read_ff`; `linksOf` / `blockDecls` / `modDecls` / `varDecls` what one
file declares when read alone.  Hypotheses on the dispatch table: `TopOk`, `TabOk` (hold for the table
extracted from the repository: `ffTab_topOk`, `ffTab_ok`).
-/
namespace C13.Props
open C13 C13.Dir

/-- **Each file of the directory is read exactly once.**  With extensions none of which is a suffix of
another, an entry is read as often as it is listed if its name ends with an extension of the table and
does not start with '.', and never otherwise; per extension the files are read in enumeration order,
the extensions in table order (`readOrder` = concatenation of the filtered listings). -/
theorem dir_each_file_once (exts : List String) (hE : ExtsOk exts) (listing : List DirEntry) (e : DirEntry) :
    (readOrder exts listing).count e =
      (if exts.any (fun x => globStar x e.name) then listing.count e else 0) ∧
    readOrder exts listing = exts.flatMap (fun x => listing.filter fun d => globStar x d.name) :=
  ⟨count_readOrder exts hE listing e, rfl⟩

example : ExtsOk [".rtp", ".ff", ".bib"] := by unfold ExtsOk; decide
example : readOrder [".rtp", ".ff", ".bib"]
    [⟨"b.ff", false, []⟩, ⟨"x.bib", false, []⟩, ⟨".h.ff", false, []⟩, ⟨"a.ff", false, []⟩, ⟨"r.rtp", false, []⟩, ⟨"c.FF", false, []⟩]
    = [⟨"r.rtp", false, []⟩, ⟨"b.ff", false, []⟩, ⟨"a.ff", false, []⟩, ⟨"x.bib", false, []⟩] := by decide

/-- **The links of the force field are the concatenation, over the `.ff` files in reading order, of the
links each file declares** (each file loads alone, and its links are appended in file order). -/
theorem dir_links_concat (nt : List (String × Nat)) (tab : List Entry) (parsers : List (String × String))
    (hT : TopOk (tab.map (·.path))) (hTab : TabOk tab) (listing : List DirEntry) (ff : FF)
    (h : loadDir nt tab parsers listing = some ff) :
    (∀ e ∈ ffEntries parsers (readOrder (parsers.map (·.1)) listing), (readFF nt tab e.lines).isSome = true) ∧
    ff.links = (ffEntries parsers (readOrder (parsers.map (·.1)) listing)).flatMap (linksOf nt tab) := by
  obtain ⟨_, h2, h3, _⟩ := foldOpt_load nt tab parsers hT hTab _ {} ff h
  exact ⟨h2, by simpa using h3⟩

/-- **Blocks and modifications: the last declaration of a name over all files in reading order wins,
keys in order of first declaration.**  `blockDecls` of a file = one candidate per `[ moleculetype ]`
header in file order (`blockSpec`); the dictionary of the force field is the dictionary built from
the candidates of all files in reading order.  The two general facts about `dictOfList` say what that
means: the value of a key is its last declaration, the keys are in order of first declaration. -/
theorem dir_blocks_last_wins (nt : List (String × Nat)) (tab : List Entry) (parsers : List (String × String))
    (hT : TopOk (tab.map (·.path))) (hTab : TabOk tab) (listing : List DirEntry) (ff : FF)
    (h : loadDir nt tab parsers listing = some ff) :
    ff.blocks = dictOfList (((ffEntries parsers (readOrder (parsers.map (·.1)) listing)).flatMap
      (blockDecls nt tab)).map fun b => (b.2.name, b)) ∧
    ff.mods = dictOfList (((ffEntries parsers (readOrder (parsers.map (·.1)) listing)).flatMap
      (modDecls nt tab)).map fun b => (b.2.name, b)) := by
  obtain ⟨_, _, _, h4, h5, _⟩ := foldOpt_load nt tab parsers hT hTab _ {} ff h
  refine ⟨?_, ?_⟩
  · exact h4.trans (dictOfList_map_eq (ffParams nt tab) _).symm
  · exact h5.trans (dictOfList_map_eq (ffParams nt tab) _).symm

/-- what `dictOfList` means: the last declaration of a key wins, an undeclared key is absent, and the
keys are in order of first declaration -/
theorem dict_last_wins_first_order {K V : Type} [DecidableEq K] :
    (∀ (pre post : List (K × V)) (k : K) (v : V), (∀ e ∈ post, e.1 ≠ k) →
      dictGet (dictOfList (pre ++ (k, v) :: post)) k = some v) ∧
    (∀ (l : List (K × V)) (k : K), (∀ e ∈ l, e.1 ≠ k) → dictGet (dictOfList l) k = none) ∧
    (∀ l : List (K × V), (dictOfList l).map (·.1) = firstOccs (l.map (·.1))) :=
  ⟨dictOfList_last_wins, dictOfList_absent, dictOfList_keys⟩

example : dictOfList [("ALA", 1), ("GLY", 2), ("ALA", 3)] = [("ALA", 3), ("GLY", 2)] := by decide
example : firstOccs ["ALA", "GLY", "ALA", "LYS", "GLY"] = ["ALA", "GLY", "LYS"] := by decide

/-- **Variables are updated**: `force_field.variables` is the dictionary of all `[ variables ]` lines of
all files in reading order (a later line with the same key replaces the value). -/
theorem dir_variables_updated (nt : List (String × Nat)) (tab : List Entry) (parsers : List (String × String))
    (hT : TopOk (tab.map (·.path))) (hTab : TabOk tab) (listing : List DirEntry) (ff : FF)
    (h : loadDir nt tab parsers listing = some ff) :
    ff.vars = dictOfList ((ffEntries parsers (readOrder (parsers.map (·.1)) listing)).flatMap (varDecls tab)) := by
  obtain ⟨_, _, _, _, _, h6⟩ := foldOpt_load nt tab parsers hT hTab _ {} ff h
  exact h6

/-- **A malformed file rejects the directory**: if a file that is read is rejected by `read_ff` on its
own, or an entry that is read is a directory, loading the directory raises; and a directory that
loads contains files only. -/
theorem dir_rejects_bad_file (nt : List (String × Nat)) (tab : List Entry) (parsers : List (String × String))
    (listing : List DirEntry) :
    (∀ e ∈ readOrder (parsers.map (·.1)) listing,
      (e.isDir = true ∨ (usesReadFF parsers e = true ∧ readFF nt tab e.lines = none)) →
      loadDir nt tab parsers listing = none) ∧
    (∀ ff, TopOk (tab.map (·.path)) → TabOk tab → loadDir nt tab parsers listing = some ff →
      ∀ e ∈ readOrder (parsers.map (·.1)) listing, e.isDir = false) :=
  ⟨fun e he hbad => foldOpt_load_none nt tab parsers _ e he hbad {},
   fun ff hT hTab h => (foldOpt_load nt tab parsers hT hTab _ {} ff h).1⟩

/-- `ForceField(directory, name)`: the name is `name` when given, else the base name of the directory
path; without both a TypeError; the content is that of `read_from(directory)` -/
theorem dir_name (nt : List (String × Nat)) (tab : List Entry) (parsers : List (String × String))
    (path : String) (listing : List DirEntry) (name : Option String) :
    ffInit nt tab parsers (some (path, listing)) name =
      (loadDir nt tab parsers listing).map (fun ff => (name.getD (basename path), ff)) ∧
    ffInit nt tab parsers none name = name.map (fun n => (n, ({} : FF))) := by
  constructor
  · cases h : loadDir nt tab parsers listing <;> cases name <;> simp [ffInit, h]
  · cases name <;> simp [ffInit]

example : basename "/data/force_fields/martini3001" = "martini3001" := by decide
example : basename "/data/force_fields/martini3001/" = "" := by decide
example : splitExt "a.b.ff" = ".ff" ∧ splitExt ".ff" = "" ∧ splitExt "ff" = "" := by decide

/-- **Mapping directories** (`read_mapping_directory`): when the directory loads, every entry below it
(at any depth, hidden ones included) whose name ends with `.map` resp. `.mapping` is a file that its
reader accepts - a directory with such a name, or one rejected file, rejects the whole directory. The
files are those of `globRec` (pre-order over the tree, enumeration order inside a directory), all `.map`
files before all `.mapping` files. -/
theorem mapdir_all_files_read (readMap readMapping : List String → Option (List MKey)) (children : List Tree)
    (rows : List (MKey × (String × Nat))) (h : readMapDir readMap readMapping children = some rows) :
    (∀ pe ∈ globRec ".map" children, ∃ n lines keys, pe.2 = .file n lines ∧ readMap lines = some keys) ∧
    (∀ pe ∈ globRec ".mapping" children, ∃ n lines keys, pe.2 = .file n lines ∧ readMapping lines = some keys) := by
  unfold readMapDir at h
  cases h1 : foldOpt (mapStep readMap) [] (globRec ".map" children) with
  | none => rw [h1] at h; cases h
  | some d1 =>
    rw [h1] at h
    simp only at h
    cases h2 : foldOpt (mapStep readMapping) d1 (globRec ".mapping" children) with
    | none => rw [h2] at h; cases h
    | some d2 =>
      refine ⟨fun pe hpe => ?_, fun pe hpe => ?_⟩
      · obtain ⟨b1, b2, hb⟩ := foldOpt_all _ _ _ _ h1 pe hpe
        exact mapStep_some readMap b1 b2 pe hb
      · obtain ⟨b1, b2, hb⟩ := foldOpt_all _ _ _ _ h2 pe hpe
        exact mapStep_some readMapping b1 b2 pe hb

example : (globRec ".map" [.file "b.map" [], .dir "sub" [.file ".h.map" [], .file "x.mapping" []], .file "a.map" [],
    .file "A.MAP" []]).map (·.1) = ["b.map", "a.map", "sub/.h.map"] := by decide

end C13.Props

namespace C13.Tables
open C13 C13.Dir

/-- the extensions of the extracted `FORCE_FIELD_PARSERS` satisfy the hypothesis of
`dir_each_file_once`, `read_ff` is the parser of `.ff`, and every extension is its own
`os.path.splitext` (so `_read_from_file` finds the parser of the pattern that selected the file) -/
theorem dir_parser_table_ok :
    ExtsOk (C13.Gen.ffDirParsers.map (·.1)) ∧
    C13.Gen.ffDirParsers.find? (fun p => p.1 = ".ff") = some (".ff", "read_ff") ∧
    (C13.Gen.ffDirParsers.all fun p => splitExt ("x" ++ p.1) == p.1) = true := by
  refine ⟨?_, ?_, ?_⟩
  · unfold ExtsOk; decide +kernel
  · decide +kernel
  · decide +kernel

end C13.Tables
