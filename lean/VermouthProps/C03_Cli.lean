import VermouthProofs.C03_Cli
import VermouthProps.C03_Hist
/-!
# C03 — the order of martinize2's steps: molecule types are valid at write time

Model: `VermouthModel/C03_Cli.lean`.  `ApplyRubberBand` builds the elastic network of every
molecule from ITS coordinates, which the comparison of molecule types does not see; since commit
834f70d `NameMolType` runs again after it.  `cli_types_valid_at_write`: whatever the processors
before the last naming do (rubber bands, `MergeAllMolecules`), at write time every molecule shares
(`share_moltype_with`, on the FINAL topologies) with the molecule whose ITP is written for its
type - provided the processors AFTER the last naming (virtual sites of the water bias, resid
restoration, `SortMoleculeAtoms`) respect the comparison (`Compatible`; for the sort this is
`ChainUniform`, finding F-C03-6 outside).  `cli_old_order_invalid`: the order before 834f70d on a
homodimer with two conformations (finding F-C03-9, fixed).
-/
namespace C03

/-- molecules of a type share with the molecule whose ITP is written for the type (the first one) -/
def Valid (shares : Mol → Mol → Bool) (mols : List Mol) (ids : List Nat) : Prop :=
  mols.length = ids.length ∧
  ∀ (p : Nat) (m : Mol) (g : Nat), mols[p]? = some m → ids[p]? = some g →
    ∃ r, mols[ids.idxOf g]? = some r ∧ shares m r = true

/-- an editing processor that cannot separate molecules of one type -/
def Compatible (shares : Mol → Mol → Bool) (f : Nat → Mol → Mol) : Prop :=
  ∀ (i j : Nat) (a b : Mol), shares a b = true → shares (f i a) (f j b) = true

/-- **naming makes the types valid** -/
theorem valid_name (shares : Mol → Mol → Bool) (hrefl : ∀ m, shares m m = true) (d : Bool) (mols : List Mol) :
    Valid shares mols (nameMolTypes shares d mols) := by
  refine ⟨(names_length shares d mols).symm, ?_⟩
  intro p m g hm hg
  obtain ⟨r, hr, h⟩ := shared_name_share shares d mols (fun m0 _ => hrefl m0) p m g hm hg
  refine ⟨r, hr, ?_⟩
  rcases h with rfl | ⟨_, hs⟩
  · exact hrefl _
  · exact hs

/-- **a compatible edit keeps them valid** -/
theorem valid_edit (shares : Mol → Mol → Bool) (f : Nat → Mol → Mol) (hf : Compatible shares f)
    (mols : List Mol) (ids : List Nat) (h : Valid shares mols ids) : Valid shares (editMols f 0 mols) ids := by
  refine ⟨by rw [editMols_length]; exact h.1, ?_⟩
  intro p m g hm hg
  rw [editMols_get] at hm
  cases hmp : mols[p]? with
  | none => rw [hmp] at hm; cases hm
  | some m0 =>
    rw [hmp] at hm
    simp only [Option.map_some, Option.some.injEq] at hm
    obtain ⟨r, hr, hs⟩ := h.2 p m0 g hmp hg
    refine ⟨f (0 + ids.idxOf g) r, by rw [editMols_get, hr]; rfl, ?_⟩
    rw [← hm]
    exact hf _ _ _ _ hs

theorem valid_edits (shares : Mol → Mol → Bool) : ∀ (post : List (Nat → Mol → Mol)),
    (∀ f ∈ post, Compatible shares f) → ∀ (mols : List Mol) (ids : List Nat), Valid shares mols ids →
    ∃ mols', runSteps shares (mols.zip (ids.map some)) (post.map Step.edit) = mols'.zip (ids.map some) ∧
      Valid shares mols' ids
  | [], _, mols, ids, h => ⟨mols, rfl, h⟩
  | f :: rest, hp, mols, ids, h => by
      have h1 := valid_edit shares f (hp f (by simp)) mols ids h
      obtain ⟨mols', e, hv⟩ := valid_edits shares rest (fun g hg => hp g (by simp [hg])) _ ids h1
      refine ⟨mols', ?_, hv⟩
      simp only [List.map_cons, runSteps, List.foldl_cons, stepRun]
      rw [editAll_zip]
      exact e

/-- after a naming followed by compatible edits the types are valid, whatever the state was -/
theorem types_valid_after_last_naming (shares : Mol → Mol → Bool) (hrefl : ∀ m, shares m m = true)
    (st : CliState) (d : Bool) (post : List (Nat → Mol → Mol)) (hpost : ∀ f ∈ post, Compatible shares f) :
    ∃ mols ids, runSteps shares st (Step.name d :: post.map Step.edit) = mols.zip (ids.map some) ∧
      Valid shares mols ids := by
  obtain ⟨mols', e, hv⟩ := valid_edits shares post hpost (st.map (·.1)) (nameMolTypes shares d (st.map (·.1)))
    (valid_name shares hrefl d _)
  exact ⟨mols', _, by simpa [runSteps, stepRun] using e, hv⟩

/-- **molecule types are valid at write time (martinize2 since 834f70d).**  For every choice of
switches and ANY rubber-band / merge processors: at the writers, the molecules are `mols`, their
names `ids`, and every molecule shares (on the final topologies) with the first molecule of its
name - the one whose ITP `write_gmx_topology` writes - as long as the processors after the last
naming are `Compatible`. -/
theorem cli_types_valid_at_write (shares : Mol → Mol → Bool) (hrefl : ∀ m, shares m m = true)
    (o : CliOrder) (e : CliEdits) (sys : List Mol)
    (hpost : ∀ f ∈ postEdits o e, Compatible shares f) :
    ∃ mols ids, runSteps shares (initState sys) (cliSteps o e) = mols.zip (ids.map some) ∧
      Valid shares mols ids := by
  unfold cliSteps
  rw [List.append_assoc, runSteps_append]
  exact types_valid_after_last_naming shares hrefl _ _ _ hpost

/-- valid types give the k-th record property for every writer that does not distinguish sharing
molecules (link to `kth_record_agree_of_sound`) -/
theorem valid_sound {β} (shares : Mol → Mol → Bool) (W : Mol → List β)
    (hw : ∀ a b, shares a b = true → W a = W b) (mols : List Mol) (ids : List Nat) (h : Valid shares mols ids) :
    Sound W ids mols := by
  intro p q n mp mq hp hq hmp hmq
  obtain ⟨r, hr, h1⟩ := h.2 p mp n hmp hp
  obtain ⟨r', hr', h2⟩ := h.2 q mq n hmq hq
  rw [hr] at hr'; cases hr'
  rw [hw _ _ h1, hw _ _ h2]

/-! ## the old order, and non-vacuity -/

section examples

private def eAtom (k : Int) (name : String) : Atom :=
  { key := k, attrs := [("atomname", Val.str name), ("resid", Val.int 1), ("resname", Val.str "ALA")] }
/-- one chain of a homodimer -/
private def chain0 : Mol :=
  { nrexcl := some 1, ff := none, metadata := [], edges := [(0, 1)], inters := [("bonds", [⟨[0, 1], "1 0.35 1250"⟩])],
    nodes := [eAtom 0 "BB", eAtom 1 "SC1"] }
/-- the rubber bands of the two conformations: the second chain gets another bond length -/
private def rubber2 : Nat → Mol → Mol := fun i m =>
  { m with inters := m.inters ++ [("rubber", [⟨[0, 1], if i = 0 then "6 0.50 700" else "6 0.62 700"⟩])] }
private def edits2 : CliEdits := ⟨rubber2, fun _ m => m, fun _ m => m, fun _ m => m, fun l => l.headD default⟩
private def elasticOrder : CliOrder := ⟨false, true, false, false, false, false⟩

/-- **the order before 834f70d is invalid** (finding F-C03-9): both chains keep the name given before
the rubber bands, but their final topologies do not share a type - chain A's network is written
for both -/
theorem cli_old_order_invalid :
    (runSteps (shareMolType npClose) (initState [chain0, chain0]) (cliStepsOld elasticOrder edits2)).map (·.2)
      = [some 0, some 0]
    ∧ shareMolType npClose (rubber2 1 chain0) (rubber2 0 chain0) = false := by
  decide

/-- the order since 834f70d names them apart -/
example : (runSteps (shareMolType npClose) (initState [chain0, chain0]) (cliSteps elasticOrder edits2)).map (·.2)
    = [some 0, some 1] := by decide

/-- the identity edits are compatible: the hypothesis of `cli_types_valid_at_write` is satisfiable -/
example : ∀ f ∈ postEdits elasticOrder edits2, Compatible (shareMolType npClose) f := by
  intro f hf
  simp only [postEdits, elasticOrder, edits2, Bool.false_eq_true, if_false, List.nil_append, List.mem_singleton] at hf
  subst hf
  intro i j a b h; exact h

end examples

end C03
