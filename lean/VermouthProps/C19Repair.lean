import VermouthProofs.C19_Repair
/-!
# C19, last clause — "after repair the marked residue has the atoms of the requested block or
modification, with surplus atoms of the old residue removed"

Theorems about `C19.Repair.getReference` (model of `_get_reference_residue` / `_patch_modification`)
composed with the C04 model of `repair_residue` / `repair_graph` given a match
(`C04.repairResidue`).  The matcher (ISMAGS) is not transcribed: statements hold for every match
satisfying the decidable `C04.WF` (what every answer of the specified matcher satisfies,
`C04.wf_of_mcis`).  Vocabulary: `targetName` the block name used (mutation target, else the
residue's own name), `addedNames ff ms` the atoms the requested modifications other than `none`
add, `requested a` = the atom carries a non-empty `mutation` or `modification` attribute (what
`AnnotateMutMod` wrote, `C19.marks_exact`), `nameOf b r` the name of reference atom `r`.
-/
namespace C19.Repair
open C04

/-- **Atoms of the reference** = atoms of the block of the requested name, followed by the atoms
each requested modification (other than `none`) adds, in request order; block atoms keep their
`PTM_atom` value, added atoms are flagged. -/
theorem reference_atoms (ff : FF) (rn : String) (mu mods : Option (List String)) (ref : Block)
    (h : getReference ff rn mu mods = .ok ref) :
    ∃ name b0, targetName rn mu = .ok name ∧ ff.blocks.lookup name = some b0 ∧
      ref.nodes.map (·.name) = b0.nodes.map (·.name) ++ addedNames ff (dedupReq (mods.getD [])) ∧
      ref.nodes.map (·.ptm) = b0.nodes.map (·.ptm)
        ++ List.replicate (addedNames ff (dedupReq (mods.getD []))).length (some true) := by
  obtain ⟨name, b0, added, h1, h2, h3, h4, h5⟩ := getReference_spec true ff rn mu mods ref h
  refine ⟨name, b0, h1, h2, ?_, ?_⟩
  · have := congrArg (List.map Prod.fst) h3
    simp only [List.map_map, List.map_append] at this
    rw [← h5]
    have e : (Prod.fst ∘ shape) = fun a : Atom => a.name := by funext a; rfl
    rw [e] at this; exact this
  · have := congrArg (List.map Prod.snd) h3
    simp only [List.map_map, List.map_append] at this
    have hrep : added.map (·.ptm) = List.replicate (addedNames ff (dedupReq (mods.getD []))).length (some true) := by
      rw [← h5, List.length_map]
      clear h3 h5 this
      induction added with
      | nil => rfl
      | cons a t ih =>
        simp only [List.map_cons, List.length_cons, List.replicate_succ]
        rw [h4 a (by simp), ih (fun x hx => h4 x (by simp [hx]))]
    rw [← hrep]
    have e : (Prod.snd ∘ shape) = fun a : Atom => a.ptm := by funext a; rfl
    rw [e] at this; exact this

/-- the block that is used: the mutation target if one was requested (all requests for the residue
must agree), else the residue's own name -/
theorem target_of_mutation (rn t : String) (rest : List String) (h : ∀ x ∈ rest, x = t) :
    targetName rn (some (t :: rest)) = .ok t ∧ targetName rn none = .ok rn := by
  constructor
  · simp only [targetName]
    rw [if_pos]
    rw [List.all_eq_true]; intro x hx; simpa using h x hx
  · rfl

/-- two different mutation targets for one residue are refused -/
theorem mutate_twice_refused (ff : FF) (rn t u : String) (rest : List String) (mods : Option (List String))
    (h : u ≠ t) : getReference ff rn (some (t :: u :: rest)) mods = .error .mutateTwice := by
  unfold getReference getReferenceGen
  have : targetName rn (some (t :: u :: rest)) = .error .mutateTwice := by
    simp only [targetName]
    rw [if_neg]
    simp [h]
  rw [this]

/-- **Equal targets are one request**: several mutation requests that hit the same residue and
name the same block (`-mutate A-PHE2:ALA -mutate PHE:ALA`) build exactly the reference a single
request builds — in particular they are not refused. -/
theorem mutate_twice_same_target_ok (ff : FF) (rn t : String) (rest : List String) (mods : Option (List String))
    (h : ∀ x ∈ rest, x = t) :
    getReference ff rn (some (t :: rest)) mods = getReference ff rn (some [t]) mods ∧
    getReference ff rn (some (t :: rest)) mods ≠ .error .mutateTwice := by
  have h1 : targetName rn (some (t :: rest)) = .ok t := (target_of_mutation rn t rest h).1
  have h2 : targetName rn (some [t]) = .ok t := (target_of_mutation rn t [] (by simp)).1
  have heq : getReference ff rn (some (t :: rest)) mods = getReference ff rn (some [t]) mods := by
    unfold getReference getReferenceGen
    rw [h1, h2]
  refine ⟨heq, ?_⟩
  rw [heq]
  unfold getReference getReferenceGen
  rw [h2]
  simp only
  cases ff.blocks.lookup t with
  | none => simp
  | some b0 =>
    simp only
    cases hm : applyMods ff (dedupReq (mods.getD [])) b0 with
    | ok b1 => simp
    | error e =>
      simp only
      intro hc
      cases hc
      -- applyMods never answers `mutateTwice`
      have : ∀ (ms : List String) (b : Block), applyMods ff ms b ≠ .error .mutateTwice := by
        intro ms
        induction ms with
        | nil => intro b; simp [applyMods]
        | cons n r ih =>
          intro b
          unfold applyMods
          split
          · exact ih b
          · split
            · simp
            · split
              · simp
              · exact ih _
      exact this _ _ hm

/-- non-vacuity: two equal requests on the toy force field below give the reference of one -/
example : (match getReference { blocks := [("GLY", { nodes := [], edges := [(0, 1)] })], mods := [] } "ALA"
                   (some ["GLY", "GLY"]) none with
           | .ok b => b.edges
           | .error _ => []) = [(0, 1)] := by decide

/-- **Surplus removed, missing rebuilt.**  For a residue whose atoms carry a request, a connected
reference and a non-empty well-formed match: after the repair (1) every reference atom is played
by an atom of the molecule that carries its name, (2) every atom of the residue that is still
there plays a reference atom (and carries its name), (3) every atom of the residue that the match
left out is gone. -/
theorem surplus_removed (m : Mol) (R : Residue) (h : WF m R) (hc : connectedB R.block = true)
    (hne : R.mtch ≠ []) (hmark : ∀ a ∈ m.nodes, a.key ∈ R.found → requested a = true) :
    (∀ r ∈ R.block.keys, ∃ a ∈ (repairResidue m R).mol.nodes,
        (r, a.key) ∈ (repairResidue m R).mtch ∧ a.name = nameOf R.block r) ∧
    (∀ a ∈ (repairResidue m R).mol.nodes, a.key ∈ R.found →
        ∃ r ∈ R.block.keys, (r, a.key) ∈ (repairResidue m R).mtch ∧ a.name = nameOf R.block r) ∧
    (∀ k ∈ R.found, k ∉ ran R.mtch → k ∉ (repairResidue m R).mol.keys) := by
  have hdel : ∀ k ∈ R.found, k ∉ ran R.mtch → k ∉ (repairResidue m R).mol.keys := by
    intro k hk hn
    obtain ⟨a0, ha0, hka⟩ := List.mem_map.1 (h.2.2.2.2.2.2 k hk)
    subst hka
    exact extra_deleted m R h a0 ha0 hk hn (hmark a0 ha0 hk)
  obtain ⟨_, hcover, _⟩ := rebuild_complete m R h hc hne
  refine ⟨?_, ?_, hdel⟩
  · intro r hr
    obtain ⟨k, hk, _⟩ := hcover r hr
    obtain ⟨a, ha, hka, hn, _⟩ := canonical_names m R h (r, k) hk
    exact ⟨a, ha, by rw [hka]; exact hk, hn⟩
  · intro a ha hf
    have hran : a.key ∈ ran R.mtch := by
      apply Classical.byContradiction
      intro hn
      exact hdel a.key hf hn (List.mem_map.2 ⟨a, ha, rfl⟩)
    obtain ⟨p, hp, hp2⟩ := List.mem_map.1 hran
    obtain ⟨⟨ext, hext, _⟩, _⟩ := rebuild_conservative m R h
    have hp' : p ∈ (repairResidue m R).mtch := by rw [hext]; exact List.mem_append_left _ hp
    obtain ⟨a', ha', hka', hn', _⟩ := canonical_names m R h p hp'
    have : a' = a := inj_of_nodup_map (out_keys_nodup m R h) ha' ha (by rw [hka', hp2])
    subst this
    refine ⟨p.1, h.2.2.2.2.1 p.1 (mem_dom_of_mem hp), ?_, hn'⟩
    rw [← hp2]; exact hp'

/-- **An unmarked residue keeps its extra atoms**, flagged `PTM_atom` and otherwise untouched. -/
theorem unmarked_keeps_extra (m : Mol) (R : Residue) (h : WF m R)
    (hun : ∀ a ∈ m.nodes, a.key ∈ R.found → requested a = false) :
    ∀ a0 ∈ m.nodes, a0.key ∈ R.found → a0.key ∉ ran R.mtch →
      ∃ a ∈ (repairResidue m R).mol.nodes, a.key = a0.key ∧ a.ptm = some true ∧ a.name = a0.name ∧ a.attrs = a0.attrs :=
  fun a0 ha0 hf hn => extra_kept m R h a0 ha0 hf hn (hun a0 ha0 hf)

/-- **A mutation renames every atom** (finding F-C19-2, fixed): when the reference comes from a
mutation request for `t`, every atom that plays a reference atom after the repair — matched or
rebuilt, block atom or atom of a modification — carries `resname = 't'`. -/
theorem mutation_renames_all (ff : FF) (rn t : String) (rest : List String) (mods : Option (List String))
    (ref : Block) (href : getReference ff rn (some (t :: rest)) mods = .ok ref)
    (m : Mol) (found : List Int) (M : Iso.Map) (common : Attrs) (h : WF m (residueOf ref found M common)) :
    ∀ p ∈ (repairResidue m (residueOf ref found M common)).mtch,
      ∃ a ∈ (repairResidue m (residueOf ref found M common)).mol.nodes,
        a.key = p.2 ∧ a.attrs.lookup "resname" = some (pyStr t) :=
  attr_reaches_all m _ h "resname" (pyStr t) (by decide) (by decide) (getReference_resname ff rn t rest mods ref href)

/-- … hence, with the surplus gone, the whole residue has one name: every atom of the residue
that is in the molecule after the repair carries the new residue name. -/
theorem mutated_residue_one_name (ff : FF) (rn t : String) (rest : List String) (mods : Option (List String))
    (ref : Block) (href : getReference ff rn (some (t :: rest)) mods = .ok ref)
    (m : Mol) (found : List Int) (M : Iso.Map) (common : Attrs) (h : WF m (residueOf ref found M common))
    (hc : connectedB ref = true) (hne : M ≠ [])
    (hmark : ∀ a ∈ m.nodes, a.key ∈ found → requested a = true) :
    ∀ a ∈ (repairResidue m (residueOf ref found M common)).mol.nodes, a.key ∈ found →
      a.attrs.lookup "resname" = some (pyStr t) := by
  intro a ha hf
  obtain ⟨_, h2, _⟩ := surplus_removed m (residueOf ref found M common) h hc hne hmark
  obtain ⟨r, _, hp, _⟩ := h2 a ha hf
  obtain ⟨a', ha', hk, hl⟩ := mutation_renames_all ff rn t rest mods ref href m found M common h (r, a.key) hp
  have : a' = a := inj_of_nodup_map (out_keys_nodup m _ h) ha' ha hk
  rw [← this]; exact hl

/-! ## a worked example (non-vacuity of every hypothesis; the old behaviour as a witness) -/

def at_ (k : Int) (n : String) (e : Int) (rn : Option String) (p : Option Bool) : Atom :=
  { key := k, name := n, elem := e, attrs := match rn with | some r => [("resname", pyStr r)] | none => [], ptm := p }

/-- toy force field: ALA' = N–CA(–CB)–C, GLY' = N–CA–C, modification N-ter' adds HN2 on the anchor N -/
def ffEx : FF :=
  { blocks := [("ALA", { nodes := [at_ 0 "N" 7 (some "ALA") none, at_ 1 "CA" 6 (some "ALA") none,
                                     at_ 2 "CB" 6 (some "ALA") none, at_ 3 "C" 6 (some "ALA") none],
                          edges := [(0, 1), (1, 2), (1, 3)] }),
               ("GLY", { nodes := [at_ 0 "N" 7 (some "GLY") none, at_ 1 "CA" 6 (some "GLY") none,
                                     at_ 2 "C" 6 (some "GLY") none],
                          edges := [(0, 1), (1, 2)] })],
    mods := [("N-ter", { nodes := [at_ 0 "N" 7 none (some false), at_ 1 "HN2" 72 none (some true)],
                          edges := [(0, 1)] })] }

/-- an ALA residue with an extra hydrogen on N, every atom marked `mutation = ['GLY']`,
`modification = ['N-ter']` -/
def molEx : Mol :=
  { nodes := [10, 11, 12, 13, 14].zip ["N", "CA", "CB", "C", "H1"] |>.zip [7, 6, 6, 6, 72] |>.map fun p =>
      { key := p.1.1, name := p.1.2, elem := p.2,
        attrs := [("resname", "'ALA'"), ("mutation", "['GLY']"), ("modification", "['N-ter']")], ptm := none },
    edges := [(10, 11), (11, 12), (11, 13), (10, 14)] }

def refEx : Block := match getReference ffEx "ALA" (some ["GLY"]) (some ["N-ter"]) with | .ok b => b | .error _ => default
def refOld : Block := match getReferenceGen false ffEx "ALA" (some ["GLY"]) (some ["N-ter"]) with | .ok b => b | .error _ => default
/-- the match a maximum-common-subgraph search gives: N, CA, C, and the extra hydrogen as HN2 -/
def matchEx : Iso.Map := [(0, 10), (1, 11), (2, 13), (3, 14)]

example : refEx.nodes.map (·.name) = ["N", "CA", "C", "HN2"] ∧ refEx.edges = [(0, 1), (1, 2), (0, 3)] := by decide
example : WF molEx (residueOf refEx [10, 11, 12, 13, 14] matchEx []) ∧ connectedB refEx = true := by decide
example : ∀ a ∈ molEx.nodes, requested a = true := by decide
/-- CB (key 12) is gone, everything left is called GLY -/
example : ((repairResidue molEx (residueOf refEx [10, 11, 12, 13, 14] matchEx [])).mol.nodes.map
      fun a => (a.key, a.name, a.attrs.lookup "resname"))
    = [(10, "N", some "'GLY'"), (11, "CA", some "'GLY'"), (13, "C", some "'GLY'"), (14, "HN2", some "'GLY'")] := by
  decide
/-- **witness of the behaviour before the fix** (`getReferenceGen false`): the pre-existing atom
that plays the modification's HN2 keeps the residue name ALA — the residue is split in two -/
theorem old_behaviour_splits_residue :
    ((repairResidue molEx (residueOf refOld [10, 11, 12, 13, 14] matchEx [])).mol.nodes.map
      fun a => (a.key, a.name, a.attrs.lookup "resname"))
    = [(10, "N", some "'GLY'"), (11, "CA", some "'GLY'"), (13, "C", some "'GLY'"), (14, "HN2", some "'ALA'")] := by
  decide
/-- the same residue without requests keeps CB, flagged -/
example :
    let m : Mol := { molEx with nodes := molEx.nodes.map fun a => { a with attrs := [("resname", "'ALA'")] } }
    let glyRef : Block := match getReference ffEx "GLY" none none with | .ok b => b | .error _ => default
    ((repairResidue m (residueOf glyRef [10, 11, 12, 13] [(0, 10), (1, 11), (2, 13)] [])).mol.nodes.map
      fun a => (a.key, a.name, a.ptm)) = [(10, "N", none), (11, "CA", none), (12, "CB", some true), (13, "C", none), (14, "H1", none)] := by
  decide

end C19.Repair
