import VermouthProofs.Iso
import VermouthModel.C06
/-!
# C06 — subgraph matching is sound, complete and symmetry-reduced

This file: the shared **reference** `Iso` (DESIGN 4.1, 5.6), with which the real code is compared
by `harness/c06.py`.  (The transcription of the ISMAGS search core and the theorems about it are in
`C06_Ismags.lean`, `C06_IsmagsLcs.lean`, `C06_IsmagsSym.lean`.)  The theorems
below make the reference comparison trustworthy for every pair of graphs, of any size and numbering:

* the reference enumerator returns exactly the induced subgraph isomorphisms, each once
  (`allIsos_sound`, `allIsos_complete`, `allIsos_nodup`, also for a node predicate: `allIsosP_*`);
* the checker used for the symmetry-reduced mode accepts exactly the outputs the statement
  allows (`oneRepPerClass_iff`), the relation it uses is an equivalence (`autEquiv_equivalence`),
  hence an accepted output has exactly one representative of every class (`oneRepPerClass_exactly_one`);
* the reference for the largest-common-subgraph search returns only common induced subgraphs of
  the maximum size, and all of them (`allMCIS_sound`, `allMCIS_max`, `allMCIS_complete`,
  `allMCIS_ne_nil`), and the checker for its symmetry-reduced mode is `coversUpToAut_iff`.

Hypotheses are only `Graph.keys _ |>.Nodup` (node keys are distinct: true of every networkx
graph); graphs are simple.
-/
namespace C06
open Iso

/-- the map listing `f` along the pattern nodes -/
def mapOf (S : List Int) (f : Int → Int) : Map := S.map fun u => (u, f u)

/-! ### reading of the graph encoding -/

/-- `ecol` is defined (= the two nodes are adjacent) exactly when the edge list has an entry joining
them in either direction, it is symmetric, and `ncol` is defined exactly on the node keys. -/
theorem graph_reading (g : Graph) (u v : Int) :
    ((g.ecol u v).isSome = true ↔ ∃ e ∈ g.edges, (e.1 = u ∧ e.2.1 = v) ∨ (e.1 = v ∧ e.2.1 = u))
    ∧ g.ecol u v = g.ecol v u
    ∧ ((g.ncol u).isSome = true ↔ u ∈ g.keys) :=
  ⟨ecol_isSome_iff g u v, ecol_comm g u v, ncol_isSome_iff g u⟩

/-! ### symmetry off: sound, complete, exactly once -/

/-- Every mapping of the reference is a genuine induced subgraph isomorphism that respects node
and edge colours, and it maps exactly the pattern nodes. -/
theorem allIsos_sound (g sg : Graph) (hs : sg.keys.Nodup) (m : Map) (h : m ∈ allIsos g sg) :
    m.map Prod.fst = sg.keys ∧ IsIndIso g sg (Map.toFun m) :=
  allIsosP_sound g sg _ hs m h

/-- Every induced subgraph isomorphism is found. -/
theorem allIsos_complete (g sg : Graph) (hs : sg.keys.Nodup) (f : Int → Int) (h : IsIndIso g sg f) :
    mapOf sg.keys f ∈ allIsos g sg :=
  allIsosP_complete g sg _ hs f h

/-- ... exactly once. -/
theorem allIsos_nodup (g sg : Graph) (hg : g.keys.Nodup) : (allIsos g sg).Nodup :=
  allIsosP_nodup g sg _ hg

/-- membership ⟺ specification, in one statement -/
theorem mem_allIsos_iff (g sg : Graph) (hs : sg.keys.Nodup) (m : Map) :
    m ∈ allIsos g sg ↔ m.map Prod.fst = sg.keys ∧ IsIndIso g sg (Map.toFun m) :=
  mem_allIsosP_iff g sg _ hs m

/-- The same three facts for an arbitrary node predicate instead of colours (the form reused for
link / mapping / modification matching). -/
theorem allIsosP_spec (g sg : Graph) (pred : NodePred) (hs : sg.keys.Nodup) (hg : g.keys.Nodup) :
    (∀ m, m ∈ allIsosP g sg pred ↔ m.map Prod.fst = sg.keys ∧ IsIndIsoP g sg pred (Map.toFun m))
    ∧ (∀ f, IsIndIsoP g sg pred f → mapOf sg.keys f ∈ allIsosP g sg pred)
    ∧ (allIsosP g sg pred).Nodup :=
  ⟨mem_allIsosP_iff g sg pred hs, allIsosP_complete g sg pred hs, allIsosP_nodup g sg pred hg⟩

/-! ### symmetry on: exactly one representative per class -/

/-- The checker returns `true` exactly for the outputs the statement allows. -/
theorem oneRepPerClass_iff (sg : Graph) (out full : List Map) :
    oneRepPerClass sg out full = true ↔
      (∀ m ∈ out, m ∈ full) ∧ out.Nodup
      ∧ out.Pairwise (fun m m' => ¬ AutEquiv sg m m' ∧ ¬ AutEquiv sg m' m)
      ∧ (∀ f ∈ full, ∃ m ∈ out, AutEquiv sg m f) :=
  Iso.oneRepPerClass_iff sg out full

/-- "Differ only by a symmetry of the pattern" is an equivalence relation. -/
theorem autEquiv_equivalence (sg : Graph) (hs : sg.keys.Nodup) :
    (∀ m, (m.map Prod.fst).Sublist sg.keys → AutEquiv sg m m)
    ∧ (∀ m m', (m.map Prod.fst).Sublist sg.keys → AutEquiv sg m m' → AutEquiv sg m' m)
    ∧ (∀ m m' m'', AutEquiv sg m m' → AutEquiv sg m' m'' → AutEquiv sg m m'') :=
  Iso.autEquiv_equivalence sg hs

/-- An output accepted by the checker against the reference answer contains, for every induced
subgraph isomorphism `f`, exactly one member that differs from `f` only by a symmetry of the
pattern — and nothing that is not an isomorphism. -/
theorem oneRepPerClass_exactly_one (g sg : Graph) (hs : sg.keys.Nodup) (out : List Map)
    (h : oneRepPerClass sg out (allIsos g sg) = true) :
    (∀ m ∈ out, m.map Prod.fst = sg.keys ∧ IsIndIso g sg (Map.toFun m))
    ∧ ∀ f, IsIndIso g sg f →
        ∃ m ∈ out, AutEquiv sg m (mapOf sg.keys f)
          ∧ ∀ m' ∈ out, AutEquiv sg m' (mapOf sg.keys f) → m' = m := by
  obtain ⟨hsub, _, hpw, hcov⟩ := (oneRepPerClass_iff sg out _).1 h
  obtain ⟨_, hsymm, htrans⟩ := autEquiv_equivalence sg hs
  refine ⟨fun m hm => allIsos_sound g sg hs m (hsub m hm), ?_⟩
  intro f hf
  obtain ⟨m, hm, hmf⟩ := hcov _ (allIsos_complete g sg hs f hf)
  refine ⟨m, hm, hmf, ?_⟩
  intro m' hm' hm'f
  apply Classical.byContradiction
  intro hne
  have hdom : (m'.map Prod.fst).Sublist sg.keys := by
    rw [(allIsos_sound g sg hs m' (hsub m' hm')).1]; exact List.Sublist.refl _
  have hdom2 : (m.map Prod.fst).Sublist sg.keys := by
    rw [(allIsos_sound g sg hs m (hsub m hm)).1]; exact List.Sublist.refl _
  have h1 : AutEquiv sg m m' := htrans _ _ _ hmf (hsymm _ _ hdom hm'f)
  rcases pairwise_or hpw hm hm' (fun e => hne e.symm) with hr | hr
  · exact hr.1 h1
  · exact hr.2 h1

/-- The checker is satisfiable for every pair of graphs: the greedy list of class representatives
of the reference answer is accepted (so the number of classes reported by the driver is the
length of an accepted output). -/
theorem classReps_accepted (g sg : Graph) (hs : sg.keys.Nodup) :
    oneRepPerClass sg (classReps sg (allIsos g sg)) (allIsos g sg) = true := by
  apply Iso.classReps_accepted sg hs
  intro f hf
  rw [(allIsos_sound g sg hs f hf).1]
  exact List.Sublist.refl _

/-! ### largest common induced subgraph -/

/-- Every answer is a common induced subgraph (an induced isomorphism of the pattern restricted
to a sublist of its nodes) and has the announced size. -/
theorem allMCIS_sound (g sg : Graph) (hs : sg.keys.Nodup) (m : Map) (h : m ∈ allMCIS g sg) :
    (m.map Prod.fst).Sublist sg.keys
    ∧ IsIndIsoOn g sg (colourPred g sg) (m.map Prod.fst) (Map.toFun m)
    ∧ m.length = mcisSize g sg := by
  obtain ⟨⟨h1, h2⟩, h3⟩ := allMCISP_sound _ m h
  exact ⟨h1, isMatch_toFun (h1.nodup hs) h2, h3⟩

/-- No common induced subgraph is larger than the announced size. -/
theorem allMCIS_max (g sg : Graph) (hs : sg.keys.Nodup) (S : List Int) (f : Int → Int)
    (hS : S.Sublist sg.keys) (h : IsIndIsoOn g sg (colourPred g sg) S f) :
    S.length ≤ mcisSize g sg := by
  have hm := isMatch_of_indIso (hS.nodup hs) h
  have hd := hm.dom
  have : IsCommon (graphProblem g sg (colourPred g sg)) (mapOf S f) := by
    unfold IsCommon mapOf; rw [hd]; exact ⟨hS, hm⟩
  have := allMCISP_max _ _ this
  simpa [mapOf, mcisSize] using this

/-- Every common induced subgraph of the maximum size is among the answers. -/
theorem allMCIS_complete (g sg : Graph) (hs : sg.keys.Nodup) (S : List Int) (f : Int → Int)
    (hS : S.Sublist sg.keys) (h : IsIndIsoOn g sg (colourPred g sg) S f)
    (hk : S.length = mcisSize g sg) : mapOf S f ∈ allMCIS g sg := by
  have hm := isMatch_of_indIso (hS.nodup hs) h
  have hd := hm.dom
  have : IsCommon (graphProblem g sg (colourPred g sg)) (mapOf S f) := by
    unfold IsCommon mapOf; rw [hd]; exact ⟨hS, hm⟩
  exact allMCISP_complete _ _ this (by simpa [mapOf, mcisSize] using hk)

/-- The announced size is attained, and nothing is listed twice. -/
theorem allMCIS_ne_nil (g sg : Graph) : allMCIS g sg ≠ [] := allMCISP_ne_nil _

theorem allMCIS_nodup (g sg : Graph) (hs : sg.keys.Nodup) (hg : g.keys.Nodup) : (allMCIS g sg).Nodup :=
  allMCISP_nodup _ hg hs

/-- Checker of the symmetry-reduced common-subgraph search: sound, and every maximum common
subgraph is returned or symmetry-equivalent to one that is returned. -/
theorem coversUpToAut_iff (sg : Graph) (out full : List Map) :
    coversUpToAut sg out full = true ↔
      (∀ m ∈ out, m ∈ full) ∧ (∀ f ∈ full, ∃ m ∈ out, AutEquiv sg m f) :=
  Iso.coversUpToAut_iff sg out full

/-! ### non-vacuity: concrete instances (keys in arbitrary numbering) -/

/-- path 7 - 2 - 9 -/
def p3 : Graph := { nodes := [(2, 0), (7, 0), (9, 0)], edges := [(7, 2, 0), (2, 9, 0)] }
/-- path 4 - 30 - 11 - 8 with a pendant 5 on 30 (a "T") -/
def t5 : Graph := { nodes := [(4, 0), (30, 0), (11, 0), (8, 0), (5, 0)],
                    edges := [(4, 30, 0), (30, 11, 0), (11, 8, 0), (5, 30, 0)] }
/-- a triangle -/
def k3 : Graph := { nodes := [(1, 0), (2, 0), (3, 0)], edges := [(1, 2, 0), (2, 3, 0), (1, 3, 0)] }

example : p3.keys.Nodup ∧ t5.keys.Nodup ∧ k3.keys.Nodup := by decide
-- the path has 2 symmetries; it fits 8 times into the T, in 4 classes
example : (auts p3).length = 2 := by decide
example : (allIsos t5 p3).length = 8 ∧ (classReps p3 (allIsos t5 p3)).length = 4 := by decide
example : IsIndIso t5 p3 (Map.toFun [(2, 30), (7, 4), (9, 11)]) :=
  (allIsos_sound t5 p3 (by decide) _ (by decide)).2
-- the checker accepts the class representatives, rejects a lost class and a doubled class
example : oneRepPerClass p3 (classReps p3 (allIsos t5 p3)) (allIsos t5 p3) = true := by decide
example : oneRepPerClass p3 ((classReps p3 (allIsos t5 p3)).drop 1) (allIsos t5 p3) = false := by decide
example : oneRepPerClass p3 ((allIsos t5 p3).take 1 ++ classReps p3 (allIsos t5 p3)) (allIsos t5 p3) = false := by decide
example : oneRepPerClass p3 (allIsos t5 p3) (allIsos t5 p3) = false := by decide
-- induced: the path does not fit into the triangle; their largest common subgraph is an edge
example : allIsos k3 p3 = [] := by decide
example : mcisSize k3 p3 = 2 ∧ (allMCIS k3 p3).length = 12 := by decide
example : mcisSize t5 k3 = 2 := by decide
example : coversUpToAut p3 ((allMCIS k3 p3).take 3) (allMCIS k3 p3) = false := by decide

end C06
