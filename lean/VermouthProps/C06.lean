import VermouthProofs.Iso
import VermouthModel.C06
namespace C06
theorem placeholder : True := trivial
end C06
