import VermouthProps.C16File
import VermouthProofs.C16_ConectSet
/-!
# C16 — the bonds: set-level CONECT round trip on the layout extracted from the repository
-/
namespace C16
open Layout

instance (m : Mol) : Decidable (graphOk m) := by unfold graphOk; infer_instance

/-- every CONECT line the writer produces for serials below 100000 is stored by the reader as it is -/
theorem conect_lines_stored (excl : List (List Char)) (ignh : Bool) (ids : List Nat) (hne : ids ≠ [])
    (hfit : ∀ i ∈ ids, i < 100000) : ReadsAsConect pdb excl ignh (conectLine pdb ids) := by
  obtain ⟨_, h2, h3, h4, h5, _, h7, _, h9⟩ := layouts_agree_conect
  have hR := stripR_conectLine pdb ids hne h2 h3 h4 h5 h7 (fun i hi => by
    show i < 10 ^ conectWidth
    rw [h9]; exact hfit i hi)
  have hhash := conectLine_all_ne pdb '#' (by decide) (by decide) (by decide) (by decide) h4 ids
  have hline : conectLine pdb ids = ['C', 'O', 'N', 'E', 'C', 'T'] ++
      ids.flatMap (fun (i : Nat) => renderField pdb.conectNum (.int (i : Int))) := rfl
  rw [hline] at hR hhash ⊢
  exact reads_as_conect pdb excl ignh _ _ (by decide) (by decide) (by decide) (by decide) (by decide) hhash hR

/-- **conect_set_roundtrip.**  For every system that `Fits`, whose molecules have distinct node keys
and bonds between their own nodes, and whose serials (one per atom, one per TER record) do not
exceed 99999: the text of `write_pdb_string(system, conect=True)` is read back by `read_pdb` as the
same molecules with the same atoms (as in `pdb_file_roundtrip`) and EXACTLY the bonds of the
system — `(mi, i, j)` is a bond read in molecule `mi` between the atoms at positions `i` and `j`
of the written order iff the system has a bond between these two atoms (`i` being the end with
the lower node key, which owns the record).  Chunks of four partners, sorting by serial, the
serial → (molecule, node) dictionaries of writer and reader are all inside. -/
theorem conect_set_roundtrip (excl : List (List Char)) (sys : List Mol) (hfits : Fits excl sys = true)
    (hgraph : ∀ m ∈ sys, graphOk m) (hser : serialEnd 1 sys ≤ 100000) :
    ∃ lines r, writePdb pdb true sys = .ok lines ∧ readPdb pdb excl false lines = .ok r ∧
      r.mols = expectedMols pAtomOf 1 sys ∧
      ∀ mi i j, (mi, i, j) ∈ r.bonds ↔ ∃ m, sys[mi]? = some m ∧ EdgeUp m i j := by
  have hall := AllSys_mono (fun s a h => atomFitsB_reads excl s a h) sys 1 (allSysB_iff _ sys 1 hfits)
  have hne := AllSys_nonempty sys 1 hall
  have hgroups := groupsOf_ok pdb excl false pAtomOf (fun s a => (ter_end_lines_finish excl false s a).1) sys 1 hall
  have hend := (ter_end_lines_finish excl false 0 exAtom).2
  have hw := writeMols_eq_groups pdb pAtomOf sys 1 none hne
  have hmols := groupsOf_mols pdb pAtomOf sys 1 hne
  obtain ⟨h1, h2, h3, h4, h5, h6, h7, h8, h9⟩ := layouts_agree_conect
  obtain ⟨recs, bonds, hrecs, hgood, hlt, hdo, hbonds⟩ := conect_sys pdb ((expectedMols pAtomOf 1 sys).map idTable)
    h8 h1 h2 h3 h4 h5 h6 h7 sys 1 0 hgraph (by show serialEnd 1 sys ≤ 10 ^ conectWidth; rw [h9]; exact hser)
    (by
      intro k m hk t ht1 ht2
      have := findMol_go_spec pAtomOf (fun _ _ => rfl) k sys 1 0 t m hk ht1 ht2
      exact this)
  have hcons : ∀ l ∈ recs.map (conectLine pdb), ReadsAsConect pdb excl false l := by
    intro l hl
    obtain ⟨r, hr, rfl⟩ := List.mem_map.mp hl
    obtain ⟨own, c, rfl, _⟩ := hgood r hr
    apply conect_lines_stored excl false (own :: c) (by simp)
    intro i hi
    have := hlt _ hr i hi
    rw [show pdb.conectWidth = conectWidth from rfl, h9] at this
    exact this
  have hr := readPdb_groups_conects pdb excl false (groupsOf pdb pAtomOf 1 sys) (recs.map (conectLine pdb))
    pdb.endLine hgroups hcons hend
  rw [hmols, hdo] at hr
  refine ⟨groupLines (groupsOf pdb pAtomOf 1 sys) ++ recs.map (conectLine pdb) ++ [pdb.endLine],
    ⟨expectedMols pAtomOf 1 sys, bonds⟩, ?_, hr, rfl, ?_⟩
  · simp only [writePdb, hw, conectLines, hrecs, bind, Except.bind, pure, Except.pure, if_true]
  · intro mi i j
    rw [hbonds]
    constructor
    · rintro ⟨k, m, hk, rfl, he⟩
      exact ⟨m, by simpa using hk, he⟩
    · rintro ⟨m, hk, he⟩
      exact ⟨mi, m, hk, by omega, he⟩

/-- symmetric form: a bond is read between positions `i` and `j` (in either order) iff the system
has a bond between the two atoms -/
theorem conect_set_roundtrip_sym (excl : List (List Char)) (sys : List Mol) (hfits : Fits excl sys = true)
    (hgraph : ∀ m ∈ sys, graphOk m) (hser : serialEnd 1 sys ≤ 100000) :
    ∃ lines r, writePdb pdb true sys = .ok lines ∧ readPdb pdb excl false lines = .ok r ∧
      r.mols = expectedMols pAtomOf 1 sys ∧
      ∀ mi i j, ((mi, i, j) ∈ r.bonds ∨ (mi, j, i) ∈ r.bonds) ↔
        ∃ m, sys[mi]? = some m ∧ ∃ u v, ((u, v) ∈ m.edges ∨ (v, u) ∈ m.edges) ∧ u ≠ v ∧
          idxIn ((sortedNodes m).map (·.key)) u = some i ∧ idxIn ((sortedNodes m).map (·.key)) v = some j := by
  obtain ⟨lines, r, h1, h2, h3, h4⟩ := conect_set_roundtrip excl sys hfits hgraph hser
  refine ⟨lines, r, h1, h2, h3, ?_⟩
  intro mi i j
  rw [h4, h4]
  constructor
  · rintro (⟨m, hm, u, v, he, hlt, hi, hj⟩ | ⟨m, hm, u, v, he, hlt, hi, hj⟩)
    · exact ⟨m, hm, u, v, he, by omega, hi, hj⟩
    · exact ⟨m, hm, v, u, he.symm, by omega, hj, hi⟩
  · rintro ⟨m, hm, u, v, he, hne, hi, hj⟩
    rcases Int.lt_or_gt_of_ne hne with h | h
    · exact Or.inl ⟨m, hm, u, v, he, h, hi, hj⟩
    · exact Or.inr ⟨m, hm, v, u, he.symm, h, hj, hi⟩

/-- `exSys` (two molecules, one bond 5–1 written as serials 2–1… owned by the node with key 1)
satisfies all hypotheses -/
example : Fits [] exSys = true ∧ (∀ m ∈ exSys, graphOk m) ∧ serialEnd 1 exSys ≤ 100000 := by
  refine ⟨?_, ?_, ?_⟩
  · simp only [Fits, exSys, allSysB, exSys_sorted.1, exSys_sorted.2]
    decide +kernel
  · decide
  · simp only [exSys, serialEnd, exSys_sorted.1, exSys_sorted.2]
    decide

end C16
