import VermouthModel.C16_Full
/-!
# C16 — which MODEL of a PDB file is read (`modelidx`), and what is ignored

`PDBParser.model` sets `_skipahead = (number != modelidx)`; `_atom` returns at once while
`_skipahead` is set; `ENDMDL` only closes the current molecule.  Theorems about the full reader
model (`VermouthModel/C16_Full.lean`):

* `skipped_atom_ignored`   — while another model is being skipped an ATOM/HETATM line is not even
  parsed: ANY content (unreadable numbers included) leaves the reader unchanged;
* `model_record`, `model_unreadable_ignored` — a MODEL record only sets the flag; one whose number
  cannot be read changes nothing;
* `endmdl_keeps_skip`      — ENDMDL / TER / END do not reset the flag (atoms after the ENDMDL of a
  skipped model, with no further MODEL record, are skipped as well);
* `model_selection`        — a file made of MODEL blocks (each: MODEL record, ATOM/HETATM/TER lines,
  a closing ENDMDL) followed by anything but atoms and MODEL records (CONECT, END, …) is read as
  the same file with every block whose number differs from `modelidx` deleted and the MODEL records
  of the others removed.  Several blocks with the wanted number are ALL read.
-/
namespace C16

variable (X : PdbLayoutX) (excl : List (List Char)) (ignh : Bool) (modelidx : Int)

def PStateX.setSkip (st : PStateX) (b : Bool) : PStateX := { st with skip := b }

/-- the record type the dispatcher sees (`none`: blank or comment line, ignored) -/
def recOf (l : List Char) : Option RecX :=
  if decomment l = [] then none else some (classifyX X (decomment l))

/-- **skipped_atom_ignored** -/
theorem skipped_atom_ignored (st : PStateX) (l : List Char) (hs : st.skip = true) (hl : recOf X l = some .atom) :
    pdbStepX X excl ignh modelidx st l = .ok st := by
  unfold recOf at hl
  split at hl
  · cases hl
  · rename_i hne
    simp only [Option.some.injEq] at hl
    unfold pdbStepX
    simp only [hne, if_false, hl, hs, if_true]

/-- **model_record** -/
theorem model_record (st : PStateX) (l : List Char) (n : Int) (hl : recOf X l = some .model)
    (hn : parseInt (strip (slice (decomment l) X.modelStart X.modelStop)) = some n) :
    pdbStepX X excl ignh modelidx st l = .ok (st.setSkip (decide (n ≠ modelidx))) := by
  unfold recOf at hl
  split at hl
  · cases hl
  · rename_i hne
    simp only [Option.some.injEq] at hl
    unfold pdbStepX
    simp only [hne, if_false, hl, hn]
    rfl

/-- **model_unreadable_ignored**: `int(line[10:14])` raises ValueError → `return` -/
theorem model_unreadable_ignored (st : PStateX) (l : List Char) (hl : recOf X l = some .model)
    (hn : parseInt (strip (slice (decomment l) X.modelStart X.modelStop)) = none) :
    pdbStepX X excl ignh modelidx st l = .ok st := by
  unfold recOf at hl
  split at hl
  · cases hl
  · rename_i hne
    simp only [Option.some.injEq] at hl
    unfold pdbStepX
    simp only [hne, if_false, hl, hn]

/-- **endmdl_keeps_skip** -/
theorem endmdl_keeps_skip (st : PStateX) (l : List Char) (hl : recOf X l = some .finish) :
    pdbStepX X excl ignh modelidx st l = .ok st.finish ∧ st.finish.skip = st.skip ∧ st.finish.active = [] := by
  unfold recOf at hl
  split at hl
  · cases hl
  · rename_i hne
    simp only [Option.some.injEq] at hl
    refine ⟨?_, ?_, ?_⟩
    · unfold pdbStepX
      simp only [hne, if_false, hl]
    · unfold PStateX.finish; split <;> rfl
    · unfold PStateX.finish; split
      · assumption
      · rfl

theorem finish_of_empty (st : PStateX) (h : st.active = []) : st.finish = st := by
  unfold PStateX.finish; simp [h]

/-- a line that is neither an atom nor a MODEL record: its effect does not depend on the flag and
it does not touch the flag -/
def otherLine (l : List Char) : Prop := recOf X l ≠ some .atom ∧ recOf X l ≠ some .model

theorem finish_setSkip (st : PStateX) (b : Bool) : (st.setSkip b).finish = st.finish.setSkip b := by
  unfold PStateX.finish PStateX.setSkip
  by_cases h : st.active = [] <;> simp [h]

def mapOk (f : PStateX → PStateX) : Except Err PStateX → Except Err PStateX
  | .ok s => .ok (f s)
  | .error e => .error e

theorem step_setSkip_other (st : PStateX) (b : Bool) (l : List Char) (h : otherLine X l) :
    pdbStepX X excl ignh modelidx (st.setSkip b) l =
      mapOk (·.setSkip b) (pdbStepX X excl ignh modelidx st l) := by
  obtain ⟨h1, h2⟩ := h
  unfold recOf at h1 h2
  unfold pdbStepX
  by_cases hne : decomment l = []
  · simp [hne, mapOk]
  · simp only [hne, if_false, ne_eq, Option.some.injEq] at h1 h2 ⊢
    cases hc : classifyX X (decomment l) with
    | atom => exact absurd hc h1
    | model => exact absurd hc h2
    | finish => simp only [mapOk]; rw [finish_setSkip]
    | conect => rfl
    | cryst1 =>
      simp only [PStateX.setSkip]
      cases crystStep X.crystFields (decomment l) 0 st.cryst <;> rfl
    | skip => rfl
    | unknown => rfl

theorem fold_setSkip_other (b : Bool) : ∀ (ls : List (List Char)) (st : PStateX), (∀ l ∈ ls, otherLine X l) →
    pdbFoldX X excl ignh modelidx (st.setSkip b) ls = mapOk (·.setSkip b) (pdbFoldX X excl ignh modelidx st ls)
  | [], _, _ => rfl
  | l :: ls, st, h => by
      simp only [pdbFoldX]
      rw [step_setSkip_other X excl ignh modelidx st b l (h l (by simp))]
      cases pdbStepX X excl ignh modelidx st l with
      | error e => rfl
      | ok st' =>
        simp only [mapOk]
        exact fold_setSkip_other b ls st' (fun l' hl' => h l' (by simp [hl']))

theorem pdbFoldX_append : ∀ (a b : List (List Char)) (st : PStateX),
    pdbFoldX X excl ignh modelidx st (a ++ b) =
      match pdbFoldX X excl ignh modelidx st a with
      | .error e => .error e
      | .ok st' => pdbFoldX X excl ignh modelidx st' b
  | [], _, _ => rfl
  | l :: a, b, st => by
      simp only [List.cons_append, pdbFoldX]
      cases pdbStepX X excl ignh modelidx st l with
      | error e => rfl
      | ok st' => exact pdbFoldX_append a b st'

/-- the lines between a MODEL record and its ENDMDL: ATOM / HETATM / TER (/ END / ENDMDL) -/
def bodyLine (l : List Char) : Prop := recOf X l = some .atom ∨ recOf X l = some .finish

/-- a skipped model leaves no trace -/
theorem skipped_body : ∀ (body : List (List Char)) (st : PStateX), st.skip = true → st.active = [] →
    (∀ l ∈ body, bodyLine X l) → pdbFoldX X excl ignh modelidx st body = .ok st
  | [], _, _, _, _ => rfl
  | l :: body, st, hs, ha, h => by
      simp only [pdbFoldX]
      rcases h l (by simp) with hl | hl
      · rw [skipped_atom_ignored X excl ignh modelidx st l hs hl]
        exact skipped_body body st hs ha (fun l' hl' => h l' (by simp [hl']))
      · rw [(endmdl_keeps_skip X excl ignh modelidx st l hl).1, finish_of_empty st ha]
        exact skipped_body body st hs ha (fun l' hl' => h l' (by simp [hl']))

/-- atom and end-of-molecule lines do not touch the flag -/
theorem body_keeps_skip : ∀ (body : List (List Char)) (st st' : PStateX), (∀ l ∈ body, bodyLine X l) →
    pdbFoldX X excl ignh modelidx st body = .ok st' → st'.skip = st.skip
  | [], st, st', _, h => by simp only [pdbFoldX, Except.ok.injEq] at h; rw [h]
  | l :: body, st, st', hb, h => by
      simp only [pdbFoldX] at h
      cases hs : pdbStepX X excl ignh modelidx st l with
      | error e => rw [hs] at h; cases h
      | ok st1 =>
        rw [hs] at h
        have ih := body_keeps_skip body st1 st' (fun l' hl' => hb l' (by simp [hl'])) h
        rw [ih]
        rcases hb l (by simp) with hl | hl
        · unfold recOf at hl
          split at hl
          · cases hl
          · rename_i hne
            simp only [Option.some.injEq] at hl
            unfold pdbStepX at hs
            simp only [hne, if_false, hl] at hs
            split at hs
            · cases hs; rfl
            · split at hs
              · cases hs
              · cases hs; rfl
              · cases hs; rfl
        · have := endmdl_keeps_skip X excl ignh modelidx st l hl
          rw [this.1] at hs
          cases hs
          exact this.2.1

/-- one MODEL block: its record (number `n`), its body, the closing end-of-molecule line -/
structure Block where
  n : Int
  mline : List Char
  body : List (List Char)
  fin : List Char

def Block.ok (b : Block) : Prop :=
  recOf X b.mline = some .model ∧
  parseInt (strip (slice (decomment b.mline) X.modelStart X.modelStop)) = some b.n ∧
  (∀ l ∈ b.body, bodyLine X l) ∧ recOf X b.fin = some .finish

def Block.lines (b : Block) : List (List Char) := b.mline :: (b.body ++ [b.fin])

/-- what is left of a block: its body if it is the wanted model, nothing otherwise -/
def Block.kept (b : Block) : List (List Char) := if b.n = modelidx then b.body ++ [b.fin] else []

theorem fold_body_fin (b : Block) (hb : b.ok X) (st st' : PStateX)
    (h : pdbFoldX X excl ignh modelidx st (b.body ++ [b.fin]) = .ok st') :
    st'.active = [] ∧ st'.skip = st.skip := by
  have hbody : ∀ l ∈ b.body ++ [b.fin], bodyLine X l := by
    intro l hl
    rcases List.mem_append.mp hl with hl | hl
    · exact hb.2.2.1 l hl
    · simp only [List.mem_singleton] at hl; subst hl; exact Or.inr hb.2.2.2
  refine ⟨?_, body_keeps_skip X excl ignh modelidx _ st st' hbody h⟩
  rw [pdbFoldX_append] at h
  cases h1 : pdbFoldX X excl ignh modelidx st b.body with
  | error e => rw [h1] at h; cases h
  | ok s1 =>
    rw [h1] at h
    simp only [pdbFoldX] at h
    have := endmdl_keeps_skip X excl ignh modelidx s1 b.fin hb.2.2.2
    rw [this.1] at h
    cases h
    exact this.2.2

/-- reading the blocks = reading what is kept of them, up to the value of the flag -/
theorem fold_blocks : ∀ (blocks : List Block) (st : PStateX) (f : Bool),
    (∀ b ∈ blocks, b.ok X) → st.skip = false → st.active = [] →
    ∃ f', pdbFoldX X excl ignh modelidx (st.setSkip f) (blocks.flatMap Block.lines) =
        mapOk (·.setSkip f') (pdbFoldX X excl ignh modelidx st (blocks.flatMap (Block.kept modelidx))) ∧
      ∀ st', pdbFoldX X excl ignh modelidx st (blocks.flatMap (Block.kept modelidx)) = .ok st' →
        st'.skip = false ∧ st'.active = []
  | [], st, f, _, hs, ha => ⟨f, rfl, fun st' h => by
      simp only [List.flatMap_nil, pdbFoldX, Except.ok.injEq] at h; subst h; exact ⟨hs, ha⟩⟩
  | b :: blocks, st, f, hall, hs, ha => by
      have hb := hall b (by simp)
      have hrest : ∀ b' ∈ blocks, b'.ok X := fun b' hb' => hall b' (by simp [hb'])
      simp only [List.flatMap_cons, Block.lines, List.cons_append, pdbFoldX]
      rw [model_record X excl ignh modelidx (st.setSkip f) b.mline b.n hb.1 hb.2.1]
      have hset : (st.setSkip f).setSkip (decide (b.n ≠ modelidx)) = st.setSkip (decide (b.n ≠ modelidx)) := rfl
      rw [hset]
      simp only []
      by_cases hn : b.n = modelidx
      · -- the wanted model: flag off, the body is read
        have hst : st.setSkip (decide (b.n ≠ modelidx)) = st := by
          simp only [hn, ne_eq, not_true_eq_false, decide_false]
          unfold PStateX.setSkip; rw [← hs]
        rw [hst]
        simp only [Block.kept, hn, if_true]
        rw [pdbFoldX_append X excl ignh modelidx (b.body ++ [b.fin]) (List.flatMap Block.lines blocks) st,
          pdbFoldX_append X excl ignh modelidx (b.body ++ [b.fin]) (List.flatMap (Block.kept modelidx) blocks) st]
        cases h1 : pdbFoldX X excl ignh modelidx st (b.body ++ [b.fin]) with
        | error e => exact ⟨false, rfl, fun st' h => by cases h⟩
        | ok s1 =>
          obtain ⟨ha1, hs1⟩ := fold_body_fin X excl ignh modelidx b hb st s1 h1
          rw [hs] at hs1
          obtain ⟨f', h2, h3⟩ := fold_blocks blocks s1 false hrest hs1 ha1
          have : s1.setSkip false = s1 := by unfold PStateX.setSkip; rw [← hs1]
          rw [this] at h2
          exact ⟨f', h2, h3⟩
      · -- another model: flag on, nothing of the body is read
        have hd : decide (b.n ≠ modelidx) = true := by simpa using hn
        rw [hd]
        have hbody : ∀ l ∈ b.body ++ [b.fin], bodyLine X l := by
          intro l hl
          rcases List.mem_append.mp hl with hl | hl
          · exact hb.2.2.1 l hl
          · simp only [List.mem_singleton] at hl; subst hl; exact Or.inr hb.2.2.2
        rw [pdbFoldX_append X excl ignh modelidx (b.body ++ [b.fin]) (List.flatMap Block.lines blocks) (st.setSkip true),
          skipped_body X excl ignh modelidx _ (st.setSkip true) rfl ha hbody]
        simp only [Block.kept, hn, if_false, List.nil_append]
        exact fold_blocks blocks st true hrest hs ha

/-- the result of `read_pdb` does not depend on where the flag ended up -/
theorem readPdbX_of_fold (lines lines' : List (List Char)) (f : Bool)
    (h : pdbFoldX X excl ignh modelidx ⟨[], [], [], false, []⟩ lines =
      mapOk (·.setSkip f) (pdbFoldX X excl ignh modelidx ⟨[], [], [], false, []⟩ lines')) :
    readPdbX X excl ignh modelidx lines = readPdbX X excl ignh modelidx lines' := by
  unfold readPdbX
  rw [h]
  cases pdbFoldX X excl ignh modelidx ⟨[], [], [], false, []⟩ lines' with
  | error e => rfl
  | ok st =>
    simp only [mapOk]
    rw [finish_setSkip]
    rfl

/-- **model_selection.**  `read_pdb(file, modelidx=…)` on MODEL blocks followed by lines that are
neither atoms nor MODEL records (CONECT, END, …) = the same file with the unwanted blocks deleted. -/
theorem model_selection (blocks : List Block) (rest : List (List Char))
    (hb : ∀ b ∈ blocks, b.ok X) (hr : ∀ l ∈ rest, otherLine X l) :
    readPdbX X excl ignh modelidx (blocks.flatMap Block.lines ++ rest) =
      readPdbX X excl ignh modelidx (blocks.flatMap (Block.kept modelidx) ++ rest) := by
  obtain ⟨f', h1, h2⟩ := fold_blocks X excl ignh modelidx blocks ⟨[], [], [], false, []⟩ false hb rfl rfl
  have h0 : (⟨[], [], [], false, []⟩ : PStateX).setSkip false = ⟨[], [], [], false, []⟩ := rfl
  rw [h0] at h1
  apply readPdbX_of_fold X excl ignh modelidx _ _ f'
  rw [pdbFoldX_append, pdbFoldX_append, h1]
  cases hk : pdbFoldX X excl ignh modelidx ⟨[], [], [], false, []⟩ (blocks.flatMap (Block.kept modelidx)) with
  | error e => rfl
  | ok st =>
    simp only [mapOk]
    exact fold_setSkip_other X excl ignh modelidx f' rest st hr

end C16
