import VermouthModel.C13_Reader
import VermouthProofs.C13_Disp
import VermouthProofs.C13_ReaderProofs
import Generated.C13Tables
/-!
# C13 — theorems about the tables extracted from the repository on every run
(`FFDirector.METH_DICT`, `interactions_natoms`), re-checked by `decide`.
-/
namespace C13.Tables
open C13

/-- `C13.ffTab` (VermouthProofs/C13_ReaderProofs.lean) is the extracted `FFDirector.METH_DICT` as entries -/
def ffPaths : List Path := C13.Gen.ffKeys.map (·.1)

/-- the three declaration headers are top-level entries of the extracted dispatch table, so the
dispatcher theorems apply to the reader built on it -/
theorem ff_tops_in_table : TopOk ffPaths := by unfold TopOk; decide +kernel

instance : DecidableEq Kind := inferInstance

/-- a section path routed to the link context lies under `[ link ]`: once a link's top-level section
has ended nothing can be written to it any more (justifies registering links by value in the model) -/
theorem link_routes_in_link_sections :
    (ffTab.all fun e => routeOf ffTab e.path != .link || e.path.head? == some "link") = true := by
  decide +kernel

theorem modification_routes_in_modification_sections :
    (ffTab.all fun e => routeOf ffTab e.path != .modification || e.path.head? == some "modification") = true := by
  decide +kernel

/-- conversely every registered section under `[ link ]` writes to the link (before the repair of
F-C13-3 `[ link ] [ pairs_nb ]` wrote to the current block) -/
theorem link_sections_routed_to_link :
    (ffTab.all fun e => e.path.head? != some "link" || routeOf ffTab e.path == .link) = true := by
  decide +kernel

/-- every fixed-arity interaction has at least one atom and is a registered subsection of blocks and links -/
theorem natoms_positive : (C13.Gen.natoms.all fun e => decide (1 ≤ e.2)) = true := by decide +kernel

theorem natoms_sections_registered :
    (C13.Gen.natoms.all fun e =>
      ffPaths.contains ["moleculetype", e.1] && ffPaths.contains ["link", e.1]) = true := by
  decide +kernel

/-- only `[ moleculetype ]` / `[ modification ]` themselves are handled by the name-setting methods -/
theorem name_methods_only_at_top :
    (ffTab.all fun e => (e.method != "_block" || e.path == ["moleculetype"]) &&
                        (e.method != "_modification" || e.path == ["modification"])) = true := by
  decide +kernel

/-- the predicate and effector tables written into the reader model are those of the repository -/
theorem predicates_and_effectors_match :
    C13.valuePredicates = C13.Gen.valuePredicates ∧ C13.paramEffectors = C13.Gen.paramEffectors := by
  decide +kernel

/-- the per-line handlers of the whole-file reader never rename a block / modification outside its own
top-level section (hypothesis of `blocks_declared_last_wins` / `modifications_declared_last_wins`) -/
theorem reader_name_stable :
    NameStableR (ffParams C13.Gen.natoms ffTab) .block "moleculetype" ∧
    NameStableR (ffParams C13.Gen.natoms ffTab) .modification "modification" :=
  ⟨name_stable_generated_block, name_stable_generated_mod⟩

/-- **The whole-file model of `read_ff` loads every declaration once and in file order**: with the
dispatch table and arities extracted from the repository, whenever `readFF` accepts a file, its links
are one per `[ link ]` header of the (comment-stripped, macro-expanded) file in order, each with the
content of its own section, and its blocks / modifications are the last declaration per name in order
of first declaration. -/
theorem readFF_declared_once_in_order (raw : List String) (d : Dump)
    (h : readFF C13.Gen.natoms ffTab raw = some d) :
    ∃ lines lines', classify raw = some lines ∧
      expandMacros (ffTab.map (·.path)) [] [] lines = some lines' ∧
      d.links.map (·.1) = hdrIdxs "link" 0 lines' ∧
      d.links = linkSpec (ffParams C13.Gen.natoms ffTab) [] none 0 lines' ∧
      d.blocks = dictOfList ((blockSpec (ffParams C13.Gen.natoms ffTab) [] none 0 lines').map (fun b => (b.2.name, b))) ∧
      d.mods = dictOfList ((modSpec (ffParams C13.Gen.natoms ffTab) [] none 0 lines').map (fun b => (b.2.name, b))) :=
  C13.readFF_declared_once_in_order raw d h

/-- **Removal sections exist in links only**: every registered section whose name starts with `!` lies
under `[ link ]` and is handled with `context_type='link'`.  Hence `_base_parser` is never called with
`delete=True` outside a link: its guard "Interactions can only be removed in links" (ffinput.py) cannot
be reached from any file (the component stream calls it directly). -/
theorem delete_sections_only_in_links :
    (ffTab.all fun e =>
      !((e.path.getLast?.map fun n => n.toList.head? == some '!').getD false) ||
        (e.ctype == "link" && e.path.head? == some "link")) = true := by
  decide +kernel

/-- every entry of `ITPDirector.atom_idxs` is an index or a slice (kinds 0, 1, 2 of the extraction), so the
`else: raise IOError` branch of `_split_atoms_and_parameters` cannot be reached from any file -/
theorem itp_idx_kinds_known :
    (C13.Gen.itpAtomIdxs.all fun e => e.2.all fun k => decide (k.1 ≤ 2)) = true := by
  decide +kernel

/-- an interaction line of an `.itp` block can refer to atoms by index only: a reference that is not all
digits is rejected whatever the block contains (the nodes of an ITP block are integers, so the test
`reference not in context` of `ITPDirector._treat_block_interaction_atoms` always fires and the prefix test
after it is dead code) -/
theorem itp_name_reference_rejected (c : Ctx) (ref : String) (h : allDigits ref = false) :
    itpRef c ref = none := by
  simp [itpRef, h]

end C13.Tables
