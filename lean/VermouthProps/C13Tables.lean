import VermouthModel.C13_Reader
import VermouthProofs.C13_Disp
import Generated.C13Tables
/-!
# C13 — theorems about the tables extracted from the repository on every run
(`FFDirector.METH_DICT`, `interactions_natoms`), re-checked by `decide`.
-/
namespace C13.Tables
open C13

def ffTab : List Entry := C13.Gen.ffKeys.map fun (p, m, c) => { path := p, method := m, ctype := c }
def ffPaths : List Path := C13.Gen.ffKeys.map (·.1)

/-- the three declaration headers are top-level entries of the extracted dispatch table, so the
dispatcher theorems apply to the reader built on it -/
theorem ff_tops_in_table : TopOk ffPaths := by unfold TopOk; decide +kernel

instance : DecidableEq Kind := inferInstance

/-- a section path routed to the link context lies under `[ link ]`: once a link's top-level section
has ended nothing can be written to it any more (justifies registering links by value in the model) -/
theorem link_routes_in_link_sections :
    (ffTab.all fun e => routeOf ffTab e.path != .link || e.path.head? == some "link") = true := by
  decide +kernel

theorem modification_routes_in_modification_sections :
    (ffTab.all fun e => routeOf ffTab e.path != .modification || e.path.head? == some "modification") = true := by
  decide +kernel

/-- the one path under `[ link ]` that is NOT routed to the link: `[ pairs_nb ]` writes to the current
block (`context_type='block'` in the registration) - reported as a defect, transcribed as it is -/
theorem link_pairs_nb_routed_to_block : routeOf ffTab ["link", "pairs_nb"] = .block := by decide +kernel

/-- every fixed-arity interaction has at least one atom and is a registered subsection of blocks and links -/
theorem natoms_positive : (C13.Gen.natoms.all fun e => decide (1 ≤ e.2)) = true := by decide +kernel

theorem natoms_sections_registered :
    (C13.Gen.natoms.all fun e =>
      ffPaths.contains ["moleculetype", e.1] && ffPaths.contains ["link", e.1]) = true := by
  decide +kernel

/-- only `[ moleculetype ]` / `[ modification ]` themselves are handled by the name-setting methods -/
theorem name_methods_only_at_top :
    (ffTab.all fun e => (e.method != "_block" || e.path == ["moleculetype"]) &&
                        (e.method != "_modification" || e.path == ["modification"])) = true := by
  decide +kernel

end C13.Tables
