import VermouthProofs.C03
namespace C03
theorem writers_same_order (m : Mol) : pdbRecords m = itpAtoms m ∧ groRecords m = itpAtoms m := ⟨rfl, rfl⟩
end C03
