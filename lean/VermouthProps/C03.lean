import VermouthProofs.C03
/-!
# C03 — coordinates, molecule types and system topology agree atom for atom

Top-level statements about the model in `VermouthModel/C03.lean`
(`sortedNodes`, `writeAtoms`, `groups`, `includes`, `itpWrites`, `nameMolTypes`,
`shareMolType`).  Helper lemmas are in `VermouthProofs/C03.lean`.

Reading guide.  A system is `sys : List Mol`; `names = nameMolTypes shares dedup sys`
are the molecule-type ids in system order (what `NameMolType` stores in
`meta['moltype']`); `groups names` is the `[ molecules ]` section, `includes names`
the `#include` lines, `itpWrites names` the list (type, index of the molecule whose
ITP is written as the file of that type).  The coordinate records of a molecule
(PDB and GRO) and the `[ atoms ]` lines of its ITP are `writeAtoms m`.
-/
namespace C03

/-! ## 1. one atom order for the three writers -/

/-- The PDB writer, the GRO writer and the ITP writer list the atoms of a molecule in the same
order (all three iterate `Molecule.sorted_nodes`; the tie to the code is the differential run). -/
theorem writers_same_order (m : Mol) : pdbRecords m = itpAtoms m ∧ groRecords m = itpAtoms m := ⟨rfl, rfl⟩

/-- `sorted_nodes` lists every node exactly once. -/
theorem sortedNodes_perm (l : List Atom) : (sortedNodes l).Perm l := by
  induction l with
  | nil => exact List.Perm.refl _
  | cons x xs ih => exact (insertAtom_perm x _).trans (List.Perm.cons x ih)

/-- ... by non-decreasing atom id, atoms without an id last ... -/
theorem sortedNodes_sorted (l : List Atom) : SortedByAtomid (sortedNodes l) := by
  induction l with
  | nil => exact List.Pairwise.nil
  | cons x xs ih => exact insertAtom_sorted x _ ih

/-- ... and atoms with equal ids (or both without) stay in node order (stability). -/
theorem sortedNodes_stable (l : List Atom) (k : Option Int) :
    (sortedNodes l).filter (fun a => atomidOf a == k) = l.filter (fun a => atomidOf a == k) := by
  induction l with
  | nil => rfl
  | cons x xs ih =>
    simp only [sortedNodes]
    rw [insertAtom_filter, List.filter_cons, List.filter_cons, ih]

/-- one record per atom -/
theorem writeAtoms_length (m : Mol) : (writeAtoms m).length = m.nodes.length := by
  unfold writeAtoms
  rw [List.length_map]
  exact (sortedNodes_perm m.nodes).length_eq

/-! ## 2. the `[ molecules ]` section -/

/-- Expanding the `[ molecules ]` lines (name × count) gives back the molecule-type names of the
system, in system order: order and counts are correct. -/
theorem groups_expand {α} [DecidableEq α] (names : List α) :
    (groups names).flatMap (fun g => List.replicate g.2 g.1) = names := by
  fun_induction groups names with
  | case1 => rfl
  | case2 n rest ih =>
    rw [List.flatMap_cons, ih]
    exact (split_run n rest).symm

theorem groups_counts_pos {α} [DecidableEq α] (names : List α) : ∀ g ∈ groups names, 0 < g.2 := by
  fun_induction groups names with
  | case1 => simp
  | case2 n rest ih =>
    intro g hg
    rcases List.mem_cons.mp hg with rfl | hg
    · show 0 < 1 + _
      omega
    · exact ih g hg

/-- Two successive `[ molecules ]` lines never name the same type (runs are maximal). -/
theorem groups_no_adjacent_equal {α} [DecidableEq α] (names : List α) : NoAdjEq (groups names) := by
  fun_induction groups names with
  | case1 => trivial
  | case2 n rest ih =>
    cases hd : rest.dropWhile (· == n) with
    | nil => rw [groups]; trivial
    | cons m l' =>
      rw [hd] at ih
      rw [groups_cons] at ih ⊢
      refine ⟨?_, ih⟩
      have := dropWhile_head_false _ _ hd
      intro e
      simp only [] at e
      subst e
      simp at this

/-! ## 3. the `#include` lines and the ITP files -/

/-- every molecule-type file is included at most once -/
theorem includes_nodup {α} [DecidableEq α] (names : List α) : (includes names).Nodup := by
  unfold includes
  rw [dictFromKeys_eq]
  exact foldl_ins_nodup _ _ List.nodup_nil

/-- The include list in first-occurrence order: it is `dict.fromkeys` of the molecule names. -/
theorem includes_first_occurrence {α} [DecidableEq α] (names : List α) :
    includes names = dictFromKeys names := by
  unfold includes
  rw [dictFromKeys_eq, dictFromKeys_eq, foldl_ins_groups]

/-- a type is included iff some molecule of the system has it -/
theorem includes_complete {α} [DecidableEq α] (names : List α) (n : α) :
    n ∈ includes names ↔ n ∈ names := by
  rw [includes_first_occurrence, dictFromKeys_eq, mem_foldl_ins]
  simp

/-- One ITP is written per included name, in the order of the include lines. -/
theorem itp_written_once_per_include {α} [DecidableEq α] (names : List α) :
    (itpWrites names).map (·.1) = includes names := by
  rw [includes_first_occurrence, dictFromKeys_eq]
  unfold itpWrites
  rw [itpLoop_groups]
  have := firstsLoop_keys names 0 [] [] (by simp)
  simpa using this.symm

/-- The ITP of a type is written from the FIRST molecule of the system that has this type. -/
theorem itpSource_first {α} [DecidableEq α] (names : List α) (n : α) (i : Nat) :
    (n, i) ∈ itpWrites names ↔ n ∈ names ∧ i = names.idxOf n := by
  unfold itpWrites
  rw [itpLoop_groups, mem_firstsLoop]
  simp

theorem itpSource_eq {α} [DecidableEq α] (names : List α) (n : α) (h : n ∈ names) :
    itpSource names n = some (names.idxOf n) := by
  unfold itpSource
  have hmem : (n, names.idxOf n) ∈ itpWrites names := (itpSource_first names n _).mpr ⟨h, rfl⟩
  cases hf : (itpWrites names).find? (fun p => p.1 == n) with
  | none =>
    have := List.find?_eq_none.mp hf _ hmem
    simp at this
  | some p =>
    have hp : p.1 = n := by simpa using List.find?_some hf
    have hin : p ∈ itpWrites names := List.mem_of_find?_eq_some hf
    obtain ⟨a, b⟩ := p
    simp only [] at hp
    subst hp
    have := (itpSource_first names a b).mp hin
    simp [this.2]

/-! ## 4. naming of molecule types -/

theorem names_length (shares : Mol → Mol → Bool) (dedup : Bool) (sys : List Mol) :
    (nameMolTypes shares dedup sys).length = sys.length := by
  unfold nameMolTypes
  split
  · cases sys with
    | nil => rfl
    | cons m0 rest => exact nameLoop_length _ _ _
  · simp

/-- Without deduplication the k-th molecule gets the id k: all names are distinct. -/
theorem names_no_dedup (shares : Mol → Mol → Bool) (sys : List Mol) (i : Nat) (h : i < sys.length) :
    (nameMolTypes shares false sys)[i]? = some i := by
  simp [nameMolTypes, List.getElem?_range' h]

/-- `shares m0 m0` for the first molecule of the system (the initial representative) -/
def HeadRefl (shares : Mol → Mol → Bool) (sys : List Mol) : Prop :=
  ∀ m0 ∈ sys.head?, shares m0 m0 = true

/-- **Same name ⇒ shares with the representative, and the representative is the first molecule
of that name.**  For a molecule `m` (position `i`) that received the id `g`: the first molecule
`r` of the system with id `g` exists, and `m` is `r` itself or `m.share_moltype_with(r)` held.
Two molecules with the same id therefore both share with the same `r`, which by
`itpSource_first` is the molecule whose ITP is written. -/
theorem shared_name_share (shares : Mol → Mol → Bool) (dedup : Bool) (sys : List Mol)
    (hhead : HeadRefl shares sys) (i : Nat) (m : Mol) (g : Nat)
    (hm : sys[i]? = some m) (hg : (nameMolTypes shares dedup sys)[i]? = some g) :
    ∃ r, sys[(nameMolTypes shares dedup sys).idxOf g]? = some r ∧ (m = r ∨ (dedup = true ∧ shares m r = true)) := by
  cases dedup with
  | false =>
    have hi : i < sys.length := (List.getElem?_eq_some_iff.mp hm).1
    rw [names_no_dedup shares sys i hi] at hg
    cases hg
    refine ⟨m, ?_, Or.inl rfl⟩
    have := idxOf_range' 0 sys.length i hi
    simp only [Nat.zero_add] at this
    simp only [nameMolTypes, Bool.false_eq_true, if_false, this, hm]
  | true =>
    cases sys with
    | nil => simp at hm
    | cons m0 rest =>
      have h00 : shares m0 m0 = true := hhead m0 (by simp)
      simp only [nameMolTypes, if_true] at hg ⊢
      obtain ⟨h1, h2⟩ := nameLoop_spec shares (m0 :: rest) [m0] i m g hm hg
      by_cases hg0 : g < 1
      · obtain ⟨t, ht, hs⟩ := h1 (by simpa using hg0)
        have hgz : g = 0 := by omega
        subst hgz
        simp only [List.getElem?_cons_zero, Option.some.injEq] at ht
        subst ht
        refine ⟨m0, ?_, Or.inr ⟨by first | rfl | trivial, hs⟩⟩
        have : nameLoop shares [m0] (m0 :: rest) = 0 :: nameLoop shares [m0] rest := by
          simp [nameLoop, findRep, h00]
        rw [this, idxOf_cons_eq]
        rfl
      · obtain ⟨r, hr, hs⟩ := h2 (by simp only [List.length_singleton]; omega)
        refine ⟨r, hr, ?_⟩
        rcases hs with hs | hs
        · exact Or.inl hs
        · exact Or.inr ⟨by first | rfl | trivial, hs⟩

/-- Greedy completeness: with deduplication a molecule founds a new type only if it shares with
none of the representatives chosen so far (loop invariant of `_name_with_deduplication`). -/
theorem new_type_shares_none (shares : Mol → Mol → Bool) (reps : List Mol) (m : Mol) (ms : List Mol)
    (h : (nameLoop shares reps (m :: ms)).head? = some reps.length) :
    ∀ t ∈ reps, shares m t = false := by
  simp only [nameLoop] at h
  cases hf : findRep shares reps m with
  | none => exact findRep_none hf
  | some j =>
    rw [hf] at h
    simp only [List.head?_cons, Option.some.injEq] at h
    have := findRep_some_lt hf
    omega

/-- **The processor is stateless**: one `NameMolType` object applied to several systems in a row
names every system exactly as a freshly constructed processor with the same configuration names
that system alone (no representative and no id survives a `run_system`) ... -/
theorem processor_stateless (shares : Mol → Mol → Bool) (p : Proc) (syss : List (List Mol)) :
    runHistory shares p syss = syss.map (nameMolTypes shares p.deduplicate) := by
  induction syss with
  | nil => rfl
  | cons sys rest ih => simp only [runHistory, procStep, List.map_cons, ih]

/-- ... and its configuration is unchanged afterwards. -/
theorem processor_config_unchanged (shares : Mol → Mol → Bool) (p : Proc) (sys : List Mol) :
    (procStep shares p sys).1 = p := rfl

/-- **The topology writer is stateless**: `write_gmx_topology` called for several systems in one
process writes for each what a single call writes (`moltype_written` and the counts do not leak). -/
theorem writer_stateless {α} [DecidableEq α] (st : WriterState) (nss : List (List α)) :
    writeHistory st nss = nss.map (fun names =>
      ({ groups := groups names, includes := includes names, itps := itpWrites names } : TopOut α)) := by
  induction nss with
  | nil => rfl
  | cons names rest ih => simp only [writeHistory, writeStep, List.map_cons, ih]

theorem zip_map_self {α β γ} (f : α → β) (g : β × α → γ) (l : List α) :
    ((l.map f).zip l).map g = l.map (fun x => g (f x, x)) := by
  induction l with
  | nil => rfl
  | cons a t ih => simp [ih]

/-- Consequently every system of a history (one processor object over all systems, then all
systems written by one process) is observed exactly as if it had been processed and written
alone: all single-system theorems of this file apply to each of them. -/
theorem history_is_pointwise (close : Val → Val → Bool) (dedup : Bool) (syss : List (List Mol)) :
    historyOut close dedup syss = syss.map (sysOut close dedup) := by
  unfold historyOut
  rw [processor_stateless, zip_map_self]
  rfl

/-! ## 5. `share_moltype_with` and the written atoms -/

/-- **ExactAttrs**: numeric node attributes of the two molecules that the code's tolerant
comparison (`numpy.isclose`) calls equal are equal.  Its failure region is finding F-C03-2. -/
def ExactAttrs (close : Val → Val → Bool) (m t : Mol) : Prop :=
  ∀ x ∈ numVals m.nodes, ∀ y ∈ numVals t.nodes, close x y = true → x = y

instance (close : Val → Val → Bool) (m t : Mol) : Decidable (ExactAttrs close m t) := by
  unfold ExactAttrs; infer_instance

/-- what the ITP writer reads of a molecule: `nrexcl`, the meta entries it prints (`define`,
`pre_section_lines`, `post_section_lines`), the atoms in writing order (without the attributes
ignored by the comparison: position, chain, ...) and the non-empty interaction lists -/
structure ItpView where
  nrexcl : Option Int
  metaEntries : List (Option MetaDict)
  atoms : List Atom
  inters : List (String × List Inter)
  deriving DecidableEq

def itpView (m : Mol) : ItpView :=
  { nrexcl := m.nrexcl, metaEntries := itpMetaKeys.map (metaGet m),
    atoms := sortedNodes (m.nodes.map strip), inters := relevantInters m }

/-- Molecules that share a molecule type are written identically (under ExactAttrs). -/
theorem share_implies_same_itp (close : Val → Val → Bool) (m t : Mol) (hex : ExactAttrs close m t)
    (h : shareMolType close m t = true) : itpView m = itpView t ∧ writeAtoms m = writeAtoms t := by
  simp only [shareMolType, Bool.and_eq_true, beq_iff_eq, List.all_eq_true] at h
  obtain ⟨⟨⟨⟨⟨h1, _⟩, hmeta⟩, h3⟩, _⟩, h5⟩ := h
  have hn := nodesSame_eq m.nodes t.nodes hex h3
  have hsub : ∀ k ∈ itpMetaKeys, k ∈ writtenMeta := by decide
  have hm : itpMetaKeys.map (metaGet m) = itpMetaKeys.map (metaGet t) :=
    List.map_congr_left (fun k hk => hmeta k (hsub k hk))
  constructor
  · simp only [itpView, h1, hm, hn, h5]
  · rw [writeAtoms_strip, writeAtoms_strip, hn]

theorem attrsSame_refl (close : Val → Val → Bool) (hc : ∀ v, isNumeric v = true → close v v = true)
    (l : List (String × Val)) : attrsSame close l l = true := by
  induction l with
  | nil => rfl
  | cons p r ih =>
    obtain ⟨k, v⟩ := p
    have : valDiff close v v = false := by
      cases v with
      | none => rfl
      | int i => simp [valDiff, hc (Val.int i) rfl]
      | num n => simp [valDiff, hc (Val.num n) rfl]
      | str s => simp [valDiff]
    simp [attrsSame, this, ih]

/-- `share_moltype_with` is reflexive when `isclose` is (so `HeadRefl` holds for the code). -/
theorem shareMolType_refl (close : Val → Val → Bool) (hc : ∀ v, isNumeric v = true → close v v = true)
    (m : Mol) : shareMolType close m m = true := by
  have hn : ∀ l : List Atom, nodesSame close l l = true := by
    intro l
    induction l with
    | nil => rfl
    | cons a r ih => simp [nodesSame, attrsSame_refl close hc, ih]
  simp [shareMolType, hn]

theorem npClose_refl (v : Val) (h : isNumeric v = true) : npClose v v = true := by
  cases v <;> simp_all [isNumeric, npClose, closeUnits]

/-! ## 6. the k-th coordinate record is the k-th ITP atom -/

/-- **k-th record agreement**, abstract writer.  `W` is any function producing the atom list
of a molecule, used both for the coordinate files and for the ITP, that does not distinguish
molecules of the system which `shares` identifies.  Then for the molecule at position `i`, with
type `g`, and the molecule `src` whose ITP is written as the file of type `g`: that molecule
exists and its k-th atom is the k-th coordinate record of molecule `i`, for every k. -/
theorem kth_record_agree {β} (shares : Mol → Mol → Bool) (W : Mol → List β) (dedup : Bool) (sys : List Mol)
    (hw : ∀ a ∈ sys, ∀ b ∈ sys, shares a b = true → W a = W b)
    (hhead : HeadRefl shares sys)
    (i : Nat) (m : Mol) (g src : Nat)
    (hm : sys[i]? = some m) (hg : (nameMolTypes shares dedup sys)[i]? = some g)
    (hsrc : (g, src) ∈ itpWrites (nameMolTypes shares dedup sys)) :
    ∃ r, sys[src]? = some r ∧ ∀ k : Nat, (W m)[k]? = (W r)[k]? := by
  obtain ⟨r, hr, hs⟩ := shared_name_share shares dedup sys hhead i m g hm hg
  have := ((itpSource_first _ g src).mp hsrc).2
  rw [← this] at hr
  refine ⟨r, hr, fun k => ?_⟩
  rcases hs with rfl | ⟨_, hs⟩
  · rfl
  · rw [hw m (List.mem_of_getElem? hm) r (List.mem_of_getElem? hr) hs]

/-- **k-th record agreement for the model of the code**: with the transcribed
`share_moltype_with` (tolerant comparison `close`) and the transcribed writers, under the explicit
hypothesis `ExactAttrs` on the molecules of the system: the k-th PDB record and the k-th GRO
record of every molecule carry the atom name, residue name and residue number of the k-th
`[ atoms ]` line of the ITP file written for its molecule type. -/
theorem kth_record_agree_model (close : Val → Val → Bool)
    (hc : ∀ v, isNumeric v = true → close v v = true) (dedup : Bool) (sys : List Mol)
    (hex : ∀ a ∈ sys, ∀ b ∈ sys, ExactAttrs close a b)
    (i : Nat) (m : Mol) (g src : Nat)
    (hm : sys[i]? = some m) (hg : (nameMolTypes (shareMolType close) dedup sys)[i]? = some g)
    (hsrc : (g, src) ∈ itpWrites (nameMolTypes (shareMolType close) dedup sys)) :
    ∃ r, sys[src]? = some r ∧
      ∀ k : Nat, (pdbRecords m)[k]? = (itpAtoms r)[k]? ∧ (groRecords m)[k]? = (itpAtoms r)[k]? := by
  obtain ⟨r, hr, hk⟩ := kth_record_agree (shareMolType close) writeAtoms dedup sys
    (fun a ha b hb h => (share_implies_same_itp close a b (hex a ha b hb) h).2)
    (fun m0 _ => shareMolType_refl close hc m0) i m g src hm hg hsrc
  exact ⟨r, hr, fun k => ⟨hk k, hk k⟩⟩

/-- Same name ⇒ identical written topology: every molecule's own ITP view equals that of the
molecule whose ITP is the file of its type (the single ITP is valid for all of them). -/
theorem same_name_same_itp (close : Val → Val → Bool)
    (hc : ∀ v, isNumeric v = true → close v v = true) (dedup : Bool) (sys : List Mol)
    (hex : ∀ a ∈ sys, ∀ b ∈ sys, ExactAttrs close a b)
    (i : Nat) (m : Mol) (g src : Nat)
    (hm : sys[i]? = some m) (hg : (nameMolTypes (shareMolType close) dedup sys)[i]? = some g)
    (hsrc : (g, src) ∈ itpWrites (nameMolTypes (shareMolType close) dedup sys)) :
    ∃ r, sys[src]? = some r ∧ itpView m = itpView r := by
  obtain ⟨r, hr, hk⟩ := kth_record_agree (shareMolType close) (fun m => [itpView m]) dedup sys
    (fun a ha b hb h => by rw [(share_implies_same_itp close a b (hex a ha b hb) h).1])
    (fun m0 _ => shareMolType_refl close hc m0) i m g src hm hg hsrc
  refine ⟨r, hr, ?_⟩
  simpa using hk 0

/-- the `[ atoms ]` list of the ITP file of type `g`, as written for the system -/
def itpFileOf {β} (W : Mol → List β) (sys : List Mol) (names : List Nat) (g : Nat) : List β :=
  match itpSource names g with
  | some src => match sys[src]? with
    | some r => W r
    | none => []
  | none => []

/-- **Whole-file agreement** (how grompp reads the output): walking the `[ molecules ]` lines in
order and, for each, `count` times the atoms of the included ITP file of that type, one obtains
exactly the sequence of records of the coordinate file (all molecules in system order). -/
theorem system_records_agree {β} (shares : Mol → Mol → Bool) (W : Mol → List β) (dedup : Bool) (sys : List Mol)
    (hw : ∀ a ∈ sys, ∀ b ∈ sys, shares a b = true → W a = W b)
    (hhead : HeadRefl shares sys) :
    (groups (nameMolTypes shares dedup sys)).flatMap
        (fun gc => (List.replicate gc.2 (itpFileOf W sys (nameMolTypes shares dedup sys) gc.1)).flatten)
      = sys.flatMap W := by
  rw [flatMap_expand, groups_expand]
  apply flatMap_pointwise _ _ _ _ (names_length shares dedup sys)
  intro i g m hg hm
  have hgn : g ∈ nameMolTypes shares dedup sys := List.mem_of_getElem? hg
  obtain ⟨r, hr, hk⟩ := shared_name_share shares dedup sys hhead i m g hm hg
  unfold itpFileOf
  rw [itpSource_eq _ g hgn]
  simp only [hr]
  rcases hk with rfl | ⟨_, hs⟩
  · rfl
  · exact (hw m (List.mem_of_getElem? hm) r (List.mem_of_getElem? hr) hs).symm

/-- the same for the model of the code under `ExactAttrs` (PDB and GRO records vs ITP atoms) -/
theorem system_records_agree_model (close : Val → Val → Bool)
    (hc : ∀ v, isNumeric v = true → close v v = true) (dedup : Bool) (sys : List Mol)
    (hex : ∀ a ∈ sys, ∀ b ∈ sys, ExactAttrs close a b) :
    (groups (nameMolTypes (shareMolType close) dedup sys)).flatMap
        (fun gc => (List.replicate gc.2
          (itpFileOf itpAtoms sys (nameMolTypes (shareMolType close) dedup sys) gc.1)).flatten)
      = sys.flatMap pdbRecords :=
  system_records_agree (shareMolType close) writeAtoms dedup sys
    (fun a ha b hb h => (share_implies_same_itp close a b (hex a ha b hb) h).2)
    (fun m0 _ => shareMolType_refl close hc m0)

/-! ## 7. non-vacuity and the boundary of `ExactAttrs` -/

section examples

private def at1 (key : Int) (name : String) (resid : Int) (charge : Int) (aid : Option Int) : Atom :=
  { key := key,
    attrs := (match aid with | some i => [("atomid", Val.int i)] | none => []) ++
      [("atomname", Val.str name), ("chain", Val.str "A"), ("charge", Val.num charge),
       ("resid", Val.int resid), ("resname", Val.str "ALA")] }

private def molA : Mol :=
  { nrexcl := some 1, ff := none, metadata := [], edges := [(0, 1)], inters := [("bonds", [⟨[0, 1], "p"⟩])],
    nodes := [at1 0 "A" 1 500000000000 (some 3), at1 1 "B" 1 0 (some 1), at1 2 "C" 2 0 (some 2)] }
/-- same as `molA` but another chain (ignored attribute) -/
private def molA' : Mol :=
  { molA with nodes := molA.nodes.map fun a => { a with attrs := a.attrs.map fun p => if p.1 == "chain" then (p.1, Val.str "B") else p } }
private def molB : Mol :=
  { nrexcl := some 1, ff := none, metadata := [], edges := [], inters := [], nodes := [at1 0 "X" 1 0 none] }
/-- `molA` with one charge 1e-9 higher: within the tolerance of `numpy.isclose` -/
private def molAclose : Mol :=
  { molA with nodes := [at1 0 "A" 1 500000001000 (some 3), at1 1 "B" 1 0 (some 1), at1 2 "C" 2 0 (some 2)] }
private def ion (resid : Int) : Mol :=
  { nrexcl := some 1, ff := none, metadata := [], edges := [], inters := [], nodes := [at1 0 "NA" resid 0 none] }

/-- atom ids 3, 1, 2 on nodes A, B, C: every writer lists B, C, A (input of finding F-C03-3) -/
example : (writeAtoms molA).map (·.atomname) = [Val.str "B", Val.str "C", Val.str "A"] := by decide
/-- interleaved identical chains A, B, A (input of finding F-C03-1): names 0 1 0, three groups,
two includes, ITPs from molecules 0 and 1 -/
example : nameMolTypes (shareMolType npClose) true [molA, molB, molA'] = [0, 1, 0]
    ∧ groups [0, 1, 0] = [(0, 1), (1, 1), (0, 1)] ∧ includes [0, 1, 0] = [0, 1]
    ∧ itpWrites [0, 1, 0] = [(0, 0), (1, 1)] := by
  refine ⟨by decide, ?_, ?_, ?_⟩ <;> simp [groups, includes, itpWrites, itpLoop, dictFromKeys]
/-- the hypotheses of `kth_record_agree_model` hold on that system -/
example : ∀ a ∈ [molA, molB, molA'], ∀ b ∈ [molA, molB, molA'], ExactAttrs npClose a b := by decide
example : HeadRefl (shareMolType npClose) [molA, molB, molA'] := by
  intro m0 h; simp at h; subst h; decide

/-- **F-C03-2 in the model** (`ExactAttrs` is necessary): residue numbers 100000 and 100001 are
`isclose`, the two molecules share a type, but their atom records differ; likewise charges 1e-9
apart give different ITP views under one name.  (Replayed on the real code by the `isclose` stream
of the harness and by corpus/design_probes/p15.py.) -/
example : shareMolType npClose (ion 100001) (ion 100000) = true
    ∧ writeAtoms (ion 100001) ≠ writeAtoms (ion 100000)
    ∧ ¬ ExactAttrs npClose (ion 100001) (ion 100000) := by decide
example : shareMolType npClose molAclose molA = true ∧ itpView molAclose ≠ itpView molA
    ∧ ¬ ExactAttrs npClose molAclose molA := by decide
/-- metadata that the ITP shows separates molecule types (input of the defect fixed by c19a3ae:
a position-restraint define and a line after the atoms on one of two otherwise equal molecules);
metadata the ITP does not show is not compared -/
private def molBposres : Mol :=
  { molB with metadata := [("define", [("POSRES_FC", [Val.int 1000])]), ("post_section_lines", [("atoms", [Val.str "; a"])])] }
private def molBnote : Mol := { molB with metadata := [("verif_note", [("x", [Val.str "y"])])] }
example : shareMolType npClose molBposres molB = false ∧ itpView molBposres ≠ itpView molB
    ∧ shareMolType npClose molBnote molB = true ∧ itpView molBnote = itpView molB
    ∧ nameMolTypes (shareMolType npClose) true [molBposres, molB, molBnote] = [0, 1, 1] := by decide
/-- falsy but legal values are values: residue number 0, charge 0 and an empty chain appear in the
records as they are (not as the writer's default), and residue number 0 is not residue number 1
nor a missing residue number for the molecule-type comparison -/
private def zeroAtom (resid : Val) : Atom :=
  { key := 0, attrs := [("atomname", Val.str "BB"), ("chain", Val.str ""), ("charge", Val.num 0),
                        ("charge_group", Val.int 0)] ++
      (match resid with | Val.none => [] | v => [("resid", v)]) ++ [("resname", Val.str "ALA")] }
private def zeroMol (resid : Val) : Mol :=
  { nrexcl := some 1, ff := none, metadata := [], edges := [], inters := [], nodes := [zeroAtom resid] }
example : writeAtoms (zeroMol (Val.int 0)) = [⟨Val.str "BB", Val.str "ALA", Val.int 0⟩]
    ∧ writeAtoms (zeroMol (Val.int (-1))) = [⟨Val.str "BB", Val.str "ALA", Val.int (-1)⟩]
    ∧ shareMolType npClose (zeroMol (Val.int 0)) (zeroMol (Val.int 0)) = true
    ∧ shareMolType npClose (zeroMol (Val.int 0)) (zeroMol (Val.int 1)) = false
    ∧ shareMolType npClose (zeroMol (Val.int 0)) (zeroMol Val.none) = false := by decide
/-- with the exact comparison the hypothesis is empty -/
example (m t : Mol) : ExactAttrs exactClose m t := by
  intro x _ y _ h; simpa [exactClose] using h

end examples

end C03
