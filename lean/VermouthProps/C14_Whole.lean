import VermouthProps.C14
import VermouthProofs.C14_Whole
/-!
# C14 — the whole loop of `fix_ptm`: composition theorems

`label_or_remove_full` composes the per-iteration facts of `VermouthProps/C14.lean` over the whole run:
for EVERY run of the model's `fixPtm`, every atom of a group that carries no annotation from the input is at
the end either removed, recorded in the removal list and named in a warning, or present, contained in exactly one
applied placement of the whole run (counting the placements of the cover searches AND those taken from input
annotations), that placement being a candidate of a fragment of ITS iteration, a reference placement on the
residue of that iteration (induced, anchors by name, added atoms by element of the INPUT atom), with the
canonical atom name and every `replace` attribute of its pattern node in the FINAL molecule, and the modification
of every placement of that iteration in `modifications` of every surviving atom of every residue the placement
touches.

Hypotheses: `m.keys.Nodup` (node keys of a graph are distinct) and `LogOk s.log` (every candidate list
recorded from the real matcher passed `candsOk`: printed by the driver for every run and compared by the
harness) — from which injectivity of the chosen placement and the node predicate are derived; `MAtom.WF`
(attribute dictionaries have distinct keys) for the pattern node.

Vocabulary: `placedIn log a` = number of applied placements (either kind) of the whole run that contain `a`;
`l.res / l.edges / l.groups / l.given` = residue, induced edges, groups and recorded candidate lists of the
iteration of log entry `l`; `EntryWF` = the entry is the outcome of `allowed` / `identify` on what it records;
`warnOf l` = the atoms named by the warning of a failed iteration.
-/
namespace C14
open Iso

/-- what the property demands of an initially flagged atom `a0` in the final state `s` -/
def ExplainedFull (mods : List Modif) (orig : List Atom) (a0 : Atom) (s : St) : Prop :=
  (a0.key ∉ s.mol.keys ∧ a0.key ∈ s.removed ∧ (∃ w ∈ s.warnings, a0.key ∈ w) ∧ placedIn s.log a0.key = 0)
  ∨ (∃ b ∈ s.mol.atoms, b.key = a0.key ∧ a0.key ∉ s.removed ∧ placedIn s.log a0.key = 1 ∧
      ∃ l ∈ s.log, ∃ used cov, l.result = some (used, cov) ∧ ∃ e ∈ cov, ∃ q ma,
        (a0.key, q) ∈ e.2 ∧ (modAt mods e.1).atom? q = some ma ∧ ma.ptm = true
        -- the chosen placement is a candidate of a fragment of ITS iteration, a reference placement on the
        -- residue of that iteration; the atom still carried the attributes of the input; elements agree
        ∧ (∃ f ∈ l.allowedMods.zip l.given, f.1 = e.1 ∧ e.2 ∈ f.2)
        ∧ e.2 ∈ refPlacements l.res l.edges (modAt mods e.1) ptmPred
        ∧ attrsAt l.res a0.key = some a0.attrs ∧ elemOf a0.attrs = elemOf ma.attrs
        -- canonical name and `replace` attributes in the FINAL molecule
        ∧ (∀ nm, nameOf ma.attrs = some nm → ma.WF → nameOf b.attrs = some (canonName ma nm))
        ∧ (∀ rep, ma.replace = some rep → ma.WF → ∀ kv ∈ rep, kv.1 ≠ "_old_atomname" →
            (aget b.attrs kv.1).getD none = kv.2)
        -- every residue the placement touches is a residue of the key, and all its surviving atoms are labelled
        ∧ (∀ x ∈ patoms e.2, ∀ c ∈ orig, c.key = x → c.resid ∈ l.key ∧
            ∀ b' ∈ s.mol.atoms, b'.resid = c.resid → ∀ e' ∈ used ++ cov, e'.1 ∈ b'.mods))

theorem explainedFull_of_full {mods : List Modif} {orig : List Atom} (horig : (orig.map (·.key)).Nodup)
    {a0 : Atom} {s : St} (hinv : Inv orig s) (h : Full mods orig a0 s) : ExplainedFull mods orig a0 s := by
  rcases h with h | ⟨hin, hnr, hcnt, l, used, cov, e, q, ma, att, hpl⟩
  · exact Or.inl h
  · right
    obtain ⟨b, hb⟩ := atomAt_of_mem_keys hin
    obtain ⟨hbm, hbk⟩ := atomAt_mem hb
    have hatt : b.attrs = att := by
      have := hpl.attrs
      unfold attrsAt at this
      rw [hb] at this
      simpa using this
    refine ⟨b, hbm, hbk, hnr, hcnt, l, hpl.inLog, used, cov, hpl.result, e, hpl.inCov, q, ma, hpl.pair, hpl.node,
      hpl.isPtm, hpl.cand, hpl.ref, hpl.before, hpl.elem, ?_, ?_, ?_⟩
    · rw [hatt]; exact hpl.name
    · rw [hatt]; exact hpl.repl
    · intro x hx c hc hcx
      have hxin := hpl.inside x hx
      unfold nIdxsOf at hxin
      obtain ⟨c', hc', hck⟩ := List.mem_map.1 hxin
      obtain ⟨hc'o, hc'r⟩ := List.mem_filter.1 hc'
      have : c' = c := eq_of_key_eq horig hc'o hc (hck.trans hcx.symm)
      subst this
      have hres : c'.resid ∈ l.key := by simpa using hc'r
      refine ⟨hres, ?_⟩
      intro b' hb' hbr e' he'
      apply hpl.labels b' hb' _ e' he'
      have : imm b' ∈ orig.map imm := hinv.subset (List.mem_map.2 ⟨b', hb', rfl⟩)
      obtain ⟨b0, hb0, hib⟩ := List.mem_map.1 this
      have hk0 : b0.key = b'.key := congrArg Prod.fst hib
      have hr0 : b0.resid = b'.resid := congrArg (fun x => x.2.1) hib
      unfold nIdxsOf
      refine List.mem_map.2 ⟨b0, List.mem_filter.2 ⟨hb0, ?_⟩, hk0⟩
      rw [hr0, hbr]
      simpa using hres

/-- `label_or_remove_full` — the composition over the whole loop of `fix_ptm` (T1 + T2).  For every
molecule with distinct node keys, every library and every recorded candidate lists: `fix_ptm` returns, and if
all recorded candidate lists passed `candsOk`, then every atom of every group without input annotations (all
such atoms are flagged `PTM_atom`) is `ExplainedFull`: removed + listed in `removed` + named in a warning + in no
applied placement; or present, in exactly ONE applied placement of the whole run, which was chosen by the cover
search of its own iteration among the candidates of that iteration (a reference placement on that iteration's
residue: induced, anchors by name, added atoms by element), matched on an added atom of the modification with
the element of the input atom, carrying in the FINAL molecule the canonical name of that pattern node
(`canonName`: its `atomname`, or the `replace` entry for `atomname`) and every `replace` attribute, and every
surviving atom of every residue the placement touches lists the modification of every placement applied in that
iteration. -/
theorem label_or_remove_full (m : Mol) (mods : List Modif) (given : List (List (List Placement)))
    (hk : m.keys.Nodup) :
    ∃ s, fixPtm m mods given = .done s ∧ (LogOk s.log →
      ∀ g ∈ groupsOf m, usedOf (annotOf m.atoms) g = [] → ∀ a0 ∈ m.atoms, a0.key ∈ g.atoms →
        ExplainedFull mods m.atoms a0 s) := by
  have hanch := anchors_not_extra m hk
  obtain ⟨s, hs, _, _⟩ := removal_is_reported m mods given
  refine ⟨s, hs, ?_⟩
  intro hok g hg hu a0 ha0 hag
  obtain ⟨hperm, hnd, hiff, _⟩ := groups_partition m hk
  have hflat : atomsOf (groupsOf m) = (findPtmGroups m).flatMap (·.1) := by
    unfold atomsOf groupsOf
    rw [List.flatMap_map]
  have haex : a0.key ∈ m.extra := by
    rw [hiff a0.key]
    obtain ⟨g', hg', rfl⟩ := List.mem_map.1 hg
    exact ⟨g', hg', hag⟩
  have hmods : a0.mods = [] := by
    have h1 := dedupNat_eq_nil hu
    rw [List.flatMap_eq_nil_iff] at h1
    have := h1 _ hag
    rwa [annotOf_eq m.atoms hk ha0] at this
  have hp : a0.ptm = true := by
    obtain ⟨a1, ha1f, hk1⟩ := List.mem_map.1 haex
    obtain ⟨ha1, hex1⟩ := List.mem_filter.1 ha1f
    have : a1 = a0 := eq_of_key_eq hk ha1 ha0 hk1
    subst this
    simp only [isExtra, hmods, List.isEmpty_nil, Bool.not_true, Bool.or_false] at hex1
    exact hex1
  have hpermI := iterations_perm m
  have hnd' : (atomsOf ((iterations m).flatMap (·.2))).Nodup := by
    have : (atomsOf ((iterations m).flatMap (·.2))).Perm (atomsOf (groupsOf m)) := by
      unfold atomsOf
      exact List.Perm.flatMap_right _ hpermI
    rw [this.nodup_iff, hflat]
    exact hnd
  have hanch' : ∀ it ∈ iterations m, ∀ g ∈ it.2, a0.key ∉ g.anchors := by
    intro it hit g' hg'
    have : g' ∈ groupsOf m := hpermI.subset (List.mem_flatMap.2 ⟨it, hit, hg'⟩)
    obtain ⟨g'', hg'', rfl⟩ := List.mem_map.1 this
    exact fun hx => hanch g'' hg'' _ hx haex
  have hex : ∃ it ∈ iterations m, ∃ g ∈ it.2, usedOf (annotOf m.atoms) g = [] ∧ a0.key ∈ g.atoms := by
    obtain ⟨it, hit, hgi⟩ := List.mem_flatMap.1 (hpermI.symm.subset hg)
    exact ⟨it, hit, g, hgi, hu, hag⟩
  obtain ⟨s', hs', hinv', hfull⟩ := runIters_full mods m.atoms hk ha0 hp (iterations m)
    { mol := m, removed := [], warnings := [], log := [] } given
    (List.Sublist.refl _) (List.mem_map.2 ⟨a0, ha0, rfl⟩) (by simp) rfl (attrsAt_self hk ha0) hnd' hanch' hex
  unfold fixPtm at hs
  rw [hs] at hs'
  cases hs'
  exact explainedFull_of_full hk hinv' (hfull hok)

/-- the ordinary case spelled out: a molecule without annotations from `modify`: EVERY flagged atom is
`ExplainedFull` -/
theorem label_or_remove_full_flagged (m : Mol) (mods : List Modif) (given : List (List (List Placement)))
    (hk : m.keys.Nodup) (hno : ∀ b ∈ m.atoms, b.mods = []) :
    ∃ s, fixPtm m mods given = .done s ∧ (LogOk s.log →
      ∀ a0 ∈ m.atoms, a0.ptm = true → ExplainedFull mods m.atoms a0 s) := by
  obtain ⟨s, hs, hall⟩ := label_or_remove_full m mods given hk
  refine ⟨s, hs, ?_⟩
  intro hok a0 ha0 hp
  obtain ⟨_, _, hiff, _⟩ := groups_partition m hk
  obtain ⟨g', hg', hag⟩ := (hiff a0.key).1 (flagged_is_extra m a0 ha0 hp)
  refine hall hok ⟨g'.1, g'.2⟩ (List.mem_map.2 ⟨g', hg', rfl⟩) ?_ a0 ha0 hag
  unfold usedOf
  have : (List.flatMap (annotOf m.atoms) g'.1) = [] := by
    rw [List.flatMap_eq_nil_iff]
    intro x _
    unfold annotOf
    cases hf : m.atoms.find? (fun a => a.key == x) with
    | none => rfl
    | some y => simp [hno y (List.mem_of_find?_eq_some hf)]
  simp [this, dedupNat]

/-! ## what the log records (T2) and the warnings (T3) -/

/-- the run as a whole: final `Inv` and `Shape`, and the log lists the iterations in order -/
theorem run_shape (m : Mol) (mods : List Modif) (given : List (List (List Placement))) (hk : m.keys.Nodup) :
    ∃ s, fixPtm m mods given = .done s ∧ Inv m.atoms s ∧ Shape mods m.atoms s
      ∧ s.log.map (fun l => (l.key, l.groups)) = iterations m := by
  obtain ⟨s, hs, hinv, hsh, ext, hext, hmap⟩ := runIters_shape mods m.atoms hk (iterations m)
    { mol := m, removed := [], warnings := [], log := [] } given (List.Sublist.refl _) (shape_init mods m)
  refine ⟨s, hs, hinv, hsh, ?_⟩
  rw [hext]
  simpa using hmap

/-- `log_records_iterations` (T2): the log of a run has one entry per iteration of the loop, in order, with the
key and the groups of that iteration; every entry is the outcome of `allowed_ptms` (`allowed`), the comparison
`candsOk` and `identify_ptms` on the residue (atoms of the residues of the key that still exist), the groups and
the candidate lists it records; and every placement chosen by a cover search is a candidate of a fragment of ITS
iteration — a reference placement (induced, anchors by name, added atoms by element, injective, inside the
residue: `refPlacements_spec`, `refPlacements_mem`) when the entry passed `candsOk`. -/
theorem log_records_iterations (m : Mol) (mods : List Modif) (given : List (List (List Placement)))
    (hk : m.keys.Nodup) :
    ∃ s, fixPtm m mods given = .done s
      ∧ s.log.map (fun l => (l.key, l.groups)) = iterations m
      ∧ (∀ l ∈ s.log, EntryWF mods m.atoms l)
      ∧ ∀ l ∈ s.log, ∀ used cov, l.result = some (used, cov) → ∀ e ∈ cov,
          (∃ f ∈ l.allowedMods.zip l.given, f.1 = e.1 ∧ e.2 ∈ f.2)
          ∧ (l.candsOk = true → e.2 ∈ refPlacements l.res l.edges (modAt mods e.1) ptmPred
              ∧ (patoms e.2).Nodup ∧ ∀ tq ∈ e.2, tq.1 ∈ l.res.map (·.key)
                ∧ ptmPred l.res (modAt mods e.1) tq.2 tq.1 = true) := by
  obtain ⟨s, hs, _, hsh, hmap⟩ := run_shape m mods given hk
  refine ⟨s, hs, hmap, hsh.wf, ?_⟩
  intro l hl used cov hres e he
  obtain ⟨hal, hco, _, hid⟩ := hsh.wf l hl
  rw [hres] at hid
  simp only at hid
  have hspec := identify_spec l.res l.edges mods (annotOf m.atoms) l.groups (l.allowedMods.zip l.given)
  rw [hid] at hspec
  obtain ⟨f, hf, hf1, hf2⟩ := hspec.2.2 e he
  refine ⟨⟨f, hf, hf1, hf2⟩, ?_⟩
  intro hok
  rw [hco] at hok
  rw [hal] at hf
  have href : e.2 ∈ refPlacements l.res l.edges (modAt mods e.1) ptmPred := by
    rw [← hf1]
    exact (candsOk_spec l.res l.edges mods l.given hok f hf e.2).1 hf2
  obtain ⟨h1, h2, _⟩ := refPlacements_mem href
  exact ⟨href, h1, h2⟩

/-- `removed_implies_warned` (T3), whole run.  The code emits ONE record at warning level per iteration of the
loop that ends in `KeyError` (not one per group, not one per atom): the warnings are, in order, the atoms named
for the failed iterations (`warnOf`: what the mutated sets of `identify_ptms` hold when it raises), so
`#warnings = #failed iterations`; the records carry the residue names and `atomid-atomname` of those atoms;
the removal list is, in order, a sub-list of the atoms named by the warnings; an atom is absent from the final
molecule iff it is in the removal list; every removed atom was flagged `PTM_atom` in the input and is named by the
warning of a failed iteration, and every flagged atom named by a warning has been removed. -/
theorem removed_implies_warned (m : Mol) (mods : List Modif) (given : List (List (List Placement)))
    (hk : m.keys.Nodup) :
    ∃ s, fixPtm m mods given = .done s
      ∧ s.warnings = s.log.filterMap (warnOf mods m.atoms)
      ∧ s.warnings.length = s.log.countP (fun l => l.result.isNone)
      ∧ s.log.length = (iterations m).length
      ∧ s.wlog.map (fun w => w.atoms.map Prod.fst) = s.warnings
      ∧ s.removed.Sublist (s.warnings.flatMap id)
      ∧ (∀ a ∈ m.atoms, a.key ∉ s.mol.keys ↔ a.key ∈ s.removed)
      ∧ (∀ x ∈ s.removed, (∃ a ∈ m.atoms, a.key = x ∧ a.ptm = true) ∧ ∃ w ∈ s.warnings, x ∈ w)
      ∧ (∀ w ∈ s.warnings, ∀ a ∈ m.atoms, a.key ∈ w → a.ptm = true → a.key ∈ s.removed) := by
  obtain ⟨s, hs, _, hsh, hmap⟩ := run_shape m mods given hk
  have hmem : ∀ w, w ∈ s.warnings ↔ ∃ l ∈ s.log, warnOf mods m.atoms l = some w := by
    intro w
    rw [hsh.warns, List.mem_filterMap]
  refine ⟨s, hs, hsh.warns, ?_, ?_, hsh.wlog, hsh.removed, ?_, ?_, ?_⟩
  · rw [hsh.warns]
    have hwf := hsh.wf
    generalize s.log = log at hwf
    induction log with
    | nil => rfl
    | cons l log ih =>
      have ih' := ih (fun l' hl' => hwf l' (List.mem_cons_of_mem _ hl'))
      obtain ⟨_, _, _, hid⟩ := hwf l (by simp)
      rw [List.filterMap_cons, List.countP_cons]
      cases hr : l.result with
      | some uc =>
        have : warnOf mods m.atoms l = none := by unfold warnOf; rw [hr]
        rw [this]
        simp [ih']
      | none =>
        rw [hr] at hid
        obtain ⟨rm, hrm⟩ := hid
        have : warnOf mods m.atoms l = some rm := by unfold warnOf; rw [hr]; simp only [hrm]
        rw [this]
        simp [ih']
  · have := congrArg List.length hmap
    simpa using this
  · intro a ha
    exact ⟨hsh.only a ha, fun h => (hsh.gone _ h).1⟩
  · intro x hx
    refine ⟨(hsh.gone x hx).2, ?_⟩
    obtain ⟨l, hl, rm, hw, hxr⟩ := hsh.removedFrom x hx
    exact ⟨rm, (hmem rm).2 ⟨l, hl, hw⟩, hxr⟩
  · intro w hw a ha haw hap
    obtain ⟨l, hl, hwl⟩ := (hmem w).1 hw
    exact hsh.removedAll l hl w hwl a ha haw hap

/-- `iteration_outcome` (T3): label-or-remove for EVERY group, in particular for groups annotated by `modify`
(`usedOf ≠ []`).  Each group belongs to exactly one log entry `l` (its iteration).  Either that iteration was
identified: no atom of the group has been removed, every atom of the group is in an applied placement — for an
annotated group one taken from the input annotations (`used`: the unique induced placement by atom name of an
annotated modification inside the group) — and the modification of every applied placement is listed on every
surviving atom of the residues of the key; or the iteration failed: exactly the warning `warnOf l` was emitted
for it, and an atom of the group has been removed IFF it is flagged `PTM_atom` and named by that warning
(recognised atoms that merely carry an annotation stay: F-C14-5).  For a group without annotations every atom
is named by the warning (`label_or_remove_full`); for an annotated group the warning does not name the atoms
the annotation explained (the set is emptied in place), see `annotated_flagged_kept_witness`. -/
theorem iteration_outcome (m : Mol) (mods : List Modif) (given : List (List (List Placement)))
    (hk : m.keys.Nodup) :
    ∃ s, fixPtm m mods given = .done s ∧
      ∀ g ∈ groupsOf m, ∃ l ∈ s.log, g ∈ l.groups ∧
        ((∃ used cov, l.result = some (used, cov)
            ∧ (∀ a0 ∈ m.atoms, a0.key ∈ g.atoms → a0.key ∈ s.mol.keys)
            ∧ (∀ a ∈ g.atoms, ∃ e ∈ used ++ cov, a ∈ patoms e.2)
            ∧ (usedOf (annotOf m.atoms) g ≠ [] → ∀ a ∈ g.atoms, ∃ e ∈ used, a ∈ patoms e.2)
            ∧ ∀ b ∈ s.mol.atoms, b.key ∈ nIdxsOf m.atoms l.key → ∀ e ∈ used ++ cov, e.1 ∈ b.mods)
        ∨ (∃ rm, l.result = none ∧ warnOf mods m.atoms l = some rm ∧ rm ∈ s.warnings
            ∧ (usedOf (annotOf m.atoms) g = [] → ∀ a ∈ g.atoms, a ∈ rm)
            ∧ ∀ a0 ∈ m.atoms, a0.key ∈ g.atoms →
                (a0.key ∉ s.mol.keys ↔ (a0.ptm = true ∧ a0.key ∈ rm)))) := by
  obtain ⟨s, hs, _, hsh, hmap⟩ := run_shape m mods given hk
  refine ⟨s, hs, ?_⟩
  intro g hg
  have hpermI := iterations_perm m
  obtain ⟨_, hnd, _, _⟩ := groups_partition m hk
  have hflat : atomsOf (groupsOf m) = (findPtmGroups m).flatMap (·.1) := by
    unfold atomsOf groupsOf
    rw [List.flatMap_map]
  -- the atoms of the groups of the log entries are pairwise disjoint
  have hlognd : (s.log.flatMap fun l => atomsOf l.groups).Nodup := by
    have h1 : (s.log.flatMap fun l => atomsOf l.groups) = atomsOf ((iterations m).flatMap (·.2)) := by
      rw [← hmap]
      unfold atomsOf
      rw [List.flatMap_map, List.flatMap_assoc]
    rw [h1]
    have : (atomsOf ((iterations m).flatMap (·.2))).Perm (atomsOf (groupsOf m)) := by
      unfold atomsOf
      exact List.Perm.flatMap_right _ hpermI
    rw [this.nodup_iff, hflat]
    exact hnd
  obtain ⟨it, hit, hgi⟩ := List.mem_flatMap.1 (hpermI.symm.subset hg)
  rw [← hmap] at hit
  obtain ⟨l, hl, rfl⟩ := List.mem_map.1 hit
  simp only at hgi
  refine ⟨l, hl, hgi, ?_⟩
  obtain ⟨hal, _, _, hid⟩ := hsh.wf l hl
  have hspec := identify_spec l.res l.edges mods (annotOf m.atoms) l.groups (l.allowedMods.zip l.given)
  -- an atom of `g` that has been removed is named by the warning of `l`
  have hfrom : ∀ a ∈ g.atoms, a ∈ s.removed → ∃ rm, warnOf mods m.atoms l = some rm ∧ a ∈ rm := by
    intro a hag har
    obtain ⟨l', hl', rm, hw, harm⟩ := hsh.removedFrom a har
    have hsub : a ∈ atomsOf l'.groups := by
      obtain ⟨_, _, _, hid'⟩ := hsh.wf l' hl'
      unfold warnOf at hw
      cases hr' : l'.result with
      | some uc => rw [hr'] at hw; cases hw
      | none =>
        rw [hr'] at hw hid'
        obtain ⟨rm', hrm'⟩ := hid'
        simp only [hrm', Option.some.injEq] at hw
        subst hw
        have hb := identify_bounds l'.res l'.edges mods (annotOf m.atoms) l'.groups (l'.allowedMods.zip l'.given)
        rw [hrm'] at hb
        exact hb a harm
    have : l' = l := flatMap_unique hlognd hl' hl hsub (mem_atomsOf hgi hag)
    subst this
    exact ⟨rm, hw, harm⟩
  cases hr : l.result with
  | some uc =>
    obtain ⟨used, cov⟩ := uc
    left
    rw [hr] at hid
    simp only at hid
    rw [hid] at hspec
    refine ⟨used, cov, rfl, ?_, hspec.1 g hgi, identify_annotated _ _ _ _ _ _ _ _ hid g hgi,
      hsh.labels l hl used cov hr⟩
    intro a0 ha0 hag
    apply Classical.byContradiction
    intro hna
    obtain ⟨rm, hw, _⟩ := hfrom a0.key hag (hsh.only a0 ha0 hna)
    unfold warnOf at hw
    rw [hr] at hw
    cases hw
  | none =>
    right
    rw [hr] at hid
    obtain ⟨rm, hrm⟩ := hid
    have hw : warnOf mods m.atoms l = some rm := by unfold warnOf; rw [hr]; simp only [hrm]
    rw [hrm] at hspec
    refine ⟨rm, rfl, hw, ?_, hspec g hgi, ?_⟩
    · rw [hsh.warns, List.mem_filterMap]
      exact ⟨l, hl, hw⟩
    · intro a0 ha0 hag
      constructor
      · intro hna
        have har := hsh.only a0 ha0 hna
        obtain ⟨rm', hw', harm⟩ := hfrom a0.key hag har
        rw [hw] at hw'
        cases hw'
        obtain ⟨a1, ha1, hk1, hp1⟩ := (hsh.gone _ har).2
        have : a1 = a0 := eq_of_key_eq hk ha1 ha0 hk1
        subst this
        exact ⟨hp1, harm⟩
      · intro ⟨hp, harm⟩
        exact (hsh.gone _ (hsh.removedAll l hl rm hw a0 ha0 harm hp)).1

/-! ## the processor object -/

/-- `processor_stateless`: whatever a `CanonicalizeModifications` instance has processed before, the result of a
call depends only on the molecule of that call and the modifications of ITS force field at that moment: the
outcomes of a history of calls on one instance are, call by call, those of `fix_ptm` on each job alone — equal
to what a fresh instance returns for the job.  (The real class is compared with this on histories of 2-3
molecules whose force fields have equal names and different modification sets.) -/
theorem processor_stateless (p : Proc) (js : List Job) :
    (p.runHistory js).2 = js.map (fun j => fixPtm j.1 j.2.1 j.2.2)
    ∧ ∀ (pre post : List Job) (j : Job), js = pre ++ j :: post →
        (p.runHistory js).2[pre.length]? = some ((Proc.mk).runMolecule j).2 := by
  have h : ∀ (p : Proc) (js : List Job), (p.runHistory js).2 = js.map (fun j => fixPtm j.1 j.2.1 j.2.2) := by
    intro p js
    induction js generalizing p with
    | nil => rfl
    | cons j js ih =>
      simp only [Proc.runHistory, List.map_cons]
      rw [ih]
      rfl
  refine ⟨h p js, ?_⟩
  intro pre post j hjs
  rw [h, hjs]
  simp [Proc.runMolecule]

/-! ## non-vacuity and witnesses -/

/-- `exNH` on residue `N(0) – X7(7)`: one flagged atom, one candidate -/
def exMol : Mol := { atoms := exAtoms, edges := [(0, 7)] }

def exGiven : List (List (List Placement)) := [[[[(0, 0), (7, 1)]]]]

/-- the hypotheses of `label_or_remove_full` are satisfiable, and its conclusion is what one sees: distinct
keys, the recorded candidates pass `candsOk`, the flagged atom ends up with the name `HN2` (the `replace` entry
of the pattern node `H2`), `_old_atomname = H2`, and both atoms of residue 1 are labelled -/
example : exMol.keys.Nodup ∧
    (match fixPtm exMol [exNH] exGiven with
     | .done s => decide (LogOk s.log) && placedIn s.log 7 == 1 && s.removed.isEmpty
        && s.mol.atoms.all (fun b => b.mods == [0])
        && (s.mol.atoms.find? (·.key == 7)).any (fun b => nameOf b.attrs == some (some "HN2")
              && aget b.attrs "_old_atomname" == some (some "H2"))
     | _ => false) = true := by
  refine ⟨by decide, by decide +kernel⟩

/-- `MAtom.WF` holds for the pattern node of the example -/
example : (MAtom.mk 1 true [("atomname", some "H2"), ("element", some "H")] (some [("atomname", some "HN2")])).WF :=
  ⟨by decide, fun rep h => by cases h; decide⟩

/-- the removal branch of `ExplainedFull` is inhabited: an unknown element, nothing in the library fits -/
def exMolUnknown : Mol :=
  { atoms := [Atom.mk 0 1 false false [] [("atomname", some "N"), ("resname", some "ALA")],
              Atom.mk 7 1 true false [] [("atomname", some "X7"), ("element", some "P")]],
    edges := [(0, 7)] }

example : (match fixPtm exMolUnknown [exNH] [[]] with
     | .done s => decide (LogOk s.log) && s.removed == [7] && s.warnings == [[7]] && s.mol.keys == [0]
        && s.wlog == [{ residues := ["ALA1"], atoms := [(7, some "X7")] }]
     | _ => false) = true := by decide +kernel

/-- F-C14-6 (witness, replayed on the real code by the harness).  Residue 1 = N CA C O CB; the modification
`M` (anchor CB, added atoms HX, HY in a chain) is annotated on CB and HX; HY carries the canonical name but is
flagged `PTM_atom` and not annotated; a second, unknown group (element P on N) shares the residue. -/
def exM : Modif :=
  { name := "M",
    atoms := [MAtom.mk 0 false [("atomname", some "CB"), ("element", some "C")] none,
              MAtom.mk 1 true [("atomname", some "HX"), ("element", some "H")] none,
              MAtom.mk 2 true [("atomname", some "HY"), ("element", some "H")] none],
    edges := [(0, 1), (1, 2)] }

def exMolAnnot : Mol :=
  { atoms := [Atom.mk 0 1 false false [] [("atomname", some "N"), ("element", some "N"), ("resname", some "ALA")],
              Atom.mk 1 1 false false [] [("atomname", some "CA"), ("element", some "C"), ("resname", some "ALA")],
              Atom.mk 2 1 false false [] [("atomname", some "C"), ("element", some "C"), ("resname", some "ALA")],
              Atom.mk 3 1 false false [] [("atomname", some "O"), ("element", some "O"), ("resname", some "ALA")],
              Atom.mk 4 1 false false [0] [("atomname", some "CB"), ("element", some "C"), ("resname", some "ALA")],
              Atom.mk 5 1 false false [0] [("atomname", some "HX"), ("element", some "H"), ("resname", some "ALA")],
              Atom.mk 6 1 true false [] [("atomname", some "HY"), ("element", some "H"), ("resname", some "ALA")],
              Atom.mk 7 1 true false [] [("atomname", some "X8"), ("element", some "P"), ("resname", some "ALA")]],
    edges := [(0, 1), (1, 2), (2, 3), (1, 4), (4, 5), (5, 6), (0, 7)] }

/-- both groups have key `[1]`: one iteration (`mergeSort` on two elements does not reduce in the kernel) -/
theorem iterations_exMolAnnot :
    iterations exMolAnnot = [([1], [⟨[6, 5, 4], [1]⟩, ⟨[7], [0]⟩])] := by
  unfold iterations
  simp only []
  have h : ((findPtmGroups exMolAnnot).map fun g => ({ atoms := g.1, anchors := g.2 } : Group)).map
      (fun g => (groupKey exMolAnnot g, g)) = [([1], ⟨[6, 5, 4], [1]⟩), ([1], ⟨[7], [0]⟩)] := by decide
  rw [h, mergeSort_pair]
  decide

/-- `annotated_flagged_kept_witness`: the annotation explains the whole group {CB, HX, HY}, the set of the
group is emptied in place, then the cover search fails on the other group: the warning names only atom 7, which
is removed; the flagged atom 6 (HY) stays in the molecule, is named by no warning, lies in no applied
placement and carries no `modifications` label — for an annotated group the property's "labelled or removed with
a warning" fails on this input (the statement of `label_or_remove_full` restricted to groups without
annotations cannot be extended to annotated groups). -/
theorem annotated_flagged_kept_witness :
    exMolAnnot.keys.Nodup ∧
    (match fixPtm exMolAnnot [exM] [[]] with
     | .done s => decide (LogOk s.log) && s.warnings == [[7]] && s.removed == [7]
        && s.mol.keys.contains 6 && placedIn s.log 6 == 0
        && (s.mol.atoms.find? (·.key == 6)).any (fun b => b.ptm && b.mods.isEmpty)
     | _ => false) = true := by
  refine ⟨by decide, ?_⟩
  unfold fixPtm
  rw [iterations_exMolAnnot]
  decide +kernel

/-- ... while without the second group the same atom is labelled (the annotation is applied) -/
example :
    (match fixPtm { exMolAnnot with atoms := exMolAnnot.atoms.filter (·.key != 7),
                                    edges := exMolAnnot.edges.filter (·.2 != 7) } [exM] [[]] with
     | .done s => s.warnings.isEmpty && placedIn s.log 6 == 1
        && (s.mol.atoms.find? (·.key == 6)).any (fun b => b.mods == [0])
     | _ => false) = true := by decide +kernel

/-- edges join nodes of the graph -/
def EdgesOk (m : Mol) : Prop := ∀ e ∈ m.edges, e.1 ∈ m.keys ∧ e.2 ∈ m.keys

instance (m : Mol) : Decidable (EdgesOk m) := by unfold EdgesOk; infer_instance

/-- `residue_name_no_fallback`: the `str(resid)` fallback of `_residue_name` (every atom of the residue removed)
is dead code.  Every resid of the key of an iteration is the resid of an anchor of one of its groups; that atom
is in the molecule, is not flagged, is never removed and is never in the removal list — so the search of
`_residue_name` for an atom of the residue that has not been removed always succeeds. -/
theorem residue_name_no_fallback (m : Mol) (mods : List Modif) (given : List (List (List Placement)))
    (hk : m.keys.Nodup) (he : EdgesOk m) :
    ∃ s, fixPtm m mods given = .done s ∧
      ∀ it ∈ iterations m, ∀ resid ∈ it.1,
        ∃ a ∈ m.atoms, a.resid = resid ∧ a.ptm = false ∧ a.key ∈ s.mol.keys ∧ a.key ∉ s.removed := by
  obtain ⟨s, hs, _, hsh, _⟩ := run_shape m mods given hk
  obtain ⟨s', hs', hkept⟩ := template_atoms_kept m mods given hk
  rw [hs] at hs'
  cases hs'
  refine ⟨s, hs, ?_⟩
  intro it hit resid hres
  unfold iterations at hit
  simp only [] at hit
  obtain ⟨hne, hall⟩ := groupRuns_mem _ it hit
  obtain ⟨g, hg⟩ := List.exists_mem_of_ne_nil _ hne
  have hmem := (List.mergeSort_perm _ _).subset (hall g hg)
  obtain ⟨g', hg', heq⟩ := List.mem_map.1 hmem
  simp only [Prod.mk.injEq] at heq
  obtain ⟨hkey, rfl⟩ := heq
  obtain ⟨g0, hg0, rfl⟩ := List.mem_map.1 hg'
  rw [← hkey] at hres
  unfold groupKey at hres
  rw [mem_sortInts] at hres
  obtain ⟨x, hx, hrx⟩ := List.mem_map.1 hres
  simp only at hx
  obtain ⟨hnex, y, _, hadj⟩ := (traversal_complete m hk g0 hg0).2.2 x hx
  obtain ⟨_, e, hee, hends⟩ := mem_adjOf.1 hadj
  have hxk : x ∈ m.keys := by
    rcases hends with ⟨_, h2⟩ | ⟨_, h2⟩
    · rw [← h2]; exact (he e hee).2
    · rw [← h2]; exact (he e hee).1
  obtain ⟨a, ha, hak⟩ := List.mem_map.1 hxk
  have hatom : m.atom? x = some a := by
    unfold Mol.atom?
    cases hf : m.atoms.find? (fun b => b.key == x) with
    | none =>
      have := List.find?_eq_none.1 hf a ha
      simp [hak] at this
    | some b =>
      have hb : b ∈ m.atoms := List.mem_of_find?_eq_some hf
      have hkb : b.key = x := by simpa using List.find?_some hf
      rw [eq_of_key_eq hk hb ha (hkb.trans hak.symm)]
  have hresid : a.resid = resid := by
    rw [← hrx]
    unfold residOf
    rw [hatom]
    rfl
  have hptm : a.ptm = false := by
    cases hp : a.ptm with
    | false => rfl
    | true => exact absurd (hak ▸ flagged_is_extra m a ha hp) hnex
  have hin := hkept a ha hptm
  exact ⟨a, ha, hresid, hptm, hin, fun hr => (hsh.gone _ hr).1 hin⟩

example : EdgesOk exMolAnnot := by decide

end C14
