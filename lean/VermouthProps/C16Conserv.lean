import VermouthProps.C16Merge
import VermouthProofs.C16_File
/-!
# C16 — the full reader agrees with the base reader

`readPdbX` (complete record table, MODEL, CRYST1, nan, charges, merging CONECT;
`VermouthModel/C16_Full.lean`) returns, on every file the base reader `readPdb` reads
successfully, the same molecules with the same atoms and the same bonds — so every round-trip
theorem stated for `readPdb` holds for the full reader as well (`readPdbX_conservative`).
-/
namespace C16
open Std

def liftAtom (a : PAtom) : PAtomX := ⟨a, (false, false, false), (0, 0)⟩
def liftMol (m : List PAtom) : MolR := ⟨m.map liftAtom, [], none⟩

/-- put the bonds `(molecule, i, j)` into their molecules, in order -/
def addBonds (mols : List MolR) (bs : List (Nat × Nat × Nat)) : List MolR :=
  bs.foldl (fun ms b => ms.modify b.1 (fun m => { m with edges := m.edges ++ [(b.2.1, b.2.2)] })) mols

/-- the result of the base reader as the full reader presents it -/
def liftResult (r : PdbResult) : List MolR := addBonds (r.mols.map liftMol) r.bonds

def liftState (st : PState) : PStateX :=
  ⟨st.active.map liftAtom, st.mols.map liftMol, st.conects, false, []⟩

/-- the record names the base model knows as "ignored" are bound to `_skip` in the class -/
def baseSkipOk (X : PdbLayoutX) : Prop :=
  "remark".toList ∈ X.skipRecords ∧ "title".toList ∈ X.skipRecords ∧ "header".toList ∈ X.skipRecords ∧
  "anisou".toList ∈ X.skipRecords ∧ "master".toList ∈ X.skipRecords

theorem skipNames_ne : ∀ r : List Char,
    (r = "remark".toList ∨ r = "title".toList ∨ r = "header".toList ∨ r = "anisou".toList ∨ r = "master".toList) →
    r ≠ "model".toList ∧ r ≠ "cryst1".toList := by
  intro r h
  rcases h with h | h | h | h | h <;> (subst h; exact ⟨by decide, by decide⟩)

theorem classify_X (X : PdbLayoutX) (hs : baseSkipOk X) (line : List Char) :
    (classify line = .atom → classifyX X line = .atom) ∧ (classify line = .finish → classifyX X line = .finish) ∧
    (classify line = .conect → classifyX X line = .conect) ∧ (classify line = .skip → classifyX X line = .skip) := by
  unfold classify classifyX
  simp only []
  generalize (strip (line.take 6)).map toLower = r
  by_cases h1 : r = "atom".toList ∨ r = "hetatm".toList
  · rw [if_pos h1, if_pos h1]
    exact ⟨fun _ => rfl, nofun, nofun, nofun⟩
  · rw [if_neg h1, if_neg h1]
    by_cases h2 : r = "ter".toList ∨ r = "end".toList ∨ r = "endmdl".toList
    · rw [if_pos h2, if_pos h2]
      exact ⟨nofun, fun _ => rfl, nofun, nofun⟩
    · rw [if_neg h2, if_neg h2]
      by_cases h3 : r = "conect".toList
      · rw [if_pos h3, if_pos h3]
        exact ⟨nofun, nofun, fun _ => rfl, nofun⟩
      · rw [if_neg h3, if_neg h3]
        by_cases h4 : r = "remark".toList ∨ r = "title".toList ∨ r = "header".toList ∨ r = "anisou".toList ∨
            r = "master".toList
        · rw [if_pos h4]
          obtain ⟨hm, hc⟩ := skipNames_ne r h4
          rw [if_neg hm, if_neg hc]
          have hmem : r ∈ X.skipRecords := by
            obtain ⟨s1, s2, s3, s4, s5⟩ := hs
            rcases h4 with h | h | h | h | h <;> (rw [h]; assumption)
          have : X.skipRecords.contains r = true := by simpa using hmem
          rw [if_pos this]
          exact ⟨nofun, nofun, nofun, fun _ => rfl⟩
        · rw [if_neg h4]
          exact ⟨nofun, nofun, nofun, nofun⟩

def liftRes : AtomResult → Option PAtomX
  | .keep a => some (liftAtom a)
  | .skip => none

theorem pdbAtomOfProps_X (excl : List (List Char)) (ignh : Bool) (p : Props) (res : AtomResult)
    (h : pdbAtomOfProps excl ignh p = .ok res) :
    pdbAtomOfPropsX excl ignh p = .ok (liftRes res) := by
  unfold pdbAtomOfProps at h
  unfold pdbAtomOfPropsX
  by_cases hc : p.str .charge ≠ []
  · simp [hc, bind, Except.bind, throw, throwThe, MonadExceptOf.throw] at h
  · have hc' : p.str .charge = [] := by simpa using hc
    by_cases hn : p.isNan .x = true ∨ p.isNan .y = true ∨ p.isNan .z = true ∨ p.isNan .occupancy = true ∨
        p.isNan .temp_factor = true
    · simp [hc, hn, bind, Except.bind, throw, throwThe, MonadExceptOf.throw] at h
    · have hx : p.isNan .x = false := by
        cases hb : p.isNan .x
        · rfl
        · exact absurd (Or.inl hb) hn
      have hy : p.isNan .y = false := by
        cases hb : p.isNan .y
        · rfl
        · exact absurd (Or.inr (Or.inl hb)) hn
      have hz : p.isNan .z = false := by
        cases hb : p.isNan .z
        · rfl
        · exact absurd (Or.inr (Or.inr (Or.inl hb))) hn
      by_cases he : p.str .element = []
      · cases hf : firstAlpha (p.str .atomname) with
        | error e => simp [hc, hn, he, hf, bind, Except.bind, pure, Except.pure] at h
        | ok c =>
          by_cases h1 : p.str .altloc ≠ [] ∧ p.str .altloc ≠ ['A']
          · simp [hc, hn, he, hf, h1, bind, Except.bind, pure, Except.pure] at h
            subst h
            simp [hc', parseCharge, he, hf, h1, bind, Except.bind, pure, Except.pure, liftRes]
          · simp [hc, hn, he, hf, h1, bind, Except.bind, pure, Except.pure] at h
            split at h
            · rename_i hex
              simp only [Except.ok.injEq] at h
              subst h
              simp [hc', parseCharge, he, hf, h1, hex, bind, Except.bind, pure, Except.pure, liftRes]
            · rename_i hex
              simp only [Except.ok.injEq] at h
              subst h
              simp [hc', parseCharge, he, hf, h1, hex, bind, Except.bind, pure, Except.pure, liftAtom, liftRes, hx, hy, hz]
      · by_cases h1 : p.str .altloc ≠ [] ∧ p.str .altloc ≠ ['A']
        · simp [hc, hn, he, h1, bind, Except.bind, pure, Except.pure] at h
          subst h
          simp [hc', parseCharge, he, h1, bind, Except.bind, pure, Except.pure, liftRes]
        · simp [hc, hn, he, h1, bind, Except.bind, pure, Except.pure] at h
          split at h
          · rename_i hex
            simp only [Except.ok.injEq] at h
            subst h
            simp [hc', parseCharge, he, h1, hex, bind, Except.bind, pure, Except.pure, liftRes]
          · rename_i hex
            simp only [Except.ok.injEq] at h
            subst h
            simp [hc', parseCharge, he, h1, hex, bind, Except.bind, pure, Except.pure, liftAtom, liftRes, hx, hy, hz]

theorem parseAtomLine_X (L : PdbLayout) (excl : List (List Char)) (ignh : Bool) (line : List Char) (res : AtomResult)
    (h : parseAtomLine L excl ignh line = .ok res) :
    parseAtomLineX L excl ignh line = .ok (liftRes res) := by
  unfold parseAtomLine at h
  unfold parseAtomLineX
  cases hr : readFields readFieldPdb line (mkSlices 0 L.readerFields) with
  | error e => rw [hr] at h; simp [bind, Except.bind] at h
  | ok p =>
    rw [hr] at h
    simp only [bind, Except.bind] at h ⊢
    exact pdbAtomOfProps_X excl ignh p res h

theorem finish_lift (st : PState) : (liftState st).finish = liftState st.finish := by
  unfold PStateX.finish PState.finish liftState
  by_cases h : st.active = []
  · simp [h]
  · have : st.active.map liftAtom ≠ [] := by simpa using h
    simp only [this, if_false, h]
    simp [liftMol, Cryst.box, Cryst.dec?]

theorem step_X (X : PdbLayoutX) (hs : baseSkipOk X) (excl : List (List Char)) (ignh : Bool) (modelidx : Int)
    (st st' : PState) (l : List Char) (h : pdbStep X.base excl ignh st l = .ok st') :
    pdbStepX X excl ignh modelidx (liftState st) l = .ok (liftState st') := by
  unfold pdbStep at h
  unfold pdbStepX
  simp only [] at h ⊢
  by_cases hne : decomment l = []
  · simp only [hne, if_true, Except.ok.injEq] at h ⊢
    rw [h]
  · simp only [hne, if_false] at h ⊢
    obtain ⟨c1, c2, c3, c4⟩ := classify_X X hs (decomment l)
    cases hc : classify (decomment l) with
    | atom =>
      rw [hc] at h
      rw [c1 hc]
      simp only [bind, Except.bind] at h
      cases hp : parseAtomLine X.base excl ignh (decomment l) with
      | error e => rw [hp] at h; cases h
      | ok res =>
        rw [hp] at h
        rw [parseAtomLine_X X.base excl ignh _ res hp]
        cases res with
        | keep a =>
          simp only [pure, Except.pure, Except.ok.injEq] at h
          subst h
          simp [liftState, liftRes]
        | skip =>
          simp only [pure, Except.pure, Except.ok.injEq] at h
          subst h
          simp [liftState, liftRes]
    | finish =>
      rw [hc] at h
      rw [c2 hc]
      simp only [Except.ok.injEq] at h
      subst h
      simp only [finish_lift]
    | conect =>
      rw [hc] at h
      rw [c3 hc]
      simp only [Except.ok.injEq] at h
      subst h
      rfl
    | skip =>
      rw [hc] at h
      rw [c4 hc]
      simp only [Except.ok.injEq] at h
      subst h
      rfl
    | unknown => rw [hc] at h; cases h

theorem fold_X (X : PdbLayoutX) (hs : baseSkipOk X) (excl : List (List Char)) (ignh : Bool) (modelidx : Int) :
    ∀ (ls : List (List Char)) (st st' : PState), pdbFold X.base excl ignh st ls = .ok st' →
      pdbFoldX X excl ignh modelidx (liftState st) ls = .ok (liftState st')
  | [], st, st', h => by
      simp only [pdbFold, Except.ok.injEq] at h; subst h; rfl
  | l :: ls, st, st', h => by
      simp only [pdbFold, bind, Except.bind] at h
      cases hs1 : pdbStep X.base excl ignh st l with
      | error e => rw [hs1] at h; cases h
      | ok s1 =>
        rw [hs1] at h
        simp only [pdbFoldX, step_X X hs excl ignh modelidx st s1 l hs1]
        exact fold_X X hs excl ignh modelidx ls s1 st' h

/-! ### CONECT inside molecules: the same bonds -/

def noNan (mols : List MolR) : Prop := ∀ m ∈ mols, ∀ a ∈ m.atoms, a.hasNan = false

def addEdge (b : Nat × Nat × Nat) (ms : List MolR) : List MolR :=
  ms.modify b.1 (fun m => { m with edges := m.edges ++ [(b.2.1, b.2.2)] })

theorem addBonds_cons (mols : List MolR) (b : Nat × Nat × Nat) (bs : List (Nat × Nat × Nat)) :
    addBonds mols (b :: bs) = addBonds (addEdge b mols) bs := rfl

theorem addBonds_append (mols : List MolR) (a b : List (Nat × Nat × Nat)) :
    addBonds mols (a ++ b) = addBonds (addBonds mols a) b := by
  unfold addBonds; rw [List.foldl_append]

theorem addEdge_noNan (b : Nat × Nat × Nat) : ∀ (ms : List MolR), noNan ms → noNan (addEdge b ms) ∧
    (addEdge b ms).length = ms.length := by
  intro ms h
  refine ⟨?_, by unfold addEdge; simp⟩
  unfold addEdge
  intro m hm a ha
  rw [List.mem_iff_getElem?] at hm
  obtain ⟨i, hi⟩ := hm
  rw [List.getElem?_modify] at hi
  cases hg : ms[i]? with
  | none => rw [hg] at hi; cases hi
  | some m0 =>
    rw [hg] at hi
    simp only [Option.map_eq_map, Option.map_some, Option.some.injEq] at hi
    have hat : m.atoms = m0.atoms := by
      rw [← hi]; split <;> rfl
    rw [hat] at ha
    exact h m0 (List.mem_of_getElem? hg) a ha

theorem findMol_go_lt (id : Int) : ∀ (tables : List (HashMap Int Nat)) (mi m i : Nat),
    findMol.go id mi tables = some (m, i) → m < mi + tables.length
  | [], _, _, _, h => by simp [findMol.go] at h
  | tb :: r, mi, m, i, h => by
      rw [findMol_go_cons] at h
      split at h
      · simp only [Option.some.injEq, Prod.mk.injEq] at h
        simp only [List.length_cons]; omega
      · have := findMol_go_lt id r (mi + 1) m i h
        simp only [List.length_cons]; omega

theorem findMol_lt (tables : List (HashMap Int Nat)) (id : Int) (m i : Nat) (h : findMol tables id = some (m, i)) :
    m < tables.length := by
  have := findMol_go_lt id tables 0 m i h
  omega

theorem distanceOk_noNan (atoms : List PAtomX) (h : ∀ a ∈ atoms, a.hasNan = false) (i j : Nat) :
    distanceOk atoms i j = true := by
  unfold distanceOk
  split
  · rename_i a b ha hb
    simp [h a (List.mem_of_getElem? ha), h b (List.mem_of_getElem? hb)]
  · rfl

/-- one step of the fold of the base `singleConect` -/
def oldStep (tables : List (HashMap Int Nat)) (m0 i0 : Nat) (id : Int)
    (acc : Except Err (List (Nat × Nat × Nat))) : Except Err (List (Nat × Nat × Nat)) := do
  let rest ← acc
  match findMol tables id with
  | none => pure rest
  | some (m1, i1) => if m1 = m0 then pure ((m0, i0, i1) :: rest) else throw Err.unmodelled

theorem singleConect_cons (tables : List (HashMap Int Nat)) (id0 : Int) (others : List Int) :
    singleConect tables (id0 :: others) =
      match findMol tables id0 with
      | none => .ok []
      | some (m0, i0) => others.foldr (oldStep tables m0 i0) (.ok []) := by
  rfl

/-- the partners of one record, all in the record owner's molecule: the same bonds, one by one -/
theorem partners_X (tables : List (HashMap Int Nat)) (m0 i0 : Nat) : ∀ (others : List Int) (mols : List MolR)
    (bs : List (Nat × Nat × Nat)), noNan mols → tables.length = mols.length → m0 < mols.length →
    others.foldr (oldStep tables m0 i0) (.ok []) = .ok bs →
    conectPartners (⟨mols, tables⟩, m0) i0 others = .ok (⟨addBonds mols bs, tables⟩, m0)
  | [], mols, bs, _, _, _, h => by
      simp only [List.foldr_nil, Except.ok.injEq] at h; subst h; rfl
  | id :: rest, mols, bs, hn, hl, hm, h => by
      simp only [List.foldr_cons] at h
      cases hr : rest.foldr (oldStep tables m0 i0) (.ok []) with
      | error e => rw [hr] at h; simp [oldStep, bind, Except.bind] at h
      | ok r' =>
        rw [hr] at h
        simp only [oldStep, bind, Except.bind] at h
        simp only [conectPartners, conectPartner]
        cases hf : findMol tables id with
        | none =>
          rw [hf] at h
          simp only [pure, Except.pure, Except.ok.injEq] at h
          subst h
          exact partners_X tables m0 i0 rest mols r' hn hl hm hr
        | some mi =>
          obtain ⟨m1, i1⟩ := mi
          rw [hf] at h
          simp only [] at h
          by_cases he : m1 = m0
          · simp only [he, if_true, pure, Except.pure, Except.ok.injEq] at h
            subst h
            obtain ⟨A, hA⟩ : ∃ A, mols[m0]? = some A := ⟨mols[m0], List.getElem?_eq_getElem hm⟩
            have hd := distanceOk_noNan A.atoms (hn A (List.mem_of_getElem? hA)) i0 i1
            simp only [he, if_true, hA, hd]
            have hne := addEdge_noNan (m0, i0, i1) mols hn
            have ih := partners_X tables m0 i0 rest (addEdge (m0, i0, i1) mols) r' hne.1 (by rw [hne.2]; exact hl)
              (by rw [hne.2]; exact hm) hr
            rw [addBonds_cons]
            exact ih
          · simp [he, throw, throwThe, MonadExceptOf.throw] at h

theorem addBonds_noNan : ∀ (bs : List (Nat × Nat × Nat)) (mols : List MolR), noNan mols →
    noNan (addBonds mols bs) ∧ (addBonds mols bs).length = mols.length
  | [], mols, h => ⟨h, rfl⟩
  | b :: bs, mols, h => by
      have h1 := addEdge_noNan b mols h
      have h2 := addBonds_noNan bs (addEdge b mols) h1.1
      rw [addBonds_cons]
      exact ⟨h2.1, by rw [h2.2, h1.2]⟩

theorem singleConect_X (tables : List (HashMap Int Nat)) (mols : List MolR) (ids : List Int)
    (bs : List (Nat × Nat × Nat)) (hn : noNan mols) (hl : tables.length = mols.length)
    (h : singleConect tables ids = .ok bs) :
    singleConectX ⟨mols, tables⟩ ids = .ok ⟨addBonds mols bs, tables⟩ := by
  unfold singleConectX
  cases ids with
  | nil => cases h
  | cons id0 others =>
    rw [singleConect_cons] at h
    simp only [] at h ⊢
    cases hf : findMol tables id0 with
    | none => rw [hf] at h; simp only [Except.ok.injEq] at h; subst h; rfl
    | some mi =>
      obtain ⟨m0, i0⟩ := mi
      rw [hf] at h
      simp only [] at h ⊢
      have hm : m0 < mols.length := by rw [← hl]; exact findMol_lt tables id0 m0 i0 hf
      rw [partners_X tables m0 i0 others mols bs hn hl hm h]

theorem doConect_X (L : PdbLayout) (tables : List (HashMap Int Nat)) : ∀ (lines : List (List Char)) (mols : List MolR)
    (bonds : List (Nat × Nat × Nat)), noNan mols → tables.length = mols.length →
    doConect L tables lines = .ok bonds →
    doConectX L ⟨mols, tables⟩ lines = .ok ⟨addBonds mols bonds, tables⟩
  | [], mols, bonds, _, _, h => by
      simp only [doConect, Except.ok.injEq] at h; subst h; rfl
  | l :: ls, mols, bonds, hn, hl, h => by
      simp only [doConect, bind, Except.bind] at h
      cases hi : conectIds L l with
      | error e => rw [hi] at h; cases h
      | ok ids =>
        rw [hi] at h
        simp only [] at h
        cases hsc : singleConect tables ids with
        | error e => rw [hsc] at h; cases h
        | ok e =>
          rw [hsc] at h
          simp only [] at h
          cases hr : doConect L tables ls with
          | error e' => rw [hr] at h; cases h
          | ok r =>
            rw [hr] at h
            simp only [pure, Except.pure, Except.ok.injEq] at h
            subst h
            simp only [doConectX, hi, singleConect_X tables mols ids e hn hl hsc]
            have hne := addBonds_noNan e mols hn
            rw [doConect_X L tables ls (addBonds mols e) r hne.1 (by rw [hne.2]; exact hl) hr, addBonds_append]

theorem idTableX_lift (m : List PAtom) : idTableX (m.map liftAtom) = idTable m := by
  unfold idTableX
  rw [List.map_map]
  have : (fun a => a.atom) ∘ liftAtom = id := by funext a; rfl
  rw [this, List.map_id]

/-- **readPdbX_conservative.**  On every file the base reader reads, the full reader (with any
`modelidx`) returns the same molecules, atoms and bonds: atoms with no not-a-number coordinate and
charge 0, each bond inside its molecule, no box. -/
theorem readPdbX_conservative (X : PdbLayoutX) (hs : baseSkipOk X) (excl : List (List Char)) (ignh : Bool)
    (modelidx : Int) (lines : List (List Char)) (r : PdbResult)
    (h : readPdb X.base excl ignh lines = .ok r) :
    readPdbX X excl ignh modelidx lines = .ok (liftResult r) := by
  unfold readPdb at h
  simp only [bind, Except.bind] at h
  cases hf : pdbFold X.base excl ignh ⟨[], [], []⟩ lines with
  | error e => rw [hf] at h; cases h
  | ok st =>
    rw [hf] at h
    simp only [] at h
    cases hd : doConect X.base (st.finish.mols.reverse.map idTable) st.finish.conects.reverse with
    | error e => rw [hd] at h; cases h
    | ok bonds =>
      rw [hd] at h
      simp only [pure, Except.pure, Except.ok.injEq] at h
      subst h
      unfold readPdbX
      have hfx := fold_X X hs excl ignh modelidx lines ⟨[], [], []⟩ st hf
      have h0 : liftState ⟨[], [], []⟩ = ⟨[], [], [], false, []⟩ := rfl
      rw [h0] at hfx
      rw [hfx]
      simp only [finish_lift]
      have hm : (liftState st.finish).mols.reverse = st.finish.mols.reverse.map liftMol := by
        simp [liftState]
      have ht : ((liftState st.finish).mols.reverse.map fun m => idTableX m.atoms) =
          st.finish.mols.reverse.map idTable := by
        rw [hm, List.map_map]
        apply List.map_congr_left
        intro m _
        simp only [Function.comp, liftMol]
        exact idTableX_lift m
      have hnn : noNan (st.finish.mols.reverse.map liftMol) := by
        intro m hm a ha
        obtain ⟨m0, _, rfl⟩ := List.mem_map.mp hm
        simp only [liftMol] at ha
        obtain ⟨a0, _, rfl⟩ := List.mem_map.mp ha
        rfl
      have hc : (liftState st.finish).conects = st.finish.conects := rfl
      rw [ht, hm, hc, doConect_X X.base _ _ _ bonds hnn (by simp) hd]
      rfl

end C16
