import VermouthModel.C10_Cli
import Generated.C10Cli
import VermouthProps.C10_System
/-!
# C10 — command line: `-bonds-from`, `-bonds-fudge`, CONECT bonds

`cliTable` is re-extracted from `bin/martinize2` on every run.
* `cli_bonds_from_table` : the four option values (and the default) give the four mode combinations
  `name ↦ (T,F)`, `distance ↦ (F,T)`, `none ↦ (F,F)`, `both ↦ (T,T)`, default `both`; the fudge
  factor is plumbed through unchanged, default 1.2 (`decide` on the extracted table).
* `cli_rejects_other_values` : anything else is rejected by argparse.
* `parseDecimal_den_pos` : every accepted `-bonds-fudge` string denotes a ratio `p/q` with `q > 0`
  (so `search_complete` applies to every command line).
* `cli_keeps_edges` : for every accepted `-bonds-from` value, every bond read from the input file
  (CONECT) is a bond of the result and has both ends in one returned molecule.
* `cli_none_only_input_bonds` : with `-bonds-from none` the bonds of the result are exactly the
  bonds of the input file, and the system is still re-split along them.
-/
namespace C10

theorem cli_bonds_from_table :
    cliModes cliTable (some "name") = some (true, false)
    ∧ cliModes cliTable (some "distance") = some (false, true)
    ∧ cliModes cliTable (some "none") = some (false, false)
    ∧ cliModes cliTable (some "both") = some (true, true)
    ∧ cliModes cliTable none = some (true, true)
    ∧ cliTable.choices = ["name", "distance", "none", "both"]
    ∧ cliFudge cliTable none = some (6, 5)
    ∧ (∀ s, cliFudge cliTable (some s) = parseDecimal s) := by
  refine ⟨by decide, by decide, by decide, by decide, by decide, by decide, by decide, ?_⟩
  intro s
  unfold cliFudge
  have h1 : cliTable.fudgeDest = some "bonds_fudge" := by decide
  have h2 : kwLookup cliTable.procKw "fudge" = some "bonds_fudge" := by decide
  have h3 : kwLookup cliTable.entryKw "bonds_fudge" = some "args.bonds_fudge" := by decide
  have h4 : cliTable.fudgeType = some "float" := by decide
  simp [h1, h2, h3, h4]

example : parseDecimalChars ['0', '.', '9'] = some (9, 10) ∧ parseDecimalChars ['2'] = some (2, 1)
    ∧ parseDecimalChars ['1', '.', '2', '5'] = some (125, 100) ∧ parseDecimalChars ['.', '5'] = some (5, 10)
    ∧ parseDecimalChars ['1', '.'] = some (1, 1) ∧ parseDecimalChars ['.'] = none
    ∧ parseDecimalChars ['-', '1'] = none ∧ parseDecimalChars ['1', 'e', '3'] = none
    ∧ parseDecimalChars [] = none ∧ parseDecimalChars ['1', '.', '2', '.', '3'] = none := by decide

theorem cli_rejects_other_values (t : CliTable) (v : String) (h : t.choices.contains v = false) :
    cliModes t (some v) = none := by
  have hm : ¬ v ∈ t.choices := by simpa using h
  unfold cliModes
  cases resolveSet t "allow_name" <;> cases resolveSet t "allow_dist" <;> simp [hm]

example : cliModes cliTable (some "names") = none := by decide

theorem parseDecimal_den_pos (s : String) (p q : Nat) (h : parseDecimal s = some (p, q)) : 0 < q := by
  unfold parseDecimal parseDecimalChars at h
  cases hr : s.toList.dropWhile (· != '.') with
  | nil =>
    rw [hr] at h
    simp only at h
    split at h
    · cases h
    · cases hd : digitsVal s.toList with
      | none => rw [hd] at h; cases h
      | some x => rw [hd] at h; simp at h; omega
  | cons c b =>
    rw [hr] at h
    simp only at h
    split at h
    · cases h
    · cases hx : digitsVal (s.toList.takeWhile (· != '.')) with
      | none => rw [hx] at h; cases h
      | some x =>
        cases hy : digitsVal b with
        | none => rw [hx, hy] at h; cases h
        | some y =>
          rw [hx, hy] at h
          simp only [Option.some.injEq, Prod.mk.injEq] at h
          rw [← h.2]
          exact Nat.pow_pos (by decide)

theorem cli_fudge_den_pos (opt : Option String) (p q : Nat)
    (h : cliFudge cliTable opt = some (p, q)) : 0 < q := by
  cases opt with
  | none =>
    have : cliFudge cliTable none = some (6, 5) := cli_bonds_from_table.2.2.2.2.2.2.1
    rw [this] at h; cases h; decide
  | some s =>
    have e : cliFudge cliTable (some s) = parseDecimal s := cli_bonds_from_table.2.2.2.2.2.2.2 s
    rw [e] at h
    exact parseDecimal_den_pos s p q h

/-- **CONECT bonds survive every `-bonds-from` value.** -/
theorem cli_keeps_edges (opt : Option String) (modes : Bool × Bool)
    (_h : cliModes cliTable opt = some modes)
    (ms : List InMol) (ff : FF) (radii : List (String × Nat)) (p q : Nat) :
    let S := sysOf ms ff radii modes.1 modes.2 p q
    WF S → ∀ e ∈ S.pre, (run S).bonded S e.1 e.2 = true ∧ SameMol S e.1 e.2 := by
  intro S hwf
  exact keeps_edges S hwf

/-- **`-bonds-from none`: only the bonds of the input file, and still re-split.** -/
theorem cli_none_only_input_bonds (modes : Bool × Bool) (h : cliModes cliTable (some "none") = some modes)
    (ms : List InMol) (ff : FF) (radii : List (String × Nat)) (p q : Nat) :
    let S := sysOf ms ff radii modes.1 modes.2 p q
    finalEdges S = S.pre ∧ (∀ u v, SameMol S u v → Conn (SameRes S) S.pre u v) := by
  intro S
  have hm : modes = (false, false) := by
    have := cli_bonds_from_table.2.2.1
    rw [this] at h
    exact (Option.some.inj h).symm
  have hn : S.allowName = false := by show modes.1 = false; rw [hm]
  have hd : S.allowDist = false := by show modes.2 = false; rw [hm]
  exact ⟨(none_mode_resplits S hn hd).1, (none_mode_resplits S hn hd).2.1⟩

end C10
