import VermouthProofs.C12_System
/-!
# C12 — editing a molecule keeps atoms, bonds and interactions consistent

Property theorems about the pool state machine `C12.step` / `C12.run`, the model of the editing
API of `vermouth.molecule.Molecule` (`lean/VermouthModel/C12.lean`).  Only top-level statements
and non-vacuity examples live here; helper lemmas are in `VermouthProofs/C12*.lean`.

Vocabulary (all executable definitions):
* `Mol.Inv m`        : the invariant (spelled out by `inv_iff`); `PoolInv p` = every member satisfies it;
* `Op.target op`     : the pool index an operation edits in place, `none` for copy / subgraph /
                       newMol / fromBlock (they only append a new member);
* `Mol.offset self`  : key offset of a merge = highest key of `self`, 0 if `self` has no node;
* `Mol.shiftBy self` : (resid, charge group) of that highest-key node (default 1 each), (0, 0) if empty;
* `corr keys off k`  : `off + 1 + position of k in keys` – the new key of the newcomer's node `k`;
* `Attrs.shift a r c`: resid := a.resid (default 1) + r, cg := a.cg (default 1) + c, name unchanged.
-/
namespace C12

/-! ## 1. The invariant -/

/-- what `Mol.Inv` says -/
theorem inv_iff (m : Mol) :
    m.Inv ↔
      m.keys.Nodup ∧
      (∀ e ∈ m.edges, e.1 ∈ m.keys ∧ e.2 ∈ m.keys) ∧
      (∀ ti ∈ m.inters, ∀ a ∈ ti.2.atoms, a ∈ m.keys) ∧
      (m.nodes ≠ [] → ∀ k, m.maxNode = some k → maxKey m.keys = some k) := by
  unfold Mol.Inv Mol.Wf Mol.CacheOk
  constructor
  · rintro ⟨⟨a, b, c⟩, d⟩; exact ⟨a, b, c, d⟩
  · rintro ⟨a, b, c, d⟩; exact ⟨⟨a, b, c⟩, d⟩

/-- `maxKey` is the highest key -/
theorem maxKey_spec (l : List Int) (k : Int) : maxKey l = some k ↔ k ∈ l ∧ ∀ x ∈ l, x ≤ k :=
  maxKey_eq_some_iff l k

/-! concrete molecules used by the non-vacuity examples -/

/-- keys 1,2,5 (sparse), a bond, two interactions, a valid cache -/
def exA : Mol :=
  { nodes := [(1, { name := some "N", resid := some 3, cg := some 2 }), (2, { name := some "CA" }),
              (5, { name := some "C", resid := some 4, cg := some 7 })],
    edges := [(1, 2), (5, 2)],
    inters := [("bonds", { atoms := [1, 2], params := "p" }),
               ("angles", { atoms := [1, 2, 5], params := "q", version := some 1 })],
    cites := ["paperA"], nrexcl := some 1, maxNode := some 5 }

/-- keys -3, 8, 0 in that order (not sorted), a self loop, cache not set -/
def exB : Mol :=
  { nodes := [(-3, { name := some "X", resid := some 1 }), (8, { name := some "Y", cg := some 5 }), (0, {})],
    edges := [(8, -3), (0, 0), (0, 8)],
    inters := [("bonds", { atoms := [8, -3], params := "r" }),
               ("constraints", { atoms := [0], params := "s", version := some 0, edge := false })],
    cites := ["paperA", "paperB"], nrexcl := some 1, maxNode := none }

/-- `exA` with a WRONG cache (1 instead of 5): violates the invariant -/
def exStale : Mol := { exA with maxNode := some 1 }

example : exA.Inv := by decide
example : exB.Inv := by decide
example : ¬ exStale.Inv := by decide
example : PoolInv [exA, exB] := by decide

/-! ## 2. The invariant holds after every history -/

/-- the empty pool and a fresh `Molecule(nrexcl=n)` satisfy the invariant -/
theorem inv_init : PoolInv [] ∧ ∀ n : Option Int, ({ nrexcl := n } : Mol).Inv := by
  refine ⟨fun m hm => (by cases hm), fun n => ?_⟩
  apply Mol.inv_of_wf_none _ rfl
  refine ⟨List.nodup_nil, ?_, ?_⟩
  · intro e he; cases he
  · intro ti hti; cases hti

/-- EVERY operation (with every argument, succeeding or failing) preserves the invariant — except
`Molecule.clear()` on a molecule that has an interaction with an atom (`Op.safe`, finding F-C12-4,
`clear_dangling_witness` in `VermouthProps/C12_Ext.lean`) -/
theorem inv_step (p : Pool) (op : Op) (h : PoolInv p) (hs : op.safe p = true) : PoolInv (step p op).1 :=
  step_inv h op hs

/-- after ANY sequence of editing operations, each safe where it is applied (in particular any
sequence without `clear`, `safe_run_of_no_clear`), every member of the pool satisfies the invariant -/
theorem inv_reachable (ops : List Op) (hs : SafeRun [] ops = true) : PoolInv (run [] ops) :=
  run_inv inv_init.1 ops hs

/-- the first clause of C12, spelled out: after any history every interaction and every bond of
every molecule refers only to atoms that are present, and keys are distinct -/
theorem reachable_no_dangling (ops : List Op) (hs : SafeRun [] ops = true) (m : Mol) (hm : m ∈ run [] ops) :
    m.keys.Nodup ∧
    (∀ e ∈ m.edges, m.hasNode e.1 = true ∧ m.hasNode e.2 = true) ∧
    (∀ ti ∈ m.inters, ∀ a ∈ ti.2.atoms, m.hasNode a = true) := by
  obtain ⟨⟨h1, h2, h3⟩, _⟩ := inv_reachable ops hs m hm
  refine ⟨h1, ?_, ?_⟩
  · intro e he; exact ⟨(mem_keys_iff m _).mpr (h2 e he).1, (mem_keys_iff m _).mpr (h2 e he).2⟩
  · intro ti hti a ha; exact (mem_keys_iff m _).mpr (h3 ti hti a ha)

/-- a non-trivial history: block, bulk add, merge, removal, interactions, copy, subgraph -/
def exHistory : List Op :=
  [.newMol (some 1),
   .fromBlock { nodes := [("N", { resid := some 1 }), ("CA", {}), ("C", {})], edges := [("N", "CA"), ("CA", "C")],
                inters := [{ ty := "bonds", atoms := ["N", "CA"], params := "p" }], nrexcl := some 1 } 1 0 0,
   .merge 0 1, .merge 0 1, .addNodes 0 [(5, {}), (6, {}), (40, {})], .merge 0 1,
   .addInter 0 "angles" [40, 41, 5] "q" none, .removeNodes 0 [41, 2], .copy 0, .subgraph 0 [6, 40, 6],
   .addEdge 2 100 6, .removeNode 0 40, .merge 3 2]

example : (run [] exHistory).length = 4 := by decide
example : ((run [] exHistory)[0]?.map Mol.keys) = some [1, 3, 4, 5, 6, 42, 43] := by decide
example : PoolInv (run [] exHistory) := by decide
example : SafeRun [] exHistory = true := by decide

/-! ## 3. Frame: a copy or subgraph can be edited without changing its source -/

/-- an operation on pool member `i` leaves every other member unchanged (and the pool length) -/
theorem step_frame (p : Pool) (op : Op) (i : Nat) (h : op.target = some i) :
    (step p op).1.length = p.length ∧ ∀ j, j ≠ i → (step p op).1[j]? = p[j]? :=
  step_frame_target p op i h

/-- copy / subgraph / newMol / fromBlock only append: all existing members are unchanged -/
theorem step_frame_new (p : Pool) (op : Op) (h : op.target = none) :
    (step p op).1.take p.length = p := by
  rcases step_frame_append p op h with e | ⟨m, e⟩
  · rw [e]; exact List.take_length
  · rw [e]; exact List.take_left' rfl

/-- over a whole history: member `i` is unchanged by any sequence of operations none of which
edits `i` in place — in particular by any editing of its copies and subgraphs, and a copy is
unchanged by any editing of its source -/
theorem frame_history (p : Pool) (ops : List Op) (i : Nat) (hi : i < p.length)
    (h : ∀ op ∈ ops, op.target ≠ some i) : (run p ops)[i]? = p[i]? :=
  run_frame p ops i h hi

example : (run [exA] [.copy 0, .removeNode 1 2, .addNode 1 9 {}, .merge 1 0])[0]? = some exA := by decide
example : (run [exA] [.copy 0, .removeNode 1 2, .addNode 1 9 {}, .merge 1 0])[1]? ≠ some exA := by decide

/-- under the invariant the copy has exactly the nodes (with attributes, in order), edges (with
their attribute dicts), interactions, citations, nrexcl, force field and log entries of its source;
only the cache is reset -/
theorem copy_is_equal_content (m : Mol) (h : m.Inv) (he : m.EaOk) :
    m.copy = { m with maxNode := none } ∧
    m.copy.nodes = m.nodes ∧ m.copy.edges = m.edges ∧ m.copy.inters = m.inters ∧
    m.copy.cites = m.cites ∧ m.copy.nrexcl = m.nrexcl ∧
    m.copy.eattr = m.eattr ∧ m.copy.ff = m.ff ∧ m.copy.logs = m.logs := by
  rw [copy_eq h he]; exact ⟨rfl, rfl, rfl, rfl, rfl, rfl, rfl, rfl, rfl⟩

example : exB.copy = { exB with maxNode := none } := by decide

/-- content of `m.subgraph ks`: the requested keys in request order without repetition
(`List.eraseDups`), each with the source's attributes; exactly the source's edges with both end
points requested (with their attribute dicts) and the source's interactions with all atoms
requested, in the source's order; citations, nrexcl and force field of the source; NO log entries -/
theorem subgraph_content (m : Mol) (ks : List Int) (s : Mol) (h : m.subgraph ks = some s) :
    s.keys = ks.eraseDups ∧
    (∀ k a, (k, a) ∈ s.nodes ↔ k ∈ ks ∧ lookupAttrs m.nodes k = some a) ∧
    s.edges = m.edges.filter (fun e => decide (e.1 ∈ ks ∧ e.2 ∈ ks)) ∧
    s.inters = m.inters.filter (fun ti => decide (∀ a ∈ ti.2.atoms, a ∈ ks)) ∧
    s.cites = m.cites ∧ s.nrexcl = m.nrexcl ∧
    s.eattr = m.eattr.filter (fun x => decide (x.1.1 ∈ ks ∧ x.1.2 ∈ ks)) ∧ s.ff = m.ff ∧ s.logs = [] := by
  refine ⟨by rw [subgraph_keys m ks s h, dedupKeys_eq_eraseDups], subgraph_nodes_mem m ks s h, ?_⟩
  unfold Mol.subgraph at h
  split at h
  · cases h
    refine ⟨?_, ?_, rfl, rfl, ?_, rfl, rfl⟩
    · apply List.filter_congr; intro e _; simp
    · apply List.filter_congr; intro ti _; apply Bool.eq_iff_iff.mpr; simp
    · apply List.filter_congr; intro x _; simp
  · cases h

/-- with distinct keys the attributes looked up are the source's node entries -/
theorem lookup_iff_mem (m : Mol) (h : m.keys.Nodup) (k : Int) (a : Attrs) :
    lookupAttrs m.nodes k = some a ↔ (k, a) ∈ m.nodes :=
  ⟨lookupAttrs_mem m.nodes k a, lookupAttrs_of_mem m.nodes h k a⟩

/-- `subgraph` succeeds exactly when every requested key is a node -/
theorem subgraph_ok_iff (m : Mol) (ks : List Int) : (m.subgraph ks).isSome = true ↔ ∀ k ∈ ks, k ∈ m.keys := by
  unfold Mol.subgraph
  split
  · rename_i hall
    rw [List.all_eq_true] at hall
    exact ⟨fun _ k hk => (mem_keys_iff m k).mp (hall k hk), fun _ => rfl⟩
  · rename_i hall
    constructor
    · intro h; cases h
    · intro h; exfalso; apply hall
      rw [List.all_eq_true]; intro k hk; exact (mem_keys_iff m k).mpr (h k hk)

example : (exA.subgraph [5, 1, 5]).map Mol.keys = some [5, 1] := by decide
example : (exA.subgraph [5, 1, 5]).map (fun s => s.inters.length) = some 0 := by decide
example : (exA.subgraph [2, 1]).map (fun s => (s.edges, s.inters.length)) = some ([(1, 2)], 1) := by decide

/-! ## 4. Error outcomes leave the state unchanged -/

/-- whatever the operation: if it does not report `ok`, the whole pool is unchanged
(`add_or_replace_interaction` included: it can only fail before it changes anything).  The two
exceptions are excluded by `Op.failSafe`: a molecule merged into itself (F-C12-5) and a merge
whose newcomer has a log entry that mentions an atom it does not have (F-C12-6); see
`self_merge_spec` and `merge_log_keyerror_witness` in `VermouthProps/C12_Ext.lean` -/
theorem error_no_change (p : Pool) (op : Op) (hfs : op.failSafe p = true) (h : (step p op).2 ≠ .ok) :
    (step p op).1 = p :=
  step_err p op hfs h

/-- the error conditions do raise: removeNode of an absent key, addInter with an unknown atom,
removeInter of an absent interaction, subgraph with an unknown key, merge with different nrexcl,
fromBlock with a dangling name -/
theorem error_raised (p : Pool) (i : Nat) (m : Mol) (hm : p[i]? = some m) :
    (∀ k, k ∉ m.keys → step p (.removeNode i k) = (p, .nxerror)) ∧
    (∀ ty atoms pr v, (∃ a ∈ atoms, a ∉ m.keys) → step p (.addInter i ty atoms pr v) = (p, .keyerror)) ∧
    (∀ ty atoms v, removeFirst m.inters ty atoms v = none → step p (.removeInter i ty atoms v) = (p, .keyerror)) ∧
    (∀ ks, (∃ k ∈ ks, k ∉ m.keys) → step p (.subgraph i ks) = (p, .keyerror)) ∧
    (∀ j o, j ≠ i → p[j]? = some o → (m.ff ≠ o.ff ∨ mergeNrexcl m o ≠ o.nrexcl) →
      step p (.merge i j) = (p, .valueerror)) ∧
    (∀ b ao ro co, b.toMolecule ao ro co = none → step p (.fromBlock b ao ro co) = (p, .keyerror)) := by
  refine ⟨?_, ?_, ?_, ?_, ?_, ?_⟩
  · intro k hk
    have : ¬ m.hasNode k = true := fun e => hk ((mem_keys_iff m k).mp e)
    simp only [step, onMol, hm, this, setAt, Bool.false_eq_true, ↓reduceIte, set_self p i m hm]
  · intro ty atoms pr v ⟨a, ha, hk⟩
    have : ¬ atoms.all m.hasNode = true := by
      intro e; rw [List.all_eq_true] at e; exact hk ((mem_keys_iff m a).mp (e a ha))
    simp only [step, onMol, hm, Mol.addInter, this, setAt, Bool.false_eq_true, ↓reduceIte, set_self p i m hm]
  · intro ty atoms v hr
    simp only [step, onMol, hm, Mol.removeInter, hr, setAt, set_self p i m hm]
  · intro ks ⟨k, hk, hkm⟩
    have : ¬ ks.all m.hasNode = true := by
      intro e; rw [List.all_eq_true] at e; exact hkm ((mem_keys_iff m k).mp (e k hk))
    simp only [step, hm, Mol.subgraph, this, Bool.false_eq_true, ↓reduceIte]
  · intro j o hj ho hn
    have hij : ¬ i = j := fun e => hj e.symm
    simp only [step, hij, ↓reduceIte, hm, ho, merge_err hn, setAt, set_self p i m hm]
  · intro b ao ro co hb
    simp only [step, fromBlockStep, hb]

example : step [exA] (.removeNode 0 3) = ([exA], .nxerror) := by decide
example : step [exA] (.addInter 0 "bonds" [1, 4] "p" none) = ([exA], .keyerror) := by decide
example : step [exA, { exB with nrexcl := some 3 }] (.merge 0 1) = ([exA, { exB with nrexcl := some 3 }], .valueerror) := by
  decide

/-! ## 5. Node removal drops the interactions and bonds of the removed atoms -/

/-- `remove_node` (present key) and `remove_nodes_from` replace the target by `dropNodes` -/
theorem remove_step (p : Pool) (i : Nat) (m : Mol) (hm : p[i]? = some m) :
    (∀ ks, step p (.removeNodes i ks) = (p.set i (m.dropNodes ks), .ok)) ∧
    (∀ k, k ∈ m.keys → step p (.removeNode i k) = (p.set i (m.dropNodes [k]), .ok)) := by
  constructor
  · intro ks; simp only [step, onMol, hm, setAt]
  · intro k hk
    have := (mem_keys_iff m k).mpr hk
    simp only [step, onMol, hm, setAt, this, ↓reduceIte]

/-- after removing the keys `ks`: the remaining nodes, edges and interactions are exactly those of
the source that do not mention a removed key, in the source's order; so no interaction and no
bond mentions a removed key and nothing else is lost -/
theorem remove_drops_interactions (m : Mol) (ks : List Int) :
    (m.dropNodes ks).nodes = m.nodes.filter (fun p => decide (p.1 ∉ ks)) ∧
    (m.dropNodes ks).edges = m.edges.filter (fun e => decide (e.1 ∉ ks ∧ e.2 ∉ ks)) ∧
    (m.dropNodes ks).inters = m.inters.filter (fun ti => decide (∀ a ∈ ti.2.atoms, a ∉ ks)) ∧
    (∀ ti ∈ (m.dropNodes ks).inters, ∀ a ∈ ti.2.atoms, a ∉ ks) ∧
    (∀ e ∈ (m.dropNodes ks).edges, e.1 ∉ ks ∧ e.2 ∉ ks) ∧
    (∀ k ∈ (m.dropNodes ks).keys, k ∉ ks) ∧
    (m.dropNodes ks).cites = m.cites ∧ (m.dropNodes ks).nrexcl = m.nrexcl := by
  have e1 : (m.dropNodes ks).nodes = m.nodes.filter (fun p => decide (p.1 ∉ ks)) := by
    unfold Mol.dropNodes; apply List.filter_congr; intro x _; simp
  have e2 : (m.dropNodes ks).edges = m.edges.filter (fun e => decide (e.1 ∉ ks ∧ e.2 ∉ ks)) := by
    unfold Mol.dropNodes; apply List.filter_congr; intro x _; simp
  have e3 : (m.dropNodes ks).inters = m.inters.filter (fun ti => decide (∀ a ∈ ti.2.atoms, a ∉ ks)) := by
    unfold Mol.dropNodes; apply List.filter_congr; intro x _
    cases hx : interMentions ks x.2 with
    | false => simpa using (interMentions_false_iff ks x.2).mp hx
    | true =>
      have : ¬ ∀ a ∈ x.2.atoms, a ∉ ks := fun h => by
        rw [(interMentions_false_iff ks x.2).mpr h] at hx; cases hx
      simp only [Bool.not_true]; exact (decide_eq_false this).symm
  refine ⟨e1, e2, e3, ?_, ?_, ?_, rfl, rfl⟩
  · intro ti hti; rw [e3] at hti; simpa using (List.mem_filter.mp hti).2
  · intro e he; rw [e2] at he; simpa using (List.mem_filter.mp he).2
  · intro k hk
    rw [dropNodes_keys] at hk; simpa using (List.mem_filter.mp hk).2

example : (exA.dropNodes [5, 7]).inters = [("bonds", { atoms := [1, 2], params := "p" })] := by decide
example : (exA.dropNodes [5, 7]).edges = [(1, 2)] := by decide

/-! ## 6. Merge (`self.merge_molecule(other)`), under the invariant of both operands -/

/-- the offsets are those of the true highest-key node: `offset` is the highest key, and `shiftBy`
is (resid, charge group) of THE node with that key, default 1 each; all 0 on an empty molecule -/
theorem offset_shift_spec (self : Mol) :
    (self.nodes = [] → self.offset = 0 ∧ self.shiftBy = (0, 0)) ∧
    (self.nodes ≠ [] → self.offset ∈ self.keys ∧ (∀ k ∈ self.keys, k ≤ self.offset) ∧
      ∃ a, lookupAttrs self.nodes self.offset = some a ∧ (self.offset, a) ∈ self.nodes ∧
        self.shiftBy = (a.resid.getD 1, a.cg.getD 1)) := by
  constructor
  · intro h; simp [Mol.offset, Mol.shiftBy, h]
  · intro h
    have hm := (maxKey_eq_some_iff _ _).mp (offset_spec h)
    obtain ⟨a, ha⟩ := Option.isSome_iff_exists.mp ((lookupAttrs_isSome self.nodes self.offset).mpr hm.1)
    refine ⟨hm.1, hm.2, a, ha, lookupAttrs_mem _ _ _ ha, ?_⟩
    simp only [Mol.shiftBy, if_neg h, ha]

/-- a merge never takes the `KeyError` branches (stale cache, dangling atom of the newcomer; and,
when the newcomer's log entries mention only its own atoms, the log-entry loop): it fails exactly
on a force-field or nrexcl mismatch, with ValueError -/
theorem merge_outcome (self other : Mol) (hs : self.Inv) (ho : other.Inv) (hl : other.LogOk) :
    (self.merge other).2 =
      (if self.ff = other.ff ∧ mergeNrexcl self other = other.nrexcl then .ok else .valueerror) ∧
    ((self.merge other).2 = .ok ∨ (self.merge other).2 = .valueerror) := by
  by_cases hf : self.ff = other.ff
  · by_cases hn : mergeNrexcl self other = other.nrexcl
    · rw [merge_eq hs ho hf hn, mergeOut_ok hl, if_pos ⟨hf, hn⟩]; exact ⟨rfl, Or.inl rfl⟩
    · rw [merge_err (Or.inr hn), if_neg (fun h => hn h.2)]; exact ⟨rfl, Or.inr rfl⟩
  · rw [merge_err (Or.inl hf), if_neg (fun h => hf h.1)]; exact ⟨rfl, Or.inr rfl⟩

/-- every node of `self` is kept as it was (same position, same attributes); the newcomer's
nodes follow in their order, the i-th with key offset + 1 + i -/
theorem merge_keeps_nodes (self other : Mol) (hs : self.Inv) (ho : other.Inv)
    (hok : (self.merge other).2 = .ok) :
    (self.merge other).1.nodes.take self.nodes.length = self.nodes ∧
    (self.merge other).1.nodes.length = self.nodes.length + other.nodes.length ∧
    ∀ i, i < other.nodes.length →
      ((self.merge other).1.nodes[self.nodes.length + i]?).map Prod.fst = some (self.offset + 1 + (i : Int)) := by
  rw [merge_ok_eq hs ho hok, mergeResult_nodes _ _ _ _ ho.1]
  refine ⟨List.take_left' rfl, by simp [newNodes, enumFrom_length], ?_⟩
  intro i hi
  rw [List.getElem?_append_right (by omega)]
  simp only [Nat.add_sub_cancel_left, newNodes, enumFrom_getElem?, List.getElem?_map,
    List.getElem?_eq_getElem hi, Option.map_some]

/-- every new key is greater than every key of `self`; hence no node of `self` is overwritten or
dropped and the keys of the result are distinct -/
theorem merge_fresh (self other : Mol) (hs : self.Inv) (ho : other.Inv)
    (hok : (self.merge other).2 = .ok) :
    (∀ k ∈ self.keys, ∀ i : Nat, k < self.offset + 1 + (i : Int)) ∧
    (∀ p ∈ self.nodes, p ∈ (self.merge other).1.nodes) ∧
    (self.merge other).1.keys.Nodup := by
  refine ⟨?_, ?_, ?_⟩
  · intro k hk i; have := offset_ge k hk; omega
  · intro p hp
    rw [merge_ok_eq hs ho hok, mergeResult_nodes _ _ _ _ ho.1]
    exact List.mem_append_left _ hp
  · exact (merge_inv hs ho).1.1

/-- the i-th new node is the i-th node of the newcomer with resid and charge group shifted by
those of `self`'s highest-key node (default 1; 0 if `self` is empty), the same shift for every
node; the name is unchanged -/
theorem merge_shift_uniform (self other : Mol) (hs : self.Inv) (ho : other.Inv)
    (hok : (self.merge other).2 = .ok) (i : Nat) (hi : i < other.nodes.length) :
    (self.merge other).1.nodes[self.nodes.length + i]? =
      some (self.offset + 1 + (i : Int), (other.nodes[i]).2.shift self.shiftBy.1 self.shiftBy.2) ∧
    ((other.nodes[i]).2.shift self.shiftBy.1 self.shiftBy.2).name = (other.nodes[i]).2.name ∧
    ((other.nodes[i]).2.shift self.shiftBy.1 self.shiftBy.2).resid =
      some ((other.nodes[i]).2.resid.getD 1 + self.shiftBy.1) ∧
    ((other.nodes[i]).2.shift self.shiftBy.1 self.shiftBy.2).cg =
      some ((other.nodes[i]).2.cg.getD 1 + self.shiftBy.2) := by
  refine ⟨?_, rfl, rfl, rfl⟩
  rw [merge_ok_eq hs ho hok, mergeResult_nodes _ _ _ _ ho.1]
  rw [List.getElem?_append_right (by omega)]
  simp only [Nat.add_sub_cancel_left, newNodes, enumFrom_getElem?, List.getElem?_map,
    List.getElem?_eq_getElem hi, Option.map_some]

/-- the correspondence sends the newcomer's i-th node to the i-th new key, and is injective on
the newcomer's keys -/
theorem merge_corr (self other : Mol) (ho : other.Inv) :
    (∀ i (hi : i < other.nodes.length),
        corr other.keys self.offset (other.nodes[i]).1 = self.offset + 1 + (i : Int)) ∧
    (∀ u ∈ other.keys, ∀ v ∈ other.keys, corr other.keys self.offset u = corr other.keys self.offset v → u = v) := by
  constructor
  · intro i hi
    have hl : i < other.keys.length := by simpa [Mol.keys] using hi
    have := corr_getElem other.keys self.offset ho.1.1 i hl
    simpa [Mol.keys] using this
  · intro u hu v hv; exact corr_inj other.keys self.offset u v hu hv

/-- the interactions of the result are those of `self` followed by those of the newcomer with
their atoms renamed through the key correspondence, in order, nothing else changed -/
theorem merge_keeps_interactions (self other : Mol) (hs : self.Inv) (ho : other.Inv)
    (hok : (self.merge other).2 = .ok) :
    (self.merge other).1.inters =
      self.inters ++ other.inters.map
        (fun ti => (ti.1, { ti.2 with atoms := ti.2.atoms.map (corr other.keys self.offset) })) := by
  rw [merge_ok_eq hs ho hok, mergeResult_inters]; rfl

/-- the bonds of the result are exactly those of `self` and the renamed bonds of the newcomer
(the code skips the newcomer's self loops `u = u`; no other bond is dropped or invented) -/
theorem merge_keeps_edges (self other : Mol) (hs : self.Inv) (ho : other.Inv)
    (hok : (self.merge other).2 = .ok) (a b : Int) :
    (self.merge other).1.hasEdge a b = true ↔
      self.hasEdge a b = true ∨
      ∃ e ∈ other.edges, e.1 ≠ e.2 ∧
        ((a = corr other.keys self.offset e.1 ∧ b = corr other.keys self.offset e.2) ∨
         (a = corr other.keys self.offset e.2 ∧ b = corr other.keys self.offset e.1)) := by
  rw [merge_ok_eq hs ho hok, mergeResult_hasEdge]
  apply or_congr Iff.rfl
  constructor
  · rintro ⟨e', he', h⟩
    obtain ⟨e, he, hne, rfl⟩ := (mem_renamedEdges _ _ _ _).mp he'
    exact ⟨e, he, fun eq => hne (by rw [eq]), h⟩
  · rintro ⟨e, he, hne, h⟩
    refine ⟨(corr other.keys self.offset e.1, corr other.keys self.offset e.2), ?_, h⟩
    apply (mem_renamedEdges _ _ _ _).mpr
    exact ⟨e, he, fun eq => hne (corr_inj _ _ _ _ (ho.1.2.1 e he).1 (ho.1.2.1 e he).2 eq), rfl⟩

/-- nrexcl and the citation set of the result -/
theorem merge_keeps_meta (self other : Mol) (hs : self.Inv) (ho : other.Inv)
    (hok : (self.merge other).2 = .ok) :
    (self.merge other).1.nrexcl = other.nrexcl ∧
    (self.merge other).1.cites = unionSet self.cites other.cites ∧
    (∀ c, c ∈ (self.merge other).1.cites ↔ c ∈ self.cites ∨ c ∈ other.cites) := by
  rw [merge_ok_eq hs ho hok, mergeResult_nrexcl, mergeResult_cites]
  refine ⟨rfl, rfl, ?_⟩
  intro c
  simp only [unionSet, List.mem_append, List.mem_filter, Bool.not_eq_true', List.contains_eq_mem,
    decide_eq_false_iff_not]
  by_cases h : c ∈ self.cites <;> simp [h]

/-- the F-C12-1 repair: after a successful merge the cache IS the highest key of the result, so
the next merge reads a valid cache and needs no scan -/
theorem merge_cache (self other : Mol) (hs : self.Inv) (ho : other.Inv)
    (hok : (self.merge other).2 = .ok) (hne : (self.merge other).1.nodes ≠ []) :
    (self.merge other).1.maxNode = some (self.offset + (other.nodes.length : Int)) ∧
    maxKey (self.merge other).1.keys = (self.merge other).1.maxNode ∧
    (self.merge other).1.lastKey = some (self.merge other).1.offset := by
  have hinv := merge_inv hs ho
  rw [merge_ok_eq hs ho hok] at hne hinv ⊢
  refine ⟨rfl, ?_, lastKey_eq hinv.2 hne⟩
  rw [mergeResult_maxKey _ _ _ ho.1 hne]; rfl

example : (exA.merge exB).2 = .ok := by decide
example : (exA.merge exB).1.keys = [1, 2, 5, 6, 7, 8] := by decide
example : exA.offset = 5 ∧ exA.shiftBy = (4, 7) := by decide
example : (exA.merge exB).1.inters.map (fun ti => ti.2.atoms) = [[1, 2], [1, 2, 5], [7, 6], [8]] := by decide
example : (exA.merge exB).1.edges = [(1, 2), (5, 2), (7, 6), (8, 7)] := by decide
example : (exA.merge exB).1.maxNode = some 8 := by decide

/-- why the invariant is needed (and what the code did before the F-C12-1 repair, when the cache
went stale): with a WRONG cache value (1 instead of 5) the newcomer's three nodes get the keys
2, 3, 4; key 2 exists, so node 2 of `self` is overwritten (its name "CA" is replaced by the
newcomer's "X") and the result has 5 nodes instead of 6 -/
theorem stale_cache_overwrites_witness :
    ¬ exStale.Inv ∧ (exStale.merge exB).2 = .ok ∧
    (exStale.merge exB).1.keys = [1, 2, 5, 3, 4] ∧
    lookupAttrs exStale.nodes 2 = some { name := some "CA" } ∧
    (lookupAttrs (exStale.merge exB).1.nodes 2).map Attrs.name = some (some "X") := by
  decide

/-! ## 7. `Block.to_molecule` -/

/-- the molecule made from a block satisfies the invariant -/
theorem to_molecule_inv (b : Block) (atomOff residOff cgOff : Int) (m : Mol)
    (h : b.toMolecule atomOff residOff cgOff = some m) : m.Inv :=
  toMolecule_inv' b atomOff residOff cgOff m h

/-- its nodes are the block's nodes in order with keys atomOff, atomOff + 1, …; resid and charge
group are shifted uniformly by the given offsets; citations and nrexcl are the block's -/
theorem to_molecule_shift (b : Block) (atomOff residOff cgOff : Int) (m : Mol)
    (h : b.toMolecule atomOff residOff cgOff = some m) :
    m.nodes.length = b.nodes.length ∧
    (∀ i : Nat, m.nodes[i]? = (b.nodes[i]?).map (fun p => (atomOff + (i : Int), p.2.shift residOff cgOff))) ∧
    m.cites = b.cites ∧ m.nrexcl = b.nrexcl := by
  refine ⟨?_, ?_, ?_, ?_⟩
  · rw [toMolecule_nodes b _ _ _ m h]; simp [Block.baseNodes, enumFrom_length]
  · intro i; rw [toMolecule_nodes b _ _ _ m h]; exact baseNodes_getElem? b _ _ _ i
  · obtain ⟨inters, edges, _, _, rfl⟩ := toMolecule_eq b _ _ _ m h
    rw [addEdges_cites]; rfl
  · obtain ⟨inters, edges, _, _, rfl⟩ := toMolecule_eq b _ _ _ m h
    rw [addEdges_nrexcl]; rfl

def exBlock : Block :=
  { nodes := [("N", { resid := some 1 }), ("CA", {}), ("C", { cg := some 2 })], edges := [("N", "CA"), ("C", "CA")],
    inters := [{ ty := "bonds", atoms := ["N", "CA"], params := "p" },
               { ty := "angles", atoms := ["C", "CA", "N"], params := "q", version := some 0 }], nrexcl := some 1 }

example : ((exBlock.toMolecule 5 2 3).map Mol.keys) = some [5, 6, 7] := by decide
example : ((exBlock.toMolecule 5 2 3).map (fun m => m.nodes.map (fun p => (p.2.resid, p.2.cg)))) =
    some [(some 3, some 4), (some 3, some 4), (some 3, some 5)] := by decide
example : ((exBlock.toMolecule 5 2 3).map (fun m => (m.edges, m.inters.map (fun ti => ti.2.atoms)))) =
    some ([(5, 6), (7, 6)], [[5, 6], [7, 6, 5]]) := by decide
example : ({ exBlock with edges := [("N", "ZZ")] } : Block).toMolecule 5 2 3 = none := by decide

/-! ## 8. `remove_matching_interaction`, `prune_edges_*` -/

/-- `remove_matching_interaction` removes exactly the FIRST interaction of the type that matches
the template and nothing else; it fails (ValueError, state unchanged) exactly when none matches -/
theorem remove_matching_first (m : Mol) (ty : String) (t : Template) :
    (∀ m', m.removeMatching ty t = (m', .ok) ↔
      ∃ pre x post, m.inters = pre ++ x :: post ∧ (x.1 = ty ∧ interMatch m.nodes t x.2 = true) ∧
        (∀ y ∈ pre, ¬ (y.1 = ty ∧ interMatch m.nodes t y.2 = true)) ∧
        m' = { m with inters := pre ++ post }) ∧
    (m.removeMatching ty t = (m, .valueerror) ↔
      ∀ y ∈ m.inters, ¬ (y.1 = ty ∧ interMatch m.nodes t y.2 = true)) ∧
    ((m.removeMatching ty t).2 = .ok ∨ (m.removeMatching ty t).2 = .valueerror) := by
  unfold Mol.removeMatching
  refine ⟨?_, ?_, ?_⟩
  · intro m'
    cases hr : removeFirstP m.inters ty (interMatch m.nodes t) with
    | none =>
      simp only [Prod.mk.injEq, reduceCtorEq, and_false, false_iff]
      rintro ⟨pre, x, post, h1, h2, h3, _⟩
      have := (removeFirstP_none_iff _ _ _).mp hr x (by rw [h1]; simp)
      exact this h2
    | some l =>
      simp only [Prod.mk.injEq, and_true]
      constructor
      · rintro rfl
        obtain ⟨pre, x, post, h1, h2, h3, h4⟩ := (removeFirstP_some_iff _ _ _ _).mp hr
        exact ⟨pre, x, post, h1, h2, h3, by rw [h4]⟩
      · rintro ⟨pre, x, post, h1, h2, h3, rfl⟩
        have := (removeFirstP_some_iff _ _ _ (pre ++ post)).mpr ⟨pre, x, post, h1, h2, h3, rfl⟩
        rw [hr] at this; cases this; rfl
  · cases hr : removeFirstP m.inters ty (interMatch m.nodes t) with
    | none => simp only [true_iff]; exact (removeFirstP_none_iff _ _ _).mp hr
    | some l =>
      simp only [Prod.mk.injEq, reduceCtorEq, and_false, false_iff]
      intro h
      rw [(removeFirstP_none_iff _ _ _).mpr h] at hr; cases hr
  · cases removeFirstP m.inters ty (interMatch m.nodes t) with
    | none => exact Or.inr rfl
    | some l => exact Or.inl rfl

/-- what a template matches: same atoms in the same order; the parameters if the template gives
any; the `version` key of the meta template against `meta.get('version')` of the interaction
(`predOk`, spelled out by `pred_holds_iff` in `VermouthProps/C12_Ext.lean`: a plain value — 0
included — must be equal, so version 0 does NOT match an interaction without version key); and,
for a `DeleteInteraction`, every attribute given for the k-th atom holds of the molecule's node -/
theorem inter_match_iff (nodes : List (Int × Attrs)) (t : Template) (i : Inter) :
    interMatch nodes t i = true ↔
      i.atoms = t.atoms ∧ (∀ p, t.params = some p → i.params = p) ∧
      predOk t.version i.version = true ∧
      (∀ l, t.atomAttrs = some l → ∀ ax ∈ i.atoms.zip l,
        ∃ na, lookupAttrs nodes ax.1 = some na ∧ attrsMatch na ax.2 = true) := by
  unfold interMatch
  simp only [Bool.and_eq_true, Bool.or_eq_true, beq_iff_eq, Option.isNone_iff_eq_none]
  constructor
  · rintro ⟨⟨⟨h1, h2⟩, h3⟩, h4⟩
    refine ⟨h1, ?_, h4, ?_⟩
    · intro p hp; rcases h2 with h2 | h2 <;> rw [hp] at h2 <;> cases h2; rfl
    · intro l hl ax hax
      rw [hl] at h3
      simp only [List.all_eq_true] at h3
      have := h3 ax hax
      cases hla : lookupAttrs nodes ax.1 with
      | none => rw [hla] at this; cases this
      | some na => rw [hla] at this; exact ⟨na, rfl, this⟩
  · rintro ⟨h1, h2, h3, h4⟩
    refine ⟨⟨⟨h1, ?_⟩, ?_⟩, h3⟩
    · cases hp : t.params with
      | none => exact Or.inl rfl
      | some p => right; rw [h2 p hp]
    · cases hl : t.atomAttrs with
      | none => rfl
      | some l =>
        simp only [List.all_eq_true]
        intro ax hax
        obtain ⟨na, e1, e2⟩ := h4 l hl ax hax
        rw [e1]; exact e2

example : (exA.removeMatching "angles" { atoms := [1, 2, 5] }).1.inters =
    [("bonds", { atoms := [1, 2], params := "p" })] := by decide
example : (exA.removeMatching "angles" { atoms := [1, 2, 5], params := some "zz" }).2 = .valueerror := by decide
def exTmplNo : Template :=
  { atoms := [1, 2], atomAttrs := some [{ name := some (.eq (some "N")) }, { resid := some (.eq (some 9)) }] }
def exTmplYes : Template :=
  { atoms := [1, 2], atomAttrs := some [{ name := some (.eq (some "N")), cg := some (.eq (some 2)) }] }
example : (exA.removeMatching "bonds" exTmplNo).2 = .valueerror := by decide
example : (exA.removeMatching "bonds" exTmplYes).2 = .ok := by decide

/-- `prune_edges_between_selections` / `prune_edges_with_selectors` remove exactly the bonds with
one end in each selection; no node, interaction or anything else is touched (so no bond with an
absent end point can appear and no atom is dropped) -/
theorem prune_edges_spec (m : Mol) (a b : List Int) (na : String) (nb : Option String) :
    (m.pruneEdges a b).edges = m.edges.filter (fun e =>
      decide (¬ ((e.1 ∈ a ∧ e.2 ∈ b) ∨ (e.2 ∈ a ∧ e.1 ∈ b)))) ∧
    m.pruneEdges a b = { m with edges := (m.pruneEdges a b).edges, eattr := (m.pruneEdges a b).eattr } ∧
    m.pruneByName na nb = m.pruneEdges (m.selectByName na) (m.selectByName (nb.getD na)) ∧
    (∀ k, k ∈ m.selectByName na ↔ ∃ at', (k, at') ∈ m.nodes ∧ at'.name = some na) := by
  refine ⟨?_, rfl, rfl, ?_⟩
  · unfold Mol.pruneEdges
    apply List.filter_congr
    intro e _
    simp [edgeBetween]
  · intro k
    simp only [Mol.selectByName, List.mem_map, List.mem_filter, beq_iff_eq]
    constructor
    · rintro ⟨p, ⟨hp, hn⟩, rfl⟩; exact ⟨p.2, hp, hn⟩
    · rintro ⟨at', hp, hn⟩; exact ⟨(k, at'), ⟨hp, hn⟩, rfl⟩

example : (exA.pruneEdges [1, 9] [2]).edges = [(5, 2)] := by decide
example : (exA.pruneByName "CA" (some "C")).edges = [(1, 2)] := by decide

/-! ## 9. Systems: `System.add_molecule`, `System.copy`, `MergeAllMolecules`, `MergeChains`

A system is a list of references (pool indices).  `SInv st` = every pool member satisfies
`Mol.Inv` and every reference of every system points into the pool. -/

theorem sinv_init : SInv {} := by decide

/-- every system-level operation (the molecule operations included, `clear` of a molecule with
interactions excepted: `Op.safe`) preserves `SInv` -/
theorem sinv_step (st : State) (op : SOp) (h : SInv st)
    (hsafe : ∀ op', op = .mol op' → op'.safe st.pool = true) : SInv (sstep st op).1 := sstep_inv h op hsafe

theorem sinv_reachable (ops : List SOp) (hs : SSafeRun {} ops = true) : SInv (srun {} ops) :=
  srun_inv sinv_init ops hs

/-- frame: a pool member other than the ones edited in place (`SOp.targets`: the target of a
molecule operation, the first molecule of the system for MergeAllMolecules, nothing for
System.copy / MergeChains; `add_molecule` sets force fields — of the added molecule and, when the
system had none, of all its molecules — and nothing else: `add_molecule_only_ff`) is unchanged, and
the pool only grows -/
theorem sstep_frame_other (st : State) (op : SOp) (j : Nat) (hj : j < st.pool.length)
    (ht : j ∉ SOp.targets st op) :
    (sstep st op).1.pool[j]? = st.pool[j]? ∧ st.pool.length ≤ (sstep st op).1.pool.length :=
  sstep_frame st op j hj ht

/-- over a history: molecule `j` is unchanged by any history that never edits `j` in place -/
theorem sframe_history (st : State) (ops : List SOp) (j : Nat) (hj : j < st.pool.length)
    (ht : ∀ st' op, op ∈ ops → j ∉ SOp.targets st' op) : (srun st ops).pool[j]? = st.pool[j]? :=
  srun_frame st ops j hj ht

/-- failing system-level operations: the system lists are unchanged, and the whole state is
unchanged unless the operation is MergeAllMolecules (see `merge_all_error_partial_witness`) -/
theorem sstep_error (st : State) (op : SOp) (hfs : ∀ op', op = .mol op' → op'.failSafe st.pool = true)
    (h : (sstep st op).2 ≠ .ok) :
    (sstep st op).1.systems = st.systems ∧ ((∀ s, op ≠ .mergeAll s) → (sstep st op).1 = st) :=
  sstep_err st op hfs h

/-- `System.copy`: the new system refers to NEW pool members only (indices from the old pool
length on, so no older system refers to them and, by the frame theorems, editing them never
shows in the source and vice versa); the k-th is the copy of the source's k-th molecule with the
system's force field set on it (`new_system.force_field = self.force_field`); the old pool and the
old systems are unchanged -/
theorem system_copy_independent (st : State) (s : Nat) (l : List Nat) (h : SInv st)
    (hs : st.systems[s]? = some l) :
    ∃ ms, getMols st.pool l = some ms ∧ ms.length = l.length ∧
      (∀ k (hk : k < l.length), st.pool[l[k]]? = ms[k]?) ∧
      sstep st (.copySys s) =
        ({ pool := st.pool ++ ms.map (fun m => { m.copy with ff := st.ffOf s }),
           systems := st.systems ++ [List.range' st.pool.length l.length],
           sysff := st.sysff ++ [st.ffOf s] }, .ok) ∧
      (∀ l' ∈ st.systems, ∀ i ∈ l', i ∉ List.range' st.pool.length l.length) := by
  obtain ⟨ms, hg⟩ := getMols_isSome st.pool l (h.2 l (List.mem_of_getElem? hs))
  obtain ⟨h1, h2⟩ := getMols_spec _ _ _ hg
  refine ⟨ms, hg, h1, h2, ?_, ?_⟩
  · simp only [sstep, hs, hg, h1]
  · intro l' hl' i hi hr
    have := h.2 l' hl' i hi
    have := List.mem_range'_1.mp hr
    omega

/-- `System.add_molecule` stores a reference (the index is appended) unless both the system and
the molecule have a force field and they differ (KeyError, nothing changed).  Force fields: a
molecule without one takes the system's; a system without one takes the molecule's and hands it
to every molecule it already holds -/
theorem add_molecule_step (st : State) (s i : Nat) (l : List Nat) (m : Mol)
    (hs : st.systems[s]? = some l) (hm : st.pool[i]? = some m) :
    (((st.ffOf s).isSome && takeFF (st.ffOf s) m.ff != st.ffOf s) = true →
      sstep st (.addMol s i) = (st, .keyerror)) ∧
    (((st.ffOf s).isSome && takeFF (st.ffOf s) m.ff != st.ffOf s) = false →
      (sstep st (.addMol s i)).2 = .ok ∧
      (sstep st (.addMol s i)).1.systems = st.systems.set s (l ++ [i]) ∧
      (sstep st (.addMol s i)).1.sysff =
        (if (st.ffOf s).isNone then st.sysff.set s (takeFF (st.ffOf s) m.ff) else st.sysff) ∧
      (sstep st (.addMol s i)).1.pool =
        (if (st.ffOf s).isNone then
           setFFs (st.pool.set i { m with ff := takeFF (st.ffOf s) m.ff }) l (takeFF (st.ffOf s) m.ff)
         else st.pool.set i { m with ff := takeFF (st.ffOf s) m.ff })) := by
  constructor
  · intro hc; simp only [sstep, hs, hm, hc, ↓reduceIte]
  · intro hc; simp only [sstep, hs, hm, hc, Bool.false_eq_true, ↓reduceIte, and_self]

/-- `add_molecule` changes nothing of any molecule but its force field -/
theorem add_molecule_only_ff (st : State) (s i j : Nat) :
    ((sstep st (.addMol s i)).1.pool[j]?).map Mol.noFF = (st.pool[j]?).map Mol.noFF :=
  addMol_noFF st s i j

/-! ### the fold of `merge_molecule` behind both processors -/

/-- the fold stops at the first failure; when the log entries of the operands mention only their
own atoms it can only fail with ValueError (force-field or nrexcl mismatch); the
accumulator satisfies the invariant at every point (also after a failure) -/
theorem merge_all_outcome (acc : Mol) (rest : List Mol) (hacc : acc.Inv) (hrest : ∀ o ∈ rest, o.Inv)
    (hlog : ∀ o ∈ rest, o.LogOk) :
    (mergeFold acc rest).1.Inv ∧
    ((mergeFold acc rest).2 = .ok ∨ (mergeFold acc rest).2 = .valueerror) ∧
    ((mergeFold acc rest).2 = .ok → ∀ k, k < rest.length →
      (runningList acc rest)[k]? = some (mergeFold acc (rest.take k)).1) :=
  ⟨mergeFold_inv rest hacc hrest, mergeFold_outcome rest hacc hrest hlog,
   fun hok k hk => runningList_get acc rest k hk hok⟩

/-- **merge_all_keeps.**  `runningList acc rest` pairs every operand with the accumulator it is
merged into (entry k = result of merging the first k operands).  After a successful fold:
* the invariant holds (keys distinct, nothing dangling, valid cache);
* nodes: those of `acc`, untouched, then for every operand IN ORDER its nodes in order
  (`segNodes`: i-th key = running offset + 1 + i, attributes shifted UNIFORMLY by the running
  last atom, see `segment_spec`), each exactly once (the length adds up and keys are distinct);
* interactions: those of `acc`, then every operand's, atoms renamed through its correspondence;
* bonds: exactly those of `acc` and the renamed non-loop bonds of every operand;
* citations: the union. -/
theorem merge_all_keeps (acc : Mol) (rest : List Mol) (hacc : acc.Inv) (hrest : ∀ o ∈ rest, o.Inv)
    (hok : (mergeFold acc rest).2 = .ok) :
    (mergeFold acc rest).1.Inv ∧
    (mergeFold acc rest).1.nodes =
      acc.nodes ++ ((rest.zip (runningList acc rest)).map segNodes).flatten ∧
    (mergeFold acc rest).1.nodes.length = acc.nodes.length + (rest.map (fun o => o.nodes.length)).sum ∧
    (mergeFold acc rest).1.keys.Nodup ∧
    (mergeFold acc rest).1.inters =
      acc.inters ++ ((rest.zip (runningList acc rest)).map segInters).flatten ∧
    (∀ a b, (mergeFold acc rest).1.hasEdge a b = true ↔
      acc.hasEdge a b = true ∨
      ∃ x ∈ rest.zip (runningList acc rest), ∃ e ∈ x.1.edges, segEdge x e a b) ∧
    (∀ c, c ∈ (mergeFold acc rest).1.cites ↔ c ∈ acc.cites ∨ ∃ o ∈ rest, c ∈ o.cites) := by
  have hinv := mergeFold_inv rest hacc hrest
  have hn := mergeFold_nodes rest hacc hrest hok
  refine ⟨hinv, hn, ?_, hinv.1.1, mergeFold_inters rest hacc hrest hok,
    mergeFold_hasEdge rest hacc hrest hok, (mergeFold_nrexcl_cites rest hacc hrest hok).1⟩
  rw [hn, List.length_append, List.length_flatten, List.map_map]
  congr 1
  exact segNodes_total_length rest _ (runningList_length acc rest)

/-- the segment operand `o` contributes when merged into accumulator `r`: its i-th node gets the
key `r.offset + 1 + i` and `Attrs.shift` by (resid, charge group) of `r`'s highest-key node
(`offset_shift_spec`), the same shift for every node of the operand; interactions keep type,
parameters and version and get their atoms renamed -/
theorem segment_spec (o r : Mol) :
    (segNodes (o, r)).length = o.nodes.length ∧
    (∀ i : Nat, (segNodes (o, r))[i]? =
      (o.nodes[i]?).map (fun p => (r.offset + 1 + (i : Int), p.2.shift r.shiftBy.1 r.shiftBy.2))) ∧
    segInters (o, r) = o.inters.map
      (fun ti => (ti.1, { ti.2 with atoms := ti.2.atoms.map (corr o.keys r.offset) })) :=
  ⟨newNodes_length _ _ _ _, fun i => newNodes_getElem? _ _ _ _ i, rfl⟩

/-! ### the two processors as steps of the state machine -/

/-- `MergeAllMolecules.run_system`: the first molecule of the system becomes the fold of
`merge_molecule` over the others (in place), and on success the system holds just that one -/
theorem merge_all_step (st : State) (s i0 : Nat) (rest : List Nat) (m0 : Mol) (ms : List Mol)
    (hs : st.systems[s]? = some (i0 :: rest)) (hne : i0 ∉ rest)
    (hm : st.pool[i0]? = some m0) (hg : getMols st.pool rest = some ms) :
    sstep st (.mergeAll s) =
      ({ st with pool := st.pool.set i0 (mergeFold m0 ms).1,
                 systems := if (mergeFold m0 ms).2 = .ok then st.systems.set s [i0] else st.systems },
       (mergeFold m0 ms).2) ∧
    sstep { st with systems := st.systems.set s [] } (.mergeAll s) =
      ({ st with systems := st.systems.set s [] }, if s < st.systems.length then .ok else .badindex) := by
  constructor
  · have : ¬ rest.contains i0 = true := by simpa using hne
    simp only [sstep, hs, this, hm, hg, Bool.false_eq_true, ↓reduceIte]
  · by_cases hlt : s < st.systems.length
    · simp [sstep, hlt]
    · simp [sstep, hlt]

/-- `MergeChains.run_system`: `chainSelected` says which molecules are merged (all of them with
`all_chains`, else those whose every atom has its chain among `chains` — an EMPTY molecule is
always selected); giving both or neither of chains / all_chains is a ValueError; nothing selected:
no change; otherwise a NEW molecule = fold over the selected molecules in order starting from an
empty molecule with the system's force field is appended to the pool, and in the system it takes the place of the first selected
molecule while the other selected ones disappear and the rest keep their order
(`replace_selected_spec`).  No existing molecule is modified; a failure changes nothing. -/
theorem merge_chains_step (st : State) (s : Nat) (chains : List (Option String)) (all : Bool)
    (l : List Nat) (ms : List Mol) (hs : st.systems[s]? = some l) (hg : getMols st.pool l = some ms) :
    (((all && !chains.isEmpty) || (!all && chains.isEmpty)) = true →
      sstep st (.mergeChains s chains all) = (st, .valueerror)) ∧
    (((all && !chains.isEmpty) || (!all && chains.isEmpty)) = false →
      ((ms.filter (chainSelected chains all)) = [] → sstep st (.mergeChains s chains all) = (st, .ok)) ∧
      (∀ f more, ms.filter (chainSelected chains all) = f :: more →
        sstep st (.mergeChains s chains all) =
          (if (mergeFold (freshMerged f.nrexcl (st.ffOf s)) (f :: more)).2 = .ok then
            ({ st with pool := st.pool ++ [(mergeFold (freshMerged f.nrexcl (st.ffOf s)) (f :: more)).1],
                       systems := st.systems.set s
                         (replaceSelected st.pool.length (l.zip (ms.map (chainSelected chains all))) false) }, .ok)
           else (st, (mergeFold (freshMerged f.nrexcl (st.ffOf s)) (f :: more)).2)))) := by
  have hz : ∀ (xs : List Mol), ((xs.zip (xs.map (chainSelected chains all))).filter (fun x => x.2)) =
      (xs.filter (chainSelected chains all)).map (fun m => (m, true)) := by
    intro xs
    induction xs with
    | nil => rfl
    | cons x t ih =>
      simp only [List.map_cons, List.zip_cons_cons, List.filter_cons]
      cases hx : chainSelected chains all x <;> simp [ih]
  constructor
  · intro hc
    simp only [sstep, hs, hc, ↓reduceIte]
  · intro hc
    constructor
    · intro hnil
      simp only [sstep, hs, hc, hg, hz, hnil, Bool.false_eq_true, ↓reduceIte, List.map_nil]
    · intro f more hsel
      simp only [sstep, hs, hc, hg, hz, hsel, Bool.false_eq_true, ↓reduceIte, List.map_cons, List.map_map]
      have : (Prod.fst ∘ fun m : Mol => (m, true)) = id := rfl
      rw [this, List.map_id]

/-- the new molecule list of MergeChains, in closed form -/
theorem replace_selected_spec (n : Nat) (lz : List (Nat × Bool)) :
    replaceSelected n lz false =
      (lz.takeWhile (fun q => !q.2)).map Prod.fst ++
        (match lz.dropWhile (fun q => !q.2) with
         | [] => []
         | _ :: rest => n :: (rest.filter (fun q => !q.2)).map Prod.fst) :=
  replaceSelected_eq n lz

theorem chain_selected_iff (chains : List (Option String)) (all : Bool) (m : Mol) :
    chainSelected chains all m = true ↔ all = true ∨ ∀ p ∈ m.nodes, p.2.chain ∈ chains := by
  simp [chainSelected]

/-- three molecules on chains A, B, A (the last with another nrexcl) and an empty one -/
def exChainA : Mol := { exA with nodes := exA.nodes.map (fun p => (p.1, { p.2 with chain := some "A" })) }
def exChainB : Mol := { exB with nodes := exB.nodes.map (fun p => (p.1, { p.2 with chain := some "B" })) }
def exSys : State :=
  { pool := [exChainA, exChainB, { exChainA with nrexcl := some 3 }, { nrexcl := some 1 }], systems := [[0, 1, 3], [0, 1, 2]] }

example : SInv exSys := by decide
example : (sstep exSys (.mergeAll 0)).2 = .ok := by decide
example : (sstep exSys (.mergeAll 0)).1.systems = [[0], [0, 1, 2]] := by decide
example : ((sstep exSys (.mergeAll 0)).1.pool[0]?.map Mol.keys) = some [1, 2, 5, 6, 7, 8] := by decide
example : (sstep exSys (.mergeChains 0 [some "A"] false)).1.systems = [[4, 1], [0, 1, 2]] := by decide
example : ((sstep exSys (.mergeChains 0 [some "A"] false)).1.pool[4]?.map Mol.keys) = some [1, 2, 3] := by decide
example : (sstep exSys (.mergeChains 0 [some "B"] false)).1.systems = [[0, 4], [0, 1, 2]] := by decide
example : (sstep exSys (.mergeChains 0 [] true)).1.systems = [[4], [0, 1, 2]] := by decide
example : sstep exSys (.mergeChains 1 [] true) = (exSys, .valueerror) := by decide
example : sstep exSys (.mergeChains 0 [some "A"] true) = (exSys, .valueerror) := by decide
example : (sstep exSys (.copySys 1)).1.systems = [[0, 1, 3], [0, 1, 2], [4, 5, 6]] := by decide

/-- what a failing MergeAllMolecules leaves behind (the code and the model agree): system 1 holds
molecules with nrexcl 1, 1, 3; the third merge raises ValueError, the system still lists all
three, but its first molecule has already absorbed the second (6 atoms instead of 3) -/
theorem merge_all_error_partial_witness :
    (sstep exSys (.mergeAll 1)).2 = .valueerror ∧
    (sstep exSys (.mergeAll 1)).1.systems = exSys.systems ∧
    (exSys.pool[0]?.map (fun m => m.nodes.length)) = some 3 ∧
    ((sstep exSys (.mergeAll 1)).1.pool[0]?.map (fun m => m.nodes.length)) = some 6 ∧
    SInv (sstep exSys (.mergeAll 1)).1 := by
  decide

end C12
