import VermouthModel.C12
namespace C12
theorem placeholder : True := trivial
end C12
