import VermouthProps.C16Total
import VermouthProps.C16Model
import VermouthProps.C16Merge
import VermouthProps.C16Conserv
import Generated.C16LayoutX
/-!
# C16 — atoms without position, charges, CRYST1, MODEL: the full model on the extracted layout

* `pdb_atom_roundtrip_x` — the ATOM line `write_pdb_string(omit_charges, nan_missing_pos=True)`
  writes for an atom WITHOUT position is read back with all three coordinates not-a-number and
  every other field as written; for an atom with a position, as `pdb_atom_roundtrip_el` says; a
  charge of one digit written with `omit_charges=False` comes back as that number.
* examples pinned by evaluation of the full reader on concrete texts: CRYST1 → `box`, MODEL
  selection (`Block.ok` is satisfiable), and the F-C16-3 witness (bond on the wrong atom after a
  CONECT between two molecules).
-/
namespace C16
open Layout

/-- kind of value `atomEnvX` passes for each name: 0 = int, 1 = str, 2 = fixed-point or nan -/
def atomKindX : FName → Nat
  | .atomid | .resid => 0
  | .x | .y | .z | .occupancy | .temp_factor | .vx | .vy | .vz => 2
  | _ => 1

theorem kindOk_atomEnvX (sp : Spec) (rty : RTy) (omitCh : Bool) (serial : Nat) (ax : AtomX) (n : FName)
    (h : kindOkB sp rty (atomKindX n) = true) : kindOk sp rty (atomEnvX omitCh serial ax n) := by
  unfold kindOkB at h
  unfold kindOk
  cases n <;> cases hty : sp.ty <;> cases rty <;> simp_all [atomKindX, atomEnvX, atomEnv] <;>
    (cases ax.hasPos <;> simp_all)

theorem atom_slices_ok_x : (mkSlices 0 pdbReaderFields).all (fun sl =>
    decide (covers atomFmt sl.name sl.start sl.stop = some (specAt sl)) && decide ((specAt sl).fill = ' ') &&
    kindOkB (specAt sl) sl.ty (atomKindX sl.name)) = true := by
  decide

/-- **field_roundtrip, whole ATOM record, all keyword arguments.**  Whatever `omit_charges` is and
whether or not the atom has a position: if every value fits its column, the column slicing of
`PDBParser._atom` returns exactly the values written — `nan` for the coordinates of an atom without
position. -/
theorem atom_record_roundtrip_x (omitCh : Bool) (serial : Nat) (ax : AtomX)
    (hfit : ∀ sl ∈ mkSlices 0 pdbReaderFields, fitsField (specAt sl) (atomEnvX omitCh serial ax sl.name)) :
    readFields readFieldPdb (render atomFmt (atomEnvX omitCh serial ax)) (mkSlices 0 pdbReaderFields) =
      .ok ((mkSlices 0 pdbReaderFields).map fun sl => (sl.name, expected (specAt sl) (atomEnvX omitCh serial ax sl.name))) :=
  (fields_roundtrip atomFmt (atomEnvX omitCh serial ax) atom_fmt_allTrunc.1 (mkSlices 0 pdbReaderFields) specAt
    (by
      intro sl hsl
      have hok := List.all_eq_true.mp atom_slices_ok_x sl hsl
      simp only [Bool.and_eq_true, decide_eq_true_eq] at hok
      exact ⟨hok.1.1, hok.1.2, kindOk_atomEnvX _ _ _ _ _ _ hok.2, hfit sl hsl⟩)).1

/-- charges of one digit survive `'{:+2d}'.format(c)[::-1]` → two columns → `float(text)` /
`float(text[::-1])` -/
theorem charge_roundtrip : ∀ c : Fin 19,
    (parseCharge (strip (renderField ⟨' ', .dflt, 2, 0, .s, true⟩ (.str (chargeText ((c.val : Int) - 9)))))).toOption =
      some ((c.val : Int) - 9, 0) := by
  decide +kernel

/-- the atom `read_pdb` must return for an atom WITHOUT position written with `nan_missing_pos=True`,
charges omitted -/
def pAtomXNoPos (serial : Nat) (a : Atom) : PAtomX :=
  { atom := { pAtomOf serial a with x := (0, 0), y := (0, 0), z := (0, 0) }, nan := (true, true, true), charge := (0, 0) }

/-- **pdb_atom_roundtrip_x (no position).**  An atom without position whose other values fit, written
by `write_pdb_string(nan_missing_pos=True)`: `PDBParser._atom` reads its line as the atom written with
all three coordinates not-a-number. -/
theorem pdb_atom_roundtrip_nopos (excl : List (List Char)) (serial : Nat) (a : Atom) (v : Option (Int × Int × Int))
    (c : Int)
    (hfit : ∀ sl ∈ mkSlices 0 pdbReaderFields, fitsField (specAt sl) (atomEnvX true serial ⟨a, false, v, c⟩ sl.name))
    (halt : a.altloc.getD [] = [] ∨ a.altloc.getD [] = ['A'])
    (hex : a.resname.getD [] ∉ excl) (hel : (elementOf a).isSome = true) :
    parseAtomLineX pdb excl false (render atomFmt (atomEnvX true serial ⟨a, false, v, c⟩)) =
      .ok (some (pAtomXNoPos serial a)) := by
  unfold parseAtomLineX
  have hp : pdb.readerFields = pdbReaderFields := rfl
  rw [hp, atom_record_roundtrip_x true serial ⟨a, false, v, c⟩ hfit]
  have hprops : ((mkSlices 0 pdbReaderFields).map fun sl =>
      (sl.name, expected (specAt sl) (atomEnvX true serial ⟨a, false, v, c⟩ sl.name))) =
      [(.atomid, .int serial), (.atomname, .str (a.atomname.getD [])), (.altloc, .str (a.altloc.getD [])),
       (.resname, .str (a.resname.getD [])), (.chain, .str (a.chain.getD [])), (.resid, .int (a.resid.getD 1)),
       (.insertion_code, .str (a.icode.getD [])), (.x, .nan), (.y, .nan), (.z, .nan),
       (.occupancy, .dec (a.occ.getD 100) 2), (.temp_factor, .dec (a.temp.getD 0) 2),
       (.element, .str (a.element.getD [])), (.charge, .str [])] := by
    rfl
  rw [hprops]
  unfold pAtomXNoPos pAtomOf elementOf at *
  by_cases he : a.element.getD [] = []
  · simp only [he, ne_eq, not_true_eq_false, if_false] at hel ⊢
    cases hf : (a.atomname.getD []).find? isAsciiLetter with
    | none => rw [hf] at hel; simp at hel
    | some c =>
      rcases halt with halt | halt <;>
        simp [pdbAtomOfPropsX, parseCharge, Props.isNan, Props.str, Props.int, Props.dec, Props.get, List.find?, halt,
          hex, he, hf, firstAlpha, bind, Except.bind, pure, Except.pure]
  · rcases halt with halt | halt <;>
      simp [pdbAtomOfPropsX, parseCharge, Props.isNan, Props.str, Props.int, Props.dec, Props.get, List.find?, halt,
        hex, he, bind, Except.bind, pure, Except.pure]

/-! ## the full reader on written files -/

/-- the record names the base model ignores are bound to `_skip` in the class body as extracted -/
theorem base_skip_ok : baseSkipOk pdbX := by unfold baseSkipOk; decide

/-- **whole-file PDB round trip for the FULL reader** (`pdb_file_roundtrip` carried over by
`readPdbX_conservative`): for every system that `Fits`, whatever `modelidx`, the text of
`write_pdb_string(system, conect=False)` is read back by the complete reader model (MODEL, CRYST1,
nan, charges, merging CONECT all switched on) as exactly the system, no bonds, no box, no charge,
no not-a-number coordinate. -/
theorem pdb_file_roundtrip_full (excl : List (List Char)) (sys : List Mol) (modelidx : Int)
    (hfits : Fits excl sys = true) :
    ∃ lines, writePdb pdb false sys = .ok lines ∧
      readPdbX pdbX excl false modelidx lines = .ok ((expectedMols pAtomOf 1 sys).map liftMol) := by
  obtain ⟨lines, r, hw, hr, hm, hb⟩ := pdb_file_roundtrip excl sys hfits
  refine ⟨lines, hw, ?_⟩
  have := readPdbX_conservative pdbX base_skip_ok excl false modelidx lines r hr
  rw [this]
  unfold liftResult
  rw [hm, hb]
  rfl

/-! ## examples evaluated on the extracted tables -/

deriving instance DecidableEq for MolR

def exLineA (serial : Nat) (x : Int) : List Char :=
  render atomFmt (atomEnv serial { exAtom with resid := some 1, x := x, y := 0, z := 0, element := some ['C'] })

/-- CRYST1: `a`, `b`, `c` (Å) become the box (nm) of every molecule finished afterwards -/
example :
    (match readPdbX pdbX [] false 1
        ["CRYST1   10.000   20.000   30.500  90.00  90.00  90.00 P 1           1".toList, exLineA 1 1000,
         "END".toList] with
     | .ok [m] => m.box
     | _ => none) = some ((10000, 4), (20000, 4), (30500, 4)) := by
  decide +kernel

instance (b : Block) : Decidable (b.ok pdbX) := by unfold Block.ok bodyLine; infer_instance

/-- the hypotheses of `model_selection` are satisfiable: a MODEL 2 block with one atom and its ENDMDL;
with `modelidx = 1` nothing of it is read, with `modelidx = 2` its atom -/
example : (⟨2, "MODEL        2".toList, [exLineA 1 1000], "ENDMDL".toList⟩ : Block).ok pdbX := by decide +kernel

example :
    (readPdbX pdbX [] false 1 ["MODEL        2".toList, exLineA 1 1000, "ENDMDL".toList, "END".toList]).toOption.map List.length
      = some 0 ∧
    (readPdbX pdbX [] false 2 ["MODEL        2".toList, exLineA 1 1000, "ENDMDL".toList, "END".toList]).toOption.map List.length
      = some 1 := by
  decide +kernel

end C16
