import Mathlib.Analysis.SpecialFunctions.Pow.Real
import Mathlib.Analysis.SpecialFunctions.Sqrt
import VermouthModel.C18_Write
/-!
# C18 (extension) — sigma = distance / 2^(1/6)

The property gives the Go potential of two residues at backbone distance `d` the parameter
`sigma = d / 2^(1/6)`.  Floats never enter the model; the tie is:

* `sigma_spec` (over the reals): for `sigma ≥ 0`, `sigma = sqrt(d²) / 2^(1/6)` **iff**
  `sigma^6 * 2 = (d²)^3`, where `d²` is the squared lattice distance the model computes exactly;
* the driver evaluates `sigmaOk tol sigma d²` on the EXACT rational value of the double the real code
  stored, for every emitted pair (and the harness oracle evaluates the same inequality independently
  with `fractions.Fraction`): `sigma ≥ 0 ∧ |2 sigma^6 - (d²)^3| ≤ tol (d²)^3` with `tol = 10^-12`;
* `sigmaOk_real` reads that Boolean as the inequality over the reals, and `sigma_within` turns it
  into `|sigma - d/2^(1/6)| ≤ tol · d/2^(1/6)`.

`epsilon` is compared exactly (`Q.same`, `eps_same_iff`).
-/
namespace C18

noncomputable def Q.toReal (q : Q) : ℝ := (q.num : ℝ) / (q.den : ℝ)

/-- `d / 2^(1/6)` for the distance `d = sqrt d2` -/
noncomputable def sigmaStar (d2 : ℕ) : ℝ := Real.sqrt d2 / (2 : ℝ) ^ ((1 : ℝ) / 6)

theorem conv6 : ((2 : ℝ) ^ ((1 : ℝ) / 6)) ^ 6 = 2 := by
  rw [← Real.rpow_natCast, ← Real.rpow_mul (by norm_num)]; norm_num

/-- the exact algebraic relation behind `sigma = d / 2^(1/6)` -/
theorem sigma_relation_iff (d s : ℝ) (hd : 0 ≤ d) (hs : 0 ≤ s) :
    s = d / (2 : ℝ) ^ ((1 : ℝ) / 6) ↔ s ^ 6 * 2 = d ^ 6 := by
  have hpos : 0 < (2 : ℝ) ^ ((1 : ℝ) / 6) := Real.rpow_pos_of_pos (by norm_num) _
  constructor
  · intro h; rw [h, div_pow, conv6]; field_simp
  · intro h
    have h6 : (s * (2 : ℝ) ^ ((1 : ℝ) / 6)) ^ 6 = d ^ 6 := by rw [mul_pow, conv6]; exact h
    have := (pow_left_inj₀ (by positivity) hd (by norm_num)).mp h6
    rw [← this]; field_simp

theorem sqrt_pow6 (d2 : ℕ) : (Real.sqrt d2) ^ 6 = (d2 : ℝ) ^ 3 := by
  have h : (Real.sqrt d2) ^ 2 = (d2 : ℝ) := Real.sq_sqrt (Nat.cast_nonneg d2)
  calc (Real.sqrt d2) ^ 6 = ((Real.sqrt d2) ^ 2) ^ 3 := by ring
    _ = (d2 : ℝ) ^ 3 := by rw [h]

/-- **`sigma = d / 2^(1/6)` iff `sigma^6 * 2 = (d²)^3`** (for `sigma ≥ 0`; `d²` the squared distance) -/
theorem sigma_spec (d2 : ℕ) (s : ℝ) (hs : 0 ≤ s) : s = sigmaStar d2 ↔ s ^ 6 * 2 = (d2 : ℝ) ^ 3 := by
  unfold sigmaStar
  rw [sigma_relation_iff _ s (Real.sqrt_nonneg _) hs, sqrt_pow6]

theorem sigmaStar_nonneg (d2 : ℕ) : 0 ≤ sigmaStar d2 := by
  unfold sigmaStar
  exact div_nonneg (Real.sqrt_nonneg _) (Real.rpow_nonneg (by norm_num) _)

/-- the check the driver runs, read over the reals -/
theorem sigmaOk_real (tol σ : Q) (d2 : ℕ) (hden : 0 < σ.den) (htd : 0 < tol.den) (htn : 0 ≤ tol.num)
    (h : sigmaOk tol σ d2 = true) :
    0 ≤ σ.toReal ∧ |2 * σ.toReal ^ 6 - (d2 : ℝ) ^ 3| ≤ tol.toReal * (d2 : ℝ) ^ 3 := by
  unfold sigmaOk at h
  simp only [Bool.and_eq_true, decide_eq_true_eq] at h
  obtain ⟨h0, hle⟩ := h
  have hsd : (0 : ℝ) < (σ.den : ℝ) := by exact_mod_cast hden
  have htdr : (0 : ℝ) < (tol.den : ℝ) := by exact_mod_cast htd
  have hsd6 : (0 : ℝ) < (σ.den : ℝ) ^ 6 := by positivity
  refine ⟨div_nonneg (by exact_mod_cast h0) hsd.le, ?_⟩
  unfold Q.toReal
  have e : 2 * ((σ.num : ℝ) / σ.den) ^ 6 - (d2 : ℝ) ^ 3
      = ((2 * σ.num ^ 6 - (d2 : ℤ) ^ 3 * (σ.den : ℤ) ^ 6 : ℤ) : ℝ) / (σ.den : ℝ) ^ 6 := by
    push_cast
    field_simp
  rw [e, abs_div, abs_of_pos hsd6, div_le_iff₀ hsd6]
  have hN : |((2 * σ.num ^ 6 - (d2 : ℤ) ^ 3 * (σ.den : ℤ) ^ 6 : ℤ) : ℝ)|
      = (((2 * σ.num ^ 6 - (d2 : ℤ) ^ 3 * (σ.den : ℤ) ^ 6).natAbs : ℕ) : ℝ) := by
    rw [Nat.cast_natAbs, Int.cast_abs]
  rw [hN]
  have hcast : (((2 * σ.num ^ 6 - (d2 : ℤ) ^ 3 * (σ.den : ℤ) ^ 6).natAbs * tol.den : ℕ) : ℝ)
      ≤ ((tol.num.toNat * (d2 ^ 3 * σ.den ^ 6) : ℕ) : ℝ) := by exact_mod_cast hle
  have htn' : ((tol.num.toNat : ℕ) : ℝ) = (tol.num : ℝ) := by
    have : ((tol.num.toNat : ℕ) : ℤ) = tol.num := Int.toNat_of_nonneg htn
    exact_mod_cast this
  push_cast at hcast
  rw [htn'] at hcast
  rw [div_mul_eq_mul_div, div_mul_eq_mul_div, le_div_iff₀ htdr]
  linarith

/-- **from the sixth powers to sigma itself**: a relative error `t` (0 ≤ t ≤ 1) on `2 sigma^6` against
`(d²)^3` bounds the relative error of sigma against `d / 2^(1/6)` by `t` -/
theorem sigma_within (t s : ℝ) (d2 : ℕ) (hs : 0 ≤ s) (ht0 : 0 ≤ t) (ht1 : t ≤ 1)
    (h : |2 * s ^ 6 - (d2 : ℝ) ^ 3| ≤ t * (d2 : ℝ) ^ 3) :
    |s - sigmaStar d2| ≤ t * sigmaStar d2 := by
  have hσ := sigmaStar_nonneg d2
  have hD : (sigmaStar d2) ^ 6 * 2 = (d2 : ℝ) ^ 3 := (sigma_spec d2 _ hσ).mp rfl
  obtain ⟨hlo, hhi⟩ := abs_le.mp h
  have h6 : 0 ≤ (sigmaStar d2) ^ 6 := by positivity
  -- upper bound
  have hup : s ^ 6 ≤ ((1 + t) * sigmaStar d2) ^ 6 := by
    have h1 : (1 + t) ≤ (1 + t) ^ 6 := le_self_pow₀ (by linarith) (by norm_num)
    rw [mul_pow]
    nlinarith
  have hs_up : s ≤ (1 + t) * sigmaStar d2 :=
    (pow_le_pow_iff_left₀ hs (by positivity) (by norm_num)).mp hup
  -- lower bound
  have hlow : ((1 - t) * sigmaStar d2) ^ 6 ≤ s ^ 6 := by
    have h1 : (1 - t) ^ 6 ≤ (1 - t) := pow_le_of_le_one (by linarith) (by linarith) (by norm_num)
    rw [mul_pow]
    nlinarith
  have hs_low : (1 - t) * sigmaStar d2 ≤ s :=
    (pow_le_pow_iff_left₀ (by nlinarith) hs (by norm_num)).mp hlow
  rw [abs_le]
  constructor <;> nlinarith

/-- `epsilon` is the requested depth exactly -/
theorem eps_same_iff (a b : Q) (ha : 0 < a.den) (hb : 0 < b.den) : a.same b = true ↔ a.toReal = b.toReal := by
  unfold Q.same Q.toReal
  have ha' : (a.den : ℝ) ≠ 0 := by exact_mod_cast ha.ne'
  have hb' : (b.den : ℝ) ≠ 0 := by exact_mod_cast hb.ne'
  rw [decide_eq_true_eq, div_eq_div_iff ha' hb']
  constructor
  · intro h; exact_mod_cast h
  · intro h; exact_mod_cast h

/-- the whole chain: the Boolean evaluated by the driver on the stored double pins sigma to
`d / 2^(1/6)` within the relative tolerance -/
theorem sigma_checked (tol σ : Q) (d2 : ℕ) (hden : 0 < σ.den) (htd : 0 < tol.den) (htn : 0 ≤ tol.num)
    (ht1 : tol.num ≤ tol.den) (h : sigmaOk tol σ d2 = true) :
    |σ.toReal - sigmaStar d2| ≤ tol.toReal * sigmaStar d2 := by
  obtain ⟨h0, hle⟩ := sigmaOk_real tol σ d2 hden htd htn h
  have htdr : (0 : ℝ) < (tol.den : ℝ) := by exact_mod_cast htd
  apply sigma_within _ _ d2 h0 _ _ hle
  · exact div_nonneg (by exact_mod_cast htn) htdr.le
  · unfold Q.toReal
    rw [div_le_one htdr]
    exact_mod_cast ht1

/-! non-vacuity: the double stored for d² = 25 (d = 5) and tol = 10^-12 -/
example : sigmaOk ⟨1, 10 ^ 12⟩ ⟨2507656959401053, 562949953421312⟩ 25 = true := by decide
example : sigmaOk ⟨1, 10 ^ 12⟩ ⟨2507656959401053 + 4096, 562949953421312⟩ 25 = false := by decide
example : Q.same ⟨9414, 1000⟩ ⟨4707, 500⟩ = true := by decide

end C18
