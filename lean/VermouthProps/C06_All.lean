import VermouthProps.C06
import VermouthProps.C06_Ismags
import VermouthProps.C06_IsmagsLcs
import VermouthProps.C06_IsmagsSym
import VermouthProps.C06_IsmagsLcsSym
import VermouthProps.C06_Cosets
/-! Umbrella module of property C06: importing it makes every theorem listed in
`lean/theorems/C06.txt` visible, so the axiom audit needs one Lean process. -/
