import VermouthProofs.C06_IsmagsLcsSym
import VermouthProps.C06_IsmagsLcs
import VermouthProps.C06_IsmagsSym
/-!
# C06 — symmetry-reduced `largest_common_subgraph`: nothing is lost up to a symmetry of the pattern
-/
namespace C06
open Iso C06I

/-- **Symmetry-reduced `largest_common_subgraph`.**  If the constraints are the cosets of the stabiliser
chain of the pattern (`constraintsValidB`, checked by the driver on every real call), the transcribed search -
whatever the rule for the next node and whatever the order in which `_remove_node` walks the constraints -
returns only common induced subgraphs of the maximum possible size, and every maximum one is returned or is
symmetry-equivalent to one that is returned (the verified checker `coversUpToAut` accepts the output against
the reference `allMCIS`); when nothing is in common nothing is returned. -/
theorem ismags_lcs_sym_cover {pick : Map → Cands → List Int → Int} (hpick : PickOK pick) (g sg : Graph)
    (C : Constraints) (hs : sg.keys.Nodup) (hvalid : constraintsValidB sg C = true) :
    (1 ≤ mcisSize g sg →
        coversUpToAut sg ((largestCommonSubgraphWith pick g sg C).map (canonP sg)) (allMCIS g sg) = true)
    ∧ (mcisSize g sg = 0 → sg.keys ≠ [] → largestCommonSubgraphWith pick g sg C = []) := by
  have hv : CValid sg C := (constraintsValidB_iff sg hs C).1 hvalid
  unfold largestCommonSubgraphWith
  split
  · rename_i he
    have hk : sg.keys = [] := List.isEmpty_iff.1 he
    refine ⟨fun h1 => ?_, fun _ hne => absurd hk hne⟩
    exfalso
    have : mcisSize g sg = 0 := by
      simp [mcisSize, mcisSizeP, graphProblem, hk, searchDown]
    omega
  · rename_i he
    have hne : sg.keys ≠ [] := fun e => he (by rw [e]; rfl)
    split
    · rename_i hge
      have hz : mcisSize g sg = 0 := by
        unfold mcisSize mcisSizeP
        apply searchDown_eq_zero
        intro j hj
        cases hc : hasCommon (graphProblem g sg (colourPred g sg)) j with
        | false => rfl
        | true =>
          have := hasCommon_le _ hc
          have hl : g.keys.length = 0 := by rw [List.isEmpty_iff.1 hge]; rfl
          simp only [graphProblem] at this
          omega
      exact ⟨fun h1 => by omega, fun _ _ => rfl⟩
    · dsimp only
      rw [if_pos (nodecolor_any g sg hne)]
      obtain ⟨h1, h0, h2⟩ := lcsWith_sym hpick g sg hs hv sg.keys.length [sg.keys] (lvlC_top sg C) (by simp)
        (Nat.le_refl _)
      refine ⟨?_, fun hz _ => h0 hz⟩
      intro hk
      rw [coversUpToAut_iff]
      constructor
      · intro x hx
        obtain ⟨m, hm, rfl⟩ := List.mem_map.1 hx
        obtain ⟨hg1, hg2⟩ := h1 m hm
        obtain ⟨hc1, hc2⟩ := isCommon_canonP_of_good hs hg1
        exact (mem_allMCISP_iff _ _).2 ⟨hc1, by rw [hc2, hg2]; rfl⟩
      · intro f hf
        obtain ⟨hc, hl⟩ := (mem_allMCISP_iff _ f).1 hf
        obtain ⟨m, hm, hequiv⟩ := h2 hk f hc hl
        exact ⟨canonP sg m, List.mem_map.2 ⟨m, hm, rfl⟩, hequiv⟩

example : constraintsValidB p3 [(7, 9)] = true
    ∧ coversUpToAut p3 ((largestCommonSubgraph k3 p3 [(7, 9)]).map (canonP p3)) (allMCIS k3 p3) = true := by decide

end C06
