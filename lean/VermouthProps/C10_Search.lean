import VermouthProofs.C10_Search
import Generated.C10Search
/-!
# C10 — the candidate search of `_bonds_from_distance` is complete

The code finds candidate pairs with a KD-tree and ONE global cut-off and then applies the per-pair
threshold.  Both expressions are re-extracted from the source on every run
(`Generated/C10Search.lean : searchSpec`, written by harness/c10.py from the AST of
`_bonds_from_distance`).  The theorems below say, for every system, every radius table and every
fudge factor `p/q ≥ 0`:

* `search_complete_of_dominates` (general, for any extracted pair of expressions passing the
  decidable test `dominates`): a pair of atoms handed to the KD-tree that satisfies the per-pair
  test lies within the global cut-off - the search loses nothing;
* `search_complete` : the same for the expressions that are in the source now
  (`search_spec_dominates` is the `decide` that ties it to the source);
* `extracted_search_is_model` : `make_bonds` with the extracted search (`runX searchSpec`, the
  function the driver executes) equals the hand-written model `run`, so every theorem of
  `VermouthProps/C10.lean` is a theorem about the extracted search;
* `fudge_squared_cutoff_incomplete` : the cut-off of defect F-C10-2 (`max radius · fudge²`) fails
  the test and loses a concrete bond (fudge 1/2).
-/
namespace C10

/-- the core: per-pair test ⇒ inside the global cut-off -/
theorem search_complete_of_dominates (sp : SearchSpec) (hd : dominates sp = true)
    (S : Sys) (hq : 0 < S.q) (inN : Nat → Bool) (u v : Nat)
    (hu : u < S.atoms.length) (hv : v < S.atoms.length)
    (eu : eligible S inN u = true) (ev : eligible S inN v = true)
    (hp : pairOK sp S inN u v = true) : cutOK sp S inN u v = true := by
  unfold dominates at hd
  cases hc : sp.cut.norm with
  | none => simp [hc] at hd
  | some fc =>
    cases hpn : sp.pair.norm with
    | none => simp [hc, hpn] at hd
    | some fp =>
      simp only [hc, hpn, Bool.and_eq_true, beq_iff_eq, decide_eq_true_eq] at hd
      obtain ⟨⟨hk, h1⟩, h2⟩ := hd
      have hany : (envOf S inN u v).any = true := anyEligible_of hu eu
      have hq' : 0 < (envOf S inN u v).q := hq
      obtain ⟨cd, ced, creq⟩ := norm_correct _ hany hq' _ _ hc
      obtain ⟨pd, ped, preq⟩ := norm_correct _ hany hq' _ _ hpn
      obtain ⟨ra, hra⟩ := eligible_radius eu
      obtain ⟨rb, hrb⟩ := eligible_radius ev
      have ha : (envOf S inN u v).ra ≤ (envOf S inN u v).M := by
        show (radiusOf S.radii (atomAt S.atoms u).element).getD 0 ≤ maxRadius S inN
        rw [hra]; exact radius_le_maxRadius hu eu hra
      have hb : (envOf S inN u v).rb ≤ (envOf S inN u v).M := by
        show (radiusOf S.radii (atomAt S.atoms v).element).getD 0 ≤ maxRadius S inN
        rw [hrb]; exact radius_le_maxRadius hv ev hrb
      have hle : leDist (dist2 (atomAt S.atoms u) (atomAt S.atoms v)) (sp.pair.eval (envOf S inN u v)) = true := by
        unfold pairOK at hp
        cases hs : sp.strict with
        | true => rw [hs] at hp; exact ltDist_leDist hp
        | false => rw [hs] at hp; exact hp
      rw [leDist_congr ped (Form.val_den_pos fp _ pd hq') preq] at hle
      have := form_dominates pd hk h1 h2 ha hb hle
      unfold cutOK
      rw [leDist_congr ced (Form.val_den_pos fc _ cd hq') creq]
      exact this

/-- the expressions in the source now pass the test (re-checked on every run) -/
theorem search_spec_dominates : dominates searchSpec = true ∧ pairIsHalfSum searchSpec = true := by
  decide

/-- **The search is complete**: with the cut-off and the per-pair threshold that are in the source
now, for every system, radius table and fudge factor, a pair of atoms handed to the KD-tree that is
within its per-pair threshold is within the global cut-off, i.e. is returned by the KD-tree. -/
theorem search_complete (S : Sys) (hq : 0 < S.q) (inN : Nat → Bool) (u v : Nat)
    (hu : u < S.atoms.length) (hv : v < S.atoms.length)
    (eu : eligible S inN u = true) (ev : eligible S inN v = true)
    (hp : pairOK searchSpec S inN u v = true) : cutOK searchSpec S inN u v = true :=
  search_complete_of_dominates searchSpec search_spec_dominates.1 S hq inN u v hu hv eu ev hp

/-! ## the extracted search is the model's -/

theorem pairOK_eq_within {sp : SearchSpec} (hp : pairIsHalfSum sp = true) {S : Sys} (hq : 0 < S.q)
    {inN : Nat → Bool} {u v ra rb : Nat} (hany : anyEligible S inN = true)
    (hra : radiusOf S.radii (atomAt S.atoms u).element = some ra)
    (hrb : radiusOf S.radii (atomAt S.atoms v).element = some rb) :
    pairOK sp S inN u v = within S.p S.q ra rb (dist2 (atomAt S.atoms u) (atomAt S.atoms v)) := by
  unfold pairIsHalfSum at hp
  simp only [Bool.and_eq_true, Bool.not_eq_eq_eq_not, Bool.not_true] at hp
  obtain ⟨hs, hp⟩ := hp
  cases hn : sp.pair.norm with
  | none => simp [hn] at hp
  | some f =>
    simp only [hn, Bool.and_eq_true, beq_iff_eq] at hp
    obtain ⟨⟨⟨⟨hk, ha⟩, hz⟩, hbc⟩, h2⟩ := hp
    have hany' : (envOf S inN u v).any = true := hany
    have hq' : 0 < (envOf S inN u v).q := hq
    obtain ⟨pd, ped, preq⟩ := norm_correct _ hany' hq' _ _ hn
    unfold pairOK
    simp only [hs, Bool.false_eq_true, if_false]
    rw [leDist_congr ped (Form.val_den_pos f _ pd hq') preq, form_halfsum pd hk ha hz hbc h2]
    simp [envOf, hra, hrb]

theorem critX_eq_crit {sp : SearchSpec} (hp : pairIsHalfSum sp = true) {S : Sys} (hq : 0 < S.q)
    {inN : Nat → Bool} (NE : List Edge) {u v : Nat} (hany : anyEligible S inN = true) :
    critX sp S inN NE u v = crit S NE u v := by
  unfold critX crit
  cases hra : radiusOf S.radii (atomAt S.atoms u).element with
  | none => rfl
  | some ra =>
    cases hrb : radiusOf S.radii (atomAt S.atoms v).element with
    | none => rfl
    | some rb =>
      simp only
      rw [pairOK_eq_within hp hq hany hra hrb]

/-- the model's own cut-off is implied by its per-pair test (this is what `dist_bond_iff` uses) -/
theorem inCut_of_crit {S : Sys} {inN : Nat → Bool} {NE : List Edge} {u v : Nat}
    (hu : u < S.atoms.length) (hv : v < S.atoms.length)
    (eu : eligible S inN u = true) (ev : eligible S inN v = true)
    (hc : crit S NE u v = true) : inCut S inN u v = true := by
  unfold crit at hc
  obtain ⟨ra, hra⟩ := eligible_radius eu
  obtain ⟨rb, hrb⟩ := eligible_radius ev
  simp only [hra, hrb, Bool.and_eq_true] at hc
  have m1 := radius_le_maxRadius hu eu hra
  have m2 := radius_le_maxRadius hv ev hrb
  unfold inCut
  exact within_mono (ra := ra) (rb := rb) (by omega) hc.2

theorem distPassX_eq {sp : SearchSpec} (hd : dominates sp = true) (hp : pairIsHalfSum sp = true)
    {S : Sys} (hq : 0 < S.q) (inN : Nat → Bool) (NE : List Edge) (bonded : Nat → Nat → Bool) :
    distPassX sp S inN NE bonded = distPass S inN NE bonded := by
  unfold distPassX distPass
  apply List.filter_congr
  intro e he
  obtain ⟨h12, h2n⟩ := mem_allPairs.mp he
  have h1n : e.1 < S.atoms.length := by omega
  cases eu : eligible S inN e.1 with
  | false => simp
  | true =>
    cases ev : eligible S inN e.2 with
    | false => simp
    | true =>
      have hany := anyEligible_of h1n eu
      rw [critX_eq_crit hp hq NE hany]
      cases hc : crit S NE e.1 e.2 with
      | false => simp
      | true =>
        have hpo : pairOK sp S inN e.1 e.2 = true := by
          have := critX_eq_crit (sp := sp) hp hq NE (u := e.1) (v := e.2) hany
          rw [hc] at this
          unfold critX at this
          obtain ⟨ra, hra⟩ := eligible_radius eu
          obtain ⟨rb, hrb⟩ := eligible_radius ev
          simp only [hra, hrb, Bool.and_eq_true] at this
          exact this.2
        rw [search_complete_of_dominates sp hd S hq inN e.1 e.2 h1n h2n eu ev hpo,
          inCut_of_crit h1n h2n eu ev hc]

theorem runX_eq_run {sp : SearchSpec} (hd : dominates sp = true) (hp : pairIsHalfSum sp = true)
    (S : Sys) (hq : 0 < S.q) : runX sp S = run S := by
  have hstep : stepResX sp S = stepRes S := by
    funext st k
    unfold stepResX stepRes
    simp only [distPassX_eq hd hp hq]
    cases hn : namePass S.atoms S.ff k <;> rfl
  have hloop : loopResX sp S = loopRes S := by
    unfold loopResX loopRes
    rw [hstep]
  have hfin : ∀ st, finalPassX sp S st = finalPass S st := by
    intro st
    unfold finalPassX finalPass
    simp only [distPassX_eq hd hp hq]
  unfold runX run
  simp only [hloop, hfin]

/-- **`make_bonds` with the search as it is in the source is the model**: every theorem about
`run` (the bond criteria, the partition, ...) holds for the function the driver executes. -/
theorem extracted_search_is_model (S : Sys) (hq : 0 < S.q) : runX searchSpec S = run S :=
  runX_eq_run search_spec_dominates.1 search_spec_dominates.2 S hq

/-! ## non-vacuity, and the defect this would have caught

Two carbons 0.08 nm apart, fudge 1/2: threshold 0.5·(0.17+0.17)·0.5 = 0.085 nm, so they bond.
`max radius · fudge` = 0.085 nm finds the pair; the cut-off of defect F-C10-2,
`max radius · fudge · fudge` = 0.0425 nm, does not. -/

def exSearchS : Sys :=
  { atoms := [{ mol := 0, chain := none, resid := some 1, resname := none, icode := none, name := none,
                element := some "C", x := 0, y := 0, z := 0 },
              { mol := 0, chain := none, resid := some 1, resname := none, icode := none, name := none,
                element := some "C", x := 800, y := 0, z := 0 }],
    pre := [], ff := [], radii := [("C", 170)], allowName := false, allowDist := true, p := 1, q := 2 }

/-- cut-off of F-C10-2 -/
def specFudgeSquared : SearchSpec :=
  { searchSpec with cut := Expr.mul (Expr.mul (Expr.ifAny Expr.maxR (Expr.lit 0 1)) Expr.fudge) Expr.fudge }

-- hypotheses of `search_complete` on the example
example : 0 < exSearchS.q ∧ 0 < exSearchS.atoms.length ∧ 1 < exSearchS.atoms.length
    ∧ eligible exSearchS (fun _ => true) 0 = true ∧ eligible exSearchS (fun _ => true) 1 = true
    ∧ pairOK searchSpec exSearchS (fun _ => true) 0 1 = true
    ∧ cutOK searchSpec exSearchS (fun _ => true) 0 1 = true := by decide

example : (runX searchSpec exSearchS).distE = [(0, 1)] := by decide

theorem fudge_squared_cutoff_incomplete :
    dominates specFudgeSquared = false
      ∧ pairOK specFudgeSquared exSearchS (fun _ => true) 0 1 = true
      ∧ cutOK specFudgeSquared exSearchS (fun _ => true) 0 1 = false
      ∧ (runX specFudgeSquared exSearchS).distE = [] := by decide

end C10
